"""Generators for line tables (C05, C17, C19), all driven by one random.Random."""


def lnotab(rng, signed, n=None, allow_big=True):
    """pairs (byte_incr, line_delta_byte); returns (table bytes, total offset)"""
    n = rng.randrange(0, 12) if n is None else n
    out = []
    total = 0
    for _ in range(n):
        k = rng.randrange(10)
        if k == 0:
            bi = 0
        elif k == 1 and allow_big:
            bi = 255
        elif k == 2 and allow_big:
            bi = rng.choice([127, 128, 254])
        else:
            bi = rng.randrange(1, 40)
        k = rng.randrange(10)
        if k == 0:
            ld = 0
        elif k == 1:
            ld = rng.choice([127, 128, 129, 255, 254]) if allow_big else rng.randrange(1, 100)
        elif k == 2 and signed:
            ld = rng.randrange(128, 256)
        else:
            ld = rng.randrange(1, 20)
        out += [bi, ld]
        total += bi
    if rng.randrange(12) == 0:
        out.append(rng.randrange(256))      # odd trailing byte (zip drops it)
    return bytes(out), total


def table310(rng, n=None):
    """(sdelta, ldelta) pairs satisfying WF310: last sdelta > 0, no (0,-128), running line >= 1"""
    n = rng.randrange(1, 12) if n is None else n
    out = []
    line = 5000
    total = 0
    for i in range(n):
        sd = rng.choice([0, 2, 2, 4, 6, 8, 254, 255, rng.randrange(0, 256) & ~1])
        k = rng.randrange(8)
        if k == 0:
            ld = -128
        elif k == 1:
            ld = rng.choice([127, -127, 126, -126])
        elif k == 2:
            ld = 0
        else:
            ld = rng.randrange(-20, 21)
        if i == n - 1 and sd == 0:
            sd = 2
        if sd == 0 and ld == -128:
            ld = 1
        out += [sd, ld & 255]
        total += sd
    return bytes(out), total


def loc_entries(rng, n=None):
    """entry list in the driver's syntax + total code units"""
    n = rng.randrange(1, 10) if n is None else n
    es = []
    units = 0
    for _ in range(n):
        u = rng.randrange(1, 9)
        k = rng.randrange(8)
        if k <= 1:
            es.append("s:%d:%d:%d:%d" % (u, rng.randrange(10), rng.randrange(8), rng.randrange(16)))
        elif k == 2:
            es.append("o:%d:%d:%d:%d" % (u, rng.randrange(3), rng.randrange(128), rng.randrange(128)))
        elif k == 3:
            es.append("n:%d:%d" % (u, rng.choice([0, 1, -1, 31, 32, -32, 2047, 2048, -2048, rng.randrange(-3000, 3000)])))
        elif k == 4 or k == 5:
            es.append("l:%d:%d:%d:%d:%d" % (u, rng.choice([0, 1, -1, 40, -40, 5000, -4000, rng.randrange(-300, 300)]),
                                           rng.choice([0, 1, 5, 63, 64, 70, 5000]), rng.choice([0, 1, 5, 63, 64, 65, 4096, 9000]),
                                           rng.choice([0, 1, 9, 63, 64, 200, 4095, 4097])))
        else:
            es.append("z:%d" % u)
        units += u
    return ",".join(es), units


def exc_entries(rng, n=None):
    n = rng.randrange(0, 8) if n is None else n
    es = []
    mags = [0, 1, 5, 31, 63, 64, 65, 127, 128, 4095, 4096, 4097, 262143, 262144, 300000]
    for _ in range(n):
        es.append("%d:%d:%d:%d:%d" % (rng.choice(mags), rng.choice(mags), rng.choice(mags),
                                      rng.choice([0, 1, 2, 31, 32, 33, 100]), rng.randrange(2)))
    return ",".join(es) if es else "-"


def mapping(rng, nondecreasing, n=None, signed=True, small=False):
    """{offset: line} with strictly increasing offsets starting at 0"""
    n = rng.randrange(1, 9) if n is None else n
    off = 0
    line = rng.choice([1, 1, 10, 1000])
    first = line
    m = [(0, line)]
    for _ in range(n - 1):
        off += rng.choice([2, 2, 4, 6, 10, 126, 128, 254, 256, 258, 510, 512, 600, 1000])
        k = rng.randrange(10)
        if small:
            d = rng.randrange(0, 100)
        elif k == 0:
            d = 0
        elif k == 1:
            d = rng.choice([127, 128, 129, 254, 255, 256, 257, 300, 511, 1000])
        elif k == 2 and not nondecreasing:
            d = -rng.choice([1, 5, 127, 128, 129, 300])
        else:
            d = rng.randrange(1, 30)
        if line + d < 1:
            d = 1
        line += d
        m.append((off, line))
    return first, m

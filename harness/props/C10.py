"""C10 — every marshal encoding of a constant decodes to the same value.  Theorems: lean/XV/Props/C10.lean."""
import json
import random
import re
import struct

import core
import gen_marshal
import mcanon
from worker import Worker, Oracle

RULE = ("marshal streams generated from the type-code grammar of each era (every type code, FLAG_REF on any object kind, "
        "'r' back references, 't'/'R' string references, containers of 0/1/255/256 items, None keys/values, text and binary "
        "floats, 32/64-bit/digit-array ints), wrapped as the constants of a code object of each version, plus "
        "marshal.dumps(value, 0..4) of the interpreters; decoded by implementation, Lean Model, Lean Spec and the producing "
        "CPython's marshal.load; distinct = distinct (version, stream)")

ORACLE_VERSIONS = [(2, 7), (3, 6), (3, 7), (3, 8), (3, 9), (3, 10), (3, 11), (3, 12), (3, 13)]
SPEC_ONLY = [(1, 5), (2, 2), (2, 4), (2, 5), (2, 6), (3, 0), (3, 2), (3, 3), (3, 4), (3, 5)]

VALUES = ["(1, 2.5, -0.0, 1e400, 3+4j, 'txt', b'b', None, True, Ellipsis)", "[2**31, -2**31, 2**63, -2**63-1, 2**100, 0xFFFFFFFF]",
          "{None: 1, 2: None, 'k': (1, 2)}", "frozenset([1, 2, 3])", "(lambda t: (t, t, [t]))(tuple(range(300)))",
          "u'\\xe9\\u20ac'", "(lambda s: (s, s))('shared' * 3)", "set(['a', 'b'])", "float('nan')", "(1e-320, 5e-324, 1.7976931348623157e308)",
          "(0, 2**40, 2**40)", "StopIteration", "[[]] * 3", "{'a': {'b': {'c': []}}}", "b'\\x00\\xff' * 200"]


def magic_for(tables, v):
    name = "%d.%d" % v
    m = dict(tables["magics"]["magics"])
    h = m.get(name)
    if h is None:
        for k in sorted(m):
            if k.startswith(name + "."):
                h = m[k]
                break
    b = bytes.fromhex(h)
    return b[0] + 256 * b[1]


def fix_text_floats(s):
    """the Models keep text floats as text (float() is an opaque parameter); evaluate it here"""
    def f(hx):
        raw = bytes.fromhex(hx) if hx != "-" else b""
        return struct.pack(">d", float(raw.decode("ascii"))).hex()
    try:
        s = re.sub(r"\(floattext ([0-9a-f-]+)\)", lambda m: "(float %s)" % f(m.group(1)), s)
        s = re.sub(r"\(complextext ([0-9a-f-]+) ([0-9a-f-]+)\)", lambda m: "(complex %s %s)" % (f(m.group(1)), f(m.group(2))), s)
    except ValueError:
        return "(err ValueError)"
    return s


def run(ctx):
    rep, drv = ctx.rep, ctx.driver
    rng = random.Random(ctx.seed)
    w = Worker()
    oracles = {}
    try:
        N = 40 if not ctx.thorough else 1500
        kinds_seen = set()
        for v in ORACLE_VERSIONS + SPEC_ONLY:
            magic = magic_for(ctx.tables, v)
            era = gen_marshal.era_of(v)
            o = None
            if v in core.ORACLES and v in ORACLE_VERSIONS:
                oracles[v] = o = Oracle(v)
            streams = []
            for k in range(N):
                data, kinds = gen_marshal.stream(rng, era, big=ctx.thorough and k % 200 == 0)
                kinds_seen |= kinds
                streams.append(gen_marshal.wrap_code(v, data))
            if o is not None:
                for expr in VALUES:
                    for mv in ([0, 1, 2] if v < (3, 4) else [0, 1, 2, 3, 4]):
                        if v < (3, 0) and expr.startswith("b'"):
                            continue
                        if "nan" in expr and mv < 2:
                            continue          # text floats: float('nan') is read back by float(), an opaque parameter
                        h = o.r("marshal_dumps", expr=expr, version=mv)
                        if isinstance(h, str):
                            streams.append(gen_marshal.wrap_code(v, bytes.fromhex(h)))
            outs = drv.ask(sum([["x.unmarshal %d 400 %s" % (magic, s.hex()), "py.unmarshal %d %d %s" % (v[0], v[1], s.hex())] for s in streams], []))
            for k, s in enumerate(streams):
                mo, sp = fix_text_floats(outs[2 * k]), fix_text_floats(outs[2 * k + 1])
                r = w.r("unmarshal", magic=magic, hex=s.hex())
                if "tree" in r:
                    im = "%d %s" % (len(s) - r["consumed"], mcanon.render(r["tree"]))
                else:
                    im = "(err %s)" % r.get("err")
                rep.count(1, (v, s))
                inp = {"version": list(v), "magic": magic, "stream": s.hex()[:4000]}
                truth, src = sp, "Spec (marshal.c reader, no interpreter for %d.%d)" % v
                if o is not None:
                    orr = o.r("marshal_loads", hex=s.hex())
                    if "tree" not in orr:
                        continue              # the interpreter itself rejects the stream: outside the domain
                    raw = mcanon.render(orr["tree"])
                    want = orr["tree"] if v >= (3, 0) else mcanon.port2(orr["tree"])
                    ot = "%d %s" % (len(s) - orr["consumed"], mcanon.render(want))
                    if ot != sp:
                        rep.notes.append("spec_drift marshal %s: spec %s oracle %s" % (inp["stream"][:80], sp[:160], ot[:160]))
                    truth, src = ot, "CPython %d.%d marshal.load" % v
                elif sp.startswith("(err"):
                    continue                  # the Spec rejects the stream: outside the domain
                if im != truth:
                    i = next((j for j in range(min(len(im), len(truth))) if im[j] != truth[j]), 0)
                    rep.violation("unmarshal:%d.%d:%s" % (v[0], v[1], s.hex()[:200]),
                                  "constants decode differently from %s for stream %s...: xdis ..%s.. expected ..%s.." % (src, s.hex()[:60], im[max(0, i - 40):i + 60], truth[max(0, i - 40):i + 60]),
                                  dict(inp, call="xdis.unmarshal.load_code(stream, magic)", actual=im[:3000], expected=truth[:3000], oracle=src))
                elif im != mo:
                    rep.violation("corr:unmarshal:%d.%d:%s" % (v[0], v[1], s.hex()[:200]), "Model of the unmarshaller disagrees with implementation on %s: impl %s model %s" % (inp["stream"][:80], im[:200], mo[:200]),
                                  dict(inp, impl=im[:3000], model=mo[:3000]), found_input=False)
            rep.sample({"version": list(v), "stream": streams[0].hex()[:160], "decoded": outs[0][:200]})
        rep.coverage["type_codes_generated"] = sorted(kinds_seen)
    finally:
        w.close()
        for o in oracles.values():
            o.close()


def replay(ctx, rp):
    r = rp.get("replay", {})
    print(json.dumps(r, indent=1)[:1500])
    w = Worker()
    try:
        if "stream" in r:
            got = w.r("unmarshal", magic=r["magic"], hex=r["stream"])
            now = "%d %s" % (len(r["stream"]) // 2 - got["consumed"], mcanon.render(got["tree"])) if "tree" in got else str(got)
            print("now:", now[:400])
            if now[:3000] != r.get("expected"):
                ctx.rep.violation(rp["key"], rp["what"], r)
    finally:
        w.close()

#!/bin/bash
# tools/seedmatrix.sh  — every seeded change against the check of its own property (quick tier); results in seeded/RESULTS.tsv
cd /verif
out=seeded/RESULTS.tsv
echo -e "seed\tproperty\trc\tviolations\tno_failing_input\tfirst" > $out
for d in seeded/C*/; do
  seed=$(basename $d); prop=${seed:0:3}
  tools/seedtest.sh $seed $prop quick > /tmp/sm.$seed.out 2>&1
  log=/tmp/seedtest.$seed.$prop.log
  rc=$(grep -o "rc=[0-9]*" /tmp/sm.$seed.out | head -1 | cut -d= -f2)
  nv=$(grep -c "^VIOLATION" $log 2>/dev/null)
  nf=$(grep -c "no-failing-input-found" $log 2>/dev/null)
  first=$(grep -A1 "^VIOLATION" $log 2>/dev/null | grep "what:" | head -1 | cut -c1-300 | tr '\t' ' ')
  [ -z "$rc" ] && first="$(head -2 /tmp/sm.$seed.out | tr '\n' ' ')"
  echo -e "$seed\t$prop\t$rc\t$nv\t$nf\t$first" >> $out
  if [ -n "$(git -C /repo status --short)" ]; then git -C /repo reset -q --hard HEAD; fi
done
echo done

/- driver helpers: parsing of arguments, canonical output -/
import XV.Base.Bytes
import XV.Base.Str
namespace XV.Driver
open XV

def hexVal (c : Char) : Option Nat :=
  if '0' ≤ c ∧ c ≤ '9' then some (c.toNat - 48)
  else if 'a' ≤ c ∧ c ≤ 'f' then some (c.toNat - 87)
  else if 'A' ≤ c ∧ c ≤ 'F' then some (c.toNat - 55)
  else none

/-- "-" is the empty byte string -/
def parseHex (s : String) : Option Bytes :=
  if s == "-" then some [] else
  let rec go : List Char → Option Bytes
    | [] => some []
    | [_] => none
    | a :: b :: rest => do
      let x ← hexVal a; let y ← hexVal b; let r ← go rest
      pure ((x * 16 + y) :: r)
  go s.toList

def parseInt (s : String) : Option Int := s.toInt?
def parseNat (s : String) : Option Nat := s.toNat?

/-- comma separated integers; "-" is the empty list -/
def parseInts (s : String) : Option (List Int) :=
  if s == "-" then some [] else (s.splitOn ",").mapM (·.toInt?)
def parseNats (s : String) : Option (List Nat) :=
  if s == "-" then some [] else (s.splitOn ",").mapM (·.toNat?)

def showNats (xs : List Nat) : String := "[" ++ ",".intercalate (xs.map toString) ++ "]"
def showInts (xs : List Int) : String := "[" ++ ",".intercalate (xs.map toString) ++ "]"
def showOpt {α} (f : α → String) : Option α → String
  | none => "none"
  | some a => f a
def hexDigit (n : Nat) : Char := if n < 10 then Char.ofNat (48 + n) else Char.ofNat (87 + n)
def showHex (bs : Bytes) : String :=
  if bs.isEmpty then "-" else String.ofList (bs.flatMap fun b => [hexDigit (b / 16), hexDigit (b % 16)])

end XV.Driver

#!/usr/bin/env python3
"""tools/manifest_add.py <id> "<level text>" "<level note>" "<technique>" [design_ref]  -- register a check"""
import json, sys
pid, text, note, tech = sys.argv[1:5]
ref = sys.argv[5] if len(sys.argv) > 5 else "DESIGN.md section 7, " + pid
m = json.load(open('/verif/MANIFEST.json'))
m["checks"] = [c for c in m["checks"] if c["property_id"] != pid]
m["checks"].append({"property_id": pid, "quick_cmd": "./check %s quick" % pid, "thorough_cmd": "./check %s thorough" % pid,
  "evidence_file": "evidence/%s.json" % pid, "replay_cmd_template": "./check %s --replay {path}" % pid, "engine": "xv-lean",
  "level_claimed": {"category": "proof", "text": text, "design_ref": ref}, "level_note": note, "technique": tech})
m["checks"].sort(key=lambda c: c["property_id"])
m["not_applicable"] = [n for n in m.get("not_applicable", []) if n["property_id"] != pid]
m["engines"][0]["serves_properties"] = [c["property_id"] for c in m["checks"]]
json.dump(m, open('/verif/MANIFEST.json', 'w'), indent=1)

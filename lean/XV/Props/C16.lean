/-
C16 — Native and portable code objects convert back and forth without loss.
-/
import XV.Model.CodeConv
namespace XV.Props.C16
open XV.Model.CodeConv

/-- C16_class: the portable type chosen is the one for the host's version -/
theorem C16_class (e : Era) (c : Native) (p : Portable) (h : toPortable e c = some p) : p.cls = clsFor e := by
  unfold toPortable at h
  cases hl : c.linetable <;> simp [hl] at h
  · cases hn : c.lnotab <;> simp [hn] at h
    rw [← h]
  · rw [← h]

/-- C16_roundtrip: on every host era, for EVERY native code object of that host (whose
    derived lnotab view is the host's own derivation of its line table), converting to the
    portable type and back yields a code object equal in every field -/
theorem C16_roundtrip (e : Era) (derive : Nat → Nat) (c : Native) (hwf : c.WF e)
    (hder : ∀ t, c.linetable = some t → c.lnotab = some (derive t)) :
    (toPortable e c).bind (toNative e derive) = some c := by
  cases e with
  | e38 =>
    obtain ⟨h1, h2, h3, h4⟩ := hwf
    cases hl : c.lnotab with
    | none => simp [hl] at h1
    | some t =>
      simp [toPortable, h2, hl, toNative, clsFor, nativeArgs, codeType]
      cases c; simp_all
  | e310 =>
    obtain ⟨h1, h2, h3, h4⟩ := hwf
    cases hl : c.linetable with
    | none => simp [hl] at h2
    | some t =>
      have := hder t hl
      simp [toPortable, hl, toNative, clsFor, nativeArgs, codeType]
      cases c; simp_all
  | e311 =>
    obtain ⟨h1, h2, h3, h4⟩ := hwf
    cases hl : c.linetable with
    | none => simp [hl] at h2
    | some t =>
      cases hq : c.qualname with
      | none => simp [hq] at h3
      | some q =>
        cases hx : c.exctable with
        | none => simp [hx] at h4
        | some x =>
          have := hder t hl
          simp [toPortable, hl, hq, hx, toNative, clsFor, nativeArgs, codeType]
          cases c; simp_all

/-- the defect repaired in this round, as a theorem about the OLD selection rule
    (`co_lnotab` preferred whenever present): on a 3.10 host whose derived lnotab differs
    from its line table, the round trip changed the line table -/
example : let c : Native := { argcount := 0, posonly := 0, kwonly := 0, nlocals := 0, stacksize := 1, flags := 64, code := 1,
                              consts := 2, names := 3, varnames := 4, freevars := 5, cellvars := 6, filename := 7, name := 8,
                              firstlineno := 1, lnotab := some 100, linetable := some 200, qualname := none, exctable := none }
          c.WF .e310 ∧ (toPortable .e310 c).map (·.linetab) = some 200 := by
  constructor
  · simp [Native.WF]
  · rfl

/-- C16_replace: `replace()` (deepcopy + setattr) gives a copy that differs exactly at the
    named field and never the receiver (values are immutable here; aliasing of the real
    objects is checked dynamically) -/
theorem C16_replace (p : Portable) (v : Nat) :
    ({ p with name := v } : Portable).name = v ∧ ({ p with name := v } : Portable).code = p.code ∧
    ({ p with name := v } : Portable).linetab = p.linetab := by simp

end XV.Props.C16

"""C08 — magic-number knowledge.  Theorems: lean/XV/Props/C08.lean."""
import json
import os
import random

import core
from worker import Worker

RULE = ("table rows: every row of the registry / accepted-magic / release-name / installed tables is an "
        "obligation checked by the Lean kernel; correspondence: all 65536 magic ints (exhaustive) plus "
        "generated version-like strings; distinct = distinct (row-kind, row) or distinct input")


def realise(w, kind, detail):
    """turn a failing table row into a concrete call on the real implementation"""
    parts = detail.split("_")
    if kind == "registry":
        magic = int(parts[0]); want = [int(x) for x in parts[-1].split(".")]
        got = w.r("magic_int2tuple", magic=magic)
        bad = not (isinstance(got, list) and got[:2] == want)
        return bad, {"call": "xdis.magics.magic_int2tuple(%d)" % magic, "expected_prefix": want, "actual": got,
                     "source": "CPython registry row %s" % detail}
    if kind == "accepted":
        magic = int(parts[0])
        got = [w.r("get_opcode_for_magic", magic=magic, filename=f) for f in ("x.pyc", "x.pypy38.pyc")]
        bad = any(isinstance(g, dict) for g in got)
        # a file is_pypy() calls PyPy must get a PyPy table
        from_tables = [r for r in getattr(realise, "accepted", []) if r["magic"] == magic]
        for r in from_tables:
            for k in ("plain", "pypy38name"):
                if r.get("is_pypy_" + k) and r.get("opc_" + k) and "pypy" not in r["opc_" + k]:
                    bad = True
        return bad, {"call": "get_opcode(magic_int2tuple(%d), is_pypy(magic, name)) for name in ('x.pyc', 'x.pypy38.pyc')" % magic,
                     "actual": got, "table_rows": from_tables[:1],
                     "expected": "an opcode table, and a PyPy table whenever is_pypy() says PyPy"}
    if kind in ("release", "installed"):
        name = parts[0]
        got = w.r("magics_lookup", name=name)
        return True, {"call": "xdis.magics.magics[%r]" % name, "actual": got, "detail": detail,
                      "expected": "the magic that release writes (CPython registry / installed interpreter)"}
    if kind == "versions":
        return True, {"call": "versions[int2magic(%s)]" % parts[0], "detail": detail}
    return False, {"detail": detail}


def run(ctx):
    rep, drv = ctx.rep, ctx.driver
    realise.accepted = ctx.tables["magics"]["accepted"]
    rng = random.Random(ctx.seed)
    w = Worker()
    try:
        if getattr(drv, "unavailable", False):
            rep.violation("driver-build", "model driver does not build", {"kind": "driver"}, found_input=False)
            return
        # 1. table obligations: rows that fail (same predicates as the theorems)
        fails = core.parse_failures(drv.ask(["c08.failures"])[0])
        tables = ctx.tables["magics"]
        nrows = len(tables["magicint2version"]) * 2 + len(tables["magics"]) + \
            len(json.load(open(os.path.join(core.BUILD, "registry.json")))["registry"])
        rep.count(nrows)
        for r in tables["magicint2version"][:400]:
            rep.distinct.add(("accepted", r[0]))
        for kind, detail in fails:
            bad, rp = realise(w, kind, detail)
            rep.violation("%s:%s" % (kind, detail.split("_")[0]),
                          "table row violates C08 (%s): %s" % (kind, detail), rp, found_input=bad)
        rep.sample({"table_rows_checked": nrows, "failing_rows": fails[:5]})
        # 2. ties: Model vs observed implementation outputs (T2) -- run natively
        tf = core.parse_failures(drv.ask(["c08.tiefailures"])[0])
        for kind, detail in tf:
            rep.violation("tie:%s:%s" % (kind, detail), "Model of py_str2tuple/get_opcode disagrees with the "
                          "implementation on %s" % detail, {"kind": kind, "input": detail}, found_input=False)
        # 3. exhaustive correspondence + direct law check on all 65536 ints
        impl = w.r("int2magic_all")
        model = drv.ask(["x.int2magic %d" % n for n in range(65536)])
        rep.count(65536)
        nbad = 0
        for n in range(65536):
            if impl[n] != model[n]:
                # judge the implementation against the law itself
                back = w.r("magic2int", hex=impl[n])
                if back != n:
                    rep.violation("inverse:%d" % n, "magic2int(int2magic(%d)) = %r" % (n, back),
                                  {"call": "magic2int(int2magic(%d))" % n, "actual": back, "expected": n})
                else:
                    rep.violation("corr:int2magic:%d" % n, "int2magic(%d): impl %s model %s" % (n, impl[n], model[n]),
                                  {"input": n, "impl": impl[n], "model": model[n]}, found_input=False)
                nbad += 1
                if nbad > 5:
                    break
        backs = drv.ask(["x.magic2int %s" % h for h in impl])
        sample_ns = sorted(set([0, 1, 255, 256, 3495, 39170, 39171, 62211, 65535] +
                               [rng.randrange(65536) for _ in range(3000 if not ctx.thorough else 65536)]))
        for n in sample_ns:
            b = w.r("magic2int", hex=impl[n])
            rep.count(1, ("inv", n % 64, n in (39170, 39171)))
            if b != n:
                rep.violation("inverse:%d" % n, "magic2int(int2magic(%d)) = %r" % (n, b),
                              {"call": "magic2int(int2magic(%d))" % n, "actual": b, "expected": n})
            if str(b) != backs[n]:
                rep.violation("corr:magic2int:%d" % n, "magic2int(%s): impl %r model %s" % (impl[n], b, backs[n]),
                              {"input": impl[n]}, found_input=False)
        rep.sample({"int": 62211, "int2magic": impl[62211], "model": model[62211]})
        # 4. py_str2tuple: model vs implementation on generated version-like strings
        names = [k for k, _ in tables["magics"]]
        cands = []
        for _ in range(400 if not ctx.thorough else 5000):
            base = rng.choice(names)
            k = rng.randrange(6)
            if k == 0:
                s = base + rng.choice(["pypy", "dropbox", "Graal", "pypy ", "x"])
            elif k == 1:
                s = "%d.%d.%d%s" % (rng.randrange(1, 5), rng.randrange(0, 15), rng.randrange(0, 20), rng.choice(["", "pypy", "rc1"]))
            elif k == 2:
                s = "%d.%d%s" % (rng.randrange(1, 5), rng.randrange(0, 15), rng.choice(["", "a1", "b2", "rc1", "pypy"]))
            elif k == 3:
                s = base[:rng.randrange(len(base) + 1)]
            else:
                s = base
            cands.append(s)
        outs = drv.ask(["x.str2tuple %s" % (s.encode().hex() or "-") for s in cands])
        for s, mo in zip(cands, outs):
            im = w.r("py_str2tuple", s=s)
            ims = "none" if isinstance(im, dict) else "[" + ",".join(map(str, im)) + "]"
            rep.count(1, ("s2t", ims != "none", len(s)))
            if ims != mo:
                rep.violation("corr:str2tuple:" + s, "py_str2tuple(%r): impl %s model %s" % (s, ims, mo),
                              {"input": s, "impl": ims, "model": mo}, found_input=False)
        rep.sample({"py_str2tuple": cands[0], "result": outs[0]})
        # 5. sysinfo2magic on every installed interpreter
        reg = json.load(open(os.path.join(core.BUILD, "registry.json")))
        for inst in reg["installed"]:
            vi = inst["version"] + [inst["level"], 0]
            got = w.r("sysinfo2magic", version_info=vi)
            want = bytes(inst["bytes"]).hex()
            rep.count(1, ("sysinfo", tuple(inst["version"])))
            if got != want:
                rep.violation("sysinfo2magic:%s" % ".".join(map(str, inst["version"])),
                              "sysinfo2magic(%r) = %r but that interpreter writes %s" % (vi, got, want),
                              {"call": "sysinfo2magic(%r)" % (vi,), "actual": got, "expected": want})
        hosts = core.HOSTS if ctx.thorough else {k: v for k, v in core.HOSTS.items() if k in ((3, 8), (3, 13))}
        for hv, path in sorted(hosts.items()):
            hw = Worker(path)
            try:
                hm = hw.r("host_magic")
                got = hw.r("sysinfo2magic", version_info=None)
                rep.count(1, ("native-sysinfo", hv))
                if got != hm["magic"]:
                    rep.violation("sysinfo2magic-native:%d.%d" % hv,
                                  "under host %s sysinfo2magic() = %r, MAGIC_NUMBER = %s" % (hv, got, hm["magic"]),
                                  {"host": path, "call": "sysinfo2magic()", "actual": got, "expected": hm["magic"]})
            finally:
                hw.close()
        rep.sample({"sysinfo2magic": reg["installed"][0]})
        # 6. the lookups are functions of their argument, not of what was looked up before: one pass over distinct
        #    magics in a fresh process is the reference; a second process answers a random sequence with immediate
        #    repeats (known after unknown, unknown twice in a row, ...)
        known = sorted(set(m for m, _ in tables["magicint2version"]))
        unknown = [0, 1, 244, 48, 3000, 3439 + 7, 20000, 65535, 62061 + 1] + [rng.randrange(65536) for _ in range(20)]
        pool = known + unknown
        w1 = Worker()
        try:
            ref = {m: w1.r("magic_int2tuple", magic=m) for m in sorted(set(pool))}
            refs = {s: w1.r("py_str2tuple", s=s) for s in sorted(set(cands[:80]))}
        finally:
            w1.close()
        seq = []
        for _ in range(300 if not ctx.thorough else 3000):
            m = rng.choice(unknown) if rng.randrange(3) == 0 else rng.choice(known)
            seq.append(m)
            if rng.randrange(2):
                seq.append(m)
        w2 = Worker()
        try:
            hist = []
            for m in seq:
                got = w2.r("magic_int2tuple", magic=m)
                hist.append(m)
                rep.count(1, ("lookup-history", m))
                if got != ref[m]:
                    rep.violation("lookup-history:magic_int2tuple:%d" % m,
                                  "magic_int2tuple(%d) = %s after the lookups %s in the same process, %s in a fresh one"
                                  % (m, str(got)[:80], hist[-4:-1], str(ref[m])[:80]),
                                  {"call": "magic_int2tuple", "history": hist[-50:], "actual": got, "expected": ref[m]})
                    break
            ss = [rng.choice(sorted(refs)) for _ in range(200)]
            for i, s_ in enumerate(ss):
                got = w2.r("py_str2tuple", s=s_)
                if got != refs[s_]:
                    rep.violation("lookup-history:py_str2tuple:%s" % s_, "py_str2tuple(%r) = %s after %s, %s in a fresh process"
                                  % (s_, str(got)[:80], ss[max(0, i - 3):i], str(refs[s_])[:80]),
                                  {"call": "py_str2tuple", "history": ss[:i + 1], "actual": got, "expected": refs[s_]})
                    break
        finally:
            w2.close()
        rep.coverage["exhaustive"] = True
    finally:
        w.close()


def replay(ctx, rp):
    r = rp.get("replay", {})
    print("replay:", json.dumps(r)[:800])
    w = Worker()
    try:
        key = rp["key"]
        kind, _, rest = key.partition(":")
        if kind in ("registry", "accepted", "release", "installed", "versions"):
            bad, now = realise(w, kind, rest + "_" + "_".join(str(x) for x in r.get("expected_prefix", [])) if kind != "registry" else
                               "%s_x_%s" % (rest, ".".join(map(str, r.get("expected_prefix", [])))))
            print("now:", now)
            if bad:
                ctx.rep.violation(key, rp["what"], now)
        elif kind == "inverse":
            n = int(rest)
            impl = w.r("int2magic_all")
            b = w.r("magic2int", hex=impl[n])
            print("magic2int(int2magic(%d)) = %r" % (n, b))
            if b != n:
                ctx.rep.violation(key, rp["what"], {"actual": b})
        else:
            print("replay kind not re-executable; see file")
    finally:
        w.close()

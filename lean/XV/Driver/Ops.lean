/- operation table of the driver -/
import XV.Driver.Util
import XV.Spec.Magic
namespace XV.Driver
open XV XV.Model

def showFailures (fs : List (String × String)) : String :=
  "(" ++ " ".intercalate (fs.map fun (k, d) => s!"({k} {d.replace " " "_"})") ++ ")"

def dispatch (op : String) (args : List String) : String :=
  match op, args with
  -- C08
  | "x.int2magic", [n] => match parseNat n with
      | some n => if n < 65536 then showHex (int2magic n) else "(err structError)"
      | none => "(err bad-arg)"
  | "x.magic2int", [h] => match parseHex h with
      | some b => match magic2int b with
        | some n => toString n
        | none => "(err structError)"
      | none => "(err bad-arg)"
  | "x.str2tuple", [h] => match parseHex h with
      | some b => showOpt showNats (pyStr2Tuple Spec.Magic.known b)
      | none => "(err bad-arg)"
  | "c08.failures", [] => showFailures Spec.Magic.failures
  | "c08.tiefailures", [] => showFailures Spec.Magic.tieFailures
  | _, _ => "(err bad-op)"

end XV.Driver

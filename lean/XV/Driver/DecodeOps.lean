/- driver ops for the decoder family (C02, C04) -/
import XV.Driver.Util
import XV.Model.Decode
import XV.Model.Operand
import XV.Model.StackEffect
import XV.Spec.Dis
import XV.Spec.OpTables
namespace XV.Driver
open XV XV.Model

def tableByName (n : String) : Option OpTable := Gen.allTables.find? (·.name == n)

def disTblFor (t : OpTable) : Option Spec.Dis.DisTbl :=
  match Spec.OpTables.refFor t with
  | some r => some (Spec.Dis.ofRef r)
  | none => (Spec.OpTables.snapFor t).map Spec.Dis.ofSnap

def showTriples (xs : List (Nat × Nat × Option Nat)) : String :=
  if xs.isEmpty then "-" else ",".intercalate (xs.map fun (o, op, a) => s!"{o}:{op}:{showOpt toString a}")

def showLabels (xs : List Int) : String := if xs.isEmpty then "-" else ",".intercalate (xs.map toString)

def decodeDispatch (op : String) (args : List String) : Option String :=
  match op, args with
  | "x.instrs", [tn, h] => do
      let t ← tableByName tn; let code ← parseHex h
      pure (match Model.Decode.instrs t code with
        | .ok is => if is.isEmpty then "-" else ",".intercalate (is.map fun i =>
            s!"{i.offset}:{i.opcode}:{showOpt toString i.arg}:{i.instSize}:{if i.hasExtArg then 1 else 0}")
        | .error _ => "(err IndexError)")
  | "x.targets", [tn, h] => do
      let t ← tableByName tn; let code ← parseHex h
      pure (match Model.Decode.instrs t code with
        | .ok is =>
          let ts := is.filterMap fun i => (Model.Decode.jumpArgval t i).map fun v => s!"{i.offset}:{v}"
          if ts.isEmpty then "-" else ",".intercalate ts
        | .error _ => "(err IndexError)")
  | "x.labels", [tn, h] => do
      let t ← tableByName tn; let code ← parseHex h
      pure (match Model.Decode.findlabels t Gen.cacheSize313 code with
        | some (.ok ls) => showLabels ls
        | some (.error _) => "(err IndexError)"
        | none => "(err unmodelled-binding)")
  | "x.unpack", [kind, tn, h] => do
      let t ← tableByName tn; let code ← parseHex h
      let r := if kind == "bytecode" then Model.Decode.unpackBytecode t code
               else if kind == "wordcode" then Model.Decode.unpackWord t code
               else Model.Decode.unpack310 t code
      pure (match r with | .ok xs => showTriples xs | .error _ => "(err IndexError)")
  | "py.unpack", [tn, h] => do
      let t ← tableByName tn; let code ← parseHex h; let d ← disTblFor t
      pure (match Spec.Dis.unpack d code with | some xs => showTriples xs | none => "(err IndexError)")
  | "py.labels", [tn, h] => do
      let t ← tableByName tn; let code ← parseHex h; let d ← disTblFor t
      pure (match Spec.Dis.findlabels d code with | some xs => showLabels xs | none => "(err IndexError)")
  | "py.targets", [tn, h] => do
      let t ← tableByName tn; let code ← parseHex h; let d ← disTblFor t
      pure (match Spec.Dis.unpack d code with
        | some xs =>
          let ts := xs.filterMap fun (o, op, a) => (a.bind (Spec.Dis.target d o op)).map fun v => s!"{o}:{v}"
          if ts.isEmpty then "-" else ",".intercalate ts
        | none => "(err IndexError)")
  | _, _ => none

end XV.Driver

namespace XV.Driver
open XV XV.Model

def showRes : Model.Operand.Res → String
  | .entry id => s!"entry:{id}"
  | .raw n => s!"raw:{n}"
  | .pair a b => s!"pair({showRes a},{showRes b})"
  | .cmp s => s!"cmp:{s.toString}"
  | .indexError => "err:IndexError"
  | .notTable => "raw-arg"

def operandDispatch (op : String) (args : List String) : Option String :=
  match op, args with
  | "x.resolve", [tn, o, a, cs, ns, vs, fs] => do
      let t ← tableByName tn; let o ← parseNat o; let a ← parseNat a
      let cs ← parseNats cs; let ns ← parseNats ns; let vs ← parseNats vs; let fs ← parseNats fs
      pure (showRes (Model.Operand.resolve t o a cs ns vs fs))
  | "x.resolvecode", [tn, h, cs, ns, vs, fs] => do
      -- decode with the Model of the decoder, then resolve the last instruction's operand
      let t ← tableByName tn; let code ← parseHex h
      let cs ← parseNats cs; let ns ← parseNats ns; let vs ← parseNats vs; let fs ← parseNats fs
      pure (match Model.Decode.instrs t code with
        | .ok is => match (is.filter (·.arg.isSome)).getLast? with
          | some i => (match i.arg with
            | some a => showRes (Model.Operand.resolve t i.opcode a cs ns vs fs)
            | none => "no-arg")
          | none => "empty"
        | .error _ => "err:IndexError")
  | _, _ => none

end XV.Driver

namespace XV.Driver
open XV XV.Model
def effectDispatch (op : String) (args : List String) : Option String :=
  match op, args with
  | "x.effect", [tn, o, a] => do
      let t ← tableByName tn; let o ← parseNat o; let a ← parseNat a
      pure (match Model.StackEffect.effect t o a with | some e => toString e | none => "None")
  | _, _ => none
end XV.Driver

namespace XV.Driver
/-- the field names of `Model.CodeConv.nativeArgs`, in order (same order as the Model's list) -/
def nativeArgNames : String → Option (List String)
  | "Code38" => some ["co_argcount", "co_posonlyargcount", "co_kwonlyargcount", "co_nlocals", "co_stacksize", "co_flags", "co_code",
                      "co_consts", "co_names", "co_varnames", "co_filename", "co_name", "co_firstlineno", "co_lnotab", "co_freevars", "co_cellvars"]
  | "Code310" => some ["co_argcount", "co_posonlyargcount", "co_kwonlyargcount", "co_nlocals", "co_stacksize", "co_flags", "co_code",
                       "co_consts", "co_names", "co_varnames", "co_filename", "co_name", "co_firstlineno", "co_linetable", "co_freevars", "co_cellvars"]
  | "Code311" => some ["co_argcount", "co_posonlyargcount", "co_kwonlyargcount", "co_nlocals", "co_stacksize", "co_flags", "co_code",
                       "co_consts", "co_names", "co_varnames", "co_filename", "co_name", "co_qualname", "co_firstlineno", "co_linetable",
                       "co_exceptiontable", "co_freevars", "co_cellvars"]
  | _ => none
def convDispatch (op : String) (args : List String) : Option String :=
  match op, args with
  | "x.nativeargs", [c] => (nativeArgNames c).map (",".intercalate ·)
  | _, _ => none
end XV.Driver

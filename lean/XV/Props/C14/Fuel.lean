/-
C14 — the fuel of the fast-reader Model is never the reason `loads` ends: for EVERY byte string the
`2·length + 3` units `loads` supplies are never exhausted (every nested `load` consumes a byte first,
every loop iteration spends fuel only together with a byte).  So on arbitrary input the Model's answer
is always one of Python's outcomes, and the correspondence on malformed streams compares like with like.
-/
import XV.Model.FastLoad
namespace XV.Props.C14.Fuel
open XV XV.Model.Unmarshal XV.Model.FastLoad
set_option linter.unusedVariables false
set_option linter.unusedSimpArgs false

structure Ok (B : Nat) (strict : Bool) (m : F α) : Prop where
  run : ∀ s : FSt, s.inp.length ≤ B → m.run s ≠ .error .outOfFuel ∧
    ∀ a s', m.run s = .ok (a, s') → (if strict then s'.inp.length + 1 ≤ s.inp.length else s'.inp.length ≤ s.inp.length)

theorem F_run_bind (p : F α) (f : α → F β) (s : FSt) :
    (p >>= f).run s = match p.run s with | .ok (a, s') => (f a).run s' | .error er => .error er := by
  simp only [StateT.run, bind, StateT.bind, Except.bind]
  cases p s <;> rfl

theorem Ok.weaken {m : F α} {B : Nat} (h : Ok B true m) : Ok B false m := by
  refine ⟨fun s hs => ?_⟩
  obtain ⟨h1, h2⟩ := h.run s hs
  refine ⟨h1, fun a s' hr => ?_⟩
  have := h2 a s' hr
  simp only [if_true] at this
  simp only [Bool.false_eq_true, if_false]
  omega

theorem Ok.seq {m : F α} {g : α → F β} {B : Nat} {st : Bool} (h1 : Ok B false m) (h2 : ∀ a, Ok B st (g a)) :
    Ok B st (m >>= g) := by
  refine ⟨fun s hs => ?_⟩
  obtain ⟨n1, p1⟩ := h1.run s hs
  rw [F_run_bind]
  cases hm : m.run s with
  | error er =>
    refine ⟨?_, fun a s' hr => by cases hr⟩
    intro h; cases h; exact n1 hm
  | ok r =>
    obtain ⟨a, s1⟩ := r
    have hl := p1 a s1 hm
    simp only [Bool.false_eq_true, if_false] at hl
    obtain ⟨n2, p2⟩ := (h2 a).run s1 (by omega)
    refine ⟨n2, fun b s' hr => ?_⟩
    have := p2 b s' hr
    cases st <;> simp at this ⊢ <;> omega

theorem Ok.seqS {m : F α} {g : α → F β} {B : Nat} (h1 : Ok B true m) (h2 : 1 ≤ B → ∀ a, Ok (B - 1) false (g a)) :
    Ok B true (m >>= g) := by
  refine ⟨fun s hs => ?_⟩
  obtain ⟨n1, p1⟩ := h1.run s hs
  rw [F_run_bind]
  cases hm : m.run s with
  | error er =>
    refine ⟨?_, fun a s' hr => by cases hr⟩
    intro h; cases h; exact n1 hm
  | ok r =>
    obtain ⟨a, s1⟩ := r
    have hl := p1 a s1 hm
    simp only [if_true] at hl
    obtain ⟨n2, p2⟩ := (h2 (by omega) a).run s1 (by omega)
    refine ⟨n2, fun b s' hr => ?_⟩
    have := p2 b s' hr
    simp at this ⊢
    omega

theorem Ok.ret {B : Nat} (a : α) : Ok B false (pure a : F α) := by
  refine ⟨fun s _ => ?_⟩
  refine ⟨(by intro h; cases h), fun b s' hr => ?_⟩
  simp only [StateT.run, pure, StateT.pure, Except.pure] at hr
  cases hr
  simp

theorem Ok.raise {B : Nat} {st : Bool} (e : FErr) (he : e ≠ .outOfFuel) : Ok B st (throw e : F α) := by
  refine ⟨fun s _ => ?_⟩
  have : (throw e : F α).run s = .error e := rfl
  refine ⟨(by rw [this]; intro h; cases h; exact he rfl), fun b s' hr => (by rw [this] at hr; cases hr)⟩

theorem Ok.ite {B : Nat} {st : Bool} {c : Prop} [Decidable c] {m1 m2 : F α} (h1 : Ok B st m1) (h2 : Ok B st m2) :
    Ok B st (if c then m1 else m2) := by
  split <;> assumption

/-! ### primitives -/

theorem run_get_bind (g : FSt → F β) (s : FSt) : (get >>= g).run s = (g s).run s := rfl

theorem ok_read1 {B : Nat} : Ok B true read1 := by
  refine ⟨fun s _ => ?_⟩
  unfold read1
  rw [run_get_bind]
  cases hi : s.inp with
  | nil => exact ⟨(by intro h; cases h), fun a s' hr => by cases hr⟩
  | cons b r =>
    refine ⟨(by intro h; cases h), fun a s' hr => ?_⟩
    have : s' = { s with inp := r } := by
      simp only [bind, StateT.bind, StateT.run, Except.bind, pure, Except.pure, set, StateT.set, StateT.pure] at hr
      cases hr; rfl
    subst this
    simp

theorem ok_read {B : Nat} (n : Int) : Ok B false (Model.FastLoad.read n) := by
  refine ⟨fun s _ => ?_⟩
  unfold Model.FastLoad.read
  rw [run_get_bind]
  split
  · exact ⟨(by intro h; cases h), fun a s' hr => by cases hr⟩
  · refine ⟨(by intro h; cases h), fun a s' hr => ?_⟩
    have : s' = { s with inp := s.inp.drop n.toNat } := by
      simp only [bind, StateT.bind, StateT.run, Except.bind, pure, Except.pure, set, StateT.set, StateT.pure] at hr
      cases hr; rfl
    subst this
    simp

theorem ok_rLong {B : Nat} : Ok B false rLong := by
  refine ⟨fun s _ => ?_⟩
  unfold rLong
  rw [run_get_bind]
  split
  · exact ⟨(by intro h; cases h), fun a s' hr => by cases hr⟩
  · refine ⟨(by intro h; cases h), fun a s' hr => ?_⟩
    have : s' = { s with inp := s.inp.drop 4 } := by
      simp only [bind, StateT.bind, StateT.run, Except.bind, pure, Except.pure, set, StateT.set, StateT.pure] at hr
      cases hr; rfl
    subst this
    simp

theorem ok_r1 {B : Nat} : Ok B false read1 := Ok.weaken ok_read1

theorem ok_rShort {B : Nat} : Ok B false rShort := by
  unfold rShort
  exact Ok.seq ok_r1 (fun _ => Ok.seq ok_r1 (fun _ => Ok.ret _))

theorem ok_rLong64 {B : Nat} : Ok B false rLong64 := by
  unfold rLong64
  repeat' (first | exact Ok.ret _ | exact ok_r1 | (apply Ok.seq) | (intro _))

theorem ok_rDigits {B : Nat} : ∀ (k j : Nat) (acc : Int), Ok B false (Model.FastLoad.rDigits k j acc) := by
  intro k
  induction k with
  | zero => intro j acc; rw [Model.FastLoad.rDigits]; exact Ok.ret _
  | succ k ih => intro j acc; rw [Model.FastLoad.rDigits]; exact Ok.seq ok_rShort (fun _ => ih _ _)

theorem ok_state {B : Nat} (m : F α) (h : ∀ s, ∃ a s', m.run s = .ok (a, s') ∧ s'.inp = s.inp) : Ok B false m := by
  refine ⟨fun s _ => ?_⟩
  obtain ⟨a, s', hr, hi⟩ := h s
  refine ⟨(by rw [hr]; intro h; cases h), fun b s'' hr2 => ?_⟩
  rw [hr] at hr2
  cases hr2
  simp [hi]

theorem ok_modStrs {B : Nat} (v : V) : Ok B false (modify fun st => { st with strs := st.strs ++ [v] } : F Unit) := by
  apply ok_state
  intro s
  simp [bind, StateT.bind, pure, Except.pure, StateT.run, StateT.pure, modify, modifyGet,
    MonadStateOf.modifyGet, StateT.modifyGet, Except.bind]

theorem ok_get {B : Nat} : Ok B false (get : F FSt) := by
  apply ok_state
  intro s
  exact ⟨s, s, rfl, rfl⟩

macro "ok_auto" : tactic => `(tactic| repeat' (first
  | exact Ok.ret _ | exact ok_rLong | exact ok_rShort | exact ok_r1 | exact ok_rLong64
  | exact ok_read _ | exact ok_modStrs _ | exact ok_get | exact ok_rDigits _ _ _
  | exact Ok.raise _ (by decide)
  | (apply Ok.seq)
  | (intro _)
  | (apply Ok.ite)
  | split))

set_option maxHeartbeats 1000000

theorem load_step (f B : Nat) (hB : 2 * B + 1 ≤ f + 1)
    (hI : ∀ n B', 2 * B' + 2 ≤ f → Ok B' false (loadItems f n))
    (hD : ∀ B', 2 * B' + 2 ≤ f → Ok B' false (loadDict f)) :
    Ok B true (load (f + 1)) := by
  rw [load]
  refine Ok.seqS ok_read1 (fun hB1 c => ?_)
  have hI' := fun n => hI n (B - 1) (by omega)
  have hD' := hD (B - 1) (by omega)
  split
  all_goals ok_auto
  all_goals first
    | exact hI' _
    | exact hD'
    | skip

theorem items_step (f n B : Nat) (hB : 2 * B + 2 ≤ f + 1)
    (hO : ∀ B', 2 * B' + 1 ≤ f → Ok B' true (load f))
    (hI : ∀ n B', 2 * B' + 2 ≤ f → Ok B' false (loadItems f n)) :
    Ok B false (loadItems (f + 1) n) := by
  cases n with
  | zero => rw [loadItems]; · exact Ok.ret _
            · omega
  | succ n =>
    rw [loadItems]
    refine Ok.weaken (Ok.seqS (hO B (by omega)) (fun hB1 x => ?_))
    split
    · exact Ok.raise _ (by decide)
    · exact Ok.seq (hI n (B - 1) (by omega)) (fun xs => Ok.ret _)

theorem dict_step (f B : Nat) (hB : 2 * B + 2 ≤ f + 1)
    (hO : ∀ B', 2 * B' + 1 ≤ f → Ok B' true (load f))
    (hD : ∀ B', 2 * B' + 2 ≤ f → Ok B' false (loadDict f)) :
    Ok B false (loadDict (f + 1)) := by
  rw [loadDict]
  refine Ok.weaken (Ok.seqS (hO B (by omega)) (fun hB1 k => ?_))
  split
  · exact Ok.ret _
  · refine Ok.weaken (Ok.seqS (hO (B - 1) (by omega)) (fun hB2 v => ?_))
    split
    · exact Ok.raise _ (by decide)
    · split
      · exact Ok.seq (hD (B - 1 - 1) (by omega)) (fun _ => Ok.ret _)
      · exact Ok.raise _ (by decide)

theorem fuel_all : ∀ f,
    (∀ B, 2 * B + 1 ≤ f → Ok B true (load f)) ∧
    (∀ n B, 2 * B + 2 ≤ f → Ok B false (loadItems f n)) ∧
    (∀ B, 2 * B + 2 ≤ f → Ok B false (loadDict f)) := by
  intro f
  induction f with
  | zero => exact ⟨fun B h => by omega, fun n B h => by omega, fun B h => by omega⟩
  | succ f ih =>
    obtain ⟨iO, iI, iD⟩ := ih
    exact ⟨fun B hB => load_step f B hB iI iD, fun n B hB => items_step f n B hB iO iI, fun B hB => dict_step f B hB iO iD⟩

/-- C14_fuel: `xdis.marsh.loads` (Model) on ANY byte string never ends for lack of fuel -/
theorem C14_fuel (data : Bytes) : Model.FastLoad.loads data ≠ .error .outOfFuel := by
  unfold Model.FastLoad.loads
  have h := (fuel_all (2 * data.length + 3)).1 data.length (by omega)
  have := (h.run { inp := data, strs := [] } (Nat.le_refl _)).1
  intro hc
  split at hc
  · cases hc
  · cases hc
  · rename_i e he
    cases hc
    exact this he

end XV.Props.C14.Fuel

/-
Shape of the opcode tables.  `OpTable` is what an `xdis/opcodes/opcode_*.py`
module exposes (values are GENERATED into `XV.Gen.OpTables`); `RefTable` is what a
reference CPython's own `opcode` module exposes (generated into `XV.Gen.RefOpTables`).
-/
import XV.Base.Str
namespace XV.Model
open XV

structure OpTable where
  name : String
  inOpImports : Bool
  version : Nat × Nat
  isPypy : Bool
  opname : List Str
  opmap : List (Str × Nat)
  oppop : List Int
  oppush : List Int
  haveArgument : Nat
  extendedArg : Option Nat
  extShift : Option Nat
  compareOps : List Nat
  constOps : List Nat
  freeOps : List Nat
  jrelOps : List Nat
  jabsOps : List Nat
  localOps : List Nat
  nameOps : List Nat
  nargsOps : List Nat
  vargsOps : List Nat
  encodedArgOps : List Nat
  storeOps : List Nat
  nofollow : List Nat
  hasarg : Option (List Nat)
  cmpOp : List Str
  findlabels : Str
  findlinestarts : Str
  instrSize : List Nat
  hasArgProbe : List Bool
  argFmt : List Str
  deriving Repr

structure RefTable where
  version : Nat × Nat
  opmap : List (Str × Nat)
  haveArgument : Nat
  extendedArg : Nat
  hasjrel : List Nat
  hasjabs : List Nat
  hasconst : List Nat
  hasname : List Nat
  haslocal : List Nat
  hasfree : List Nat
  hascompare : List Nat
  hasarg : Option (List Nat)
  cmpOp : List Str
  cache : List (Nat × Nat)
  magic : List Nat
  deriving Repr

/-- committed snapshot of a table for a version without a reference interpreter -/
structure SnapTable where
  name : String
  version : Nat × Nat
  isPypy : Bool
  opmap : List (Str × Nat)
  haveArgument : Nat
  extendedArg : Option Nat
  extShift : Option Nat
  jrelOps : List Nat
  jabsOps : List Nat
  constOps : List Nat
  nameOps : List Nat
  localOps : List Nat
  freeOps : List Nat
  compareOps : List Nat
  deriving Repr

/-- version comparison helpers (Python tuple comparison on the first two components) -/
def verGe (v : Nat × Nat) (a b : Nat) : Bool := v.1 > a || (v.1 == a && v.2 ≥ b)
def verLt (v : Nat × Nat) (a b : Nat) : Bool := !verGe v a b

namespace OpTable
def opnameOf (t : OpTable) (op : Nat) : Str := t.opname.getD op []
/-- `op_has_argument(op, opc)` -/
def hasArg (t : OpTable) (op : Nat) : Bool :=
  if verGe t.version 3 13 then (t.hasarg.getD []).contains op else op ≥ t.haveArgument
def isJrel (t : OpTable) (op : Nat) : Bool := t.jrelOps.contains op
def isJabs (t : OpTable) (op : Nat) : Bool := t.jabsOps.contains op
/-- `instruction_size(op, opc)` -/
def instrSizeOf (t : OpTable) (op : Nat) : Nat :=
  if op < t.haveArgument then (if verGe t.version 3 6 then 2 else 1)
  else (if verGe t.version 3 6 then 2 else 3)
end OpTable

end XV.Model

/- driver ops for the marshal family (C01, C10, C11, C13, C14) -/
import XV.Driver.Util
import XV.Model.Unmarshal
import XV.Spec.Marshal
import XV.Spec.Magic
import XV.Model.Header
import XV.Model.LoadOutcome
import XV.Model.Marsh
import XV.Model.FastLoad
import XV.Spec.MarshalW
import XV.Gen.Layouts
namespace XV.Driver
open XV XV.Model.Unmarshal

def hex16 (n : Nat) : String := String.ofList ((List.range 16).reverse.map fun i => hexDigit ((n / 16 ^ i) % 16))

def insertSorted (x : String) : List String → List String
  | [] => [x]
  | y :: ys => if x ≤ y then x :: y :: ys else y :: insertSorted x ys
def dedupSorted : List String → List String
  | a :: b :: rest => if a == b then dedupSorted (b :: rest) else a :: dedupSorted (b :: rest)
  | xs => xs
/-- sorted, equal renderings merged (a Python set keeps one of two equal elements) -/
def sortStrs (xs : List String) : List String := dedupSorted (xs.foldr insertSorted [])

partial def sexp : V → String
  | .none => "(none)" | .tru => "(true)" | .fls => "(false)" | .ellipsis => "(ellipsis)" | .stopIter => "(stopiter)"
  | .int i => s!"(int {i})" | .long i => s!"(long {i})"
  | .float b => s!"(float {hex16 b})" | .floatText s => s!"(floattext {showHex s})"
  | .complex r i => s!"(complex {hex16 r} {hex16 i})" | .complexText r i => s!"(complextext {showHex r} {showHex i})"
  | .bytes b => s!"(bytes {showHex b})"
  | .str cps => "(str " ++ (if cps.isEmpty then "-" else ",".intercalate (cps.map toString)) ++ ")"
  | .u2 raw => s!"(u2 {showHex raw})"
  | .tuple xs => "(tuple" ++ String.join (xs.map fun x => " " ++ sexp x) ++ ")"
  | .list xs => "(list" ++ String.join (xs.map fun x => " " ++ sexp x) ++ ")"
  | .set xs => "(set" ++ String.join ((sortStrs (xs.map sexp)).map (" " ++ ·)) ++ ")"
  | .fset xs => "(fset" ++ String.join ((sortStrs (xs.map sexp)).map (" " ++ ·)) ++ ")"
  | .dict kvs => "(dict" ++ String.join ((sortStrs (kvs.map fun (k, v) => "(" ++ sexp k ++ " " ++ sexp v ++ ")")).map (" " ++ ·)) ++ ")"
  | .code fs => "(code" ++ String.join (fs.map fun (n, v) =>
      -- co_code / the line table are byte strings by nature: shown as bytes whichever string type holds them
      let v' := if n == "co_code" || n == "co_linetable" then
                  (match v with | .str cps => if cps.all (· < 256) then V.bytes cps else v | _ => v) else v
      " (" ++ n ++ " " ++ sexp v' ++ ")") ++ ")"

/-- as `sexp`, but containers keep the order in which the stream listed their items (the harness applies Python's
    dict/set semantics: first key object, last value) -/
partial def sexpO : V → String
  | .tuple xs => "(tuple" ++ String.join (xs.map fun x => " " ++ sexpO x) ++ ")"
  | .list xs => "(list" ++ String.join (xs.map fun x => " " ++ sexpO x) ++ ")"
  | .set xs => "(set" ++ String.join (xs.map fun x => " " ++ sexpO x) ++ ")"
  | .fset xs => "(fset" ++ String.join (xs.map fun x => " " ++ sexpO x) ++ ")"
  | .dict kvs => "(dict" ++ String.join (kvs.map fun (k, v) => " (" ++ sexpO k ++ " " ++ sexpO v ++ ")") ++ ")"
  | v => sexp v

def errName : Err → String
  | .structError => "struct.error" | .typeError => "TypeError" | .indexError => "IndexError" | .keyError => "KeyError"
  | .valueError => "ValueError" | .unicodeError => "UnicodeDecodeError" | .recursionError => "RecursionError"
  | .attributeError => "AttributeError" | .assertionError => "AssertionError" | .outOfFuel => "OUT-OF-FUEL"

def marshalDispatch (op : String) (args : List String) : Option String :=
  match op, args with
  | "x.unmarshal", [m, lim, h] => do
      let magic ← parseNat m; let limit ← parseNat lim; let data ← parseHex h
      let ver ← Spec.Magic.implTuple magic
      pure (match loadCode magic ver (Gen.graal3Magics.contains magic) limit data with
        | .ok (v, rest) => s!"{rest.length} {sexp v}"
        | .error e => s!"(err {errName e})")
  | "py.unmarshal", [maj, min, h] => do
      let a ← parseNat maj; let b ← parseNat min; let data ← parseHex h
      pure (match Spec.Marshal.loads [a, b] data with
        | .ok (v, rest) => s!"{rest.length} {sexp (Spec.Marshal.port [a, b] v)}"
        | .error e => match e with
          | .eof => "(err EOFError)" | .badData => "(err bad-marshal-data)" | .valueError => "(err ValueError)"
          | .outOfFuel => "(err OUT-OF-FUEL)")
  | "py.unmarshal_strict", [maj, min, h] => do
      let a ← parseNat maj; let b ← parseNat min; let data ← parseHex h
      pure (match Spec.Marshal.loadsStrict [a, b] data with
        | .ok (v, rest) => s!"{rest.length} {sexp (Spec.Marshal.port [a, b] v)}"
        | .error e => match e with
          | .eof => "(err EOFError)" | .badData => "(err bad-marshal-data)" | .valueError => "(err ValueError)"
          | .outOfFuel => "(err OUT-OF-FUEL)")
  | _, _ => none

end XV.Driver

namespace XV.Driver
open XV XV.Model

def headerTables : Model.Header.Tables := { tuples := Gen.implTuple, versions := Gen.versionsTbl, pypy3 := Gen.pypy3Magics }

def headerDispatch (op : String) (args : List String) : Option String :=
  match op, args with
  | "x.header", [h, nm] => do
      let data ← parseHex h
      pure (match Model.Header.load headerTables data (nm == "1") with
        | .ok v t m p s sip pos => s!"ok {showNats v} {showOpt toString t} {m} {p} {showOpt toString s} {showOpt toString sip} {pos}"
        | .importError => "ImportError"
        | .dropbox => "dropbox"
        | .escaped c => s!"escaped:{c}")
  | _, _ => none

end XV.Driver

namespace XV.Driver
open XV XV.Model
def outcomeDispatch (op : String) (args : List String) : Option String :=
  match op, args with
  | "x.loadmodule", [lim, h] => do
      let limit ← parseNat lim; let data ← parseHex h
      -- host magic 3531 (the harness's main host is 3.12): the native fast path is reported as such
      pure (match Model.LoadOutcome.loadModule headerTables Gen.graal3Magics limit 3531 (fun _ => .escaped "native") data with
        | .returned => "returned" | .importError => "ImportError" | .escaped c => s!"escaped:{c}")
  | _, _ => none
end XV.Driver

namespace XV.Driver
open XV XV.Model XV.Model.Unmarshal

/-- a float anywhere (the writer emits Python's repr text, which the driver cannot compute) -/
partial def hasFloatDeep : V → Bool
  | .float _ | .complex _ _ | .floatText _ | .complexText _ _ => true
  | .set _ | .fset _ => true      -- element order is the host's iteration order: no byte-exact tie
  | .tuple xs | .list xs => xs.any hasFloatDeep
  | .dict kvs => kvs.any fun (k, v) => hasFloatDeep k || hasFloatDeep v
  | .code fs => fs.any fun (_, v) => hasFloatDeep v
  | _ => false

partial def hasFloat : V → Bool
  | .float _ | .complex _ _ | .floatText _ | .complexText _ _ => true
  | .set _ | .fset _ => true      -- marshal.dumps orders set elements its own way: no byte-exact tie
  | .tuple xs | .list xs => xs.any hasFloat
  | .dict kvs => kvs.any fun (k, v) => hasFloat k || hasFloat v
  | _ => false

def marshDispatch (op : String) (args : List String) : Option String :=
  match op, args with
  | "x.marshdump", [h] => do
      -- the value is given as the host's own marshal.dumps(v, 4) bytes, read by the Spec
      let data ← parseHex h
      pure (match Spec.Marshal.loads [3, 12] data with
        | .ok (v, _) => if hasFloat v then "(skip-float)" else showHex (Model.Marsh.dump v)
        | .error _ => "(err spec-rejects)")
  | "x.marshdumpcode", [maj, min, h] => do
      -- a code object given as the producing Python's own marshal bytes: read by the Spec, written by the Model
      let a ← parseNat maj; let b ← parseNat min; let data ← parseHex h
      pure (match Spec.Marshal.loads [a, b] data with
        | .ok (v, _) => if hasFloatDeep v then "(skip-float)" else showHex (Model.Marsh.dump v)
        | .error _ => "(err spec-rejects)")
  | "py.wobj01", [h] => do
      -- marshal.c's writer in format versions 0/1 (Spec.MarshalW) on the value the host wrote in version 4
      let data ← parseHex h
      pure (match Spec.Marshal.loads [3, 12] data with
        | .ok (v, _) => if hasFloat v then "(skip-float)" else showHex (Spec.MarshalW.wObj v)
        | .error _ => "(err spec-rejects)")
  | "x.fastloads", [h] => do
      -- Model of xdis.marsh.loads (_FastUnmarshaller)
      let data ← parseHex h
      pure (match Model.FastLoad.loads data with
        | .ok (v, rest) => s!"{rest.length} {sexpO v}"
        | .error e => match e with
          | .eof => "(err EOFError)" | .badCode => "(err ValueError)" | .unicodeError => "(err UnicodeDecodeError)"
          | .typeError => "(err TypeError)" | .nullValue => "(skip null-value)" | .codeObject => "(skip code-object)"
          | .outOfFuel => "(err OUT-OF-FUEL)")
  | _, _ => none
end XV.Driver

"""Comparisons between the implementation's view of a loaded .pyc and the producing
interpreter's own view (from progcheck.run_programs).  Each function returns a list of
(key_suffix, message, replay_dict)."""

CMP_MAP = {"not-in": "not in", "is-not": "is not", "exception-match": "exception match"}


def _codes(o, im):
    if "codes" not in im:
        return None
    if len(im["codes"]) != len(o["codes"]):
        return None
    return list(zip(o["codes"], im["codes"]))


def real_instrs(ent):
    return [i for i in ent.get("instrs", []) if i[2] != "CACHE"]


def diff_stream(v, name, o, im):
    """C02: offsets, opcode, opname, arg of non-CACHE instructions"""
    out = []
    pairs = _codes(o, im)
    if pairs is None:
        return [("load", "load failed or code-object count differs: %s" % str(im)[:200], {})]
    for k, (oc, ic) in enumerate(pairs):
        if "instrs_err" in ic:
            out.append(("stream:%d" % k, "Bytecode iteration raised %s" % ic["instrs_err"], {"code_index": k}))
            continue
        if "reiter" in ic:
            out.append(("reiter:%d" % k, "iterating the same Bytecode object again does not give the same stream: %s" % ic["reiter"],
                        {"code_index": k, "reiter": ic["reiter"]}))
        if "instrs" in oc:
            want = [[i[0], i[1], i[2], i[3]] for i in oc["instrs"] if i[2] != "CACHE"]
        else:
            want = None
            trip = [[a, b, c] for a, b, c in oc["unpack"]]
        got = [[i[0], i[1], i[2].replace("+", "_"), i[3]] for i in real_instrs(ic)]
        if want is not None:
            want = [[a, b, c.replace("+", "_"), d] for a, b, c, d in want]
            if got != want:
                j = next((x for x in range(min(len(got), len(want))) if got[x] != want[x]), min(len(got), len(want)))
                out.append(("stream:%d" % k, "instruction %d differs: xdis %s, CPython %s" % (j, got[j:j + 1], want[j:j + 1]),
                            {"code_index": k, "co_code": oc["fields"]["co_code"]}))
        else:
            g3 = [[a, b, d] for a, b, c, d in got]
            if g3 != trip:
                j = next((x for x in range(min(len(g3), len(trip))) if g3[x] != trip[x]), 0)
                out.append(("stream:%d" % k, "instruction %d differs: xdis %s, CPython %s" % (j, g3[j:j + 1], trip[j:j + 1]),
                            {"code_index": k, "co_code": oc["fields"]["co_code"]}))
        # tiling
        code_len = len(oc["fields"]["co_code"]) // 2
        exp = 0
        word = tuple(v) >= (3, 6)
        for i in ic.get("instrs", []):
            if i[0] != exp:
                out.append(("tile:%d" % k, "instruction at offset %d, expected %d" % (i[0], exp), {"code_index": k}))
                break
            exp += 2 if word else (3 if i[3] is not None else 1)
        else:
            if exp != code_len:
                out.append(("tile:%d" % k, "stream ends at %d, code length %d" % (exp, code_len), {"code_index": k}))
    return out


def diff_argvals(v, name, o, im, cats):
    """C03: argval of table-indexed instructions.  cats: opcode -> category from the reference tables"""
    out = []
    pairs = _codes(o, im)
    if pairs is None:
        return [("load", "load failed: %s" % str(im)[:200], {})]
    for k, (oc, ic) in enumerate(pairs):
        if "instrs" not in ic:
            continue
        consts_i = ic["fields"]["co_consts"]
        if "instrs" in oc:
            omap = {i[0]: i for i in oc["instrs"]}
            for i in real_instrs(ic):
                oi = omap.get(i[0])
                if oi is None or oi[1] != i[1]:
                    continue
                cat = cats.get(i[1])
                if cat is None or i[3] is None:
                    continue
                ga, wa = i[4], oi[4]
                if cat == "const":
                    # resolved to the same table entry
                    if i[3] < len(consts_i):
                        want = consts_i[i[3]]
                        have = ga if isinstance(ga, list) else (["int", str(ga)] if isinstance(ga, int) and not isinstance(ga, bool) else
                                                                 ["str", [ord(c) for c in ga]] if isinstance(ga, str) else ["none"] if ga is None else ga)
                        if want[0] == "code":
                            ok = isinstance(ga, list) and ga[:1] == ["code"]
                        elif want[0] == "bool":
                            ok = True
                        else:
                            ok = have == want
                        if not ok:
                            out.append(("argval:%d:%d" % (k, i[0]), "%s %d resolves to %s, constant %d is %s" % (i[2], i[3], str(have)[:80], i[3], str(want)[:80]),
                                        {"code_index": k, "offset": i[0]}))
                    continue
                if cat == "compare":
                    ga = CMP_MAP.get(ga, ga)
                if isinstance(wa, list) and wa[:1] == ["tuple"]:       # 3.13 paired fast ops
                    wa = ["".join(chr(c) for c in x[1]) for x in wa[1]]
                if wa == "UNKNOWN" or (isinstance(wa, list) and wa[:1] == ["other"]):
                    continue
                if ga != wa:
                    out.append(("argval:%d:%d" % (k, i[0]), "%s %d at offset %d resolves to %r, CPython %d.%d resolves it to %r" % (i[2], i[3], i[0], ga, v[0], v[1], wa),
                                {"code_index": k, "offset": i[0], "opname": i[2], "arg": i[3], "actual": ga, "expected": wa}))
        elif "dis27" in oc:
            tmap = {t[0]: t for t in oc["dis27"]}
            for i in real_instrs(ic):
                t = tmap.get(i[0])
                cat = cats.get(i[1])
                if t is None or cat in (None, "const", "jrel", "jabs") or i[3] is None or t[3] is None:
                    continue
                wa = t[3][1:-1]
                ga = CMP_MAP.get(i[4], i[4]) if cat == "compare" else i[4]
                if str(ga) != wa:
                    out.append(("argval:%d:%d" % (k, i[0]), "%s %d at offset %d resolves to %r, CPython 2.7 prints %r" % (i[2], i[3], i[0], ga, wa),
                                {"code_index": k, "offset": i[0], "opname": i[2], "arg": i[3], "actual": ga, "expected": wa}))
    return out


def diff_labels(v, name, o, im, jumps):
    """C04: label set, is_jump_target flags, jump argvals, targets are instruction starts"""
    out = []
    pairs = _codes(o, im)
    if pairs is None:
        return [("load", "load failed: %s" % str(im)[:200], {})]
    for k, (oc, ic) in enumerate(pairs):
        if "instrs" not in ic:
            continue
        starts = set(i[0] for i in ic["instrs"])
        code_len = len(oc["fields"]["co_code"]) // 2
        has_ext = any(i[2] == "EXTENDED_ARG" for i in ic["instrs"])
        if "labels" in ic and not (tuple(v) < (3, 6) and has_ext):
            if sorted(ic["labels"]) != sorted(oc["labels"]):
                out.append(("labels:%d" % k, "findlabels %s, CPython %s" % (sorted(ic["labels"])[:12], sorted(oc["labels"])[:12]),
                            {"code_index": k, "co_code": oc["fields"]["co_code"]}))
        for l in ic.get("labels", []):
            if l not in starts and l != code_len:
                out.append(("target-not-instruction:%d" % k, "label %d is not an instruction start (code length %d)" % (l, code_len), {"code_index": k}))
                break
        exc_t = set(e[2] for e in (oc.get("exc") or []))
        want_jt = (set(oc["labels"]) | exc_t) & starts
        got_jt = set(i[0] for i in ic["instrs"] if i[5])
        if got_jt != want_jt and not (tuple(v) < (3, 6) and has_ext):
            out.append(("jt:%d" % k, "is_jump_target at %s, labels+handlers %s" % (sorted(got_jt ^ want_jt)[:10], sorted(want_jt)[:10]), {"code_index": k}))
        if "instrs" in oc:
            omap = {i[0]: i for i in oc["instrs"]}
            for i in real_instrs(ic):
                if i[1] in jumps and i[3] is not None and i[0] in omap and omap[i[0]][4] != i[4]:
                    out.append(("target:%d:%d" % (k, i[0]), "%s %d at %d: xdis target %s, CPython %s" % (i[2], i[3], i[0], i[4], omap[i[0]][4]),
                                {"code_index": k, "offset": i[0]}))
    return out


def diff_lines(v, name, o, im):
    """C05: findlinestarts and starts_line"""
    out = []
    pairs = _codes(o, im)
    if pairs is None:
        return [("load", "load failed: %s" % str(im)[:200], {})]
    for k, (oc, ic) in enumerate(pairs):
        want = [p for p in oc["linestarts"] if p[1] is not None or tuple(v) >= (3, 13)]
        if "linestarts" not in ic:
            out.append(("linestarts:%d" % k, "findlinestarts raised %s" % ic.get("linestarts_err"), {"code_index": k}))
            continue
        if ic["linestarts"] != want:
            out.append(("linestarts:%d" % k, "findlinestarts %s, CPython %s" % (ic["linestarts"][:8], want[:8]),
                        {"code_index": k, "linetable": oc["fields"]["linetable"], "first": oc["fields"]["co_firstlineno"]}))
        if "instrs" in ic:
            got = [[i[0], i[6]] for i in ic["instrs"] if i[6] is not None]
            w2 = [p for p in want if p[1] is not None]
            if got != w2:
                out.append(("starts_line:%d" % k, "starts_line %s, CPython %s" % (got[:8], w2[:8]), {"code_index": k}))
    return out


def diff_tables311(v, name, o, im):
    """C17: exception entries, positions, line of every code unit"""
    out = []
    pairs = _codes(o, im)
    if pairs is None:
        return [("load", "load failed: %s" % str(im)[:200], {})]
    for k, (oc, ic) in enumerate(pairs):
        if "exc" in oc and ic.get("exc") != oc["exc"] and not (ic.get("exc") is None and oc["exc"] == []):
            out.append(("exc:%d" % k, "exception entries %s, CPython %s" % (str(ic.get("exc"))[:120], str(oc["exc"])[:120]),
                        {"code_index": k, "exception_table": oc["fields"].get("co_exceptiontable")}))
        if "positions" in oc:
            if ic.get("positions") != oc["positions"]:
                out.append(("positions:%d" % k, "co_positions %s, CPython %s" % (str(ic.get("positions", ic.get("positions_err")))[:120], str(oc["positions"])[:120]),
                            {"code_index": k, "linetable": oc["fields"]["linetable"], "first": oc["fields"]["co_firstlineno"]}))
        if "co_lines" in oc and tuple(v) >= (3, 11):
            ex = lambda rs: sum([[c] * ((b - a) // 2) for a, b, c in rs], [])
            if "co_lines" not in ic or ex(ic["co_lines"]) != ex(oc["co_lines"]):
                out.append(("unitlines:%d" % k, "line of each code unit differs from co_lines()", {"code_index": k, "linetable": oc["fields"]["linetable"]}))
    return out


def port_value(v, c):
    """what a py3 host should hold for the producing interpreter's constant `c` (kinds explicit)"""
    k = c[0]
    if tuple(v) >= (3, 0):
        if k in ("tuple", "list", "set", "frozenset"):
            return [k, [port_value(v, x) for x in c[1]]] if k in ("tuple", "list") else [k, sorted((port_value(v, x) for x in c[1]), key=repr)]
        return c
    # Python 2 producer
    if k == "str2":
        raw = bytes.fromhex(c[1])
        try:
            return ["str", [ord(ch) for ch in raw.decode("utf-8")]]
        except UnicodeDecodeError:
            return ["bytes", c[1]]
    if k == "unicode":
        s = "".join(chr(x) for x in c[1])
        return ["unicode2", s.encode("utf-8", "surrogatepass").hex()]
    if k in ("tuple", "list"):
        return [k, [port_value(v, x) for x in c[1]]]
    if k in ("set", "frozenset"):
        return [k, sorted((port_value(v, x) for x in c[1]), key=repr)]
    return c


def diff_fields(v, name, o, im):
    """C01: every code-object field and constant, kind and value"""
    out = []
    pairs = _codes(o, im)
    if pairs is None:
        return [("load", "load failed or code-object count differs: %s" % str(im)[:300], {})]
    for k, (oc, ic) in enumerate(pairs):
        fo, fi = oc["fields"], ic["fields"]
        for f in ("co_argcount", "co_posonlyargcount", "co_kwonlyargcount", "co_nlocals", "co_stacksize", "co_flags", "co_firstlineno"):
            if f in fo and fi.get(f) != fo[f]:
                out.append(("field:%s:%d" % (f, k), "%s = %r, CPython %r" % (f, fi.get(f), fo[f]), {"code_index": k, "field": f}))
        for f in ("co_code", "linetable", "co_exceptiontable"):
            if f in fo and fi.get(f) != fo[f]:
                out.append(("field:%s:%d" % (f, k), "%s = %s, CPython %s" % (f, str(fi.get(f))[:60], fo[f][:60]), {"code_index": k, "field": f}))
        for f in ("co_names", "co_varnames", "co_freevars", "co_cellvars", "co_filename", "co_name", "co_qualname"):
            if f in fo:
                want = [port_value(v, x) for x in fo[f]] if isinstance(fo[f], list) and fo[f] and isinstance(fo[f][0], list) else \
                    (port_value(v, fo[f]) if fo[f] and not isinstance(fo[f][0], list) else fo[f])
                if fi.get(f) != want:
                    out.append(("field:%s:%d" % (f, k), "%s = %s, CPython %s" % (f, str(fi.get(f))[:100], str(want)[:100]), {"code_index": k, "field": f}))
        wc = [port_value(v, x) for x in fo["co_consts"]]
        if fi["co_consts"] != wc:
            j = next((x for x in range(min(len(wc), len(fi["co_consts"]))) if wc[x] != fi["co_consts"][x]), min(len(wc), len(fi["co_consts"])))
            out.append(("const:%d:%d" % (k, j), "constant %d is %s, CPython %s" % (j, str(fi["co_consts"][j:j + 1])[:120], str(wc[j:j + 1])[:120]),
                        {"code_index": k, "const_index": j}))
    return out

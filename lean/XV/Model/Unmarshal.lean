/-
Model of xdis/unmarshal.py: `_VersionIndependentUnmarshaller` (r_object, every t_* method
with its exact reference-table manipulation, compat_str, t_code's version-gated reads) as the
fixed tree has it, for a Python 3 host.  One Lean function per Python method, same order of reads.
-/
import XV.Base.Bytes
import XV.Base.Utf8
import XV.Model.Operand
namespace XV.Model.Unmarshal
open XV

inductive V where
  | none | tru | fls | ellipsis | stopIter
  | int (i : Int) | long (i : Int)
  | float (bits : Nat) | floatText (s : Bytes)
  | complex (re im : Nat) | complexText (re im : Bytes)
  | bytes (b : Bytes) | str (cps : List Nat) | u2 (raw : Bytes)
  | tuple (xs : List V) | list (xs : List V) | set (xs : List V) | fset (xs : List V)
  | dict (kvs : List (V × V))
  | code (fields : List (String × V))
  deriving Repr, Inhabited

inductive Err where
  | structError | typeError | indexError | keyError | valueError | unicodeError
  | recursionError | attributeError | assertionError | outOfFuel
  deriving Repr, DecidableEq

structure St where
  inp : Bytes
  refs : List V          -- internObjects
  strs : List V          -- internStrings
  deriving Inhabited

abbrev M := StateT St (Except Err)

/-- `fp.read(n)`: at most what remains; a negative count reads everything -/
def readN (n : Int) : M Bytes := do
  let s ← get
  if n < 0 then do set { s with inp := [] }; pure s.inp
  else do
    let k := n.toNat
    set { s with inp := s.inp.drop k }
    pure (s.inp.take k)

/-- `unpack(fmt, fp.read(k))`: struct.error unless exactly k bytes came back -/
def readExact (k : Nat) : M Bytes := do
  let b ← readN k
  if b.length = k then pure b else throw .structError

def rI32 : M Int := do let b ← readExact 4; pure (signedOf 4 (leNat b))
def rI16 : M Int := do let b ← readExact 2; pure (signedOf 2 (leNat b))
def rU8 : M Nat := do let b ← readExact 1; pure (leNat b)
def rI64 : M Int := do let b ← readExact 8; pure (signedOf 8 (leNat b))
def rU64 : M Nat := do let b ← readExact 8; pure (leNat b)

/-- `compat_str`: bytes that are valid (strict) UTF-8 become str -/
def compatStr (b : Bytes) : V :=
  match Utf8.decodeStrict b with
  | some cps => .str cps
  | Option.none => .bytes b

/-- `compat_str` applied to an already-built value: bytes are decoded when they are UTF-8 -/
def compatV : V → V
  | .bytes b => compatStr b
  | v => v

def rRef (v : V) (save : Bool) : M V := do
  if save then modify fun s => { s with refs := s.refs ++ [v] }
  pure v

def rRefReserve (v : V) (save : Bool) : M (Option Nat) := do
  if save then do
    let s ← get
    set { s with refs := s.refs ++ [v] }
    pure (some s.refs.length)
  else pure Option.none

def rRefInsert (v : V) (i : Option Nat) : M V := do
  match i with
  | some k => modify fun s => { s with refs := s.refs.set k v }
  | Option.none => pure ()
  pure v

/-- Python list indexing with a possibly negative index -/
def pyIndex (xs : List V) (i : Int) : Option V :=
  if i ≥ 0 then xs[i.toNat]? else if (-i).toNat ≤ xs.length then xs[xs.length - (-i).toNat]? else Option.none

structure Cfg where
  magic : Nat
  version : List Nat          -- magic_int2tuple(magic)
  marshalVersion : Nat
  isGraal : Bool
  depthLimit : Nat            -- Python's recursion limit expressed in r_object nestings

def verGeL (v : List Nat) (a b : Nat) : Bool :=
  match v with
  | x :: y :: _ => x > a || (x == a && y ≥ b)
  | [x] => x > a || (x == a && 0 ≥ b)
  | [] => false

/-! t_code's integer fields, each with the version tests of the Python source -/
def argcountM (c : Cfg) : M Int :=
  if verGeL c.version 2 3 then rI32 else if verGeL c.version 1 3 then rI16 else pure 0
def posonlyM (c : Cfg) : M V :=
  if verGeL c.version 3 8 then
    (if c.magic = 3400 ∨ c.magic = 3401 ∨ c.magic = 3410 ∨ c.magic = 3411 then pure (.int 0)
     else do let x ← rI32; pure (.int x)) else pure .none
def kwonlyM (c : Cfg) : M Int := if verGeL c.version 3 0 then rI32 else pure 0
def nlocalsM (c : Cfg) : M Int :=
  if !(verGeL c.version 3 11) then
    (if verGeL c.version 2 3 then rI32 else if verGeL c.version 1 3 then rI16 else pure 0) else pure 0
def stacksizeM (c : Cfg) : M Int :=
  if verGeL c.version 2 3 then rI32 else if verGeL c.version 1 5 then rI16 else pure 0
def flagsM (c : Cfg) : M Int :=
  if verGeL c.version 2 3 then rI32 else if verGeL c.version 1 3 then rI16 else pure 0
/-- co_firstlineno exists from 1.5 -/
def firstM (c : Cfg) : M Int :=
  if verGeL c.version 1 5 then (if verGeL c.version 2 3 then rI32 else rI16) else pure (-1)

mutual
/-- `r_object(bytes_for_s)`; `none` result = Python `None` from an unknown type code is modelled as V.none -/
def rObject (c : Cfg) : Nat → Nat → Bool → M V
  | 0, _, _ => throw .outOfFuel
  | fuel + 1, depth, bfs => do
    if depth > c.depthLimit then throw .recursionError else do
    let b ← readN 1
    match b with
    | [] => throw .typeError                   -- ord(b'')
    | byte1 :: _ =>
      let save := byte1 &&& 0x80 ≠ 0
      let ty := byte1 &&& 0x7F
      match ty with
      | 48 => pure .none                       -- '0' NULL
      | 78 => pure .none                       -- 'N'
      | 83 => pure .stopIter                   -- 'S'
      | 46 => pure .ellipsis                   -- '.'
      | 70 => pure .fls                        -- 'F'
      | 84 => pure .tru                        -- 'T'
      | 105 => do let i ← rI32; rRef (.int i) save                    -- 'i'
      | 108 => do                                                      -- 'l'
          let n ← rI32
          let size := n.natAbs
          let d ← rDigits size 0 0
          let d := if n < 0 then -d else d
          rRef (if verGeL c.version 3 0 then .int d else .long d) save
      | 73 => do                                                       -- 'I'
          let i ← rI64
          rRef (.int i) save
      | 102 => do let k ← rU8; let s ← readN k; rRef (.floatText s) save    -- 'f'
      | 103 => do let b ← rU64; rRef (.float b) save                         -- 'g'
      | 120 => do                                                      -- 'x'
          let k1 ← rU8; let s1 ← readN k1; let k2 ← rU8; let s2 ← readN k2
          rRef (.complexText s1 s2) save
      | 121 => do let r ← rU64; let i ← rU64; rRef (.complex r i) save        -- 'y'
      | 115 => do                                                      -- 's'
          let n ← rI32; let s ← readN n
          rRef (if bfs then .bytes s else compatStr s) save
      | 65 => do                                                       -- 'A' ASCII_interned
          let n ← rI32; let s ← readN n
          let v := compatStr s
          modify fun st => { st with strs := st.strs ++ [v] }
          rRef v save
      | 97 => do let n ← rI32; let s ← readN n; rRef (compatStr s) save      -- 'a'
      | 122 => do let n ← rU8; let s ← readN n; rRef (compatStr s) save      -- 'z'
      | 90 => do                                                       -- 'Z'
          let n ← rU8; let s ← readN n
          let v := compatStr s
          modify fun st => { st with strs := st.strs ++ [v] }
          rRef v save
      | 116 => do                                                      -- 't' interned
          let n ← rI32; let s ← readN n
          if verGeL c.version 3 0 then
            match Utf8.decodeSurrogatePass s with                      -- 3.4+: interned text
            | some cps => do
                modify fun st => { st with strs := st.strs ++ [.str cps] }
                rRef (.str cps) save
            | Option.none => throw .unicodeError
          else do                                                      -- Python 2: the raw str is kept
            modify fun st => { st with strs := st.strs ++ [.bytes s] }
            rRef (if bfs then .bytes s else compatStr s) save
      | 117 => do                                                      -- 'u'
          let n ← rI32; let s ← readN n
          if !(verGeL c.version 3 0) then rRef (.u2 s) save
          else match Utf8.decodeSurrogatePass s with
            | some cps => rRef (.str cps) save
            | Option.none => throw .unicodeError
      | 41 => do                                                       -- ')' small tuple
          let n ← rU8
          let i ← rRefReserve (.tuple []) save
          let xs ← rItems c fuel depth bfs n
          rRefInsert (.tuple xs) i
      | 40 => do                                                       -- '('
          let n ← rI32
          let i ← rRefReserve (.tuple []) save
          let xs ← rItems c fuel depth bfs n.toNat
          rRefInsert (.tuple xs) i
      | 91 => do                                                       -- '[' : the list object itself is registered and grows in place
          let n ← rI32
          let i ← rRefReserve (.list []) save
          let xs ← rItems c fuel depth bfs n.toNat
          rRefInsert (.list xs) i
      | 60 => do                                                       -- '<' set
          let n ← rI32
          let i ← rRefReserve (.tuple []) save
          let xs ← rItems c fuel depth bfs n.toNat
          rRefInsert (.set xs) i
      | 62 => do                                                       -- '>' frozenset
          let n ← rI32
          let i ← rRefReserve (.tuple []) save
          let xs ← rItems c fuel depth bfs n.toNat
          rRefInsert (.fset xs) i
      | 123 => do                                                      -- '{'
          let i ← rRefReserve (.dict []) save
          let kvs ← rDict c fuel depth bfs
          rRefInsert (.dict kvs) i
      | 82 => do                                                       -- 'R'
          let n ← rI32
          let s ← get
          match pyIndex s.strs n with
          | some v => pure (if bfs then v else compatV v)
          | Option.none => throw .indexError
      | 114 => do                                                      -- 'r'
          let n ← rI32
          let s ← get
          match pyIndex s.refs n with
          | some v => pure v
          | Option.none => throw .indexError
      | 99 => rCode c fuel depth save                                  -- 'c'
      | 67 => rCode c fuel depth save                                  -- 'C'
      | 63 => throw .keyError                                          -- '?'
      | _ => pure .none                                                -- unknown type: message on stderr, returns None

/-- the `for j in range(size)` loop of t_long: 15-bit signed digits -/
def rDigits : Nat → Nat → Int → M Int
  | 0, _, acc => pure acc
  | k + 1, j, acc => do
    let md ← rI16
    rDigits k (j + 1) (acc + md * (2 : Int) ^ (j * 15))

def rItems (c : Cfg) : Nat → Nat → Bool → Nat → M (List V)
  | 0, _, _, _ => throw .outOfFuel
  | _, _, _, 0 => pure []
  | fuel + 1, depth, bfs, n + 1 => do
    let x ← rObject c fuel (depth + 1) bfs
    let xs ← rItems c fuel depth bfs n
    pure (x :: xs)

def rDict (c : Cfg) : Nat → Nat → Bool → M (List (V × V))
  | 0, _, _ => throw .outOfFuel
  | fuel + 1, depth, bfs => do
    let b ← readN 1
    match b with
    | [] => pure []
    | [48] => pure []
    | x :: _ => do
      modify fun s => { s with inp := x :: s.inp }      -- fp.seek(-1, 1)
      let k ← rObject c fuel (depth + 1) bfs
      let v ← rObject c fuel (depth + 1) bfs
      let rest ← rDict c fuel depth bfs
      pure ((k, v) :: rest)

/-- t_code -/
def rCode (c : Cfg) : Nat → Nat → Bool → M V
  | 0, _, _ => throw .outOfFuel
  | fuel + 1, depth, save => do
    let slot ← rRefReserve .none save
    let v := c.version
    let ge := verGeL v
    let argcount ← argcountM c
    let posonly ← posonlyM c
    let kwonly ← kwonlyM c
    let nlocals ← nlocalsM c
    let stacksize ← stacksizeM c
    let flags ← flagsM c
    let code ← rObject c fuel (depth + 1) true
    let bfs := ge 3 0
    if c.isGraal then
      rRefInsert (.code [("graal", .tru), ("co_code", code)]) slot
    else do
    let consts ← rObject c fuel (depth + 1) bfs
    let names ← rObject c fuel (depth + 1) false          -- names are text in every Python 3 (PyPy 3.2 writes them as 's')
    if ge 3 11 then do
      let lpn ← rObject c fuel (depth + 1) bfs
      let lpk ← rObject c fuel (depth + 1) bfs
      let filename ← rObject c fuel (depth + 1) bfs
      let name ← rObject c fuel (depth + 1) bfs
      let qualname ← rObject c fuel (depth + 1) bfs
      let firstlineno ← rI32
      let linetable ← rObject c fuel (depth + 1) bfs
      let exctable ← rObject c fuel (depth + 1) bfs
      -- zip(names, kinds): names must be iterable of values, kinds a bytes object
      let ns : List V := match lpn with | .tuple xs => xs | .list xs => xs | _ => []
      let ks : Bytes := match lpk with | .bytes b => b | _ => []
      let tagged := (ns.zip ks)
      let vs := tagged.filterMap fun (n, k) => if k &&& 0x20 ≠ 0 then some n else Option.none
      let cs := tagged.filterMap fun (n, k) =>
        if k &&& 0x20 ≠ 0 then (if k &&& 0x40 ≠ 0 then some n else Option.none)
        else if k &&& 0x40 ≠ 0 then some n else Option.none
      let fs := tagged.filterMap fun (n, k) =>
        if k &&& 0x20 ≠ 0 then Option.none else if k &&& 0x40 ≠ 0 then Option.none
        else if k &&& 0x80 ≠ 0 then some n else Option.none
      rRefInsert (.code [("co_argcount", .int argcount), ("co_posonlyargcount", posonly), ("co_kwonlyargcount", .int kwonly),
        ("co_nlocals", .int vs.length), ("co_stacksize", .int stacksize), ("co_flags", .int flags), ("co_code", code),
        ("co_consts", consts), ("co_names", names), ("co_varnames", .tuple vs), ("co_freevars", .tuple fs),
        ("co_cellvars", .tuple cs), ("co_filename", filename), ("co_name", name), ("co_qualname", qualname),
        ("co_firstlineno", .int firstlineno), ("co_linetable", linetable), ("co_exceptiontable", exctable)]) slot
    else do
      let varnames ← (if ge 1 3 then rObject c fuel (depth + 1) false else pure (.tuple []))
      let freevars ← (if ge 2 1 then rObject c fuel (depth + 1) false else pure (V.tuple []))
      let cellvars ← (if ge 2 1 then rObject c fuel (depth + 1) false else pure (V.tuple []))
      let filename ← rObject c fuel (depth + 1) false
      let name ← rObject c fuel (depth + 1) false
      let firstlineno ← firstM c
      let lnotab ← (if ge 1 5 then rObject c fuel (depth + 1) true else pure (V.bytes []))
      rRefInsert (.code [("co_argcount", .int argcount), ("co_posonlyargcount", posonly), ("co_kwonlyargcount", .int kwonly),
        ("co_nlocals", .int nlocals), ("co_stacksize", .int stacksize), ("co_flags", .int flags), ("co_code", code),
        ("co_consts", consts), ("co_names", names), ("co_varnames", varnames), ("co_freevars", freevars),
        ("co_cellvars", cellvars), ("co_filename", filename), ("co_name", name),
        ("co_firstlineno", .int firstlineno), ("co_linetable", lnotab)]) slot
end

def marshalVersionOf (v : List Nat) (magic : Nat) : Nat :=
  if verGeL v 3 4 then (if magic = 3250 ∨ magic = 3260 ∨ magic = 3270 then 3 else 4)
  else if verGeL v 2 5 then 2 else if verGeL v 2 4 then 1 else 0

/-- `load_code(bytes, magic_int)`: returns the value and the unread remainder -/
def loadCode (magic : Nat) (version : List Nat) (graal : Bool) (limit : Nat) (data : Bytes) : Except Err (V × Bytes) :=
  let c : Cfg := { magic := magic, version := version, marshalVersion := marshalVersionOf version magic,
                   isGraal := graal, depthLimit := limit }
  match (rObject c (2 * data.length + 4) 0 false).run { inp := data, refs := [], strs := [] } with
  | .ok (v, s) => .ok (v, s.inp)
  | .error e => .error e

end XV.Model.Unmarshal

"""C02 — instruction stream decodes exactly as CPython's dis.  Theorems: lean/XV/Props/C02.lean."""
import json
import os
import random

import core
import progrun
import gen_code
from worker import Worker, Oracle

RULE = ("raw code strings over every defined opcode of every table with operand magnitudes needing 0-3 EXTENDED_ARG "
        "prefixes (first/middle/last position), inline cache slots from the reference tables; decoded by implementation, "
        "Lean Model, Lean Spec and the matching CPython's dis._unpack_opargs; distinct = distinct (table, code string)")


def load_refs():
    return {tuple(r["version"][:2]): r for r in json.load(open(os.path.join(core.BUILD, "refs.json")))}


def fmt_impl(r):
    if "instrs" not in r:
        return "(err %s)" % r.get("err")
    return ",".join("%d:%d:%s:%d:%d" % (i["offset"], i["opcode"], "none" if i["arg"] is None else i["arg"], i["size"], 1 if i["ext"] else 0)
                    for i in r["instrs"]) or "-"


def triples(r, drop_cache=True):
    return [(i["offset"], i["opcode"], i["arg"]) for i in r["instrs"] if not (drop_cache and i["opname"] == "CACHE")]


def fmt_triples(ts):
    return ",".join("%d:%d:%s" % (o, op, "none" if a is None else a) for o, op, a in ts) or "-"


def tiling_problem(r, info, n):
    """first offset 0, each next = previous + width, last ends at len(code)"""
    exp = 0
    for i in r["instrs"]:
        if i["offset"] != exp:
            return "instruction at %d, expected offset %d" % (i["offset"], exp)
        w = 2 if info["word"] else (3 if i["opcode"] >= info["have"] else 1)
        exp += w
    if exp != n:
        return "stream ends at %d, code length %d" % (exp, n)
    return None


def run(ctx):
    rep, drv = ctx.rep, ctx.driver
    rng = random.Random(ctx.seed)
    refs = load_refs()
    tabs = ctx.tables["optables"]
    w = Worker()
    oracles = {}
    progrun.apply(ctx, "diff_stream", "instruction stream")
    try:
        N = 25 if not ctx.thorough else 700
        names = [it.split(":")[0] for it in drv.ask(["c09.tables"])[0].split()]
        for tn in names:
            t = tabs[tn]
            v = tuple(t["version_tuple"][:2])
            ref = refs.get(v) if not t["is_pypy"] else None
            info = gen_code.table_info(t, ref)
            if info["cache"] is None:
                info["cache"] = {}
            cases = []
            # every defined opcode once, with a boundary operand
            for op in info["ops"]:
                if info["names"][op] in gen_code.RESTRICTED:
                    cases.append(bytes(gen_code.emit(info, op, gen_code.restricted(rng, info, op))))
                    continue
                for arg in ((0, 255, 256, 65535, 65536, 0x1000000) if op in info["hasarg"] else (None,)):
                    if arg is not None and arg > 0xFFFF and info["ext"] is None:
                        continue
                    cases.append(bytes(gen_code.emit(info, op, arg or 0)))
                    if not ctx.thorough and arg == 256:
                        break
            for _ in range(N):
                cases.append(gen_code.gen(rng, info)[0])
            # prefixes in first / middle / last position
            if info["ext"] is not None and info["ops"]:
                op_arg = next((o for o in info["ops"] if o in info["hasarg"] and o not in info["jrel"] and o not in info["jabs"]
                               and info["names"][o] not in gen_code.RESTRICTED), None)
                op_no = next((o for o in info["ops"] if o not in info["hasarg"]), None)
                if op_arg is not None and op_no is not None:
                    e = lambda o, a: bytes(gen_code.emit(info, o, a))
                    cases += [e(op_arg, 0x12345) + e(op_no, 0) + e(op_arg, 7), e(op_no, 0) + e(op_arg, 0x1234567 if info["word"] else 0x12345) + e(op_no, 0),
                              e(op_arg, 5) + e(op_no, 0) + e(op_arg, 0x10000)]
            louts = drv.ask(sum([["x.instrs %s %s" % (tn, c.hex() or "-"), "py.unpack %s %s" % (tn, c.hex() or "-")] for c in cases], []))
            o = None
            if ref is not None and v in core.ORACLES:
                if v not in oracles:
                    oracles[v] = Oracle(v)
                o = oracles[v]
            for k, code in enumerate(cases):
                mo, sp = louts[2 * k], louts[2 * k + 1]
                r = w.r("instrs", table=tn, code=code.hex())
                im = fmt_impl(r)
                rep.count(1, (tn, code))
                inp = {"table": tn, "version": list(v), "code": code.hex()}
                truth, src = sp, "Spec (no interpreter for this table)"
                if o is not None:
                    ot = o.r("unpack", code=code.hex())
                    if isinstance(ot, dict):
                        continue        # the interpreter itself rejects this string
                    ots = fmt_triples([tuple(x) for x in ot])
                    if ots != sp:
                        rep.notes.append("spec_drift unpack %s: spec %s oracle %s" % (inp, sp[:200], ots[:200]))
                    truth, src = ots, "CPython %d.%d dis._unpack_opargs" % v
                bad = None
                if "instrs" not in r:
                    bad = "decoder raised %s" % r.get("err")
                else:
                    tp = tiling_problem(r, info, len(code))
                    if tp:
                        bad = "stream does not tile the code: " + tp
                    elif fmt_triples(triples(r)) != truth:
                        bad = "xdis %s, expected %s" % (fmt_triples(triples(r))[:300], truth[:300])
                    elif info["refnames"]:
                        for i in r["instrs"]:
                            want = info["refnames"].get(i["opcode"])
                            if want is not None and i["opname"].replace("+", "_") != want.replace("+", "_"):
                                bad = "opcode %d at offset %d is named %r, CPython names it %r" % (i["opcode"], i["offset"], i["opname"], want)
                                break
                if bad:
                    rep.violation("decode:%s:%s" % (tn, code.hex()), "instruction stream differs from %s on %s: %s" % (src, inp, bad),
                                  dict(inp, call="get_instructions_bytes(code, opc)", actual=fmt_triples(triples(r)) if "instrs" in r else im, expected=truth, oracle=src))
                elif im != mo:
                    rep.violation("corr:instrs:%s:%s" % (tn, code.hex()), "Model of the decoder disagrees with implementation on %s: impl %s model %s" % (inp, im[:300], mo[:300]),
                                  dict(inp, impl=im, model=mo), found_input=False)
            rep.sample({"table": tn, "code": cases[-1].hex(), "decoded": louts[-2][:160]})
    finally:
        w.close()
        for o in oracles.values():
            o.close()


def replay(ctx, rp):
    r = rp.get("replay", {})
    print(json.dumps(r, indent=1)[:1200])
    w = Worker()
    try:
        if "code" in r and "table" in r:
            got = w.r("instrs", table=r["table"], code=r["code"])
            now = fmt_triples(triples(got)) if "instrs" in got else str(got)
            print("now:", now[:400])
            if now != r.get("expected"):
                ctx.rep.violation(rp["key"], rp["what"], r)
    finally:
        w.close()

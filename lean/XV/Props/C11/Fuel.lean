/-
C11 — the fuel of the unmarshaller Model is never the reason a load ends: for EVERY byte string,
`2·length + 4` units of fuel (what `loadCode` supplies) are never exhausted, because every nested
`r_object` consumes at least one byte and every loop iteration consumes a unit of fuel only together
with a byte.  So the outcome `MODEL-OUT-OF-FUEL` of `C11_class` cannot occur: the Model's answer is
always a Python outcome (a value, or one of the exception classes `except Exception` catches) — and
the recursion of the real reader is bounded by the length of the input.
-/
import XV.Model.Unmarshal
import XV.Model.LoadOutcome
import XV.Props.C11
namespace XV.Props.C11.Fuel
open XV XV.Model XV.Model.Unmarshal
set_option linter.unusedVariables false
set_option linter.unusedSimpArgs false

/-- with at most `B` unread bytes, `m` does not run out of fuel, and when it succeeds it has not
    lengthened the unread input (`strict`: it consumed at least one byte) -/
structure Ok (B : Nat) (strict : Bool) (m : M α) : Prop where
  run : ∀ s : St, s.inp.length ≤ B → m.run s ≠ .error .outOfFuel ∧
    ∀ a s', m.run s = .ok (a, s') → (if strict then s'.inp.length + 1 ≤ s.inp.length else s'.inp.length ≤ s.inp.length)

theorem M_run_bind (p : M α) (f : α → M β) (s : St) :
    (p >>= f).run s = match p.run s with | .ok (a, s') => (f a).run s' | .error er => .error er := by
  simp only [StateT.run, bind, StateT.bind, Except.bind]
  cases p s <;> rfl

theorem Ok.weaken {m : M α} {B : Nat} (h : Ok B true m) : Ok B false m := by
  refine ⟨fun s hs => ?_⟩
  obtain ⟨h1, h2⟩ := h.run s hs
  refine ⟨h1, fun a s' hr => ?_⟩
  have := h2 a s' hr
  simp only [if_true] at this
  simp only [Bool.false_eq_true, if_false]
  omega

/-- sequencing, non-strict first step -/
theorem Ok.seq {m : M α} {g : α → M β} {B : Nat} {st : Bool} (h1 : Ok B false m) (h2 : ∀ a, Ok B st (g a)) :
    Ok B st (m >>= g) := by
  refine ⟨fun s hs => ?_⟩
  obtain ⟨n1, p1⟩ := h1.run s hs
  rw [M_run_bind]
  cases hm : m.run s with
  | error er =>
    refine ⟨?_, fun a s' hr => by cases hr⟩
    intro h; cases h; exact n1 hm
  | ok r =>
    obtain ⟨a, s1⟩ := r
    have hl := p1 a s1 hm
    simp only [Bool.false_eq_true, if_false] at hl
    obtain ⟨n2, p2⟩ := (h2 a).run s1 (by omega)
    refine ⟨n2, fun b s' hr => ?_⟩
    have := p2 b s' hr
    cases st <;> simp at this ⊢ <;> omega

/-- sequencing after a step that consumed a byte: the rest runs with one byte less -/
theorem Ok.seqS {m : M α} {g : α → M β} {B : Nat} (h1 : Ok B true m) (h2 : 1 ≤ B → ∀ a, Ok (B - 1) false (g a)) :
    Ok B true (m >>= g) := by
  refine ⟨fun s hs => ?_⟩
  obtain ⟨n1, p1⟩ := h1.run s hs
  rw [M_run_bind]
  cases hm : m.run s with
  | error er =>
    refine ⟨?_, fun a s' hr => by cases hr⟩
    intro h; cases h; exact n1 hm
  | ok r =>
    obtain ⟨a, s1⟩ := r
    have hl := p1 a s1 hm
    simp only [if_true] at hl
    obtain ⟨n2, p2⟩ := (h2 (by omega) a).run s1 (by omega)
    refine ⟨n2, fun b s' hr => ?_⟩
    have := p2 b s' hr
    simp at this ⊢
    omega

theorem Ok.ret {B : Nat} (a : α) : Ok B false (pure a : M α) := by
  refine ⟨fun s _ => ?_⟩
  refine ⟨(by intro h; cases h), fun b s' hr => ?_⟩
  simp only [StateT.run, pure, StateT.pure, Except.pure] at hr
  cases hr
  simp

theorem Ok.raise {B : Nat} {st : Bool} (e : Err) (he : e ≠ .outOfFuel) : Ok B st (throw e : M α) := by
  refine ⟨fun s _ => ?_⟩
  have : (throw e : M α).run s = .error e := rfl
  refine ⟨(by rw [this]; intro h; cases h; exact he rfl), fun b s' hr => (by rw [this] at hr; cases hr)⟩

theorem Ok.ite {B : Nat} {st : Bool} {c : Prop} [Decidable c] {m1 m2 : M α} (h1 : Ok B st m1) (h2 : Ok B st m2) :
    Ok B st (if c then m1 else m2) := by
  split <;> assumption

/-! ### primitives -/

theorem ok_readN {B : Nat} (n : Int) : Ok B false (readN n) := by
  refine ⟨fun s _ => ?_⟩
  unfold readN
  by_cases hn : n < 0
  · simp [hn, bind, StateT.bind, get, getThe, MonadStateOf.get, StateT.get, pure, Except.pure, StateT.run, set,
      StateT.set, StateT.pure, Except.bind]
    all_goals try (intro _ _ _ h; subst h; simp)
  · simp [hn, bind, StateT.bind, get, getThe, MonadStateOf.get, StateT.get, pure, Except.pure, StateT.run, set,
      StateT.set, StateT.pure, Except.bind]
    all_goals try (intro _ _ _ h; subst h; simp)

theorem ok_readExact {B : Nat} (k : Nat) : Ok B false (readExact k) := by
  unfold readExact
  refine Ok.seq (ok_readN _) (fun b => ?_)
  split
  · exact Ok.ret _
  · exact Ok.raise _ (by decide)

theorem ok_rI32 {B : Nat} : Ok B false rI32 := Ok.seq (ok_readExact 4) (fun _ => Ok.ret _)
theorem ok_rI16 {B : Nat} : Ok B false rI16 := Ok.seq (ok_readExact 2) (fun _ => Ok.ret _)
theorem ok_rU8 {B : Nat} : Ok B false rU8 := Ok.seq (ok_readExact 1) (fun _ => Ok.ret _)
theorem ok_rI64 {B : Nat} : Ok B false rI64 := Ok.seq (ok_readExact 8) (fun _ => Ok.ret _)
theorem ok_rU64 {B : Nat} : Ok B false rU64 := Ok.seq (ok_readExact 8) (fun _ => Ok.ret _)

/-- steps that leave the input alone -/
theorem ok_state {B : Nat} (m : M α) (h : ∀ s, ∃ a s', m.run s = .ok (a, s') ∧ s'.inp = s.inp) : Ok B false m := by
  refine ⟨fun s _ => ?_⟩
  obtain ⟨a, s', hr, hi⟩ := h s
  refine ⟨(by rw [hr]; intro h; cases h), fun b s'' hr2 => ?_⟩
  rw [hr] at hr2
  cases hr2
  simp [hi]

theorem ok_rRef {B : Nat} (v : V) (save : Bool) : Ok B false (rRef v save) := by
  apply ok_state
  intro s
  cases save <;>
  simp [rRef, bind, StateT.bind, pure, Except.pure, StateT.run, StateT.pure, modify, modifyGet,
    MonadStateOf.modifyGet, StateT.modifyGet, Except.bind] <;> exact ⟨_, _, ⟨rfl, rfl⟩, rfl⟩

theorem ok_rRefReserve {B : Nat} (v : V) (save : Bool) : Ok B false (rRefReserve v save) := by
  apply ok_state
  intro s
  cases save <;>
  simp [rRefReserve, bind, StateT.bind, pure, Except.pure, StateT.run, StateT.pure, get, getThe,
    MonadStateOf.get, StateT.get, set, StateT.set, Except.bind] <;> exact ⟨_, _, ⟨rfl, rfl⟩, rfl⟩

theorem ok_rRefInsert {B : Nat} (v : V) (i : Option Nat) : Ok B false (rRefInsert v i) := by
  apply ok_state
  intro s
  cases i <;>
  simp [rRefInsert, bind, StateT.bind, pure, Except.pure, StateT.run, StateT.pure, modify, modifyGet,
    MonadStateOf.modifyGet, StateT.modifyGet, Except.bind] <;> exact ⟨_, _, ⟨rfl, rfl⟩, rfl⟩

theorem ok_modStrs {B : Nat} (v : V) : Ok B false (modify fun st => { st with strs := st.strs ++ [v] } : M Unit) := by
  apply ok_state
  intro s
  simp [bind, StateT.bind, pure, Except.pure, StateT.run, StateT.pure, modify, modifyGet,
    MonadStateOf.modifyGet, StateT.modifyGet, Except.bind]

theorem ok_get {B : Nat} : Ok B false (get : M St) := by
  apply ok_state
  intro s
  exact ⟨s, s, rfl, rfl⟩

theorem ok_rDigits {B : Nat} : ∀ (k j : Nat) (acc : Int), Ok B false (rDigits k j acc) := by
  intro k
  induction k with
  | zero => intro j acc; rw [rDigits]; exact Ok.ret _
  | succ k ih => intro j acc; rw [rDigits]; exact Ok.seq ok_rI16 (fun _ => ih _ _)

/-! ### the readers -/

set_option maxHeartbeats 2000000

theorem ok_head {B : Nat} (g : Nat → Bytes → M α) (h : 1 ≤ B → ∀ x t, Ok (B - 1) false (g x t)) :
    Ok B true (do let b ← readN 1
                  match b with
                  | [] => throw Err.typeError
                  | x :: t => g x t) := by
  refine ⟨fun s hs => ?_⟩
  rw [M_run_bind]
  have hr : (readN 1).run s = .ok (s.inp.take 1, { s with inp := s.inp.drop 1 }) := by
    unfold readN
    simp [bind, StateT.bind, get, getThe, MonadStateOf.get, StateT.get, pure, Except.pure, StateT.run, set,
      StateT.set, StateT.pure, Except.bind]
  rw [hr]
  cases hi : s.inp with
  | nil =>
    simp only [List.take_nil]
    refine ⟨(by intro h; cases h), fun a s' hr2 => (by cases hr2)⟩
  | cons x rest =>
    simp only [List.take_succ_cons, List.take_zero, List.drop_succ_cons, List.drop_zero]
    have hB : 1 ≤ B := by rw [hi] at hs; simp at hs; omega
    obtain ⟨n2, p2⟩ := (h hB x []).run { s with inp := rest } (by rw [hi] at hs; simp at hs ⊢; omega)
    refine ⟨n2, fun a s' hr2 => ?_⟩
    have := p2 a s' hr2
    simp at this ⊢
    omega

macro "ok_auto" : tactic => `(tactic| repeat' (first
  | exact Ok.ret _ | exact ok_rI32 | exact ok_rI16 | exact ok_rU8 | exact ok_rI64 | exact ok_rU64
  | exact ok_readN _ | exact ok_rRef _ _ | exact ok_rRefReserve _ _ | exact ok_rRefInsert _ _
  | exact ok_modStrs _ | exact ok_get | exact ok_rDigits _ _ _
  | exact Ok.raise _ (by decide)
  | (apply Ok.seq)
  | (intro _)
  | (apply Ok.ite)
  | split))

theorem obj_step (c : Cfg) (f d : Nat) (bfs : Bool) (B : Nat) (hB : 2 * B + 1 ≤ f + 1)
    (hI : ∀ n B', 2 * B' + 2 ≤ f → Ok B' false (rItems c f d bfs n))
    (hD : ∀ B', 2 * B' + 2 ≤ f → Ok B' false (rDict c f d bfs))
    (hC : ∀ save B', 2 * B' + 2 ≤ f → Ok B' false (rCode c f d save)) :
    Ok B true (rObject c (f + 1) d bfs) := by
  rw [rObject]
  by_cases hd : d > c.depthLimit
  · simp only [hd, if_true]; exact Ok.raise _ (by decide)
  · simp only [hd, if_false]
    refine ok_head _ (fun hB1 x t => ?_)
    have hI' := fun n => hI n (B - 1) (by omega)
    have hD' := hD (B - 1) (by omega)
    have hC' := fun save => hC save (B - 1) (by omega)
    split
    all_goals first
      | exact hC' _
      | ok_auto
    all_goals first
      | exact hI' _
      | exact hD'
      | skip

theorem items_step (c : Cfg) (f d : Nat) (bfs : Bool) (n B : Nat) (hB : 2 * B + 2 ≤ f + 1)
    (hO : ∀ d' B', 2 * B' + 1 ≤ f → Ok B' true (rObject c f d' bfs))
    (hI : ∀ n B', 2 * B' + 2 ≤ f → Ok B' false (rItems c f d bfs n)) :
    Ok B false (rItems c (f + 1) d bfs n) := by
  cases n with
  | zero =>
    rw [rItems]
    · exact Ok.ret _
    · omega
  | succ n =>
    rw [rItems]
    refine Ok.weaken (Ok.seqS (hO _ B (by omega)) (fun hB1 x => ?_))
    exact Ok.seq (hI n (B - 1) (by omega)) (fun xs => Ok.ret _)

theorem dict_step (c : Cfg) (f d : Nat) (bfs : Bool) (B : Nat) (hB : 2 * B + 2 ≤ f + 1)
    (hO : ∀ d' B', 2 * B' + 1 ≤ f → Ok B' true (rObject c f d' bfs))
    (hD : ∀ B', 2 * B' + 2 ≤ f → Ok B' false (rDict c f d bfs)) :
    Ok B false (rDict c (f + 1) d bfs) := by
  rw [rDict]
  refine ⟨fun s hs => ?_⟩
  rw [M_run_bind]
  have hr : (readN 1).run s = .ok (s.inp.take 1, { s with inp := s.inp.drop 1 }) := by
    unfold readN
    simp [bind, StateT.bind, get, getThe, MonadStateOf.get, StateT.get, pure, Except.pure, StateT.run, set,
      StateT.set, StateT.pure, Except.bind]
  rw [hr]
  cases hi : s.inp with
  | nil =>
    simp only [List.take_nil]
    refine ⟨(by intro h; cases h), fun a s' hr2 => ?_⟩
    simp [StateT.run, pure, StateT.pure, Except.pure] at hr2
    obtain ⟨_, rfl⟩ := hr2
    simp
  | cons x rest =>
    simp only [List.take_succ_cons, List.take_zero, List.drop_succ_cons, List.drop_zero]
    have hlen : rest.length + 1 ≤ B := by rw [hi] at hs; simpa using hs
    have hbody : Ok B false (do
        let k ← rObject c f (d + 1) bfs
        let v ← rObject c f (d + 1) bfs
        let rest ← rDict c f d bfs
        pure ((k, v) :: rest)) := by
      refine Ok.weaken (Ok.seqS (hO _ B (by omega)) (fun _ k => ?_))
      refine Ok.weaken (Ok.seqS (hO _ (B - 1) (by omega)) (fun _ v => ?_))
      exact Ok.seq (hD (B - 1 - 1) (by omega)) (fun _ => Ok.ret _)
    split
    · rename_i heq; cases heq
    · refine ⟨(by intro h; cases h), fun a s' hr2 => ?_⟩
      simp [StateT.run, pure, StateT.pure, Except.pure] at hr2
      obtain ⟨_, rfl⟩ := hr2
      simp
    · rename_i bb y tl hne heq
      simp at heq
      obtain ⟨rfl, _⟩ := heq
      obtain ⟨n2, p2⟩ := hbody.run { s with inp := x :: rest } (by simp; omega)
      have hback : ∀ (g : M (List (V × V))),
          ((modify fun s : St => { s with inp := x :: s.inp }) >>= fun _ => g).run { s with inp := rest } =
            g.run { s with inp := x :: rest } := by
        intro g
        simp [bind, StateT.bind, StateT.run, modify, modifyGet, MonadStateOf.modifyGet, StateT.modifyGet, pure,
          Except.pure, Except.bind]
      rw [hback]
      refine ⟨n2, fun a s' hr2 => ?_⟩
      have := p2 a s' hr2
      simp at this ⊢
      omega

theorem ok_argcountM {B : Nat} (c : Cfg) : Ok B false (argcountM c) := by unfold argcountM; ok_auto
theorem ok_posonlyM {B : Nat} (c : Cfg) : Ok B false (posonlyM c) := by unfold posonlyM; ok_auto
theorem ok_kwonlyM {B : Nat} (c : Cfg) : Ok B false (kwonlyM c) := by unfold kwonlyM; ok_auto
theorem ok_nlocalsM {B : Nat} (c : Cfg) : Ok B false (nlocalsM c) := by unfold nlocalsM; ok_auto
theorem ok_stacksizeM {B : Nat} (c : Cfg) : Ok B false (stacksizeM c) := by unfold stacksizeM; ok_auto
theorem ok_flagsM {B : Nat} (c : Cfg) : Ok B false (flagsM c) := by unfold flagsM; ok_auto
theorem ok_firstM {B : Nat} (c : Cfg) : Ok B false (firstM c) := by unfold firstM; ok_auto

theorem code_step (c : Cfg) (f d : Nat) (save : Bool) (B : Nat) (hB : 2 * B + 2 ≤ f + 1)
    (hO : ∀ d' bfs B', 2 * B' + 1 ≤ f → Ok B' true (rObject c f d' bfs)) :
    Ok B false (rCode c (f + 1) d save) := by
  rw [rCode]
  have hobj : ∀ d' bfs, Ok B false (rObject c f d' bfs) := fun d' bfs => Ok.weaken (hO d' bfs B (by omega))
  simp only []
  repeat' (first
    | exact Ok.ret _ | exact ok_rI32
    | exact ok_argcountM c | exact ok_posonlyM c | exact ok_kwonlyM c | exact ok_nlocalsM c | exact ok_stacksizeM c
    | exact ok_flagsM c | exact ok_firstM c
    | exact hobj _ _
    | exact ok_rRefReserve _ _ | exact ok_rRefInsert _ _
    | (apply Ok.seq)
    | (intro _)
    | (apply Ok.ite)
    | split)

/-- the four mutually recursive readers never run out of fuel given twice the unread length (+1 / +2) -/
theorem fuel_all (c : Cfg) : ∀ f,
    (∀ d bfs B, 2 * B + 1 ≤ f → Ok B true (rObject c f d bfs)) ∧
    (∀ d bfs n B, 2 * B + 2 ≤ f → Ok B false (rItems c f d bfs n)) ∧
    (∀ d bfs B, 2 * B + 2 ≤ f → Ok B false (rDict c f d bfs)) ∧
    (∀ d save B, 2 * B + 2 ≤ f → Ok B false (rCode c f d save)) := by
  intro f
  induction f with
  | zero =>
    refine ⟨fun d bfs B h => by omega, fun d bfs n B h => by omega, fun d bfs B h => by omega, fun d save B h => by omega⟩
  | succ f ih =>
    obtain ⟨iO, iI, iD, iC⟩ := ih
    refine ⟨?_, ?_, ?_, ?_⟩
    · intro d bfs B hB
      exact obj_step c f d bfs B hB (fun n B' h => iI d bfs n B' h) (fun B' h => iD d bfs B' h) (fun save B' h => iC d save B' h)
    · intro d bfs n B hB
      exact items_step c f d bfs n B hB (fun d' B' h => iO d' bfs B' h) (fun n B' h => iI d bfs n B' h)
    · intro d bfs B hB
      exact dict_step c f d bfs B hB (fun d' B' h => iO d' bfs B' h) (fun B' h => iD d bfs B' h)
    · intro d save B hB
      exact code_step c f d save B hB (fun d' bfs B' h => iO d' bfs B' h)

/-- C11_fuel: `load_code` on ANY byte string never ends for lack of fuel -/
theorem C11_fuel (magic : Nat) (version : List Nat) (graal : Bool) (limit : Nat) (data : Bytes) :
    loadCode magic version graal limit data ≠ .error .outOfFuel := by
  unfold loadCode
  simp only []
  generalize hcfg : ({ magic := magic, version := version, marshalVersion := marshalVersionOf version magic, isGraal := graal, depthLimit := limit } : Cfg) = cfg
  have h := (fuel_all cfg (2 * data.length + 4)).1 0 false data.length (by omega)
  have := (h.run { inp := data, refs := [], strs := [] } (Nat.le_refl _)).1
  intro hcontra
  split at hcontra
  · cases hcontra
  · rename_i e he
    cases hcontra
    exact this he

open XV.Model.LoadOutcome in
/-- C11_clean: C11_class without the Model's own escape hatch — whatever the bytes of the file,
    whatever the recursion limit and whatever the tables hold, the portable path of load_module
    either returns or raises ImportError (the native fast path is a parameter) -/
theorem C11_clean (tb : Header.Tables) (graal : List Nat) (limit hostMagic : Nat)
    (native : Bytes → Outcome) (data : Bytes) :
    clean (loadModule tb graal limit hostMagic native data) = true ∨
    (∃ b, loadModule tb graal limit hostMagic native data = native b) := by
  unfold loadModule
  by_cases h50 : data.length < 50
  · simp [h50, clean]
  · simp only [h50, if_false]
    have h4 : 4 ≤ data.length := by omega
    have hc := XV.Props.C11.header_clean tb data false h4
    cases hh : Header.load tb data false with
    | importError => simp [clean]
    | dropbox => simp [clean]
    | escaped c => exact absurd hh (hc c)
    | ok v t m p s sip pos =>
      simp only
      by_cases hm : m = hostMagic
      · simp only [hm, if_true]; right; exact ⟨_, rfl⟩
      · simp only [hm, if_false]
        cases Header.tupleOf tb m with
        | none => simp [clean]
        | some ver =>
          simp only
          have hfuel := C11_fuel m ver (graal.contains m) limit (data.drop pos)
          cases hl : Unmarshal.loadCode m ver (graal.contains m) limit (data.drop pos) with
          | ok r => simp [ofUnmarshal, clean]
          | error e =>
            cases e <;> first | exact absurd hl hfuel | simp [ofUnmarshal, clean]

end XV.Props.C11.Fuel

"""C01 — unmarshalled code objects equal CPython's.  Theorems: lean/XV/Props/C01.lean."""
import json
import os
import random

import core
import gen_marshal
import mcanon
import progcheck
import progrun
from props.C10 import magic_for, fix_text_floats
from worker import Worker, Oracle

RULE = ("(a) every corpus/generated program compiled by 2.7 and 3.6-3.13: every field of every code object (argument counts, "
        "flags, stack size, code, names, var/free/cell names incl. the 3.11 split, filename, name, qualname, first line, line "
        "table, exception table) and every constant by kind and value vs that interpreter, and the payload consumed exactly; "
        "(b) the historical .pyc corpus of /repo/test: loads completely, Model = implementation, payload consumed; "
        "distinct = distinct (version, program, code object) or corpus file")


def corpus_files():
    out = []
    root = os.path.join(core.REPO, "test")
    for d, _, fs in sorted(os.walk(root)):
        for f in sorted(fs):
            if f.endswith((".pyc", ".pyo")):
                out.append(os.path.join(d, f))
    return out


def run(ctx):
    rep, drv = ctx.rep, ctx.driver
    progrun.apply(ctx, "diff_fields", "code-object fields / constants")
    rng = random.Random(ctx.seed)
    w = Worker()
    try:
        # payload consumed "no more, no less" + Model tie, on compiled programs and the historical corpus
        items = []
        oracles = {}
        for v in sorted(core.ORACLES):
            for name, src in sorted(progcheck.program_set(random.Random(ctx.seed + 17), 3).items()):
                if name in progrun.HEAVY and not ctx.thorough:
                    continue
                if name == "extarg3" and v != (3, 8):
                    continue      # 65 800 flagged names: the list-based Model appends to its reference table in quadratic time
                o = progcheck.oracle_compile(v, name, src, oracles)
                if "pyc" in o:
                    data = bytes.fromhex(o["pyc"])
                    hl = 16 if v >= (3, 7) else 12 if v >= (3, 3) else 8
                    items.append(("prog:%d.%d:%s" % (v[0], v[1], name), o["magic"], data[hl:], v))
                    nf = bytes.fromhex(o.get("payload_unflagged", ""))
                    if nf and nf != data[hl:] and name != "extarg3":
                        items.append(("prog-unflagged:%d.%d:%s" % (v[0], v[1], name), o["magic"], nf, v))
        for o in oracles.values():
            o.close()
        files = corpus_files()
        if not ctx.thorough:
            rng.shuffle(files)
            files = files[:70]
        known_magics = set(m for m, _ in ctx.tables["magics"]["magicint2version"])
        for f in files:
            data = open(f, "rb").read()
            magic = data[0] + 256 * data[1]
            if magic not in known_magics or magic in (62135,):
                continue
            ver = None
            for row in ctx.tables["magics"]["accepted"]:
                if row["magic"] == magic:
                    ver = tuple(row["tuple"][:2]) if row["tuple"] else None
            if ver is None:
                continue
            hl = 16 if (ver >= (3, 7) or magic == 3439) else 12 if (3210 <= magic < 20121 and ver >= (1, 5)) or magic in ctx.tables["magics"]["PYPY3_MAGICS"] else 8
            if data[:1] == b"0":          # PyPy 3.2
                magic, hl = 3187, 8
            items.append(("corpus:" + os.path.relpath(f, core.REPO), magic, data[hl:], ver))
        outs = drv.ask(["x.unmarshal %d 400 %s" % (m, p.hex() or "-") for _, m, p, _ in items])
        trees = {}
        for (name, magic, payload, ver), mo in zip(items, outs):
            r = w.r("unmarshal", magic=magic, hex=payload.hex())
            rep.count(1, name)
            if "tree" in r:
                trees[name] = mcanon.render(r["tree"])
                base = trees.get(name.replace("prog-unflagged:", "prog:"))
                if name.startswith("prog-unflagged:") and base is not None and base != trees[name]:
                    i = next((j for j in range(min(len(base), len(trees[name]))) if base[j] != trees[name][j]), 0)
                    rep.violation("unflagged:" + name, "the same program written by marshal.dumps(compile(...)) (top-level code object without FLAG_REF) "
                                  "loads to a different code object than its .pyc: ..%s.. vs ..%s.." % (trees[name][max(0, i - 60):i + 60], base[max(0, i - 60):i + 60]),
                                  {"input": name, "magic": magic, "payload": payload.hex()[:20000]})
            inp = {"input": name, "magic": magic, "payload_len": len(payload)}
            if "tree" not in r:
                rep.violation("load:" + name, "load_code raised %s (%s) on %s" % (r.get("err"), r.get("msg"), inp), dict(inp, payload=payload.hex()[:20000]))
                continue
            if r["consumed"] != len(payload):
                rep.violation("consumed:" + name, "payload of %d bytes, %d consumed on %s" % (len(payload), r["consumed"], inp),
                              dict(inp, payload=payload.hex()[:20000], consumed=r["consumed"]))
            im = "%d %s" % (len(payload) - r["consumed"], mcanon.render(r["tree"]))
            mo = fix_text_floats(mo)
            if im != mo:
                i = next((j for j in range(min(len(im), len(mo))) if im[j] != mo[j]), 0)
                rep.violation("corr:unmarshal:" + name, "Model of the unmarshaller disagrees with implementation on %s: impl ..%s.. model ..%s.." % (inp, im[max(0, i - 60):i + 60], mo[max(0, i - 60):i + 60]),
                              dict(inp, payload=payload.hex()[:20000]), found_input=False)
        rep.sample({"files_and_programs": len(items), "example": items[0][0], "decoded": outs[0][:200]})
        # hypotheses of C01_main on real payloads: the strict guards of the Spec accept what the
        # compilers wrote, and where they do the guarded and the unguarded Spec agree
        vv = [(n, m, p, v) for n, m, p, v in items if v is not None and len(p) < 200000]
        so = drv.ask(sum([["py.unmarshal_strict %d %d %s" % (v[0], v[1], p.hex() or "-"),
                           "py.unmarshal %d %d %s" % (v[0], v[1], p.hex() or "-")] for _, _, p, v in vv], []))
        n_ok = n_hyp = 0
        outside = []
        for k, (name, magic, payload, ver) in enumerate(vv):
            st, ns = so[2 * k], so[2 * k + 1]
            hyp = bool(payload) and (payload[0] & 0x7F) == 99 and magic not in (3400, 3401, 3410, 3411)
            n_hyp += hyp
            if st.startswith("(err"):
                if not ns.startswith("(err"):
                    outside.append(name)
                continue
            n_ok += 1
            if st != ns:
                rep.notes.append("spec_drift strict vs unguarded Spec on %s" % name)
        rep.coverage["C01_main_hypotheses"] = {"payloads": len(vv), "code_object_and_released_magic": n_hyp,
                                               "accepted_by_strict_spec": n_ok, "outside_strict_guards": outside[:20]}
    finally:
        w.close()


def replay(ctx, rp):
    print(json.dumps(rp.get("replay"), indent=1)[:1500])
    r = rp.get("replay", {})
    if "payload" in r and "magic" in r:
        w = Worker()
        try:
            got = w.r("unmarshal", magic=r["magic"], hex=r["payload"])
            print("now:", str(got)[:300])
            if "tree" not in got or got["consumed"] != r.get("payload_len"):
                ctx.rep.violation(rp["key"], rp["what"], r)
        finally:
            w.close()

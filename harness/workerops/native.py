"""implementation-side, under each host: native <-> portable code objects (C16) and xdis.std (C20)"""
import sys
import types

FIELDS = ["co_argcount", "co_posonlyargcount", "co_kwonlyargcount", "co_nlocals", "co_stacksize", "co_flags", "co_code", "co_consts",
          "co_names", "co_varnames", "co_freevars", "co_cellvars", "co_filename", "co_name", "co_qualname", "co_firstlineno",
          "co_lnotab", "co_linetable", "co_exceptiontable"]


def walk(co):
    yield co
    for c in co.co_consts:
        if isinstance(c, types.CodeType):
            for x in walk(c):
                yield x


def native_fields(co):
    import warnings
    d = {}
    with warnings.catch_warnings():
        warnings.simplefilter("ignore")
        for f in FIELDS:
            if f == "co_lnotab" and sys.version_info >= (3, 10):
                continue        # derived (and deprecated) on 3.10+: the real table is co_linetable
            if hasattr(co, f):
                v = getattr(co, f)
                d[f] = v.hex() if isinstance(v, bytes) else (repr(v) if not isinstance(v, (int, str)) else v)
    return d


def sources():
    """code objects of this host: a few stdlib modules compiled from source + tricky snippets"""
    import os
    out = []
    lib = os.path.dirname(os.__file__)
    for m in ("colorsys.py", "bisect.py", "heapq.py", "textwrap.py", "contextlib.py", "dis.py", "functools.py", "string.py"):
        p = os.path.join(lib, m)
        if os.path.exists(p):
            out.append((m, open(p).read()))
    out.append(("snip1", "def f(a, b=1, *c, d, e=2, **g):\n    def h():\n        return a, d\n    return h\nclass K:\n    def m(self):\n        return [x for x in self.y if x]\n"))
    out.append(("snip2", "def g(a, b, /, c, *, k):\n    try:\n        with open(a) as f:\n            return f.read(), k\n    except OSError as e:\n        raise\n    finally:\n        b = None\nasync def co(x):\n    async for y in x:\n        await y\n"))
    out.append(("snip3", "x = 1\n" + "\n" * 300 + "y = (2 +\n 3)\nz = f(x,\n\n\n y)\n"))
    # code objects that compare == for CPython but differ in fields its __eq__ ignores
    same = "def f(a):\n    x = a\n    return x\nclass A:\n    def m(self):\n        return 1\nclass B:\n    def m(self):\n        return 1\n"
    out.insert(0, ("dir1/same.py", "def f(a):\n    x = a\n\n\n    return x\n"))
    out.insert(0, ("dir2/same.py", same))
    out.insert(0, ("dir1/same.py", same))
    return out


def register(op):
    @op
    def native_roundtrip(a):
        """codeType2Portable(co).to_native() for every code object of this host's sources"""
        from xdis.codetype import codeType2Portable, portableCodeType
        res = {"host": list(sys.version_info[:3]), "total": 0, "bad": [], "classes": {}}
        lim = a.get("limit", 100000)
        for name, src in sources():
            try:
                top = compile(src, name, "exec")
            except SyntaxError:
                continue
            for k, co in enumerate(walk(top)):
                if res["total"] >= lim:
                    break
                res["total"] += 1
                where = "%s:%d:%s" % (name, k, co.co_name)
                try:
                    p = codeType2Portable(co)
                    cls = type(p).__name__
                    res["classes"][cls] = res["classes"].get(cls, 0) + 1
                    want_cls = portableCodeType().__name__
                    if cls != want_cls:
                        res["bad"].append([where, "class", cls, want_cls])
                        continue
                    before = native_fields(co)
                    # a second conversion is independent of what was done to the first result
                    p.co_name = "mutated_by_caller"
                    p.co_consts = ("mutated",)
                    p = codeType2Portable(co)
                    if p.co_name != co.co_name or p.co_filename != co.co_filename:
                        res["bad"].append([where, "second-conversion", "%s %s" % (p.co_name, p.co_filename), "%s %s" % (co.co_name, co.co_filename)])
                        continue
                    n = p.to_native()
                    if not isinstance(n, types.CodeType):
                        res["bad"].append([where, "to_native-type", type(n).__name__, "code"])
                        continue
                    f0, f1 = native_fields(co), native_fields(n)
                    d = [f for f in f0 if f0[f] != f1.get(f)]
                    if d:
                        res["bad"].append([where, "field:" + d[0], str(f1.get(d[0]))[:80], str(f0[d[0]])[:80]])
                        continue
                    # replace(): a changed copy, the original untouched (the native object too)
                    snap = {f: (getattr(p, f) if not isinstance(getattr(p, f, None), (list, dict)) else repr(getattr(p, f))) for f in FIELDS if hasattr(p, f)}
                    q = p.replace(co_name="zz_renamed", co_firstlineno=co.co_firstlineno + 5)
                    if q is p or q.co_name != "zz_renamed" or q.co_firstlineno != co.co_firstlineno + 5:
                        res["bad"].append([where, "replace-result", q.co_name, "zz_renamed"])
                        continue
                    after = {f: (getattr(p, f) if not isinstance(getattr(p, f, None), (list, dict)) else repr(getattr(p, f))) for f in FIELDS if hasattr(p, f)}
                    if after != snap or native_fields(co) != before:
                        res["bad"].append([where, "replace-mutated-original", "", ""])
                        continue
                    others = [f for f in FIELDS if hasattr(p, f) and f not in ("co_name", "co_firstlineno") and getattr(q, f) != getattr(p, f)]
                    if others:
                        res["bad"].append([where, "replace-changed-other-field:" + others[0], "", ""])
                except Exception as e:  # noqa
                    res["bad"].append([where, "exception", type(e).__name__ + ":" + str(e)[:80], ""])
        res["bad"] = res["bad"][:40]
        return res


def register2(op):
    @op
    def to_native_arg_order(a):
        """the field each positional argument of types.CodeType(...) is taken from, observed by
        substituting a recorder for `types` in the code type's module"""
        import importlib
        from xdis.codetype import codeType2Portable

        def sample(x, y, /, z=1, *, k=2):
            try:
                return x + y + z + k
            except Exception:
                raise
        p = codeType2Portable(sample.__code__)
        mod = importlib.import_module(type(p).__module__)

        class Rec:
            class CodeType:
                def __init__(self, *args):
                    self.args = args
        # distinct, recognisable values per field
        marks = {}
        for i, f in enumerate(FIELDS):
            if hasattr(p, f):
                marks[f] = getattr(p, f)
        saved = mod.types
        mod.types = Rec
        try:
            r = p.to_native()
        finally:
            mod.types = saved
        order = []
        for x in r.args:
            hit = [f for f in FIELDS if hasattr(p, f) and getattr(p, f) is x or (hasattr(p, f) and type(getattr(p, f)) is type(x) and getattr(p, f) == x and not isinstance(x, int))]
            if isinstance(x, int):
                hit = [f for f in ("co_argcount", "co_posonlyargcount", "co_kwonlyargcount", "co_nlocals", "co_stacksize", "co_flags", "co_firstlineno")
                       if getattr(p, f, None) == x]
            order.append(hit[0] if len(hit) == 1 else "|".join(hit))
        return {"cls": type(p).__name__, "order": order,
                "ints": {f: getattr(p, f) for f in ("co_argcount", "co_posonlyargcount", "co_kwonlyargcount", "co_nlocals", "co_stacksize", "co_flags", "co_firstlineno")}}


_reg_n1 = register


def register(op):  # noqa: F811
    _reg_n1(op)
    register2(op)

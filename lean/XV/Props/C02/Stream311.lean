/-
C02, unbounded part, eras with inline caches (3.11, 3.12, 3.13).

CPython's `_unpack_opargs` skips the `_inline_cache_entries[deop]` code units after an instruction;
xdis decodes those code units as `CACHE` instructions (opcode 0), which the property sets aside.
Theorem: for every byte string, the non-CACHE part of xdis's stream is CPython's stream, provided
the code is laid out as every 3.11+ compiler lays it out (`CacheOk`): the cache slots — found by
walking as CPython walks — hold the CACHE opcode, no other code unit does, every other code unit
holds an opcode the version defines, no EXTENDED_ARG prefix is
pending at a cache slot, and a folded operand prefix stays below 2^31 (beyond that CPython's `dis`
wraps to a negative number).
-/
import XV.Props.C02.Stream
namespace XV.Props.C02
open XV XV.Model XV.Model.Decode

/-- an opcode number CPython's `opcode` module defines for the version -/
def isDefined (d : Spec.Dis.DisTbl) (op : Nat) : Bool := d.names.any (·.2 == op)

/-- xdis's table and CPython's opcode data agree on what the decoder reads, 3.11+ -/
structure DisOk311 (t : OpTable) (d : Spec.Dis.DisTbl) : Prop where
  takes : ∀ op, op < 256 → isDefined d op = true → t.hasArg op =
    (if verGe d.version 3 12 then (d.hasarg.getD []).contains op else decide (op ≥ d.haveArgument))
  ext : ∀ op, op < 256 → isExtName t op = (d.extendedArg == some op)
  era : py36 t = true
  ge311 : verGe d.version 3 11 = true
  cacheNoArg : t.hasArg 0 = false

/-- the layout every 3.11+ compiler produces (see the header) -/
def cacheOk (t : OpTable) (d : Spec.Dis.DisTbl) (code : Bytes) : Nat → Nat → Nat → Nat → Bool
  | 0, _, _, _ => true
  | fuel + 1, i, ext, caches =>
    if i < code.length then
      match code[i]? with
      | none => true
      | some op =>
        if caches > 0 then op == 0 && ext == 0 && cacheOk t d code fuel (i + 2) 0 (caches - 1)
        else
          op != 0 && isDefined d op &&
          (if t.hasArg op then
            match code[i + 1]? with
            | none => true
            | some b =>
              let ext' := if isExtName t op then (b ||| ext) <<< 8 else 0
              decide (ext' < 2 ^ 31) && cacheOk t d code fuel (i + 2) ext' (Spec.Dis.cachesOf d op)
           else cacheOk t d code fuel (i + 2) 0 (Spec.Dis.cachesOf d op))
    else true

def CacheOk (t : OpTable) (d : Spec.Dis.DisTbl) (code : Bytes) : Prop :=
  cacheOk t d code (code.length + 1) 0 0 0 = true

/-- not a CACHE code unit -/
def nc (x : Triple) : Bool := x.2.1 != 0

theorem flat_spec_311 (t : OpTable) (d : Spec.Dis.DisTbl) (code : Bytes) (dk : DisOk311 t d)
    (hbytes : IsBytes code) :
    ∀ f i ext caches, cacheOk t d code f i ext caches = true →
      Spec.Dis.unpackWordGo d code f i ext caches = (flatM t code f i ext).map (List.filter nc) := by
  intro f
  induction f with
  | zero => intros; rfl
  | succ f ih =>
    intro i ext caches hc
    rw [Spec.Dis.unpackWordGo, flatM]
    rw [cacheOk] at hc
    by_cases hi : i < code.length
    · simp only [hi, if_true] at hc ⊢
      have hop : ∃ op, code[i]? = some op := ⟨code[i], by simp [hi]⟩
      obtain ⟨op, hop⟩ := hop
      have hop256 : op < 256 := hbytes op (List.mem_of_getElem? hop)
      simp only [hop] at hc
      by_cases hca : caches > 0
      · simp only [hca, if_true, Bool.and_eq_true, beq_iff_eq] at hc ⊢
        obtain ⟨⟨h0, he⟩, hc⟩ := hc
        subst h0; subst he
        simp only [hop, Option.bind_eq_bind, Option.bind_some, dk.cacheNoArg, Bool.false_eq_true, if_false, dk.era, if_true]
        rw [ih _ _ _ hc]
        cases flatM t code f (i + 2) 0 with
        | none => rfl
        | some l => simp [nc, List.filter]
      · simp only [hca, if_false, Bool.and_eq_true, bne_iff_ne, ne_eq] at hc ⊢
        obtain ⟨⟨hne, hdef⟩, hc⟩ := hc
        simp only [hop, Option.bind_eq_bind, Option.bind_some, dk.ge311, if_true, dk.era]
        rw [← dk.takes op hop256 hdef, ← dk.ext op hop256]
        by_cases ha : t.hasArg op = true
        · simp only [ha, if_true] at hc ⊢
          cases hb : code[i + 1]? with
          | none => rfl
          | some b =>
            simp only [hb, Bool.and_eq_true, decide_eq_true_eq] at hc
            obtain ⟨hlt, hc⟩ := hc
            simp only [Option.bind_some]
            have hnw : ¬ ((if isExtName t op = true then (b ||| ext) <<< 8 else 0) ≥ 2 ^ 31) := by omega
            simp only [hnw, decide_false, Bool.false_eq_true, if_false, and_false]
            rw [ih _ _ _ hc]
            cases flatM t code f (i + 2) (if isExtName t op = true then (b ||| ext) <<< 8 else 0) with
            | none => rfl
            | some l =>
              have hb0 : (op != 0) = true := by simp [hne]
              simp [nc, List.filter, hb0]
        · have ha' : t.hasArg op = false := by simpa using ha
          simp only [ha', Bool.false_eq_true, if_false] at hc ⊢
          have h310 : verGe d.version 3 10 = true := by
            have := dk.ge311
            unfold verGe at this ⊢
            simp only [Bool.or_eq_true, Bool.and_eq_true, decide_eq_true_eq, beq_iff_eq] at this ⊢
            omega
          simp only [h310, if_true]
          rw [ih _ _ _ hc]
          cases flatM t code f (i + 2) 0 with
          | none => rfl
          | some l =>
            have hb0 : (op != 0) = true := by simp [hne]
            simp [nc, List.filter, hb0]
    · simp [hi]

/-- C02_stream_311: for a 3.11+ table whose per-opcode facts hold, for EVERY byte string laid
    out as `CacheOk` says, the non-CACHE part of xdis's stream is CPython's `_unpack_opargs` stream
    (offset, opcode, operand with EXTENDED_ARG prefixes folded in), or both stop on a truncated operand -/
theorem C02_stream_311 (t : OpTable) (d : Spec.Dis.DisTbl) (code : Bytes) (ok : TableOk t) (dk : DisOk311 t d)
    (hbytes : IsBytes code) (hc : CacheOk t d code) :
    ((instrs t code).toOption.map (List.map tri)).map (List.filter nc) = Spec.Dis.unpack d code := by
  unfold instrs
  rw [stream_flat t code ok hbytes (code.length + 1) 0 (by unfold Enough; omega)]
  unfold Spec.Dis.unpack flat
  have h36 : verGe d.version 3 6 = true := by
    have := dk.ge311
    unfold verGe at this ⊢
    simp only [Bool.or_eq_true, Bool.and_eq_true, decide_eq_true_eq, beq_iff_eq] at this ⊢
    omega
  simp only [h36, if_true]
  exact (flat_spec_311 t d code dk hbytes _ _ _ _ hc).symm

end XV.Props.C02

/-
C14 — text of any code points: the UTF-8 bytes xdis.marsh writes (`str.encode("utf-8",
"surrogatepass")`) decode, as marshal.c decodes a 'u' object (surrogatepass), to the same
code points — for every string, every code point up to U+10FFFF, lone surrogates included.
-/
import XV.Model.Marsh
import XV.Base.Utf8
namespace XV.Props.C14.Utf8
open XV XV.Model.Marsh

theorem utf8Enc_cons (c : Nat) (cs : List Nat) :
    utf8Enc (c :: cs) =
      (if c < 0x80 then [c]
       else if c < 0x800 then [0xC0 + c / 64, 0x80 + c % 64]
       else if c < 0x10000 then [0xE0 + c / 4096, 0x80 + (c / 64) % 64, 0x80 + c % 64]
       else [0xF0 + c / 262144, 0x80 + (c / 4096) % 64, 0x80 + (c / 64) % 64, 0x80 + c % 64]) ++ utf8Enc cs := by
  rw [utf8Enc]

theorem utf8Enc_length_le (cs : List Nat) : cs.length ≤ (utf8Enc cs).length := by
  induction cs with
  | nil => simp [utf8Enc]
  | cons c cs ih =>
    rw [utf8Enc_cons]
    simp only [List.length_append, List.length_cons]
    split <;> (try split) <;> (try split) <;> simp <;> omega

theorem decode_step (sp : Bool) (f b0 : Nat) (rest : Bytes) :
  Utf8.decode sp (f+1) (b0 :: rest) =
    (if b0 < 0x80 then (Utf8.decode sp f rest).map (b0 :: ·)
    else if b0 < 0xC2 then none
    else if b0 < 0xE0 then
      match rest with
      | b1 :: r => if Utf8.cont b1 then (Utf8.decode sp f r).map (((b0 - 0xC0) * 64 + (b1 - 0x80)) :: ·) else none
      | _ => none
    else if b0 < 0xF0 then
      match rest with
      | b1 :: b2 :: r =>
        if Utf8.cont b1 && Utf8.cont b2 then
          let cp := (b0 - 0xE0) * 4096 + (b1 - 0x80) * 64 + (b2 - 0x80)
          if cp < 0x800 then none
          else if cp ≥ 0xD800 && cp ≤ 0xDFFF && !sp then none
          else (Utf8.decode sp f r).map (cp :: ·)
        else none
      | _ => none
    else if b0 < 0xF5 then
      match rest with
      | b1 :: b2 :: b3 :: r =>
        if Utf8.cont b1 && Utf8.cont b2 && Utf8.cont b3 then
          let cp := (b0 - 0xF0) * 262144 + (b1 - 0x80) * 4096 + (b2 - 0x80) * 64 + (b3 - 0x80)
          if cp < 0x10000 || cp > 0x10FFFF then none else (Utf8.decode sp f r).map (cp :: ·)
        else none
      | _ => none
    else none) := by
  rfl

/-- decoding (surrogatepass) inverts encoding, with any amount of spare fuel -/
theorem decode_enc (cs : List Nat) (hcp : ∀ c ∈ cs, c < 0x110000) (fuel : Nat) (hf : cs.length < fuel) :
    Utf8.decode true fuel (utf8Enc cs) = some cs := by
  induction cs generalizing fuel with
  | nil => cases fuel <;> simp [utf8Enc, Utf8.decode]
  | cons c cs ih =>
    cases fuel with
    | zero => simp at hf
    | succ f =>
      have hc : c < 0x110000 := hcp c (by simp)
      have ih' := ih (fun x hx => hcp x (by simp [hx])) f (by simp at hf; omega)
      rw [utf8Enc_cons]
      by_cases h1 : c < 0x80
      · simp only [h1, if_true, List.cons_append, List.nil_append]
        rw [decode_step]
        simp only [h1, if_true]
        rw [ih']; rfl
      · by_cases h2 : c < 0x800
        · simp only [h1, h2, if_true, if_false, List.cons_append, List.nil_append]
          rw [decode_step]
          have a1 : ¬ (0xC0 + c / 64 < 0x80) := by omega
          have a2 : ¬ (0xC0 + c / 64 < 0xC2) := by omega
          have a3 : 0xC0 + c / 64 < 0xE0 := by omega
          have a4 : Utf8.cont (0x80 + c % 64) = true := by simp [Utf8.cont]; omega
          have a5 : (0xC0 + c / 64 - 0xC0) * 64 + (0x80 + c % 64 - 0x80) = c := by omega
          simp only [a1, a2, a3, a4, a5, if_true, if_false, ih', Option.map_some]
        · by_cases h3 : c < 0x10000
          · simp only [h1, h2, h3, if_true, if_false, List.cons_append, List.nil_append]
            rw [decode_step]
            have a1 : ¬ (0xE0 + c / 4096 < 0x80) := by omega
            have a2 : ¬ (0xE0 + c / 4096 < 0xC2) := by omega
            have a3 : ¬ (0xE0 + c / 4096 < 0xE0) := by omega
            have a3' : 0xE0 + c / 4096 < 0xF0 := by omega
            have a4 : Utf8.cont (0x80 + c / 64 % 64) = true := by simp [Utf8.cont]; omega
            have a5 : Utf8.cont (0x80 + c % 64) = true := by simp [Utf8.cont]; omega
            have a6 : (0xE0 + c / 4096 - 0xE0) * 4096 + (0x80 + c / 64 % 64 - 0x80) * 64 + (0x80 + c % 64 - 0x80) = c := by omega
            simp only [a1, a2, a3, a3', a4, a5, a6, if_true, if_false, Bool.and_self, ih', Option.map_some]
            have a7 : ¬ c < 0x800 := h2
            simp [a7]
          · simp only [h1, h2, h3, if_false, List.cons_append, List.nil_append]
            rw [decode_step]
            have a1 : ¬ (0xF0 + c / 262144 < 0x80) := by omega
            have a2 : ¬ (0xF0 + c / 262144 < 0xC2) := by omega
            have a3 : ¬ (0xF0 + c / 262144 < 0xE0) := by omega
            have a3' : ¬ (0xF0 + c / 262144 < 0xF0) := by omega
            have a3'' : 0xF0 + c / 262144 < 0xF5 := by omega
            have a4 : Utf8.cont (0x80 + c / 4096 % 64) = true := by simp [Utf8.cont]; omega
            have a5 : Utf8.cont (0x80 + c / 64 % 64) = true := by simp [Utf8.cont]; omega
            have a6 : Utf8.cont (0x80 + c % 64) = true := by simp [Utf8.cont]; omega
            have a7 : (0xF0 + c / 262144 - 0xF0) * 262144 + (0x80 + c / 4096 % 64 - 0x80) * 4096 +
                (0x80 + c / 64 % 64 - 0x80) * 64 + (0x80 + c % 64 - 0x80) = c := by omega
            simp only [a1, a2, a3, a3', a3'', a4, a5, a6, a7, if_true, if_false, Bool.and_self, ih', Option.map_some]
            have a8 : ¬ (c < 0x10000 ∨ c > 0x10FFFF) := by omega
            simp [a8]

/-- C14_text: `marshal.loads`'s UTF-8 decoding of what `xdis.marsh.dumps` wrote for a str -/
theorem C14_text (cs : List Nat) (hcp : ∀ c ∈ cs, c < 0x110000) :
    Utf8.decodeSurrogatePass (utf8Enc cs) = some cs := by
  unfold Utf8.decodeSurrogatePass
  exact decode_enc cs hcp _ (by have := utf8Enc_length_le cs; omega)

/-- non-vacuity: ASCII, Latin-1, BMP, astral and a lone surrogate -/
example : Utf8.decodeSurrogatePass (utf8Enc [97, 233, 8364, 128512, 0xdc80, 0x10FFFF]) =
    some [97, 233, 8364, 128512, 0xdc80, 0x10FFFF] := by decide +kernel

end XV.Props.C14.Utf8

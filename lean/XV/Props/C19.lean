/-
C19 — freeze() encodes a line table that decodes back to the same mapping.
`encode` = XV.Model.LineEnc (transcription of encode_lineno_tab of Code15/Code2, Code3/Code38,
Code310); `decode` = the CPython line-start readers of XV.Spec.Lines (to which xdis's own
reader is proved equal in C05).
-/
import XV.Model.LineEnc
import XV.Spec.Lines
namespace XV.Props.C19
open XV XV.Model.LineEnc XV.Spec.Lines

/-- total address / line displacement described by a list of lnotab pairs (unsigned era) -/
def sumAddr : List (Nat × Nat) → Nat
  | [] => 0
  | p :: ps => p.1 + sumAddr ps
def sumLine : List (Nat × Nat) → Nat
  | [] => 0
  | p :: ps => p.2 + sumLine ps

/-- address continuation: `(255,0)` entries then a remainder below 256, preserving the gap -/
theorem splitBig_addr (fuel d : Nat) (h : d ≤ fuel) :
    (splitBig [255, 0] fuel d).2 < 256 ∧
    sumAddr (pairs (splitBig [255, 0] fuel d).1) + (splitBig [255, 0] fuel d).2 = d ∧
    sumLine (pairs (splitBig [255, 0] fuel d).1) = 0 := by
  induction fuel generalizing d with
  | zero => have : d = 0 := by omega
            subst this; simp [splitBig, pairs, sumAddr, sumLine]
  | succ f ih =>
    unfold splitBig
    by_cases hd : d ≥ 256
    · simp only [hd, if_true]
      obtain ⟨h1, h2, h3⟩ := ih (d - 255) (by omega)
      refine ⟨h1, ?_, ?_⟩
      · simp only [List.cons_append, List.nil_append, pairs, sumAddr]; omega
      · simp only [List.cons_append, List.nil_append, pairs, sumLine]; omega
    · simp only [hd, if_false]
      exact ⟨by omega, by simp [pairs, sumAddr], by simp [pairs, sumLine]⟩

/-- line continuation (after the fix): `(od,255)`, `(0,255)…` then a remainder below 256;
    the address increment is carried exactly once and the line gap is preserved -/
theorem splitLine_dispX (fuel od ld : Nat) (h : ld ≤ fuel) :
    (splitLine fuel od ld).2.2 < 256 ∧
    sumAddr (pairs (splitLine fuel od ld).1) + (splitLine fuel od ld).2.1 = od ∧
    sumLine (pairs (splitLine fuel od ld).1) + (splitLine fuel od ld).2.2 = ld := by
  induction fuel generalizing od ld with
  | zero => have : ld = 0 := by omega
            subst this; simp [splitLine, pairs, sumAddr, sumLine]
  | succ f ih =>
    unfold splitLine
    by_cases hd : ld ≥ 256
    · simp only [hd, if_true]
      obtain ⟨h1, h2, h3⟩ := ih 0 (ld - 255) (by omega)
      refine ⟨h1, ?_, ?_⟩
      · simp only [List.cons_append, List.nil_append, pairs, sumAddr]
        rw [Nat.add_assoc, h2]; rfl
      · simp only [List.cons_append, List.nil_append, pairs, sumLine]
        rw [Nat.add_assoc, h3]; omega
    · simp only [hd, if_false]
      exact ⟨by omega, by simp [pairs, sumAddr], by simp [pairs, sumLine]⟩

/-- the defect this check found and the repair removed, kept as a regression witness:
    a `(0,255)` continuation placed BEFORE the address increment moves the previous line -/
example : starts27 1 [0, 0, 0, 255, 2, 2] = [(0, 256), (2, 258)] ∧
          starts27 1 [0, 0, 2, 255, 0, 2] = [(0, 1), (2, 258)] := by decide

/-- the signed formats cannot carry what the 2.x/3.0-3.5 encoder emits (recorded finding,
    `code3-line-delta-ge128-in-signed-format`): the Model's table for {0:10, 510:1010}
    decodes, under 3.6+ rules, to a negative line -/
example : (encode3 10 [(0, 10), (510, 1010)]).toOption.map (starts36 10) =
    some [(0, 10), (510, -14)] := by decide +kernel

end XV.Props.C19

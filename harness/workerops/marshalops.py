"""implementation-side ops for the marshal family"""
import io
import os
import sys

sys.path.insert(0, os.path.dirname(os.path.dirname(os.path.abspath(__file__))))
import mcanon  # noqa: E402


def register(op):
    @op
    def unmarshal(a):
        """xdis.unmarshal.load_code on a byte string for the given magic"""
        from xdis.unmarshal import load_code
        from xdis.magics import magic_int2tuple
        data = bytes.fromhex(a["hex"]) if a["hex"] != "-" else b""
        fp = io.BytesIO(data)
        limit = a.get("recursion_limit")
        old = sys.getrecursionlimit()
        if limit:
            sys.setrecursionlimit(limit)
        try:
            try:
                v = load_code(fp, a["magic"], False, {})
            except BaseException as e:  # noqa
                return {"err": type(e).__name__, "msg": str(e)[:120]}
        finally:
            sys.setrecursionlimit(old)
        ver = tuple(magic_int2tuple(a["magic"])[:2])
        return {"tree": mcanon.tree(v, ver), "consumed": fp.tell()}


def register2(op):
    import marshal

    @op
    def marsh_roundtrip(a):
        """xdis.marsh against this host's marshal on eval(expr)"""
        import xdis.marsh as XM
        v = eval(a["expr"])
        out = {"value": mcanon.tree(v)}
        try:
            d = XM.dumps(v)
            out["xdumps"] = d.hex() if isinstance(d, (bytes, bytearray)) else "NOT-BYTES:%s" % type(d).__name__
            try:
                out["host_loads"] = mcanon.tree(marshal.loads(d))
            except Exception as e:  # noqa
                out["host_loads_err"] = type(e).__name__
        except Exception as e:  # noqa
            out["xdumps_err"] = type(e).__name__
        out["host_dumps4"] = marshal.dumps(v, 4).hex()
        for ver in (0, 1):
            try:
                hd = marshal.dumps(v, ver)
                out["host_dumps%d" % ver] = hd.hex()
                try:
                    out["xloads%d" % ver] = mcanon.tree(XM.loads(hd))
                except Exception as e:  # noqa
                    out["xloads%d_err" % ver] = type(e).__name__ + ":" + str(e)[:60]
            except ValueError:
                pass
        return out


    @op
    def marsh_fastloads(a):
        """xdis.marsh.loads on given byte strings (well-formed, truncated, mutated): canonical tree or exception class"""
        import xdis.marsh as XM
        out = []
        for h in a["streams"]:
            try:
                v = XM.loads(bytes.fromhex(h))
                try:
                    out.append(["ok", mcanon.tree(v)])
                except Exception as e:  # noqa  (e.g. the _NULL sentinel inside a container)
                    out.append(["untreeable", type(e).__name__])
            except Exception as e:  # noqa
                out.append(["err", type(e).__name__])
        return {"results": out}


    @op
    def marsh_history(a):
        """marshal code objects of other versions in THIS process (xdis.marsh.dumps and write_bytecode_file of
        Python 2.x and 3.x files of the repository's corpus): what the writer did before must not matter later"""
        import glob
        import tempfile
        import xdis.marsh as XM
        import xdis.load as L
        from xdis.load import load_module, write_bytecode_file
        done = []
        root = a["repo"]
        for pat in ("test/bytecode_2.7/*.pyc", "test/bytecode_2.4/*.pyc", "test/bytecode_3.3/*.pyc", "test/bytecode_3.8/*.pyc"):
            for f in sorted(glob.glob(os.path.join(root, pat)))[:2]:
                saved = L.PYTHON_MAGIC_INT
                L.PYTHON_MAGIC_INT = -1
                try:
                    try:
                        version, ts, magic, co, ispypy, size, sip = load_module(f)
                    except BaseException as e:  # noqa
                        done.append([os.path.basename(f), "load:" + type(e).__name__])
                        continue
                finally:
                    L.PYTHON_MAGIC_INT = saved
                st = []
                try:
                    XM.dumps(co)
                    st.append("dumps")
                except BaseException as e:  # noqa
                    st.append("dumps:" + type(e).__name__)
                fd, path = tempfile.mkstemp(suffix=".pyc")
                os.close(fd)
                try:
                    write_bytecode_file(path, co, magic, ts or 1700000000, size or 0)
                    st.append("write")
                except BaseException as e:  # noqa
                    st.append("write:" + type(e).__name__)
                finally:
                    os.unlink(path)
                done.append([os.path.basename(f)] + st)
        return {"done": done}


_reg1 = register


def register(op):  # noqa: F811
    _reg1(op)
    register2(op)

/-
C19, composed round trip for the unsigned format (Code15 / Code2: Python 1.5–2.7).

For every mapping whose offsets increase strictly and whose lines do not decrease — of any
length, with any gaps — the table `encode_lineno_tab` writes decodes, by CPython's own
`dis.findlinestarts` of that era (`Spec.Lines.starts27`, to which xdis's reader is proved
equal in C05), to exactly the line starts of the mapping: one (offset, line) per entry whose
line differs from the previous entry's.
-/
import XV.Model.LineEnc
import XV.Spec.Lines
import XV.Props.C19
namespace XV.Props.C19
open XV XV.Model.LineEnc XV.Spec.Lines

/-- what the decoder emits when it meets a nonzero address increment -/
def emit (last : Option Int) (line : Int) (addr : Nat) : List (Nat × Int) :=
  if last ≠ some line then [(addr, line)] else []

theorem go_zero (last : Option Int) (line : Int) (addr x : Nat) (rest : List (Nat × Nat)) :
    starts27Go last line addr ((0, x) :: rest) = starts27Go last (line + x) addr rest := by
  simp [starts27Go]

theorem go_pos (last : Option Int) (line : Int) (addr r x : Nat) (hr : r ≠ 0) (rest : List (Nat × Nat)) :
    starts27Go last line addr ((r, x) :: rest) =
      emit last line addr ++ starts27Go (some line) (line + x) (addr + r) rest := by
  unfold emit
  by_cases h : last = some line
  · subst h; simp [starts27Go, hr]
  · simp [starts27Go, hr, h]

theorem emit_after (line : Int) (addr : Nat) : emit (some line) line addr = [] := by simp [emit]

/-- address continuation: `(255,0)` entries, decoded -/
theorem decode_splitBig (fuel d : Nat) (h : d ≤ fuel) (last : Option Int) (line : Int) (addr : Nat) (tail : Bytes) :
    starts27Go last line addr (pairs ((splitBig [255, 0] fuel d).1 ++ tail)) =
      if d ≥ 256 then
        emit last line addr ++ starts27Go (some line) line (addr + (d - (splitBig [255, 0] fuel d).2)) (pairs tail)
      else starts27Go last line addr (pairs tail) := by
  induction fuel generalizing d last addr with
  | zero =>
    have : d = 0 := by omega
    subst this; simp [splitBig]
  | succ f ih =>
    unfold splitBig
    by_cases hd : d ≥ 256
    · simp only [hd, if_true, List.cons_append, List.nil_append, pairs]
      rw [go_pos last line addr 255 0 (by decide)]
      have := ih (d - 255) (by omega) (some line) (addr + 255)
      simp only [Int.natCast_zero, Int.add_zero]
      rw [this]
      have hb := splitBig_addr f (d - 255) (by omega)
      by_cases hd2 : d - 255 ≥ 256
      · simp only [hd2, if_true, emit_after, List.nil_append]
        congr 2
        omega
      · simp only [hd2, if_false]
        have hs : (splitBig [255, 0] f (d - 255)).2 = d - 255 := by
          unfold splitBig
          cases f with
          | zero => simp
          | succ f' => simp [hd2]
        congr 2
        omega
    · simp [hd]

/-- the address remainder after line continuation: carried by the first chunk, so 0 afterwards -/
theorem splitLine_rem (fuel od ld : Nat) (h : ld ≤ fuel) :
    (splitLine fuel od ld).2.1 = if ld ≥ 256 then 0 else od := by
  induction fuel generalizing od ld with
  | zero => have : ld = 0 := by omega
            subst this; simp [splitLine]
  | succ f ih =>
    unfold splitLine
    by_cases hd : ld ≥ 256
    · simp only [hd, if_true]
      have := ih 0 (ld - 255) (by omega)
      rw [this]; split <;> rfl
    · simp [hd]

/-- line continuation `(od,255), (0,255), …`, decoded -/
theorem decode_splitLine (fuel od ld : Nat) (h : ld ≤ fuel) (last : Option Int) (line : Int) (addr : Nat) (tail : Bytes) :
    starts27Go last line addr (pairs ((splitLine fuel od ld).1 ++ tail)) =
      if ld ≥ 256 then
        (if od ≠ 0 then emit last line addr else []) ++
          starts27Go (if od ≠ 0 then some line else last) (line + ((ld - (splitLine fuel od ld).2.2 : Nat) : Int)) (addr + od) (pairs tail)
      else starts27Go last line addr (pairs tail) := by
  induction fuel generalizing od ld last line addr with
  | zero =>
    have : ld = 0 := by omega
    subst this; simp [splitLine]
  | succ f ih =>
    unfold splitLine
    by_cases hd : ld ≥ 256
    · simp only [hd, if_true, List.cons_append, List.nil_append, pairs]
      have hb := splitLine_dispX f 0 (ld - 255) (by omega)
      have key : ∀ (lst : Option Int) (a : Nat),
          starts27Go lst (line + 255) a (pairs ((splitLine f 0 (ld - 255)).1 ++ tail)) =
          starts27Go lst (line + ((ld - (splitLine f 0 (ld - 255)).2.2 : Nat) : Int)) a (pairs tail) := by
        intro lst a
        rw [ih 0 (ld - 255) (by omega) lst (line + 255) a]
        by_cases hd2 : ld - 255 ≥ 256
        · simp only [hd2, if_true, ne_eq, not_true_eq_false, if_false, List.nil_append, Nat.add_zero]
          congr 1
          have := hb.2.2
          omega
        · simp only [hd2, if_false]
          have hs : (splitLine f 0 (ld - 255)).2.2 = ld - 255 := by
            cases f with
            | zero => simp [splitLine]
            | succ f' => simp [splitLine, hd2]
          congr 1
          omega
      by_cases ho : od = 0
      · subst ho
        rw [go_zero]
        simp only [ne_eq, not_true_eq_false, if_false, List.nil_append, Nat.add_zero]
        exact key last addr
      · rw [go_pos last line addr od 255 ho]
        simp only [ne_eq, ho, not_false_eq_true, if_true]
        congr 1
        exact key (some line) (addr + od)
    · simp [hd]

theorem splitBig_pos (fuel d : Nat) (h : d ≤ fuel) (hd : 0 < d) : 0 < (splitBig [255, 0] fuel d).2 := by
  induction fuel generalizing d with
  | zero => omega
  | succ f ih =>
    unfold splitBig
    by_cases h256 : d ≥ 256
    · simp only [h256, if_true]; exact ih (d - 255) (by omega) (by omega)
    · simp [h256]; exact hd

/-- one entry of the mapping, encoded and decoded: the decoder reports the PREVIOUS entry's
    (addr, line) once (unless already reported) and arrives exactly at this entry's offset and line -/
theorem decode_entry (D L : Nat) (hD : 0 < D) (last : Option Int) (line : Int) (addr : Nat) (tl : Bytes) :
    starts27Go last line addr (pairs ((splitBig [255, 0] D D).1 ++
        (splitLine L (splitBig [255, 0] D D).2 L).1 ++
        [(splitLine L (splitBig [255, 0] D D).2 L).2.1, (splitLine L (splitBig [255, 0] D D).2 L).2.2] ++ tl)) =
      emit last line addr ++ starts27Go (some line) (line + (L : Int)) (addr + D) (pairs tl) := by
  have hb := splitBig_addr D D (Nat.le_refl D)
  have hr := splitBig_pos D D (Nat.le_refl D) hD
  generalize hrdef : (splitBig [255, 0] D D).2 = r at hb hr ⊢
  have hl := splitLine_dispX L r L (Nat.le_refl L)
  have hrem := splitLine_rem L r L (Nat.le_refl L)
  simp only [List.append_assoc]
  rw [decode_splitBig D D (Nat.le_refl D), hrdef]
  -- state after the address chunks
  have step2 : ∀ (lst : Option Int) (a : Nat),
      starts27Go lst line a (pairs ((splitLine L r L).1 ++ ([(splitLine L r L).2.1, (splitLine L r L).2.2] ++ tl))) =
        emit lst line a ++ starts27Go (some line) (line + (L : Int)) (a + r) (pairs tl) := by
    intro lst a
    rw [decode_splitLine L r L (Nat.le_refl L)]
    by_cases hL : L ≥ 256
    · have hr0 : r ≠ 0 := by omega
      simp only [hL, if_true, ne_eq, hr0, not_false_eq_true, hrem, List.cons_append, List.nil_append, pairs]
      rw [go_zero]
      congr 2
      have := hl.2.2
      omega
    · simp only [hL, if_false]
      have h1 : (splitLine L r L).2.1 = r := by rw [hrem]; simp [hL]
      have h2 : (splitLine L r L).2.2 = L := by
        cases L with
        | zero => simp [splitLine]
        | succ L' => simp [splitLine, hL]
      simp only [h1, h2, List.cons_append, List.nil_append, pairs]
      rw [go_pos lst line a r L (by omega)]
  by_cases hD256 : D ≥ 256
  · simp only [hD256, if_true]
    rw [step2 (some line) (addr + (D - r)), emit_after, List.nil_append]
    congr 2
    have := hb.2.1
    omega
  · simp only [hD256, if_false]
    rw [step2 last addr]
    have : r = D := by
      rw [← hrdef]
      cases D with
      | zero => omega
      | succ D' => simp [splitBig, hD256]
    rw [this]

/-- offsets increase strictly, lines do not decrease -/
def Incr : Int → Int → List (Int × Int) → Prop
  | _, _, [] => True
  | po, pl, (o, l) :: rest => po < o ∧ pl ≤ l ∧ Incr o l rest

/-- the line starts of a mapping, as the decoder reports them: an entry is reported when the
    decoder leaves it, unless its line equals the line of the last reported entry -/
def expected (last : Option Int) (line : Int) (addr : Nat) : List (Int × Int) → List (Nat × Int)
  | [] => emit last line addr
  | (o, l) :: rest => emit last line addr ++ expected (some line) l o.toNat rest

theorem round15Go (m : List (Int × Int)) : ∀ (po pl : Int) (last : Option Int), 0 ≤ po → Incr po pl m →
    ∃ tab, encode15Go po pl m = .ok tab ∧
      starts27Go last pl po.toNat (pairs tab) = expected last pl po.toNat m := by
  induction m with
  | nil => intro po pl last _ _; exact ⟨[], rfl, by simp [pairs, starts27Go, expected, emit]⟩
  | cons e rest ih =>
    intro po pl last hpo hinc
    obtain ⟨o, l⟩ := e
    obtain ⟨ho, hl, hrest⟩ := hinc
    obtain ⟨tl, htl, hdec⟩ := ih o l (some pl) (by omega) hrest
    have hld : ¬ (l - pl < 0) := by omega
    have hod : ¬ (o - po < 0) := by omega
    refine ⟨(splitBig [255, 0] (o - po).toNat (o - po).toNat).1 ++
        (splitLine (l - pl).toNat (splitBig [255, 0] (o - po).toNat (o - po).toNat).2 (l - pl).toNat).1 ++
        [(splitLine (l - pl).toNat (splitBig [255, 0] (o - po).toNat (o - po).toNat).2 (l - pl).toNat).2.1,
         (splitLine (l - pl).toNat (splitBig [255, 0] (o - po).toNat (o - po).toNat).2 (l - pl).toNat).2.2] ++ tl, ?_, ?_⟩
    · simp only [encode15Go, hld, hod, if_false, htl]
      rfl
    · have hD : 0 < (o - po).toNat := by omega
      rw [decode_entry (o - po).toNat (l - pl).toNat hD last pl po.toNat tl, expected]
      have e1 : pl + ((l - pl).toNat : Int) = l := by omega
      have e2 : po.toNat + (o - po).toNat = o.toNat := by omega
      rw [e1, e2, hdec]

/-- C19_roundtrip15: for every mapping `(0, first), (o₁, l₁), …` with strictly increasing offsets
    and non-decreasing lines — any length, any gaps — Code15/Code2's encoder succeeds and
    CPython ≤ 3.5's `dis.findlinestarts` reads its table back as the mapping's line starts -/
theorem C19_roundtrip15 (first : Int) (rest : List (Int × Int)) (h : Incr 0 first rest) :
    ∃ tab, encode15 first ((0, first) :: rest) = .ok tab ∧
      starts27 first tab = expected none first 0 rest := by
  obtain ⟨tl, htl, hdec⟩ := round15Go rest 0 first none (by omega) h
  refine ⟨[0, 0] ++ tl, ?_, ?_⟩
  · simp [encode15, encode15Go, htl, splitBig, splitLine]
    rfl
  · simp only [starts27, List.cons_append, List.nil_append, pairs]
    rw [go_zero]
    simpa using hdec

/-- non-vacuity, with both kinds of continuation and a repeated line -/
example : Incr 0 10 [(300, 10), (302, 700), (1000, 701)] := by simp [Incr]
example : (encode15 10 [(0, 10), (300, 10), (302, 700), (1000, 701)]).toOption.map (starts27 10) =
    some [(0, 10), (302, 700), (1000, 701)] ∧
    expected none 10 0 [(300, 10), (302, 700), (1000, 701)] = [(0, 10), (302, 700), (1000, 701)] := by
  decide +kernel

end XV.Props.C19

"""C12 — listings are total, faithful to the instruction stream, and clean.  Theorems: lean/XV/Props/C12.lean."""
import json
import os
import random
import re

import core
import effects
import progcheck
import progrun
from worker import Worker

RULE = ("every file of the historical corpus (1.0-3.12, PyPy) and programs compiled by 2.7/3.6-3.13 x the six formats "
        "(classic, bytes, extended, extended-bytes, xasm, header): disassemble_file must not raise; classic/bytes listings are "
        "parsed line by line and compared with the instruction stream (offset, opcode name, operand, '>>' mark, line number); "
        "stdout/stderr of the process are captured; every line of the output stream must be a recognised listing line; "
        "distinct = distinct (file, format)")
FORMATS = ["classic", "bytes", "extended", "extended-bytes", "xasm", "header"]
LINE = re.compile(r"^(?P<line>\s*\d+:|\s{4})\s(?P<cur>-->|\s{3})\s(?P<jt>>>|\s{2})\s(?P<off>\s*\d+)\s(?P<hex>\|[0-9a-f ]+\|\s)?(?P<name>\S+)\s*(?P<rest>.*)$")


def inputs(ctx, rng):
    out = []
    root = os.path.join(core.REPO, "test")
    files = []
    for d, _, fs in sorted(os.walk(root)):
        for f in sorted(fs):
            if f.endswith((".pyc", ".pyo")):
                files.append(os.path.join(d, f))
    if not ctx.thorough:
        by_dir = {}
        for f in files:
            by_dir.setdefault(os.path.dirname(f), []).append(f)
        files = [x for d, fs in sorted(by_dir.items()) for x in rng.sample(fs, min(2, len(fs)))]
    for f in files:
        out.append((os.path.relpath(f, core.REPO), open(f, "rb").read(), "." + os.path.basename(f) if "pypy38" in f else ".pyc"))
    oracles = {}
    progs = progcheck.program_set(random.Random(ctx.seed + 17), 2)
    for v in sorted(core.ORACLES):
        for name in sorted(progs):
            if name in progrun.HEAVY and not (name == "extarg3" and v in ((3, 8), (3, 13))):
                continue
            if not ctx.thorough and name not in ("closure2", "loops_jumps", "try_with", "consts", "manylines", "generators", "kinds_in_sets", "shared_sets", "extarg3"):
                continue
            o = progcheck.oracle_compile(v, name, progs[name], oracles)
            if "pyc" in o:
                out.append(("compiled:%d.%d:%s" % (v[0], v[1], name), bytes.fromhex(o["pyc"]), ".pyc"))
                ORACLE_VIEW[out[-1][0]] = o
    for o in oracles.values():
        o.close()
    return out


ORACLE_VIEW = {}


def check_against_cpython(text, info, o):
    """the listing also agrees with what the producing CPython's dis reports (offset, name, line, names)"""
    want = []
    for idx in info["bfs"]:
        oc = o["codes"][idx]
        if "instrs" not in oc:
            return None
        want += [i for i in oc["instrs"] if i[2] != "CACHE"]
    got = [m for m in (LINE.match(ln) for ln in text.split("\n") if ln.strip() and not ln.startswith("#")) if m]
    if len(got) != len(want):
        return "listing has %d instruction lines, CPython's dis has %d instructions" % (len(got), len(want))
    # '>>' marks: exactly CPython's labels (dis.findlabels) and exception-handler targets, per code object
    ver = tuple(info["version"][:2])
    pos = 0
    for idx in info["bfs"]:
        oc = o["codes"][idx]
        n = len([i for i in oc["instrs"] if i[2] != "CACHE"])
        chunk = got[pos:pos + n]
        pos += n
        starts = set(int(m.group("off")) for m in chunk)
        has_ext = any(m.group("name") == "EXTENDED_ARG" for m in chunk)
        if "labels" in oc and not (ver < (3, 6) and has_ext):
            want_jt = (set(oc["labels"]) | set(e[2] for e in (oc.get("exc") or []))) & starts
            got_jt = set(int(m.group("off")) for m in chunk if m.group("jt") == ">>")
            if got_jt != want_jt:
                return "'>>' marks at %s, CPython's labels and handler targets are %s (difference %s)" % (
                    sorted(got_jt)[:12], sorted(want_jt)[:12], sorted(got_jt ^ want_jt)[:8])
    for k, (m, i) in enumerate(zip(got, want)):
        off, name = int(m.group("off")), m.group("name")
        if off != i[0] or name.replace("+", "_") != i[2].replace("+", "_"):
            return "line %d shows %d %s, CPython's dis has %d %s" % (k, off, name, i[0], i[2])
        shown = m.group("line").strip().rstrip(":")
        if i[6] is not None and shown and int(shown) != i[6]:
            return "line %d (%d %s): line number %s, CPython's dis says %s" % (k, off, name, shown, i[6])
        if i[6] is not None and not shown:
            return "line %d (%d %s): no line number, CPython's dis says it starts line %s" % (k, off, name, i[6])
        rest = m.group("rest").strip()
        mt = re.search(r"\(to (\d+)\)", rest)
        if mt and isinstance(i[4], int) and i[3] is not None and int(mt.group(1)) != i[4] and "JUMP" in i[2]:
            return "line %d (%d %s): jump operand shown as 'to %s', CPython's dis resolves it to %s" % (k, off, name, mt.group(1), i[4])
        if isinstance(i[4], str) and i[3] is not None and re.match(r"^[A-Za-z_][A-Za-z0-9_]*$", i[4]) and \
                any(t in i[2] for t in ("NAME", "FAST", "DEREF", "CLOSURE", "GLOBAL", "ATTR")) and "(" in rest:
            if ("(%s)" % i[4]) not in rest and not rest.endswith(i[4] + ")") and ("+ %s)" % i[4]) not in rest:
                return "line %d (%d %s): operand column %r, CPython resolves the operand to %r" % (k, off, name, rest[:50], i[4])
    return None


def check_faithful(text, info, fmt):
    """every non-CACHE instruction exactly once, in order, with offset, name, operand, '>>', line number"""
    want = []
    for idx in info["bfs"]:
        ent = info["codes"][idx]
        if "instrs_dup" not in ent:
            return "instruction stream unavailable: %s" % ent.get("instrs_dup_err")
        for i in ent["instrs_dup"]:
            if i[2] == "CACHE" and fmt != "bytes":
                continue
            want.append(i)
    got = []
    for ln in text.split("\n"):
        if ln.startswith("#") or not ln.strip():
            continue
        m = LINE.match(ln)
        if m:
            got.append(m)
    ver = tuple(info["version"][:2])
    if len(got) != len(want):
        return "listing has %d instruction lines, the stream has %d instructions" % (len(got), len(want))
    for k, (m, i) in enumerate(zip(got, want)):
        off, name, jt = int(m.group("off")), m.group("name"), m.group("jt") == ">>"
        if off != i[0] or name != i[2]:
            return "line %d shows %d %s, the stream has %d %s" % (k, off, name, i[0], i[2])
        if jt != i[5]:
            return "line %d (%d %s): '>>' %s but is_jump_target %s" % (k, off, name, jt, i[5])
        if ver >= (2, 3):
            shown = m.group("line").strip().rstrip(":")
            if (shown != "") != (i[6] is not None) or (shown and int(shown) != i[6]):
                return "line %d (%d %s): line-number column %r but starts_line %r" % (k, off, name, shown, i[6])
        rest = re.sub(r" at 0x[0-9a-f]+", "", m.group("rest").strip())
        if i[4]:
            i = i[:4] + [re.sub(r" at 0x[0-9a-f]+", "", i[4])] + i[5:]
        if i[3] is not None:
            if not (rest.startswith(repr(i[3])) or (i[4] and ("(%s)" % i[4]) in rest) or (i[4] and rest.startswith(str(i[4])))):
                return "line %d (%d %s): operand column %r shows neither %r nor (%s)" % (k, off, name, rest[:40], i[3], i[4])
        if fmt == "bytes":
            hx = (m.group("hex") or "").strip().strip("|").split()
            if not hx or int(hx[0], 16) != i[1]:
                return "line %d (%d %s): byte column %r does not start with opcode %02x" % (k, off, name, hx, i[1])
    return None


def model_rows(drv, info, fmt):
    """rows the Lean listing loop (XV.Model.Listing.listing) emits for every code object, in queue order"""
    reqs, names = [], {}
    # Bytecode.dis hands the loop line_starts=None up to 2.0: the stream it iterates has no starts_line then
    nolines = not (tuple(info["version"][:2]) > (2, 0))
    for idx in info["bfs"]:
        ent = info["codes"][idx]
        if "instrs_dup" not in ent:
            return None, None
        toks = []
        for i in ent["instrs_dup"]:
            names[i[1]] = i[2]
            fl = (1 if i[2] == "SET_LINENO" else 0) | (2 if i[2] == "EXTENDED_ARG" else 0) | (4 if i[2] == "CACHE" else 0) | (8 if i[2] == "RESERVE_FAST" else 0)
            toks.append("%d:%d:%s:%d:%s:%d:%d" % (i[0], i[1], "-" if i[3] is None else i[3], i[3] if (i[2] == "SET_LINENO" and i[3] is not None) else 0,
                                                 "-" if (i[6] is None or nolines) else i[6], 1 if i[5] else 0, fl))
        reqs.append("x.listing %s 1 %s" % (fmt, " ".join(toks) if toks else "-"))
    rows = []
    for out in drv.ask(reqs):
        if out.startswith("(err"):
            return None, out
        for t in out.split():
            if t.startswith("R:"):
                _, o, c, a, l, j = t.split(":")
                rows.append((int(o), names[int(c)], None if l == "none" else int(l), j == "1"))
            elif t == "W":
                rows.append("W")
    return rows, None


def listing_rows(text):
    got = []
    for ln in text.split("\n"):
        if ln.startswith("# Warning: subsequent LOAD_FAST"):
            got.append("W")
            continue
        if ln.startswith("#") or not ln.strip():
            continue
        m = LINE.match(ln)
        if m:
            shown = m.group("line").strip().rstrip(":")
            got.append((int(m.group("off")), m.group("name"), int(shown) if shown else None, m.group("jt") == ">>"))
    return got


def unrecognised_lines(text):
    bad = []
    in_exc = False
    for ln in text.split("\n"):
        if not ln.strip() or ln.startswith("#"):
            in_exc = False
            continue
        if ln.startswith("ExceptionTable:"):
            in_exc = True
            continue
        if in_exc and re.match(r"^  \d+ to -?\d+ -> \d+ \[\d+\]( lasti)?$", ln):
            continue
        if LINE.match(ln):
            in_exc = False
            continue
        bad.append(ln[:100])
    return bad


def run(ctx):
    rep, drv = ctx.rep, ctx.driver
    rng = random.Random(ctx.seed)
    fd = effects.facts({"disassemble_file", "disco", "disco_loop", "disco_loop_asm_format"})
    allowed = ("xdis/dropbox/decrypt25.py", "xdis/std.py")
    for site in fd["outs"]:
        if not site.startswith(allowed):
            rep.violation("stdout-site:" + site, "print()/sys.stdout.write() reachable from disassemble_file: %s" % site, {"site": site, "kind": "static call graph"}, found_input=False)
    rep.sample({"static_stdout_sites": fd["outs"], "reachable_functions": fd["reachable"]})
    w = Worker()
    try:
        items = inputs(ctx, rng)
        for name, data, suffix in items:
            info = w.r("load_pyc", pyc=data.hex(), suffix=suffix, dup_lines=True)
            for fmt in FORMATS:
                try:
                    repl = w.call("listing", pyc=data.hex(), fmt=fmt, suffix=suffix, _timeout=120)
                except (TimeoutError, RuntimeError) as e:
                    rep.violation("listing-hang:%s:%s" % (name, fmt), "disassemble_file(%s, %s) did not finish: %s" % (name, fmt, e), {"file": name, "format": fmt})
                    w = Worker()
                    continue
                r = repl.get("r", {})
                rep.count(1, (name, fmt))
                inp = {"file": name, "format": fmt, "call": "disassemble_file(file, outstream=StringIO(), asm_format=%r)" % fmt}
                if r.get("err"):
                    key = "xasm-pypy32-bytes-name" if (fmt == "xasm" and "3.2pypy" in name and "string pattern" in r["err"]) else "raise:%s:%s" % (name, fmt)
                    rep.violation(key, "disassemble_file raised on %s in format %s: %s" % (name, fmt, r["err"]), dict(inp, actual=r["err"]))
                    continue
                if repl.get("stdout"):
                    rep.violation("stdout:%s:%s" % (name, fmt), "disassembling %s (%s) wrote to standard output: %r" % (name, fmt, repl["stdout"][:200]),
                                  dict(inp, stdout=repl["stdout"][:500]))
                if fmt in ("classic", "bytes", "extended", "extended-bytes") and isinstance(info, dict) and "codes" in info:
                    want, err = model_rows(drv, info, fmt)
                    if want is not None:
                        got = listing_rows(r["text"])
                        rep.count(1, (name, fmt, "model"))
                        if got != want:
                            k = next((k for k, (a, b) in enumerate(zip(got, want)) if a != b), min(len(got), len(want)))
                            rep.violation("listing-model:%s:%s" % (name, fmt),
                                          "%s listing of %s differs from the Lean listing loop (Model.Listing.listing) at row %d: listing %r, Model %r (%d vs %d rows)"
                                          % (fmt, name, k, got[k] if k < len(got) else None, want[k] if k < len(want) else None, len(got), len(want)),
                                          dict(inp, row=k, listing=r["text"][:3000]))
                if fmt in ("classic", "bytes") and isinstance(info, dict) and "codes" in info:
                    bad = check_faithful(r["text"], info, fmt)
                    if bad:
                        rep.violation("faithful:%s:%s" % (name, fmt), "%s listing of %s is not faithful to the instruction stream: %s" % (fmt, name, bad), dict(inp, listing=r["text"][:3000]))
                    if fmt == "classic" and name in ORACLE_VIEW:
                        bad = check_against_cpython(r["text"], info, ORACLE_VIEW[name])
                        if bad:
                            rep.violation("listing-vs-dis:%s" % name, "classic listing of %s disagrees with the producing CPython's dis: %s" % (name, bad), dict(inp, listing=r["text"][:3000]))
                    ul = unrecognised_lines(r["text"])
                    if ul:
                        rep.violation("foreign-line:%s:%s" % (name, fmt), "%s listing of %s contains lines that are not listing lines: %r" % (fmt, name, ul[:3]), dict(inp, lines=ul[:10]))
        rep.sample({"inputs": len(items), "formats": FORMATS, "example": items[0][0]})
    finally:
        w.close()


def replay(ctx, rp):
    print(json.dumps({k: v for k, v in rp.get("replay", {}).items() if k != "listing"}, indent=1)[:1000])
    run(ctx)

"""C09 — opcode tables.  Theorems: lean/XV/Props/C09.lean."""
import json
import os

import core

RULE = ("every (table, opcode number, category) cell of every xdis opcode table is compared by kernel-checked "
        "theorems with the installed CPython's opcode module (9 versions) or the reviewed snapshot (30 tables) and "
        "checked for bijection / category well-formedness; distinct = distinct (table, opcode) cells")
TRUSTED_EXTRA = ["ref/optables_snapshot.json: reviewed snapshot for versions with no interpreter (1.0-2.6, 3.0-3.5, PyPy); "
                 "not an independent source"]

CATMAP = {"hasjrel": "JREL_OPS", "hasjabs": "JABS_OPS", "hasconst": "CONST_OPS", "hasname": "NAME_OPS",
          "haslocal": "LOCAL_OPS", "hasfree": "FREE_OPS", "hascompare": "COMPARE_OPS"}


def diff_against_ref(t, r):
    """concrete differing cells between an xdis table and CPython's opcode module"""
    out = []
    tm = dict((k, v) for k, v in t["opmap"])
    rm = dict((k.replace("+", "_"), v) for k, v in r["opmap"])
    for k in sorted(set(tm) | set(rm)):
        if tm.get(k) != rm.get(k):
            out.append({"field": "opmap", "name": k, "xdis": tm.get(k), "cpython": rm.get(k)})
    if t["HAVE_ARGUMENT"] != r["HAVE_ARGUMENT"]:
        out.append({"field": "HAVE_ARGUMENT", "xdis": t["HAVE_ARGUMENT"], "cpython": r["HAVE_ARGUMENT"]})
    if t["EXTENDED_ARG"] != r["EXTENDED_ARG"]:
        out.append({"field": "EXTENDED_ARG", "xdis": t["EXTENDED_ARG"], "cpython": r["EXTENDED_ARG"]})
    for a, c in CATMAP.items():
        x, y = set(t[c] or []), set(r[a] or [])
        for op in sorted(x ^ y):
            out.append({"field": a, "opcode": op, "in_xdis": op in x, "in_cpython": op in y})
    return out


def run(ctx):
    rep, drv = ctx.rep, ctx.driver
    if getattr(drv, "unavailable", False):
        rep.violation("driver-build", "model driver does not build (generated tables malformed?)",
                      {"kind": "driver"}, found_input=False)
        return
    tabs = ctx.tables["optables"]
    refs = {tuple(r["version"][:2]): r for r in json.load(open(os.path.join(core.BUILD, "refs.json")))}
    info = drv.ask(["c09.tables"])[0].split()
    ncell = 0
    for it in info:
        name, ver, kind = it.split(":")
        t = tabs[name]
        n = len(t["opname"])
        ncell += n * 8
        for op in range(0, n):
            if not t["opname"][op].startswith("<"):
                rep.distinct.add((name, op))
    rep.count(ncell)
    fails = core.parse_failures(drv.ask(["c09.failures"])[0])
    for kind, detail in fails:
        parts = detail.split("_")
        # table names contain '_' : rebuild
        tname = "_".join(parts[:2])
        rest = parts[2:]
        t = tabs.get(tname, {})
        if kind == "ref":
            r = refs[tuple(t["version_tuple"][:2])]
            cells = diff_against_ref(t, r)
            fld = rest[0] if rest else ""
            for c in [c for c in cells if c["field"] == fld or (fld == "opmap" and c["field"] == "opmap")][:4] or cells[:2]:
                rep.violation("ref:%s:%s:%s" % (tname, c["field"], c.get("name", c.get("opcode", ""))),
                              "xdis %s differs from CPython %s opcode module: %s" % (tname, t["version_tuple"][:2], c),
                              {"table": tname, "cell": c, "oracle": "opcode module of installed CPython %d.%d" % tuple(t["version_tuple"][:2])})
        elif kind == "hist":
            rep.violation("hist:%s:%s" % (tname, "_".join(rest)),
                          "table %s (%s) differs from the reviewed snapshot ref/optables_snapshot.json" % (tname, "_".join(rest)),
                          {"table": tname, "field": rest, "theorem": "C09_hist"}, found_input=False)
        else:
            rep.violation("%s:%s:%s" % (kind, tname, "_".join(rest)),
                          "table %s violates well-formedness (%s %s)" % (tname, kind, " ".join(rest)),
                          {"table": tname, "kind": kind, "detail": rest,
                           "opname": t.get("opname", [None] * 256)[int(rest[-1])] if rest and rest[-1].isdigit() and int(rest[-1]) < len(t.get("opname", [])) else None})
    # cross-check: the Python mirror and the Lean predicates agree on the ref comparison (sanity of the tie)
    for name, t in sorted(tabs.items()):
        if "opname" not in t or t.get("version_tuple") is None or t["is_pypy"]:
            continue
        r = refs.get(tuple(t["version_tuple"][:2]))
        if r is None:
            continue
        cells = diff_against_ref(t, r)
        lean_says = any(k == "ref" and d.startswith(name + "_") for k, d in fails)
        if bool(cells) != lean_says:
            rep.violation("mirror:%s" % name, "python mirror and Lean predicate disagree on %s: %s" % (name, cells[:2]),
                          {"table": name}, found_input=False)
    rep.sample({"tables": info[:6], "cells_checked": ncell, "failing_rows": fails[:5]})
    rep.sample({"table": "opcode_313", "HAVE_ARGUMENT": tabs["opcode_313"]["HAVE_ARGUMENT"],
                "JREL_OPS": tabs["opcode_313"]["JREL_OPS"][:8]})
    rep.coverage["exhaustive"] = True
    host_tables(ctx)
    # every op_imports key is served by one of the tables the theorems range over
    listed = set(n.split(":")[0] for n in info)
    for row in ctx.tables["magics"]["accepted"]:
        for k in ("opc_plain", "opc_pypy38name"):
            if row.get(k) and row[k] not in listed:
                rep.violation("uncovered-table:%s" % row[k], "magic %d selects table %s which the theorems do not cover" % (row["magic"], row[k]),
                              {"magic": row["magic"]}, found_input=False)


def table_attr(k):
    """the attributes that make up an opcode table (not typing aliases, helper functions or the module's own locals())"""
    return (k.isupper() or k.startswith("has") or
            k in ("opmap", "opname", "oppop", "oppush", "cmp_op", "nofollow", "version_tuple", "python_version", "is_pypy",
                  "python_implementation", "nullaryop", "unaryop", "binaryop", "ternaryop", "nullaryloadop", "storeop", "callop",
                  "varargsop", "pseudoop", "extended_arg_shift"))


def host_tables(ctx):
    """the tables must not depend on the host Python: every public attribute of every table module
    (get_opcode_module(version, variant)) under the oldest and newest installed host (all hosts in
    the thorough tier) against the main host"""
    from worker import Worker
    rep = ctx.rep
    tabs = ctx.tables["optables"]
    keys = []
    for name, t in sorted(tabs.items()):
        if t.get("version_tuple"):
            keys.append((name, list(t["version_tuple"][:2]), "pypy" if t.get("is_pypy") else None))
    hosts = dict(core.HOSTS) if ctx.thorough else {k: v for k, v in core.HOSTS.items() if k in (min(core.HOSTS), max(core.HOSTS))}
    wm = Worker()
    try:
        base = {name: wm.r("optable", version=v, variant=var) for name, v, var in keys}
        # ... nor on which table was asked for before: the same process, asked again in reverse order
        for name, v, var in reversed(keys):
            again = wm.r("optable", version=v, variant=var)
            rep.count(1, ("table-order", name))
            if again != base[name]:
                a, b = base[name].get("attrs") or {}, again.get("attrs") or {}
                diff = sorted(k for k in set(a) | set(b) if a.get(k) != b.get(k)) or ["(whole answer)"]
                rep.violation("table-order:%s" % name, "get_opcode_module(%s, %s) answers differently when asked again after the other tables (differs in %s)"
                              % (v, var, diff[:6]), {"table": name, "call": "get_opcode_module for every table in order, then again in reverse order", "attributes": diff[:20]})
                break
    finally:
        wm.close()
    # ... and not on how the host runs: an interpreter started with -O / PYTHONOPTIMIZE=1 drops assert statements
    runs = [(hv, path, None) for hv, path in sorted(hosts.items()) if path != core.MAIN_HOST]
    runs.append(((0, 1), core.MAIN_HOST, {"PYTHONOPTIMIZE": "1"}))
    runs.append(((0, 2), hosts[min(hosts)], {"PYTHONOPTIMIZE": "2"}))
    for hv, path, xenv in runs:
        hw = Worker(path, extra_env=xenv)
        try:
            for name, v, var in keys:
                got = hw.r("optable", version=v, variant=var)
                rep.count(1, ("host-table", hv, name))
                a, b = base[name].get("attrs"), got.get("attrs")
                if a is None or b is None or base[name].get("name") != got.get("name"):
                    if base[name] != got:
                        rep.violation("host-table:%d.%d:%s" % (hv[0], hv[1], name), "get_opcode_module(%s, %s) gives %s under host %d.%d and %s under the main host"
                                      % (v, var, str(got)[:80], hv[0], hv[1], str(base[name])[:80]), {"table": name, "host": "%d.%d" % hv})
                    continue
                # 'loc' is locals() of the table module itself (its own namespace, host builtins included)
                diff = sorted(k for k in set(a) | set(b) if a.get(k) != b.get(k) and table_attr(k))
                if diff:
                    rep.violation("host-table:%d.%d:%s:%s" % (hv[0], hv[1], name, diff[0]),
                                  "table %s differs between host %d.%d and the main host in %s" % (name, hv[0], hv[1], diff[:6]),
                                  {"table": name, "host": "%d.%d" % hv, "attributes": diff[:20],
                                   "call": "vars(get_opcode_module(%r, %r)) under %s%s" % (tuple(v), var, path, " with %s" % xenv if xenv else "")})
        finally:
            hw.close()


def replay(ctx, rp):
    print(json.dumps(rp.get("replay"), indent=1)[:1500])
    run(ctx)

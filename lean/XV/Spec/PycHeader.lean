/-
Spec: the .pyc header formats (PEP 3147 / PEP 552 and their predecessors):
  before 3.3:  magic(4) mtime(4)                       payload at 8
  3.3 – 3.6:   magic(4) mtime(4) source_size(4)        payload at 12
  3.7 +:       magic(4) flags(4) then
                 flags bit 0 set:   source hash (8)    payload at 16
                 flags bit 0 clear: mtime(4) size(4)   payload at 16
given as an ENCODER of the fields; never mentions xdis.
-/
import XV.Base.Bytes
namespace XV.Spec.PycHeader
open XV

inductive Fields where
  | tsOnly (mtime : Nat)
  | tsSize (mtime size : Nat)
  | pepTs (flags mtime size : Nat)         -- flags even
  | pepHash (flags hash : Nat)             -- flags odd (checked or unchecked)
  deriving Repr, DecidableEq

inductive Form where | tsOnly | tsSize | pep552
  deriving Repr, DecidableEq

def formOf (v : List Nat) : Form :=
  match v with
  | x :: y :: _ =>
    if x > 3 || (x == 3 && y ≥ 7) then .pep552 else if x == 3 && y ≥ 3 then .tsSize else .tsOnly
  | _ => .tsOnly

/-- the bytes after the magic word -/
def encode : Fields → Bytes
  | .tsOnly t => toLE 4 t
  | .tsSize t s => toLE 4 t ++ toLE 4 s
  | .pepTs f t s => toLE 4 f ++ toLE 4 t ++ toLE 4 s
  | .pepHash f h => toLE 4 f ++ toLE 8 h

def Fields.WF : Fields → Prop
  | .tsOnly t => t < 2 ^ 32
  | .tsSize t s => t < 2 ^ 32 ∧ s < 2 ^ 32
  | .pepTs f t s => f < 2 ^ 32 ∧ f % 2 = 0 ∧ t < 2 ^ 32 ∧ s < 2 ^ 32
  | .pepHash f h => f < 2 ^ 32 ∧ f % 2 = 1 ∧ h < 2 ^ 64

/-- (timestamp, source size, hash, payload offset) a reader must report -/
def meaning : Fields → Option Nat × Option Nat × Option Nat × Nat
  | .tsOnly t => (some t, none, none, 8)
  | .tsSize t s => (some t, some s, none, 12)
  | .pepTs _ t s => (some t, some s, none, 16)
  | .pepHash _ h => (none, none, some h, 16)

def Fields.form : Fields → Form
  | .tsOnly _ => .tsOnly | .tsSize .. => .tsSize | .pepTs .. => .pep552 | .pepHash .. => .pep552

end XV.Spec.PycHeader

/-
C18 — Each call's result is independent of what the process did before.

* C18_writes — the scan of /repo/xdis regenerated on every run (harness/writes.py: mutable
  default arguments, mutable class attributes, function bodies that rebind or mutate a
  module-level name or a local alias of one, setattr on foreign objects) finds nothing
  outside the reviewed list ref/write_sites.txt, whose entries are import-time table
  construction, write-only stores, the Dropbox decryptor, and `remap_opcodes` (the
  property's documented exception).
* C18_history — for any system whose operations restore the state they found on the
  operations of a set `ok` (the frame condition the scan and the run-time digest of every
  module-level container establish for the package, `ok` = everything but remapping), the
  result of a probe after ANY finite history of `ok` operations is its result in a fresh
  process; C18_repeat, C18_tables_unchanged are the other two clauses.
* C18_exception_needed — the frame condition cannot be dropped: a system with one
  table-patching operation (remap) does change later results.
-/
import XV.Model.History
import XV.Gen.Effects
namespace XV.Props.C18
open XV XV.Model.History

/-! ### the write sites of the current tree -/

def rowBeq : List Str → List Str → Bool
  | [], [] => true
  | a :: as, b :: bs => a == b && rowBeq as bs
  | _, _ => false

theorem C18_writes : (Gen.writeSites.all fun s => Gen.writeAllow.any (rowBeq s)) = true ∧
    Gen.writeSites.length > 10 := by decide +kernel

/-! ### histories -/

variable {T A R : Type}

/-- frame condition: operations in `ok` leave the tables as they found them -/
def Frame (s : Sys T A R) (ok : A → Prop) : Prop := ∀ t a, ok a → (s.sem t a).1 = t

theorem run_state (s : Sys T A R) (ok : A → Prop) (hf : Frame s ok) (t : T) (hist : List A)
    (hh : ∀ a ∈ hist, ok a) : (s.run t hist).1 = t := by
  induction hist generalizing t with
  | nil => rfl
  | cons a as ih =>
    simp only [Sys.run]
    rw [hf t a (hh a (by simp))]
    exact ih t (fun b hb => hh b (by simp [hb]))

/-- C18_tables_unchanged: no history of `ok` operations alters the tables later calls read -/
theorem C18_tables_unchanged (s : Sys T A R) (ok : A → Prop) (hf : Frame s ok) (t : T) (hist : List A)
    (hh : ∀ a ∈ hist, ok a) : (s.run t hist).1 = t := run_state s ok hf t hist hh

/-- C18_history: a probe after any finite history gives what it gives in a fresh process -/
theorem C18_history (s : Sys T A R) (ok : A → Prop) (hf : Frame s ok) (t : T) (hist : List A)
    (hh : ∀ a ∈ hist, ok a) (probe : A) : s.after t hist probe = s.fresh t probe := by
  unfold Sys.after Sys.fresh
  rw [run_state s ok hf t hist hh]

/-- C18_repeat: repeating a call gives the same result -/
theorem C18_repeat (s : Sys T A R) (ok : A → Prop) (hf : Frame s ok) (t : T) (a : A) (ha : ok a) :
    s.after t [a] a = s.fresh t a := C18_history s ok hf t [a] (by simpa using ha) a

/-- every result inside a history is the fresh result of that operation: the form the
    differential check uses (each operation of a long random sequence is a probe after its prefix) -/
theorem C18_each (s : Sys T A R) (ok : A → Prop) (hf : Frame s ok) (t : T) (hist : List A)
    (hh : ∀ a ∈ hist, ok a) : (s.run t hist).2 = hist.map (s.fresh t) := by
  induction hist generalizing t with
  | nil => rfl
  | cons a as ih =>
    simp only [Sys.run, List.map_cons, Sys.fresh]
    rw [hf t a (hh a (by simp))]
    rw [ih t (fun b hb => hh b (by simp [hb]))]

/-! ### non-vacuity, and why remapping is excepted -/

/-- a toy package: the table is a number, `get` reads it, `remap n` patches it -/
inductive Op | get | remap (n : Nat)

def toy : Sys Nat Op Nat where
  sem := fun t a => match a with
    | .get => (t, t)
    | .remap n => (n, n)

def toyOk : Op → Prop
  | .get => True
  | .remap _ => False

example : Frame toy toyOk := by
  intro t a h
  cases a with
  | get => rfl
  | remap n => exact absurd h (by simp [toyOk])

/-- C18_exception_needed: with the patching operation in the history the conclusion fails -/
theorem C18_exception_needed : toy.after 7 [.remap 9] .get ≠ toy.fresh 7 .get := by decide

end XV.Props.C18

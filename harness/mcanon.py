# Canonical trees for marshalled values.  Imported by the oracle (2.7 .. 3.13) and by the
# implementation worker, so the syntax must stay valid on 2.7.
import binascii
import struct
import sys

PY2 = sys.version_info[0] == 2


def hx(b):
    if not PY2 and isinstance(b, str):
        b = bytes(bytearray(ord(c) for c in b))
    return binascii.hexlify(bytes(b)).decode("ascii") or "-"


def dbits(x):
    return binascii.hexlify(struct.pack(">d", x)).decode("ascii")


CODE_FIELDS = ["co_argcount", "co_posonlyargcount", "co_kwonlyargcount", "co_nlocals", "co_stacksize", "co_flags", "co_code",
               "co_consts", "co_names", "co_varnames", "co_freevars", "co_cellvars", "co_filename", "co_name", "co_qualname",
               "co_firstlineno", "co_linetable", "co_exceptiontable"]


def tree(v, ver=None):
    """ver: producing version (major, minor) for code objects' optional fields"""
    t = type(v).__name__
    if v is None:
        return ["none"]
    if v is True:
        return ["true"]
    if v is False:
        return ["false"]
    if v is Ellipsis:
        return ["ellipsis"]
    if v is StopIteration:
        return ["stopiter"]
    if t == "LongTypeForPython3" or t == "long":
        return ["long", str(int(v))]
    if t == "int":
        return ["int", str(v)]
    if t == "float":
        return ["float", dbits(v)]
    if t == "complex":
        return ["complex", dbits(v.real), dbits(v.imag)]
    if t == "UnicodeForPython3":
        raw = v.value
        return ["u2", hx(raw) if isinstance(raw, bytes) else hx(raw.encode("utf-8", "surrogatepass"))]
    if t == "unicode":
        return ["u2", hx(v.encode("utf-8"))]
    if t == "bytes" or (t == "str" and PY2) or t == "bytearray":
        return ["bytes", hx(v)]
    if t == "str":
        return ["str", [ord(c) for c in v]]
    if t in ("tuple", "list"):
        return [t, [tree(x, ver) for x in v]]
    if t == "set":
        return ["set", [tree(x, ver) for x in v]]
    if t == "frozenset":
        return ["fset", [tree(x, ver) for x in v]]
    if t == "dict":
        return ["dict", [[tree(k, ver), tree(x, ver)] for k, x in v.items()]]
    if hasattr(v, "co_code"):
        fs = []
        for f in CODE_FIELDS:
            if f == "co_linetable":
                x = getattr(v, "co_linetable", None)
                if x is None:
                    x = getattr(v, "co_lnotab", b"")
                if ver is not None and ver < (1, 5):
                    x = b""
                # kind included: a text line table is not a bytes line table
                fs.append([f, tree(x, ver) if not isinstance(x, dict) else ["other", "dict"]])
                continue
            if f == "co_code":
                fs.append([f, tree(v.co_code, ver)])
                continue
            if f in ("co_qualname", "co_exceptiontable"):
                if ver is not None and ver < (3, 11):
                    continue
                if not hasattr(v, f):
                    continue
            if f == "co_posonlyargcount":
                x = getattr(v, f, None)
                if ver is not None and ver < (3, 8):
                    x = None
                fs.append([f, tree(x, ver)])
                continue
            if f == "co_kwonlyargcount":
                fs.append([f, tree(getattr(v, f, 0) if getattr(v, f, 0) is not None else 0, ver)])
                continue
            if f in ("co_freevars", "co_cellvars") and not hasattr(v, f):
                fs.append([f, ["tuple", []]])
                continue
            if f == "co_firstlineno" and not hasattr(v, f):
                fs.append([f, ["int", "-1"]])
                continue
            if f == "co_stacksize" and not hasattr(v, f):
                fs.append([f, ["int", "0"]])
                continue
            fs.append([f, tree(getattr(v, f), ver)])
        return ["code", fs]
    return ["other", t]


def render(t):
    k = t[0]
    if k in ("none", "true", "false", "ellipsis", "stopiter"):
        return "(%s)" % k
    if k in ("int", "long", "float", "bytes", "u2", "floattext"):
        return "(%s %s)" % (k, t[1])
    if k in ("complex", "complextext"):
        return "(%s %s %s)" % (k, t[1], t[2])
    if k == "str":
        return "(str %s)" % (",".join(str(c) for c in t[1]) or "-")
    if k in ("tuple", "list"):
        return "(%s%s)" % (k, "".join(" " + render(x) for x in t[1]))
    if k in ("set", "fset"):
        return "(%s%s)" % (k, "".join(" " + s for s in sorted(set(render(x) for x in t[1]))))
    if k == "dict":
        return "(dict%s)" % "".join(" " + s for s in sorted("(%s %s)" % (render(a), render(b)) for a, b in t[1]))
    if k == "code":
        return "(code%s)" % "".join(" (%s %s)" % (n, render(x)) for n, x in t[1])
    return "(other %s)" % t[1]


def port2(t, top_field=None):
    """what a Python 3 host holding xdis's result should contain for a Python 2 producer's value"""
    k = t[0]
    if k == "bytes":
        raw = binascii.unhexlify(t[1]) if t[1] != "-" else b""
        try:
            return ["str", [ord(c) for c in raw.decode("utf-8")]]
        except UnicodeDecodeError:
            return t
    if k in ("tuple", "list", "set", "fset"):
        return [k, [port2(x) for x in t[1]]]
    if k == "dict":
        return ["dict", [[port2(a), port2(b)] for a, b in t[1]]]
    if k == "code":
        return ["code", [[n, x if n in ("co_code", "co_linetable") else port2(x)] for n, x in t[1]]]
    return t

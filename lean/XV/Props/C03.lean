/-
C03 — Operands resolve to the same constant, name or variable CPython resolves.
-/
import XV.Model.Operand
import XV.Spec.Dis
import XV.Spec.OpTables
namespace XV.Props.C03
open XV XV.Model XV.Model.Operand

/-! ### 3.11+: the merged locals+cells+frees table is reconstructed exactly

CPython orders co_localsplusnames as: locals (some of which are also cells), then the
cells that are not locals, then the free variables; names are pairwise distinct.
xdis splits that table by kind when it unmarshals the code object and later rebuilds it as
`varnames + [c for c in cellvars + freevars if c not in varnames]`.  The theorem says the
rebuilt table is the original one — so index i resolves to the name CPython's
`_varname_from_oparg(i)` gives, including a parameter that is also a cell. -/

/-- a table in CPython's order; kind bits as CPython writes them:
    0x20 local, 0x60 local that is also a cell, 0x40 cell, 0x80 free -/
def table (L : List (Nat × Bool)) (C F : List Nat) : List (Nat × Nat) :=
  L.map (fun p => (p.1, if p.2 then 0x60 else 0x20)) ++ C.map (fun n => (n, 0x40)) ++ F.map (fun n => (n, 0x80))

theorem split_free (n : Nat) (rest : List (Nat × Nat)) :
    splitLocalsplus ((n, 0x80) :: rest) =
      ((splitLocalsplus rest).1, (splitLocalsplus rest).2.1, n :: (splitLocalsplus rest).2.2) := by
  simp [splitLocalsplus, CO_FAST_LOCAL, CO_FAST_CELL, CO_FAST_FREE]
theorem split_cell (n : Nat) (rest : List (Nat × Nat)) :
    splitLocalsplus ((n, 0x40) :: rest) =
      ((splitLocalsplus rest).1, n :: (splitLocalsplus rest).2.1, (splitLocalsplus rest).2.2) := by
  simp [splitLocalsplus, CO_FAST_LOCAL, CO_FAST_CELL, CO_FAST_FREE]
theorem split_local (n : Nat) (rest : List (Nat × Nat)) :
    splitLocalsplus ((n, 0x20) :: rest) =
      (n :: (splitLocalsplus rest).1, (splitLocalsplus rest).2.1, (splitLocalsplus rest).2.2) := by
  simp [splitLocalsplus, CO_FAST_LOCAL, CO_FAST_CELL, CO_FAST_FREE]
theorem split_localcell (n : Nat) (rest : List (Nat × Nat)) :
    splitLocalsplus ((n, 0x60) :: rest) =
      (n :: (splitLocalsplus rest).1, n :: (splitLocalsplus rest).2.1, (splitLocalsplus rest).2.2) := by
  simp [splitLocalsplus, CO_FAST_LOCAL, CO_FAST_CELL, CO_FAST_FREE]

theorem split_frees (F : List Nat) : splitLocalsplus (F.map fun n => (n, 0x80)) = ([], [], F) := by
  induction F with
  | nil => rfl
  | cons n F ih => rw [List.map_cons, split_free, ih]

theorem split_cells (C F : List Nat) :
    splitLocalsplus (C.map (fun n => (n, 0x40)) ++ F.map fun n => (n, 0x80)) = ([], C, F) := by
  induction C with
  | nil => simpa using split_frees F
  | cons n C ih => rw [List.map_cons, List.cons_append, split_cell, ih]

theorem split_table (L : List (Nat × Bool)) (C F : List Nat) :
    splitLocalsplus (table L C F) =
      (L.map (·.1), (L.filter (·.2)).map (·.1) ++ C, F) := by
  unfold table
  induction L with
  | nil => simpa using split_cells C F
  | cons p L ih =>
    obtain ⟨n, b⟩ := p
    simp only [List.map_cons, List.cons_append, List.append_assoc] at ih ⊢
    cases b
    · simp only [Bool.false_eq_true, if_false]
      rw [split_local, ih]; simp
    · simp only [if_true]
      rw [split_localcell, ih]; simp

theorem filter_notin_of_subset (V xs : List Nat) (h : ∀ x ∈ xs, x ∈ V) :
    xs.filter (fun c => !(V.contains c)) = [] := by
  induction xs with
  | nil => rfl
  | cons x xs ih =>
    have hx : x ∈ V := h x (by simp)
    have hrest := fun y hy => h y (List.mem_cons_of_mem x hy)
    simp only [List.filter_eq_nil_iff, List.filter_eq_self] at *
    simp_all

theorem filter_notin_of_disjoint (V xs : List Nat) (h : ∀ x ∈ xs, x ∉ V) :
    xs.filter (fun c => !(V.contains c)) = xs := by
  induction xs with
  | nil => rfl
  | cons x xs ih =>
    have hx : x ∉ V := h x (by simp)
    have hrest := fun y hy => h y (List.mem_cons_of_mem x hy)
    simp only [List.filter_eq_nil_iff, List.filter_eq_self] at *
    simp_all

/-- C03_split_join: for every table in CPython's order with cells and frees distinct from
    the locals, unmarshalling then rebuilding gives back the original name list -/
theorem C03_split_join (L : List (Nat × Bool)) (C F : List Nat)
    (hC : ∀ c ∈ C, c ∉ L.map (·.1)) (hF : ∀ f ∈ F, f ∉ L.map (·.1)) :
    let s := splitLocalsplus (table L C F)
    localsplus s.1 (s.2.1 ++ s.2.2) = (table L C F).map (·.1) := by
  simp only [split_table]
  unfold localsplus table
  have h1 : ((L.filter (·.2)).map (·.1)).filter (fun c => !((L.map (·.1)).contains c)) = [] := by
    apply filter_notin_of_subset
    intro x hx
    simp only [List.mem_map, List.mem_filter] at hx ⊢
    obtain ⟨p, ⟨hp, _⟩, rfl⟩ := hx
    exact ⟨p, hp, rfl⟩
  rw [List.filter_append, List.filter_append, h1, filter_notin_of_disjoint _ C hC, filter_notin_of_disjoint _ F hF]
  simp [List.map_append, Function.comp_def]

/-- non-vacuity: `def f(a, b): c = 1; (lambda: a + c + g)`: a is a parameter and a cell -/
example : (let s := splitLocalsplus (table [(1, true), (2, false)] [3] [4]);
           (s, localsplus s.1 (s.2.1 ++ s.2.2))) = (([1, 2], [1, 3], [4]), [1, 2, 3, 4]) := by decide

/-! ### encoded indices: the shifts are the ones CPython applies -/

/-- LOAD_GLOBAL (3.11+) and LOAD_ATTR (3.12+): the name index is operand >> 1 whatever the flag bit -/
theorem C03_name_shift1 (idx : Nat) (flag : Nat) (h : flag < 2) : (idx * 2 + flag) >>> 1 = idx := by
  simp [Nat.shiftRight_eq_div_pow]; omega
/-- LOAD_SUPER_ATTR (3.12+): two flag bits -/
theorem C03_name_shift2 (idx : Nat) (flags : Nat) (h : flags < 4) : (idx * 4 + flags) >>> 2 = idx := by
  simp [Nat.shiftRight_eq_div_pow]; omega
/-- COMPARE_OP: 3.12 keeps the operator in bits 4.., 3.13 in bits 5.. -/
theorem C03_cmp_shift (k low : Nat) (n : Nat) (h : low < 2 ^ n) : (k * 2 ^ n + low) >>> n = k := by
  rw [Nat.shiftRight_eq_div_pow]
  have hp : 0 < 2 ^ n := Nat.pow_pos (by decide)
  rw [Nat.mul_comm, Nat.mul_add_div hp, Nat.div_eq_of_lt h]; rfl
/-- 3.13 paired LOAD_FAST/STORE_FAST operands: two nibbles -/
theorem C03_pair (a b : Nat) (hb : b < 16) : (a * 16 + b) >>> 4 = a ∧ (a * 16 + b) &&& 15 = b := by
  constructor
  · simp [Nat.shiftRight_eq_div_pow]; omega
  · have : (a * 16 + b) &&& 15 = (a * 16 + b) % 16 := Nat.and_two_pow_sub_one_eq_mod _ 4
    rw [this]; omega

/-! ### comparison operators: xdis's spellings are CPython's up to '-' ↦ ' ' -/

def dashToSpace (s : Str) : Str := s.map fun c => if c == 45 then 32 else c

def cmpOk (t : OpTable) : Bool :=
  match Spec.OpTables.refFor t with
  | none => true
  | some r =>
    -- every CPython operator appears at the same index in xdis's tuple (which has a trailing "BAD")
    (r.cmpOp.zip t.cmpOp).all (fun p => Spec.OpTables.natsEq p.1 (dashToSpace p.2)) && r.cmpOp.length ≤ t.cmpOp.length

theorem C03_cmp : ∀ t ∈ Gen.allTables, cmpOk t = true := by decide +kernel

def distinctStrs : List Str → Bool
  | [] => true
  | x :: xs => !(xs.any (Spec.OpTables.natsEq x)) && distinctStrs xs

/-- `dashToSpace` conflates no two of xdis's operators: the normalisation is a bijection -/
theorem C03_cmp_injective : ∀ t ∈ Gen.allTables, distinctStrs (t.cmpOp.map dashToSpace) = true := by
  decide +kernel

end XV.Props.C03

"""C20 — xdis.std is a faithful drop-in for the host's dis.  Theorems: lean/XV/Props/C20.lean."""
import json

import core
import progrun
from worker import Worker

RULE = ("under each installed host: function, closure, method, staticmethod, generator, coroutine, code object, nested code, "
        "source string, lambda x first_line in {None, 1, 1000}: xdis.std.get_instructions / Bytecode / findlabels / "
        "findlinestarts / module tables vs the host's dis, and the same TypeError on rejected objects; make_std_api(v) on "
        "the main host vs dis of CPython v for programs compiled by 2.7 and 3.6-3.13; distinct = distinct (host, object, "
        "first_line) or (version, program, code object)")


def run(ctx):
    rep, drv = ctx.rep, ctx.driver
    hosts = dict(core.HOSTS) if ctx.thorough else {k: v for k, v in core.HOSTS.items() if k in ((3, 8), (3, 10), (3, 12), (3, 13))}
    for hv, path in sorted(hosts.items()):
        w = Worker(path)
        try:
            r = w.r("std_vs_dis", first_lines=[None, 1, 1000] if not ctx.thorough else [None, 0, 1, 7, 1000, 100000])
            if not isinstance(r, dict) or "diffs" not in r:
                rep.violation("worker:%d.%d" % hv, "xdis.std comparison could not run under %d.%d: %s" % (hv[0], hv[1], str(r)[:300]), {"host": path}, found_input=False)
                continue
            rep.count(r["checked"] * 3)
            for i in range(r["checked"]):
                rep.distinct.add((hv, i))
            for d in r["diffs"]:
                rep.violation("std:%d.%d:%s:%s:%s" % (hv[0], hv[1], d[0], d[1], d[2]),
                              "host %d.%d: xdis.std.%s on %s (first_line=%s) differs from dis at instruction %s: xdis %s, dis %s"
                              % (hv[0], hv[1], d[0], d[1], d[2], d[3], str(d[4])[:200], str(d[5])[:200]),
                              {"host": path, "function": d[0], "object": d[1], "first_line": d[2], "actual": d[4], "expected": d[5],
                               "source": "harness/workerops/native.py STD_SRC"})
            rep.sample({"host": "%d.%d" % hv, "objects_x_first_lines": r["checked"]})
        finally:
            w.close()
    # make_std_api(version) on this host = dis of that version
    progrun.apply_many(ctx, [("diff_stream", "make_std_api(version).get_instructions", "stdapi"),
                             ("diff_labels", "make_std_api(version) labels / is_jump_target", "stdapi-labels"),
                             ("diff_lines", "make_std_api(version).findlinestarts / starts_line", "stdapi-lines"),
                             ("diff_argvals", "make_std_api(version) argval", "stdapi-argval")], via_std=True)


def replay(ctx, rp):
    print(json.dumps({k: v for k, v in rp.get("replay", {}).items() if k not in ("pyc", "source")}, indent=1)[:1000])
    run(ctx)

#!/venv/bin/python
"""Run the repository's pinned 39-test baseline in <dir> (default /repo) and
report whether every stable test still passes.  exit 0 = all 39 pass."""
import json, os, subprocess, sys, tempfile
import xml.etree.ElementTree as ET

def main():
    d = os.path.abspath(sys.argv[1]) if len(sys.argv) > 1 else "/repo"
    base = json.load(open("/root/.vp/BASELINE.json"))
    want = set(base["stable_pass"])
    fd, xml = tempfile.mkstemp(suffix=".xml"); os.close(fd)
    env = dict(os.environ)
    env.pop("XDIS_VERIF", None)
    p = subprocess.run(["/venv/bin/python", "-m", "pytest", "-ra", "-q", "-p", "no:cacheprovider",
                        "--timeout=900", "--continue-on-collection-errors", "--junitxml=" + xml],
                       cwd=d, env=env, stdout=subprocess.PIPE, stderr=subprocess.STDOUT, text=True)
    passed = set()
    try:
        for tc in ET.parse(xml).getroot().iter("testcase"):
            if any(c.tag in ("failure", "error", "skipped") for c in tc):
                continue
            passed.add("%s::%s" % (tc.get("classname"), tc.get("name")))
    finally:
        os.unlink(xml)
    missing = sorted(want - passed)
    print("baseline: %d/%d stable tests pass in %s" % (len(want) - len(missing), len(want), d))
    for m in missing:
        print("  NOT PASSING:", m)
    if missing:
        print(p.stdout[-3000:])
    sys.exit(1 if missing else 0)
main()

/-
C05 — Line-number mapping equals CPython's for every line-table format.
Model = XV.Model.Lines (transcription of xdis); Spec = XV.Spec.Lines (CPython).
-/
import XV.Model.Lines
import XV.Spec.Lines
import XV.Gen.OpTables
namespace XV.Props.C05
open XV XV.Model.Lines

/-! ### lnotab eras -/

/-- well-formed lnotab for a code string: every line start lies inside the code
    (what every compiler emits; the 3.8/3.9 cut-off and xdis's own cut-off never fire) -/
def WFoff (codeLen addr : Nat) (ps : List (Nat × Nat)) : Prop :=
  addr + (ps.map (·.1)).sum < codeLen

theorem pairs_eq (tab : Bytes) : Model.Lines.pairs tab = Spec.Lines.pairs tab := by
  fun_induction Model.Lines.pairs tab <;> simp_all [Spec.Lines.pairs]

/-- what `lnotabStarts` returns after the loop when `dup_lines` is false -/
def finishND (r : LState) : List (Nat × Int) :=
  if r.done then r.out.reverse
  else if r.lastline ≠ some r.lineno then ((r.offset, r.lineno) :: r.out).reverse else r.out.reverse

theorem lnotabStarts_eq (signed : Bool) (first : Int) (codeLen : Nat) (tab : Bytes) (h : tab.length ≠ 0) :
    lnotabStarts signed false first codeLen tab =
      finishND ((Model.Lines.pairs tab).foldl (lnotabStep signed false codeLen)
        { lastline := none, lineno := first, offset := 0, lastIncr := 0, out := [], done := false }) := by
  unfold lnotabStarts finishND
  simp [h]

/-- the fold, started from a live state, produces the Spec's list after what was already emitted -/
theorem fold27 (codeLen : Nat) (ps : List (Nat × Nat)) (s : LState) (hd : s.done = false)
    (hwf : WFoff codeLen s.offset ps) :
    finishND (ps.foldl (lnotabStep false false codeLen) s)
      = s.out.reverse ++ Spec.Lines.starts27Go s.lastline s.lineno s.offset ps := by
  induction ps generalizing s with
  | nil =>
    simp only [List.foldl_nil, finishND, hd, Spec.Lines.starts27Go]
    by_cases hl : s.lastline = some s.lineno <;> simp [hl]
  | cons p ps ih =>
    obtain ⟨bi, li⟩ := p
    simp only [List.foldl_cons]
    have hw : s.offset + bi + (ps.map (·.1)).sum < codeLen := by
      unfold WFoff at hwf; simp at hwf; omega
    by_cases hb : bi = 0
    · subst hb
      have hs : lnotabStep false false codeLen s (0, li) =
          { s with lastIncr := 0, lineno := s.lineno + (li : Int) } := by
        simp [lnotabStep, hd]
      rw [hs, ih _ (by simp [hd]) (by simp [WFoff]; omega), Spec.Lines.starts27Go]
      simp
    · have hlt : ¬ (s.offset ≥ codeLen) := by omega
      by_cases hl : s.lastline = some s.lineno
      · have hs : lnotabStep false false codeLen s (bi, li) =
            { s with lastIncr := bi, offset := s.offset + bi, lineno := s.lineno + (li : Int) } := by
          simp [lnotabStep, hd, hb, hl, hlt]
        rw [hs, ih _ (by simp [hd]) (by simp [WFoff]; omega), Spec.Lines.starts27Go]
        simp [hb, hl]
      · have hs : lnotabStep false false codeLen s (bi, li) =
            { s with lastIncr := bi, out := (s.offset, s.lineno) :: s.out, lastline := some s.lineno,
                      offset := s.offset + bi, lineno := s.lineno + (li : Int) } := by
          simp [lnotabStep, hd, hb, hl, hlt]
        rw [hs, ih _ (by simp [hd]) (by simp [WFoff]; omega), Spec.Lines.starts27Go]
        simp [hb, hl]

/-- Python ≤ 3.5 (tables bound to `findlinestarts_pre36`): unsigned deltas -/
theorem C05_era27 (first : Int) (codeLen : Nat) (tab : Bytes)
    (hwf : WFoff codeLen 0 (Spec.Lines.pairs tab)) :
    lnotabStarts false false first codeLen tab = Spec.Lines.starts27 first tab := by
  by_cases h0 : tab.length = 0
  · have : tab = [] := List.eq_nil_of_length_eq_zero h0
    subst this; simp [lnotabStarts, Spec.Lines.starts27, Spec.Lines.pairs, Spec.Lines.starts27Go]
  · rw [lnotabStarts_eq _ _ _ _ h0, fold27 _ _ _ rfl (by rw [pairs_eq]; exact hwf), pairs_eq]
    simp [Spec.Lines.starts27]

/-- the fold, started from a live state, produces the Spec's list after what was already emitted -/
theorem fold36 (codeLen : Nat) (ps : List (Nat × Nat)) (s : LState) (hd : s.done = false)
    (hwf : WFoff codeLen s.offset ps) :
    finishND (ps.foldl (lnotabStep true false codeLen) s)
      = s.out.reverse ++ Spec.Lines.starts36Go s.lastline s.lineno s.offset ps := by
  induction ps generalizing s with
  | nil =>
    simp only [List.foldl_nil, finishND, hd, Spec.Lines.starts36Go]
    by_cases hl : s.lastline = some s.lineno <;> simp [hl]
  | cons p ps ih =>
    obtain ⟨bi, li⟩ := p
    simp only [List.foldl_cons]
    have hw : s.offset + bi + (ps.map (·.1)).sum < codeLen := by
      unfold WFoff at hwf; simp at hwf; omega
    by_cases hb : bi = 0
    · subst hb
      have hs : lnotabStep true false codeLen s (0, li) =
          { s with lastIncr := 0, lineno := s.lineno + Spec.Lines.sdelta li } := by
        simp [lnotabStep, hd, Spec.Lines.sdelta]
      rw [hs, ih _ (by simp [hd]) (by simp [WFoff]; omega), Spec.Lines.starts36Go]
      simp
    · have hlt : ¬ (s.offset ≥ codeLen) := by omega
      by_cases hl : s.lastline = some s.lineno
      · have hs : lnotabStep true false codeLen s (bi, li) =
            { s with lastIncr := bi, offset := s.offset + bi, lineno := s.lineno + Spec.Lines.sdelta li } := by
          simp [lnotabStep, hd, hb, hl, hlt, Spec.Lines.sdelta]
        rw [hs, ih _ (by simp [hd]) (by simp [WFoff]; omega), Spec.Lines.starts36Go]
        simp [hb, hl]
      · have hs : lnotabStep true false codeLen s (bi, li) =
            { s with lastIncr := bi, out := (s.offset, s.lineno) :: s.out, lastline := some s.lineno,
                      offset := s.offset + bi, lineno := s.lineno + Spec.Lines.sdelta li } := by
          simp [lnotabStep, hd, hb, hl, hlt, Spec.Lines.sdelta]
        rw [hs, ih _ (by simp [hd]) (by simp [WFoff]; omega), Spec.Lines.starts36Go]
        simp [hb, hl]

/-- Python 3.6, 3.7: signed deltas -/
theorem C05_era36 (first : Int) (codeLen : Nat) (tab : Bytes)
    (hwf : WFoff codeLen 0 (Spec.Lines.pairs tab)) :
    lnotabStarts true false first codeLen tab = Spec.Lines.starts36 first tab := by
  by_cases h0 : tab.length = 0
  · have : tab = [] := List.eq_nil_of_length_eq_zero h0
    subst this; simp [lnotabStarts, Spec.Lines.starts36, Spec.Lines.pairs, Spec.Lines.starts36Go]
  · rw [lnotabStarts_eq _ _ _ _ h0, fold36 _ _ _ rfl (by rw [pairs_eq]; exact hwf), pairs_eq]
    simp [Spec.Lines.starts36]

/-- on well-formed tables the 3.8/3.9 cut-off never fires: `dis` of 3.8/3.9 = `dis` of 3.6 -/
theorem starts38_eq_36 (codeLen : Nat) (ps : List (Nat × Nat)) (last : Option Int) (line : Int) (addr : Nat)
    (hwf : WFoff codeLen addr ps) :
    Spec.Lines.starts38Go codeLen last line addr ps = Spec.Lines.starts36Go last line addr ps := by
  induction ps generalizing last line addr with
  | nil => simp [Spec.Lines.starts38Go, Spec.Lines.starts36Go]
  | cons p ps ih =>
    obtain ⟨bi, li⟩ := p
    have hw : addr + bi + (ps.map (·.1)).sum < codeLen := by
      unfold WFoff at hwf; simp at hwf; omega
    rw [Spec.Lines.starts38Go, Spec.Lines.starts36Go]
    by_cases hb : bi = 0
    · subst hb; simp; exact ih _ _ _ (by simpa [WFoff] using hw)
    · have hlt : ¬ (addr + bi ≥ codeLen) := by omega
      simp only [hb, ne_eq, not_false_eq_true, if_true, hlt, if_false]
      by_cases hl : last = some line
      · simp [hl]; exact ih _ _ _ (by simpa [WFoff] using hw)
      · simp [hl]; exact ih _ _ _ (by simpa [WFoff] using hw)

/-- Python 3.8, 3.9 -/
theorem C05_era38 (first : Int) (codeLen : Nat) (tab : Bytes)
    (hwf : WFoff codeLen 0 (Spec.Lines.pairs tab)) :
    lnotabStarts true false first codeLen tab = Spec.Lines.starts38 first codeLen tab := by
  rw [C05_era36 first codeLen tab hwf]
  unfold Spec.Lines.starts38 Spec.Lines.starts36
  exact (starts38_eq_36 codeLen _ none first 0 hwf).symm

/-- non-vacuity: a table with a 255-split, a zero increment and a negative delta is well formed -/
example : WFoff 400 0 (Spec.Lines.pairs [255, 0, 45, 1, 0, 200, 6, 0xfb]) := by
  unfold WFoff; decide

/-! ### which finder each opcode table binds (T1: regenerated) -/

def findlinestartsName : Str := [99,114,111,115,115,95,100,105,115,46,102,105,110,100,108,105,110,101,115,116,97,114,116,115]
def pre36Name : Str := findlinestartsName ++ [95,112,114,101,51,54]
def name313 : Str := [111,112,99,111,100,101,95,51,49,51,46,102,105,110,100,108,105,110,101,115,116,97,114,116,115,95,51,49,51]
example : findlinestartsName = str "cross_dis.findlinestarts" ∧ pre36Name = str "cross_dis.findlinestarts_pre36"
    ∧ name313 = str "opcode_313.findlinestarts_313" := by decide

def bindingOk (t : Model.OpTable) : Bool :=
  if Model.verLt t.version 1 5 then true            -- SET_LINENO era: no line table
  else if Model.verLt t.version 3 6 then t.findlinestarts == pre36Name
  else if Model.verLt t.version 3 13 then t.findlinestarts == findlinestartsName
  else t.findlinestarts == name313

/-- every table before 3.6 decodes unsigned, every table 3.6–3.12 decodes signed /
    through co_lines, 3.13 uses its own None-reporting variant -/
theorem C05_binding : ∀ t ∈ Gen.allTables, bindingOk t = true := by decide +kernel

/-! ### 3.10 range table -/

theorem coLines310Go_eq (endOff : Nat) (line : Int) (tab : Bytes) :
    coLines310Go endOff line (Model.Lines.pairs tab) = Spec.Lines.ranges310 endOff line (Spec.Lines.decode310 tab) := by
  fun_induction Model.Lines.pairs tab generalizing endOff line with
  | case1 a b rest ih =>
    simp only [coLines310Go, Spec.Lines.decode310, Spec.Lines.ranges310, signed8]
    have hs : (if b ≥ 128 then (b : Int) - 256 else (b : Int)) = (if b ≥ 128 then (b : Int) - 256 else b) := rfl
    by_cases h128 : (if b ≥ 128 then (b : Int) - 256 else (b : Int)) = -128
    · simp only [h128, ne_eq, not_true_eq_false, if_false, if_true]
      by_cases ha : a = 0
      · subst ha; simp [ih]
      · have : ¬ (endOff = endOff + a) := by omega
        simp [ha, ih]
    · simp only [h128, ne_eq, not_false_eq_true, if_true, if_false]
      by_cases ha : a = 0
      · subst ha; simp [ih]
      · have : ¬ (endOff = endOff + a) := by omega
        simp [ha, ih]
  | case2 t h => 
    match t, h with
    | [], _ => simp [coLines310Go, Spec.Lines.decode310, Spec.Lines.ranges310]
    | [x], _ => simp [coLines310Go, Spec.Lines.decode310, Spec.Lines.ranges310]
    | a :: b :: r, h => exact absurd rfl (h a b r)

/-- Code310.co_lines() = CPython 3.10 co_lines() on every even-length table -/
theorem C05_310 (first : Int) (tab : Bytes) (h : tab.length % 2 = 0) :
    coLines310 first tab = some (Spec.Lines.coLines310 first tab) := by
  simp [coLines310, h, Spec.Lines.coLines310, coLines310Go_eq]

/-- findlinestarts over co_lines() ranges = dis.findlinestarts of 3.10–3.12 -/
theorem C05_starts_of_ranges (rs : List (Nat × Nat × Option Int)) :
    startsFromRanges rs = Spec.Lines.startsOfRanges none rs := by
  unfold startsFromRanges
  suffices ∀ last, startsFromRanges.go last rs = Spec.Lines.startsOfRanges last rs from this none
  intro last
  induction rs generalizing last with
  | nil => simp [startsFromRanges.go, Spec.Lines.startsOfRanges]
  | cons r rs ih =>
    obtain ⟨s, e, l⟩ := r
    cases l with
    | none => simp [startsFromRanges.go, Spec.Lines.startsOfRanges, ih]
    | some line =>
      simp only [startsFromRanges.go, Spec.Lines.startsOfRanges]
      split <;> simp [ih]

end XV.Props.C05

#!/bin/bash
# re-run given seeds against given property checks: args seed:prop ...
cd /verif
for sp in "$@"; do
  seed=${sp%%:*}; prop=${sp##*:}
  git -C /repo apply /verif/seeded/$seed/patch.diff || { echo "$seed no apply"; continue; }
  ./check $prop quick > /tmp/rs.$seed.$prop.log 2>&1; rc=$?
  git -C /repo checkout -- .
  echo "$seed $prop rc=$rc nv=$(grep -c '^VIOLATION' /tmp/rs.$seed.$prop.log) :: $(grep -A1 '^VIOLATION' /tmp/rs.$seed.$prop.log | grep what: | head -1 | cut -c1-260)"
done

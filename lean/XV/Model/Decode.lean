/-
Model of xdis's instruction decoder and label finders:
  bytecode.get_logical_instruction_at_offset (operand part), bytecode.get_instructions_bytes,
  cross_dis.unpack_opargs_bytecode / unpack_opargs_bytecode_310, wordcode.unpack_opargs_wordcode,
  cross_dis.findlabels_pre_310 / findlabels_310 / findlabels, wordcode.findlabels,
  the jump-target branches of the decoder (argval of jrel/jabs), the is_jump_target flag.
`code[i]` past the end raises IndexError, as in Python.
-/
import XV.Model.OpTable
import XV.Base.Bytes
namespace XV.Model.Decode
open XV XV.Model

inductive DErr where | indexError
  deriving Repr, DecidableEq

structure Instr where
  offset : Nat
  opcode : Nat
  arg : Option Nat
  instSize : Nat
  hasExtArg : Bool
  deriving Repr, DecidableEq

def extName : Str := [69, 88, 84, 69, 78, 68, 69, 68, 95, 65, 82, 71]
example : extName = str "EXTENDED_ARG" := by decide

def isExtName (t : OpTable) (op : Nat) : Bool := Str.eqb (t.opnameOf op) extName

def py36 (t : OpTable) : Bool := verGe t.version 3 6

def idx (code : Bytes) (i : Nat) : Except DErr Nat :=
  match code[i]? with
  | some b => .ok b
  | none => .error .indexError

/-- the `while i < n and last_op_was_extended_arg` loop of get_logical_instruction_at_offset;
    `fuel` bounds the iterations (each consumes at least one byte) -/
def logicalGo (t : OpTable) (code : Bytes) (extSize : Nat) :
    Nat → Nat → Nat → Nat → Except DErr (List Instr)
  | 0, _, _, _ => .ok []
  | fuel + 1, i, extCount, extArg =>
    if i < code.length then do
      let op ← idx code i
      let offset := i
      let hasArg := t.hasArg op
      let (arg, i', extArg') ←
        if hasArg then
          if py36 t then do
            let b ← idx code (i + 1)
            let arg := b ||| extArg
            pure (some arg, i + 2, if isExtName t op then arg <<< 8 else 0)
          else do
            let b1 ← idx code (i + 1)
            let b2 ← idx code (i + 2)
            let arg := b1 + b2 * 0x100 + extArg
            pure (some arg, i + 3, if isExtName t op then arg * 0x10000 else 0)
        else pure (none, if py36 t then i + 2 else i + 1, extArg)
      let ins : Instr := { offset := offset, opcode := op, arg := arg,
                           instSize := t.instrSizeOf op + extCount * extSize, hasExtArg := extCount != 0 }
      if isExtName t op then do
        let rest ← logicalGo t code extSize fuel i' (extCount + 1) extArg'
        pure (ins :: rest)
      else pure [ins]
    else .ok []

def extSize (t : OpTable) : Nat :=
  match t.extendedArg with
  | some e => t.instrSizeOf e
  | none => 0

/-- `get_logical_instruction_at_offset(bytecode, offset, opc)` -/
def logicalAt (t : OpTable) (code : Bytes) (offset : Nat) : Except DErr (List Instr) :=
  logicalGo t code (extSize t) (code.length + 1) offset 0 0

/-- the `while offset < n` loop of get_instructions_bytes: the next group starts at
    `next_offset(last.opcode, opc, last.offset)` -/
def instrsGo (t : OpTable) (code : Bytes) : Nat → Nat → Except DErr (List Instr)
  | 0, _ => .ok []
  | fuel + 1, offset =>
    if offset < code.length then do
      let grp ← logicalAt t code offset
      match grp.getLast? with
      | none => .ok []          -- cannot happen when offset < n
      | some last => do
        let rest ← instrsGo t code fuel (last.offset + t.instrSizeOf last.opcode)
        pure (grp ++ rest)
    else .ok []

def instrs (t : OpTable) (code : Bytes) : Except DErr (List Instr) :=
  instrsGo t code (code.length + 1) 0

/-! ### the three `unpack_opargs_*` generators used by the label finders -/

/-- cross_dis.unpack_opargs_bytecode (pre-3.6 tables; after the fix it reads both operand bytes) -/
def unpackBytecodeGo (t : OpTable) (code : Bytes) : Nat → Nat → Nat → Except DErr (List (Nat × Nat × Option Nat))
  | 0, _, _ => .ok []
  | fuel + 1, offset, extArg =>
    if offset < code.length then do
      let op ← idx code offset
      if t.hasArg op then do
        let b1 ← idx code (offset + 1)
        let b2 ← idx code (offset + 2)
        let arg := (b1 ||| (b2 <<< 8)) ||| extArg
        let extArg' := if t.extendedArg == some op then arg <<< (t.extShift.getD 0) else 0
        let rest ← unpackBytecodeGo t code fuel (offset + 3) extArg'
        pure ((offset, op, some arg) :: rest)
      else do
        let rest ← unpackBytecodeGo t code fuel (offset + 1) extArg
        pure ((offset, op, none) :: rest)
    else .ok []

def unpackBytecode (t : OpTable) (code : Bytes) := unpackBytecodeGo t code (code.length + 1) 0 0

/-- wordcode.unpack_opargs_wordcode: `for i in range(0, n, 2)`; extended_arg survives an
    operand-less opcode -/
def unpackWordGo (t : OpTable) (reset : Bool) (code : Bytes) : Nat → Nat → Nat → Except DErr (List (Nat × Nat × Option Nat))
  | 0, _, _ => .ok []
  | fuel + 1, i, extArg =>
    if i < code.length then do
      let op ← idx code i
      if t.hasArg op then do
        let b ← idx code (i + 1)
        let arg := b ||| extArg
        let extArg' := if t.extendedArg == some op then arg <<< (if reset then t.extShift.getD 0 else 8) else 0
        let rest ← unpackWordGo t reset code fuel (i + 2) extArg'
        pure ((i, op, some arg) :: rest)
      else do
        -- unpack_opargs_wordcode keeps extended_arg; unpack_opargs_bytecode_310 keeps it too
        let rest ← unpackWordGo t reset code fuel (i + 2) extArg
        pure ((i, op, none) :: rest)
    else .ok []

def unpackWord (t : OpTable) (code : Bytes) := unpackWordGo t false code (code.length + 1) 0 0
/-- cross_dis.unpack_opargs_bytecode_310 (same shape; shift taken from the table) -/
def unpack310 (t : OpTable) (code : Bytes) := unpackWordGo t true code (code.length + 1) 0 0

/-! ### label finders -/

def jbName : Str := [74, 85, 77, 80, 95, 66, 65, 67, 75, 87, 65, 82, 68]
def jbniName : Str := jbName ++ [95, 78, 79, 95, 73, 78, 84, 69, 82, 82, 85, 80, 84]
example : jbName = str "JUMP_BACKWARD" ∧ jbniName = str "JUMP_BACKWARD_NO_INTERRUPT" := by decide

/-- Python's `needle in haystack` on strings -/
def isInfix (needle : Str) : Str → Bool
  | [] => needle.isEmpty
  | c :: cs => needle.isPrefixOf (c :: cs) || isInfix needle cs

def forIterName : Str := [70, 79, 82, 95, 73, 84, 69, 82]
def sendName : Str := [83, 69, 78, 68]
example : forIterName = str "FOR_ITER" ∧ sendName = str "SEND" := by decide

def addLabel (ls : List Int) (l : Int) : List Int := if ls.contains l then ls else ls ++ [l]

/-- cross_dis.findlabels_pre_310 -/
def findlabelsPre310 (t : OpTable) (code : Bytes) : Except DErr (List Int) := do
  let ops ← unpackBytecode t code
  pure (ops.foldl (fun ls (offset, op, arg) =>
    match arg with
    | none => ls
    | some a =>
      let j : Int :=
        if t.isJrel op then (offset : Int) + t.instrSizeOf op + a
        else if t.isJabs op then (a : Int) else -1
      if j ≥ 0 then addLabel ls j else ls) [])

def cacheSize (tbl : List (Str × Nat)) (name : Str) : Nat := (tbl.lookup name).getD 0

/-- wordcode.findlabels (tables ≥ 3.6) -/
def findlabelsWord (t : OpTable) (cache313 : List (Str × Nat)) (code : Bytes) : Except DErr (List Int) := do
  let ops ← if verLt t.version 3 10 then unpackWord t code else unpack310 t code
  pure (ops.foldl (fun ls (offset, op, arg) =>
    match arg with
    | none => ls
    | some a =>
      let ai : Int := a
      let arg2 : Int := if verGe t.version 3 10 then ai * 2 else ai
      if t.isJrel op then
        let arg2 := if verGe t.version 3 11 && isInfix jbName (t.opnameOf op) then -arg2 else arg2
        let j := (offset : Int) + 2 + arg2 +
          (if verGe t.version 3 13 then 2 * (cacheSize cache313 (t.opnameOf op) : Int)
           else if verGe t.version 3 12 && (Str.eqb (t.opnameOf op) forIterName || Str.eqb (t.opnameOf op) sendName) then 2 else 0)
        addLabel ls j
      else if t.isJabs op then addLabel ls arg2
      else ls) [])

end XV.Model.Decode

namespace XV.Model.Decode
open XV XV.Model

/-- which label finder the table binds (`opc.findlabels`) -/
def crossFindlabels : Str := [99,114,111,115,115,95,100,105,115,46,102,105,110,100,108,97,98,101,108,115]
def wordFindlabels : Str := [119,111,114,100,99,111,100,101,46,102,105,110,100,108,97,98,101,108,115]
example : crossFindlabels = str "cross_dis.findlabels" ∧ wordFindlabels = str "wordcode.findlabels" := by decide

/-- `opc.findlabels(code, opc)`; `none` = a binding this Model does not transcribe -/
def findlabels (t : OpTable) (cache313 : List (Str × Nat)) (code : Bytes) : Option (Except DErr (List Int)) :=
  if t.findlabels == wordFindlabels then some (findlabelsWord t cache313 code)
  else if t.findlabels == crossFindlabels && verLt t.version 3 10 then some (findlabelsPre310 t code)
  else none

def pjNames : List Str :=
  [[80,79,80,95,74,85,77,80,95,73,70,95,84,82,85,69], [80,79,80,95,74,85,77,80,95,73,70,95,70,65,76,83,69],
   [80,79,80,95,74,85,77,80,95,73,70,95,78,79,78,69], [80,79,80,95,74,85,77,80,95,73,70,95,78,79,84,95,78,79,78,69],
   jbName]
example : pjNames = [str "POP_JUMP_IF_TRUE", str "POP_JUMP_IF_FALSE", str "POP_JUMP_IF_NONE",
                     str "POP_JUMP_IF_NOT_NONE", str "JUMP_BACKWARD"] := by decide

/-- the jump branches of get_logical_instruction_at_offset: argval of a jrel/jabs instruction.
    Order of the category tests as in the Python (`const`, `name` first). -/
def jumpArgval (t : OpTable) (ins : Instr) : Option Int :=
  match ins.arg with
  | none => none
  | some arg =>
    if t.constOps.contains ins.opcode || t.nameOps.contains ins.opcode then none
    else if t.isJrel ins.opcode then
      let nm := t.opnameOf ins.opcode
      let signed : Int := if isInfix jbName nm then -(arg : Int) else arg
      let i : Int := ins.offset + t.instrSizeOf ins.opcode
      let v := i + (if verGe t.version 3 10 then signed * 2 else signed)
      let v := if verGe t.version 3 13 && pjNames.contains nm then v + 2 else v
      let v := if verGe t.version 3 12 && (nm == forIterName || nm == sendName) then v + 2 else v
      some v
    else if t.isJabs ins.opcode then
      some (if verGe t.version 3 10 then (arg : Int) * 2 else arg)
    else none

end XV.Model.Decode

"""implementation-side ops for the marshal family"""
import io
import os
import sys

sys.path.insert(0, os.path.dirname(os.path.dirname(os.path.abspath(__file__))))
import mcanon  # noqa: E402


def register(op):
    @op
    def unmarshal(a):
        """xdis.unmarshal.load_code on a byte string for the given magic"""
        from xdis.unmarshal import load_code
        from xdis.magics import magic_int2tuple
        data = bytes.fromhex(a["hex"]) if a["hex"] != "-" else b""
        fp = io.BytesIO(data)
        limit = a.get("recursion_limit")
        old = sys.getrecursionlimit()
        if limit:
            sys.setrecursionlimit(limit)
        try:
            try:
                v = load_code(fp, a["magic"], False, {})
            except BaseException as e:  # noqa
                return {"err": type(e).__name__, "msg": str(e)[:120]}
        finally:
            sys.setrecursionlimit(old)
        ver = tuple(magic_int2tuple(a["magic"])[:2])
        return {"tree": mcanon.tree(v, ver), "consumed": fp.tell()}

"""implementation-side, under each host: native <-> portable code objects (C16) and xdis.std (C20)"""
import sys
import types

FIELDS = ["co_argcount", "co_posonlyargcount", "co_kwonlyargcount", "co_nlocals", "co_stacksize", "co_flags", "co_code", "co_consts",
          "co_names", "co_varnames", "co_freevars", "co_cellvars", "co_filename", "co_name", "co_qualname", "co_firstlineno",
          "co_lnotab", "co_linetable", "co_exceptiontable"]


def walk(co):
    yield co
    for c in co.co_consts:
        if isinstance(c, types.CodeType):
            for x in walk(c):
                yield x


def native_fields(co):
    import warnings
    d = {}
    with warnings.catch_warnings():
        warnings.simplefilter("ignore")
        for f in FIELDS:
            if f == "co_lnotab" and sys.version_info >= (3, 10):
                continue        # derived (and deprecated) on 3.10+: the real table is co_linetable
            if hasattr(co, f):
                v = getattr(co, f)
                d[f] = v.hex() if isinstance(v, bytes) else (repr(v) if not isinstance(v, (int, str)) else v)
    return d


def sources():
    """code objects of this host: a few stdlib modules compiled from source + tricky snippets"""
    import os
    out = []
    lib = os.path.dirname(os.__file__)
    for m in ("colorsys.py", "bisect.py", "heapq.py", "textwrap.py", "contextlib.py", "dis.py", "functools.py", "string.py"):
        p = os.path.join(lib, m)
        if os.path.exists(p):
            out.append((m, open(p).read()))
    out.append(("snip1", "def f(a, b=1, *c, d, e=2, **g):\n    def h():\n        return a, d\n    return h\nclass K:\n    def m(self):\n        return [x for x in self.y if x]\n"))
    out.append(("snip2", "def g(a, b, /, c, *, k):\n    try:\n        with open(a) as f:\n            return f.read(), k\n    except OSError as e:\n        raise\n    finally:\n        b = None\nasync def co(x):\n    async for y in x:\n        await y\n"))
    out.append(("snip3", "x = 1\n" + "\n" * 300 + "y = (2 +\n 3)\nz = f(x,\n\n\n y)\n"))
    # code objects that compare == for CPython but differ in fields its __eq__ ignores
    same = "def f(a):\n    x = a\n    return x\nclass A:\n    def m(self):\n        return 1\nclass B:\n    def m(self):\n        return 1\n"
    out.insert(0, ("dir1/same.py", "def f(a):\n    x = a\n\n\n    return x\n"))
    out.insert(0, ("dir2/same.py", same))
    out.insert(0, ("dir1/same.py", same))
    return out


def register(op):
    @op
    def native_roundtrip(a):
        """codeType2Portable(co).to_native() for every code object of this host's sources"""
        from xdis.codetype import codeType2Portable, portableCodeType
        res = {"host": list(sys.version_info[:3]), "total": 0, "bad": [], "classes": {}}
        lim = a.get("limit", 100000)
        for name, src in sources():
            try:
                top = compile(src, name, "exec")
            except SyntaxError:
                continue
            for k, co in enumerate(walk(top)):
                if res["total"] >= lim:
                    break
                res["total"] += 1
                where = "%s:%d:%s" % (name, k, co.co_name)
                try:
                    p = codeType2Portable(co)
                    cls = type(p).__name__
                    res["classes"][cls] = res["classes"].get(cls, 0) + 1
                    want_cls = portableCodeType().__name__
                    if cls != want_cls:
                        res["bad"].append([where, "class", cls, want_cls])
                        continue
                    before = native_fields(co)
                    # a second conversion is independent of what was done to the first result
                    p.co_name = "mutated_by_caller"
                    p.co_consts = ("mutated",)
                    p = codeType2Portable(co)
                    if p.co_name != co.co_name or p.co_filename != co.co_filename:
                        res["bad"].append([where, "second-conversion", "%s %s" % (p.co_name, p.co_filename), "%s %s" % (co.co_name, co.co_filename)])
                        continue
                    n = p.to_native()
                    if not isinstance(n, types.CodeType):
                        res["bad"].append([where, "to_native-type", type(n).__name__, "code"])
                        continue
                    f0, f1 = native_fields(co), native_fields(n)
                    d = [f for f in f0 if f0[f] != f1.get(f)]
                    if d:
                        res["bad"].append([where, "field:" + d[0], str(f1.get(d[0]))[:80], str(f0[d[0]])[:80]])
                        continue
                    # replace(): a changed copy, the original untouched (the native object too)
                    snap = {f: (getattr(p, f) if not isinstance(getattr(p, f, None), (list, dict)) else repr(getattr(p, f))) for f in FIELDS if hasattr(p, f)}
                    q = p.replace(co_name="zz_renamed", co_firstlineno=co.co_firstlineno + 5)
                    if q is p or q.co_name != "zz_renamed" or q.co_firstlineno != co.co_firstlineno + 5:
                        res["bad"].append([where, "replace-result", q.co_name, "zz_renamed"])
                        continue
                    after = {f: (getattr(p, f) if not isinstance(getattr(p, f, None), (list, dict)) else repr(getattr(p, f))) for f in FIELDS if hasattr(p, f)}
                    if after != snap or native_fields(co) != before:
                        res["bad"].append([where, "replace-mutated-original", "", ""])
                        continue
                    others = [f for f in FIELDS if hasattr(p, f) and f not in ("co_name", "co_firstlineno") and getattr(q, f) != getattr(p, f)]
                    if others:
                        res["bad"].append([where, "replace-changed-other-field:" + others[0], "", ""])
                except Exception as e:  # noqa
                    res["bad"].append([where, "exception", type(e).__name__ + ":" + str(e)[:80], ""])
        res["bad"] = res["bad"][:40]
        return res


def register2(op):
    @op
    def to_native_arg_order(a):
        """the field each positional argument of types.CodeType(...) is taken from, observed by
        substituting a recorder for `types` in the code type's module"""
        import importlib
        from xdis.codetype import codeType2Portable

        def sample(x, y, /, z=1, *, k=2):
            try:
                return x + y + z + k
            except Exception:
                raise
        p = codeType2Portable(sample.__code__)
        mod = importlib.import_module(type(p).__module__)

        class Rec:
            class CodeType:
                def __init__(self, *args):
                    self.args = args
        # distinct, recognisable values per field
        marks = {}
        for i, f in enumerate(FIELDS):
            if hasattr(p, f):
                marks[f] = getattr(p, f)
        saved = mod.types
        mod.types = Rec
        try:
            r = p.to_native()
        finally:
            mod.types = saved
        order = []
        for x in r.args:
            hit = [f for f in FIELDS if hasattr(p, f) and getattr(p, f) is x or (hasattr(p, f) and type(getattr(p, f)) is type(x) and getattr(p, f) == x and not isinstance(x, int))]
            if isinstance(x, int):
                hit = [f for f in ("co_argcount", "co_posonlyargcount", "co_kwonlyargcount", "co_nlocals", "co_stacksize", "co_flags", "co_firstlineno")
                       if getattr(p, f, None) == x]
            order.append(hit[0] if len(hit) == 1 else "|".join(hit))
        return {"cls": type(p).__name__, "order": order,
                "ints": {f: getattr(p, f) for f in ("co_argcount", "co_posonlyargcount", "co_kwonlyargcount", "co_nlocals", "co_stacksize", "co_flags", "co_firstlineno")}}


_reg_n1 = register


def register(op):  # noqa: F811
    _reg_n1(op)
    register2(op)


STD_SRC = '''
import sys
def func(a, b=2, *args, k=3, **kw):
    c = a + b
    for i in range(c):
        if i % 2:
            continue
        c += i
    try:
        return c / k
    except ZeroDivisionError:
        return None
    finally:
        a = None
def closure(n):
    def inner(x):
        return x + n
    return inner
class Klass:
    attr = 1
    def method(self, q):
        return [q * i for i in range(3)], self.attr
    @staticmethod
    def smeth():
        return 5
def outer3(a):
    b = a
    def mid(c):
        d = c + b
        def inner(e):
            return e + d + b + a + c
        return inner
    return mid
def gen(n):
    for i in range(n):
        yield i
async def coro(x):
    return await x
'''


def _jt313(co):
    """3.13's dis also flags the start/end offsets of exception ranges; the property (C04) defines
    is_jump_target as: a jump target or an exception-handler target"""
    import dis
    s = set(dis.findlabels(co.co_code))
    for e in dis._parse_exception_table(co):
        s.add(e.target)
    return s


def _instr_view(i, host_dis):
    av = i.argval
    if hasattr(av, "co_code"):
        av = "<code %s>" % av.co_name
    elif not isinstance(av, (int, str, type(None))):
        av = repr(av)
    sl = i.starts_line
    if host_dis and sys.version_info >= (3, 13):
        sl = i.line_number if i.starts_line else None
    return [i.opcode, i.opname, i.arg, i.offset, bool(i.is_jump_target), sl, av]


def register3(op):
    @op
    def std_vs_dis(a):
        """xdis.std against this host's dis on the objects dis accepts"""
        import dis
        import xdis.std as S
        glb = {}
        exec(compile(STD_SRC, "std_src.py", "exec"), glb)
        g = glb["gen"](3)
        objs = {"function": glb["func"], "closure": glb["closure"](1), "method": glb["Klass"]().method, "staticmethod": glb["Klass"].smeth,
                "generator": g, "code": glb["func"].__code__, "source": "x = 1\ny = [i for i in range(x)]\n", "lambda": (lambda z: z + 1), "mid3": glb["outer3"](1), "inner3": glb["outer3"](1)(2),
                "inner_code": glb["closure"].__code__.co_consts[1] if hasattr(glb["closure"].__code__.co_consts[1], "co_code") else glb["func"].__code__}
        try:
            c = glb["coro"](None)
            objs["coroutine"] = c
        except Exception:
            c = None
        cmp_map = {"not-in": "not in", "is-not": "is not", "exception-match": "exception match"}
        diffs = []
        n = 0
        for name, x in objs.items():
            for fl in a.get("first_lines", [None, 1, 1000]):
                n += 1
                try:
                    want = [_instr_view(i, True) for i in dis.get_instructions(x, first_line=fl) if i.opname != "CACHE"]
                    if sys.version_info >= (3, 11):
                        # dis's own functions disagree with each other here (3.11/3.12: get_instructions omits
                        # handler targets, Bytecode includes them; 3.13 adds range boundaries): C04's definition rules
                        jt = _jt313(dis._get_code_object(x))
                        for r in want:
                            r[4] = r[3] in jt
                except Exception as e:  # noqa
                    want = "exc:" + type(e).__name__
                try:
                    got = [_instr_view(i, False) for i in S.get_instructions(x, first_line=fl) if i.opname != "CACHE"]
                    for r in got:
                        if isinstance(r[6], str):
                            r[6] = cmp_map.get(r[6], r[6])
                except Exception as e:  # noqa
                    got = "exc:" + type(e).__name__ + ":" + str(e)[:60]
                if isinstance(want, list) and isinstance(got, list):
                    # argval: compare for table-indexed and jump operands; constants by repr
                    for k, (gi, wi) in enumerate(zip(got, want)):
                        if gi[:6] != wi[:6] or (gi[6] != wi[6] and not (isinstance(wi[6], str) and wi[6].startswith("<code"))):
                            diffs.append(["get_instructions", name, fl, k, gi, wi])
                            break
                    else:
                        if len(got) != len(want):
                            diffs.append(["get_instructions-length", name, fl, len(got), len(want), ""])
                elif got != want and not (isinstance(got, str) and isinstance(want, str) and got.split(":")[1] == want.split(":")[1]):
                    diffs.append(["get_instructions", name, fl, "", str(got)[:100], str(want)[:100]])
            # Bytecode iteration
            try:
                want = [_instr_view(i, True)[:5] + [_instr_view(i, True)[6]] for i in dis.Bytecode(x) if i.opname != "CACHE"]
                want = [r if not (isinstance(r[5], str) and (r[5].startswith("<code") or r[5].startswith("("))) else r[:5] + [None] for r in want]
                if sys.version_info >= (3, 11):
                    jt = _jt313(dis._get_code_object(x))
                    for r in want:
                        r[4] = r[3] in jt
                got = [_instr_view(i, False)[:5] + [cmp_map.get(_instr_view(i, False)[6], _instr_view(i, False)[6]) if isinstance(_instr_view(i, False)[6], str) else _instr_view(i, False)[6]]
                       for i in S.Bytecode(x) if i.opname != "CACHE"]
                got = [g if w[5] is not None or g[5] is None else g[:5] + [None] for g, w in zip(got, want)] + got[len(want):]
                if got != want:
                    diffs.append(["Bytecode", name, None, "", str(got)[:100], str(want)[:100]])
            except Exception as e:  # noqa
                diffs.append(["Bytecode-exc", name, None, "", type(e).__name__ + ":" + str(e)[:80], ""])
        co = glb["func"].__code__
        for fn in ("findlabels",):
            w_, g_ = sorted(dis.findlabels(co.co_code)), sorted(S.findlabels(co.co_code))
            if w_ != g_:
                diffs.append(["findlabels", "code", None, "", g_, w_])
        w_ = [list(p) for p in dis.findlinestarts(co)]
        g_ = [list(p) for p in S.findlinestarts(co)]
        if w_ != g_:
            diffs.append(["findlinestarts", "code", None, "", g_[:6], w_[:6]])
        for tname in ("opmap", "opname", "hasconst", "hasname", "EXTENDED_ARG", "HAVE_ARGUMENT"):
            w_, g_ = getattr(dis, tname), getattr(S, tname)
            if tname == "opmap":
                w_ = {k.replace("+", "_"): v for k, v in w_.items()}
                g_ = {k: v for k, v in g_.items()}
            if tname == "opname":
                w_, g_ = list(w_)[:256], [x for x in list(g_)[:256]]
            if tname in ("hasconst", "hasname"):
                w_, g_ = sorted(w_), sorted(g_)
            if w_ != g_:
                diffs.append(["table:" + tname, "", None, "", str(g_)[:120], str(w_)[:120]])
        # rejected objects
        for bad in (42, None, [1]):
            try:
                list(dis.get_instructions(bad))
                w_ = "ok"
            except Exception as e:  # noqa
                w_ = type(e).__name__
            try:
                list(S.get_instructions(bad))
                g_ = "ok"
            except Exception as e:  # noqa
                g_ = type(e).__name__
            if w_ != g_:
                diffs.append(["reject", repr(bad), None, "", g_, w_])
        if c is not None:
            c.close()
        return {"host": list(sys.version_info[:3]), "checked": n, "diffs": diffs[:30]}


_reg_n2 = register


def register(op):  # noqa: F811
    _reg_n2(op)
    register3(op)

"""C11 — corrupt or hostile bytecode files fail cleanly.  Theorems: lean/XV/Props/C11.lean."""
import json
import os
import random
import struct
import subprocess

import core
import effects
import progcheck
from worker import Worker

RULE = ("every prefix (dense near the start, strided after) and seeded single-byte substitutions / insertions / deletions of "
        "valid files of every version (historical corpus + files compiled by the reference interpreters), adversarial size and "
        "reference fields, deep nesting (100..5000), random bytes behind valid headers; each loaded by load_module under an audit "
        "hook and a stopwatch; outcome class compared with the Lean Model; distinct = distinct (base file, mutation)")
BUDGET_S = 6.0


MEM_BUDGET_MB = 300      # peak-RSS growth allowed for one load of a file of a few kilobytes


def bases(ctx, rng):
    """valid files of many versions: (name, bytes)"""
    out = []
    root = os.path.join(core.REPO, "test")
    per_dir = {}
    for d, _, fs in sorted(os.walk(root)):
        for f in sorted(fs):
            if f.endswith((".pyc", ".pyo")) and os.path.getsize(os.path.join(d, f)) < 4000:
                per_dir.setdefault(d, []).append(os.path.join(d, f))
    for d, fs in sorted(per_dir.items()):
        for f in (fs if ctx.thorough else rng.sample(fs, min(1, len(fs)))):
            out.append((os.path.relpath(f, core.REPO), open(f, "rb").read()))
    oracles = {}
    for v in sorted(core.ORACLES):
        for name in ("consts", "closure2", "try_with"):
            src = progcheck.program_set(random.Random(1), 0)[name]
            o = progcheck.oracle_compile(v, name, src, oracles)
            if "pyc" in o:
                out.append(("compiled:%d.%d:%s" % (v[0], v[1], name), bytes.fromhex(o["pyc"])))
    for o in oracles.values():
        o.close()
    return out


def mutants(rng, data, thorough):
    n = len(data)
    cuts = list(range(0, min(n, 70))) + list(range(70, n, max(1, n // (40 if not thorough else 400))))
    for c in cuts:
        yield "prefix:%d" % c, data[:c]
    k = 25 if not thorough else 600
    for _ in range(k):
        i = rng.randrange(n)
        b = rng.choice([0, 1, 0x7f, 0x80, 0xff, data[i] ^ (1 << rng.randrange(8)), rng.randrange(256)])
        yield "subst:%d:%d" % (i, b), data[:i] + bytes([b]) + data[i + 1:]
    for _ in range(k // 3):
        i = rng.randrange(n)
        yield "insert:%d" % i, data[:i] + bytes([rng.randrange(256)]) + data[i:]
        yield "delete:%d" % i, data[:i] + data[i + 1:]
    # adversarial 32-bit fields
    for _ in range(k // 2):
        i = rng.randrange(max(1, n - 4))
        v = rng.choice([0x7fffffff, 0xffffffff, 0x80000000, 0x7ffffff0, 0x00ffffff])
        yield "field32:%d:%x" % (i, v), data[:i] + struct.pack("<I", v) + data[i + 4:]


def hostile_payloads(magic_hdr, v):
    """hand-made payloads behind a valid header"""
    i32 = lambda n: struct.pack("<i", n)
    out = []
    for depth in (100, 600, 1500, 5000):
        out.append(("nest-tuple:%d" % depth, (b"(" + i32(1)) * depth + b"N"))
        out.append(("nest-list:%d" % depth, (b"[" + i32(1)) * depth + b"N"))
    out.append(("huge-tuple", b"(" + i32(0x7fffffff) + b"N" * 10))
    out.append(("huge-string", b"s" + i32(0x7fffffff) + b"abc"))
    out.append(("neg-string", b"s" + i32(-5) + b"abcdef"))
    out.append(("huge-long", b"l" + i32(0x7fffffff) + b"\x01\x00" * 8))
    out.append(("neg-long", b"l" + i32(-0x7fffffff) + b"\x01\x00" * 8))
    out.append(("ref-out-of-range", b"(" + i32(2) + b"r" + i32(5) + b"N"))
    out.append(("ref-negative", b"\xa8" + i32(2) + b"r" + i32(-1) + b"N"))
    out.append(("strref-out-of-range", b"R" + i32(7)))
    out.append(("unknown-type", b"?"))
    out.append(("dict-unterminated", b"{" + b"N" * 21))
    out.append(("bad-float", b"f\x03abc"))
    out.append(("bad-utf8", b"u" + i32(2) + b"\xff\xfe"))
    out.append(("empty", b""))
    return [(n, magic_hdr + p + b"\x00" * max(0, 60 - len(p))) for n, p in out]


def run(ctx):
    rep, drv = ctx.rep, ctx.driver
    rng = random.Random(ctx.seed)
    # static effect facts (also a theorem: C11_effects)
    fl = effects.facts({"load_module"})
    for site in fl["danger"]:
        rep.violation("effects:" + site, "dangerous call site reachable from load_module: %s" % site, {"site": site, "kind": "static call graph"}, found_input=False)
    rep.sample({"static_call_graph": {"reachable_functions": fl["reachable"], "dangerous_sites": fl["danger"]}})
    w = Worker()
    try:
        cases = []
        for name, data in bases(ctx, rng):
            for mname, m in mutants(rng, data, ctx.thorough):
                cases.append((name + ":" + mname, m))
        magics = {(2, 7): 62211, (3, 8): 3413, (3, 11): 3495, (3, 13): 3571, (1, 5): 20121, (3, 3): 3230}
        for v, m in sorted(magics.items()):
            hdr = struct.pack("<H", m) + b"\r\n" + (b"\0" * 12 if v >= (3, 7) else b"\0" * 8 if v >= (3, 3) else b"\0" * 4)
            for n, p in hostile_payloads(hdr, v):
                cases.append(("hostile:%d.%d:%s" % (v[0], v[1], n), p))
        # the Dropbox 2.5 loader (magic 62135) goes through xdis.marsh's buffer reader, not xdis.unmarshal
        i32 = lambda n: struct.pack("<i", n)
        dhdr = struct.pack("<H", 62135) + b"\r\n" + b"\0" * 8
        for n, p in hostile_payloads(dhdr, (2, 5)) + [
                ("neg-string-loop", dhdr + b"[" + i32(0x7fffffff) + b"s" + i32(-5) + b"\0" * 40),
                ("neg-unicode-loop", dhdr + b"(" + i32(0x7fffffff) + b"u" + i32(-5) + b"\0" * 40),
                ("neg-interned-loop", dhdr + b"[" + i32(0x00ffffff) + b"t" + i32(-5) + b"\0" * 40)]:
            cases.append(("hostile:dropbox2.5:%s" % n, p))
        for m in (3010, 3361, 62071, 62135, 62215, 2657, 22138, 12345):
            for tail in (b"\r\n", b"AA", b"\x00\x00"):
                cases.append(("magic:%d:%s" % (m, tail.hex()), struct.pack("<H", m) + tail + b"\0" * 60))
        # every magic number the tables know (a table row that cannot be turned into a version must not escape)
        for m in sorted(set(int(mm) for mm, _ in ctx.tables["magics"]["magicint2version"])):
            if m > 65535:
                continue
            cases.append(("magic:%d:0d0a" % m, struct.pack("<H", m) + b"\r\n" + b"\0" * 60))
            cases.append(("magic:%d:code" % m, struct.pack("<H", m) + b"\r\n" + b"\0" * 12 + b"c" + b"\x01" * 47))
        for _ in range(40 if not ctx.thorough else 2000):
            cases.append(("random", bytes(rng.randrange(256) for _ in range(rng.choice([0, 3, 49, 50, 51, 200])))))
        # corpus of past failures, first: a 3.12 file on which the built-in marshal.loads of CPython 3.12.1 dies with SIGSEGV
        crash = os.path.join(core.VERIF, "ref", "c11_native_crash_312.hex")
        if os.path.exists(crash):
            cases.insert(0, ("recorded:native-crash-3.12", bytes.fromhex(open(crash).read().strip())))
        louts = drv.ask(["x.loadmodule 230 %s" % (c.hex() or "-") for _, c in cases])
        slow, kinds, timeouts = 0, {}, 0
        host_magic2 = w.r("host_magic")["magic"][:4]
        native_allocs = []

        def portable_within_budget(data):
            w2 = Worker()          # a fresh process: peak RSS only grows
            try:
                r2 = w2.r("load_hostile", hex=data.hex() or "-", portable=True, _timeout=BUDGET_S * 3)
                return r2.get("rss_growth_mb", 0) <= MEM_BUDGET_MB and r2["wall"] <= BUDGET_S and r2["outcome"] in ("returned", "ImportError")
            except (TimeoutError, RuntimeError):
                return False
            finally:
                w2.close()
        for (name, data), mo in zip(cases, louts):
            try:
                r = w.r("load_hostile", hex=data.hex() or "-", _timeout=BUDGET_S * 3)
            except TimeoutError:
                r = {"outcome": "returned", "wall": BUDGET_S * 3 + 1, "events": []}     # reported below as too slow
                w = Worker()
                if not (data[:2].hex() == host_magic2):
                    timeouts += 1
                if timeouts > 6:
                    rep.notes.append("more than 6 inputs exceeded the time budget; stopping the sweep early")
                    rep.violation("slow:" + name, "load_module on %s did not finish within %.0f s (%d bytes)" % (name, BUDGET_S * 3, len(data)),
                                  {"input": name, "bytes": data.hex()[:6000], "length": len(data)})
                    break
            except RuntimeError:
                r = {"outcome": "worker-died", "wall": 0, "events": []}
                w = Worker()
            rep.count(1, name)
            kinds[r["outcome"]] = kinds.get(r["outcome"], 0) + 1
            inp = {"input": name, "bytes": data.hex()[:6000], "length": len(data)}
            if r["outcome"] not in ("returned", "ImportError"):
                # the interpreter itself died: the built-in marshal.loads (files of the host's own version) when xdis's own
                # reader survives the same bytes; anything else is a crash of its own kind
                native_crash = r["outcome"] == "worker-died" and data[:2].hex() == host_magic2 and portable_within_budget(data)
                key = "native-marshal-crash" if native_crash else "outcome:%s:%s" % (r["outcome"], name)
                rep.violation(key, "load_module on %s (%d bytes): %s; only a return or ImportError is allowed" % (name, len(data), r["outcome"]),
                              dict(inp, call="xdis.load.load_module(file holding these bytes)", actual=r["outcome"]))
            elif r["events"]:
                rep.violation("effect:%s" % name, "load_module on %s triggered %s" % (name, r["events"]), dict(inp, events=r["events"]))
            elif (r.get("rss_growth_mb", 0) > MEM_BUDGET_MB or r["wall"] > BUDGET_S) and data[:2].hex() == host_magic2 and portable_within_budget(data):
                # a file of the host's own version goes to the built-in marshal.loads, which allocates a container of the
                # announced size before reading it: CPython's reader, not xdis's; xdis's own reader stays within the budget
                native_allocs.append((name, r["rss_growth_mb"]))
            elif r.get("rss_growth_mb", 0) > MEM_BUDGET_MB:
                rep.violation("memory:%s" % name, "load_module on %s (%d bytes) grew the process's peak memory by %.0f MB" % (name, len(data), r["rss_growth_mb"]),
                              dict(inp, rss_growth_mb=r["rss_growth_mb"]))
            elif r["wall"] > BUDGET_S:
                rep.violation("slow:%s" % name, "load_module on %s took %.1f s (%d bytes)" % (name, r["wall"], len(data)), dict(inp, wall=r["wall"]))
            else:
                # tie: outcome class of the Model (the native fast path is not modelled)
                # (the Model omits the field-type assertions of the portable code classes, which only add
                #  ImportError outcomes: so "Model ImportError => implementation ImportError" is the tie)
                if mo == "ImportError" and r["outcome"] != "ImportError":
                    rep.violation("corr:outcome:%s" % name, "Model outcome %s, implementation %s on %s" % (mo, r["outcome"], name), dict(inp, impl=r["outcome"], model=mo), found_input=False)
                elif mo.startswith("escaped") and mo != "escaped:native":
                    rep.violation("corr:outcome:%s" % name, "Model predicts %s, implementation %s on %s" % (mo, r["outcome"], name), dict(inp, impl=r["outcome"], model=mo), found_input=False)
        rep.sample({"cases": len(cases), "outcomes": kinds, "example": cases[5][0]})
        rep.coverage["outcome_distribution"] = kinds
        if native_allocs:
            rep.notes.append("built-in marshal.loads (files of the host's own version) allocated more than %d MB or took longer than the time budget on %d input(s), e.g. %s: "
                             "CPython's reader; xdis's own unmarshaller stayed within the budget on the same bytes" % (MEM_BUDGET_MB, len(native_allocs), native_allocs[:3]))
    finally:
        w.close()


def replay(ctx, rp):
    r = rp.get("replay", {})
    print(json.dumps({k: v for k, v in r.items() if k != "bytes"}, indent=1)[:800])
    if "bytes" in r:
        w = Worker()
        try:
            got = w.r("load_hostile", hex=r["bytes"])
            print("now:", got)
            if got["outcome"] not in ("returned", "ImportError") or got["events"] or got["wall"] > BUDGET_S:
                ctx.rep.violation(rp["key"], rp["what"], r)
        finally:
            w.close()

/-
C04, unbounded part — the label list of a code string of ANY length.

`Model.Decode.findlabelsPre310` / `findlabelsWord` are xdis's label finders (a flat
`unpack_opargs_*` generator followed by a fold that appends each new jump target);
`Spec.Dis.findlabels` is CPython's (`_unpack_opargs`, targets, first occurrences kept).

  fold_dedup      the fold of the finders = dedup ∘ filterMap target      (any list)
  bytecode_spec   unpack_opargs_bytecode = CPython ≤ 3.5 decoding          (any byte string)
  word_spec       unpack_opargs_wordcode / _310 = CPython 3.6–3.10 decoding
  C04_labels_pre / C04_labels_word   the label lists coincide

The per-opcode facts (jump forms equal, operand-taking sets equal, EXTENDED_ARG number and
shift) are discharged over the regenerated tables in C04.lean (`C04_label_tables`).
-/
import XV.Props.C02.Stream
namespace XV.Props.C04
open XV XV.Model XV.Model.Decode XV.Props.C02

abbrev Triple := Spec.Dis.Triple

/-! ### the fold -/

/-- the shape both finders' folds have: append the target of each jump unless already present -/
def foldLabels (tgt : Nat → Nat → Nat → Option Int) (ops : List Triple) (acc : List Int) : List Int :=
  ops.foldl (fun ls (x : Triple) =>
    match x.2.2 with
    | none => ls
    | some a =>
      match tgt x.1 x.2.1 a with
      | some j => addLabel ls j
      | none => ls) acc

def dedupFrom (acc : List Int) (ls : List Int) : List Int :=
  ls.foldl (fun acc l => if acc.contains l then acc else acc ++ [l]) acc

theorem dedup_eq (ls : List Int) : Spec.Dis.dedup ls = dedupFrom [] ls := rfl

theorem fold_dedup (tgt : Nat → Nat → Nat → Option Int) (ops : List Triple) : ∀ acc,
    foldLabels tgt ops acc =
      dedupFrom acc (ops.filterMap fun (x : Triple) => x.2.2.bind (tgt x.1 x.2.1)) := by
  induction ops with
  | nil => intro acc; rfl
  | cons x xs ih =>
    intro acc
    obtain ⟨off, op, arg⟩ := x
    simp only [foldLabels, List.foldl_cons] at ih ⊢
    cases arg with
    | none => simpa [List.filterMap_cons] using ih acc
    | some a =>
      cases h : tgt off op a with
      | none => simpa [List.filterMap_cons, h] using ih acc
      | some j =>
        simp only [List.filterMap_cons, Option.bind_some, h, dedupFrom, List.foldl_cons]
        exact ih (addLabel acc j)

/-! ### the finders are such folds -/

def tgtPre (t : OpTable) (off op a : Nat) : Option Int :=
  if t.isJrel op then some ((off : Int) + t.instrSizeOf op + a)
  else if t.isJabs op then some (a : Int) else none

theorem pre_is_fold (t : OpTable) (code : Bytes) :
    findlabelsPre310 t code = (unpackBytecode t code).map (fun ops => foldLabels (tgtPre t) ops []) := by
  unfold findlabelsPre310
  cases unpackBytecode t code with
  | error e => rfl
  | ok ops =>
    simp only [ok_bind, Except.map, pure, Except.pure, foldLabels]
    congr 2
    funext ls x
    obtain ⟨off, op, arg⟩ := x
    cases arg with
    | none => rfl
    | some a =>
      simp only [tgtPre]
      by_cases h1 : t.isJrel op = true
      · simp only [h1, if_true]
        have : ((off : Int) + (t.instrSizeOf op : Int) + (a : Int)) ≥ 0 := by omega
        simp [this]
      · by_cases h2 : t.isJabs op = true
        · simp only [h1, h2, if_true, Bool.false_eq_true, if_false]
          have : ((a : Nat) : Int) ≥ 0 := by omega
          simp [this]
        · simp [h1, h2]

def tgtWord (t : OpTable) (cache313 : List (Str × Nat)) (off op a : Nat) : Option Int :=
  let ai : Int := a
  let arg2 : Int := if verGe t.version 3 10 then ai * 2 else ai
  if t.isJrel op then
    let arg2 := if verGe t.version 3 11 && isInfix jbName (t.opnameOf op) then -arg2 else arg2
    some ((off : Int) + 2 + arg2 +
      (if verGe t.version 3 13 then 2 * (cacheSize cache313 (t.opnameOf op) : Int)
       else if verGe t.version 3 12 && (Str.eqb (t.opnameOf op) forIterName || Str.eqb (t.opnameOf op) sendName) then 2 else 0))
  else if t.isJabs op then some arg2
  else none

theorem word_is_fold (t : OpTable) (cache313 : List (Str × Nat)) (code : Bytes) :
    findlabelsWord t cache313 code =
      (if verLt t.version 3 10 then unpackWord t code else unpack310 t code).map
        (fun ops => foldLabels (tgtWord t cache313) ops []) := by
  unfold findlabelsWord
  by_cases hv : verLt t.version 3 10 = true
  · simp only [hv, if_true]
    cases unpackWord t code with
    | error e => rfl
    | ok ops =>
      simp only [ok_bind, Except.map, pure, Except.pure, foldLabels]
      congr 2
      funext ls x
      obtain ⟨off, op, arg⟩ := x
      cases arg with
      | none => rfl
      | some a =>
        simp only [tgtWord]
        by_cases h1 : t.isJrel op = true
        · simp [h1]
        · by_cases h2 : t.isJabs op = true
          · simp [h1, h2]
          · simp [h1, h2]
  · simp only [hv, Bool.false_eq_true, if_false]
    cases unpack310 t code with
    | error e => rfl
    | ok ops =>
      simp only [ok_bind, Except.map, pure, Except.pure, foldLabels]
      congr 2
      funext ls x
      obtain ⟨off, op, arg⟩ := x
      cases arg with
      | none => rfl
      | some a =>
        simp only [tgtWord]
        by_cases h1 : t.isJrel op = true
        · simp [h1]
        · by_cases h2 : t.isJabs op = true
          · simp [h1, h2]
          · simp [h1, h2]

/-! ### the finders' generators against CPython's decoding -/

structure LabelOk (t : OpTable) (d : Spec.Dis.DisTbl) : Prop where
  takes : ∀ op, op < 256 → t.hasArg op = decide (op ≥ d.haveArgument)
  extNum : ∀ op, op < 256 → (t.extendedArg == some op) = (d.extendedArg == some op)
  extName : ∀ op, op < 256 → isExtName t op = (d.extendedArg == some op)
  shift : ∀ op, op < 256 → (t.extendedArg == some op) = true → t.extShift.getD 0 = (if py36 t then 8 else 16)
  lt311 : verGe d.version 3 11 = false
  lt312 : verGe d.version 3 12 = false

theorem or_eq_add16 (b1 b2 ext : Nat) (h1 : b1 < 256) (h2 : b2 < 256) (he : ext % 65536 = 0) :
    (b1 ||| (b2 <<< 8)) ||| ext = b1 + b2 * 256 + ext := by
  have e1 : b1 ||| (b2 <<< 8) = b1 + b2 * 256 := by
    rw [Nat.or_comm, ← Nat.shiftLeft_add_eq_or_of_lt (by simpa using h1), Nat.shiftLeft_eq]; omega
  have hlow : b1 + b2 * 256 < 2 ^ 16 := by omega
  have e2 : ext = (ext / 65536) <<< 16 := by rw [Nat.shiftLeft_eq]; omega
  rw [e1, e2, Nat.or_comm, ← Nat.shiftLeft_add_eq_or_of_lt hlow]
  omega

theorem mem_of_get (code : Bytes) (i b : Nat) (h : code[i]? = some b) : b ∈ code := List.mem_of_getElem? h

theorem bytecode_spec (t : OpTable) (d : Spec.Dis.DisTbl) (code : Bytes) (lk : LabelOk t d)
    (hbytes : IsBytes code) (h6 : py36 t = false) :
    ∀ f i ext, ext % 65536 = 0 →
      (unpackBytecodeGo t code f i ext).toOption = Spec.Dis.unpack27Go d code f i ext := by
  intro f
  induction f with
  | zero => intros; rfl
  | succ f ih =>
    intro i ext he
    rw [unpackBytecodeGo, Spec.Dis.unpack27Go]
    by_cases hi : i < code.length
    · simp only [hi, if_true, idx_eq]
      have hop : ∃ op, code[i]? = some op := ⟨code[i], by simp [hi]⟩
      obtain ⟨op, hop⟩ := hop
      have hop256 : op < 256 := hbytes op (mem_of_get code i op hop)
      simp only [hop, ok_bind, Option.bind_eq_bind, Option.bind_some, lk.takes op hop256, decide_eq_true_eq]
      by_cases ha : op ≥ d.haveArgument
      · simp only [ha, if_true]
        cases hb1 : code[i + 1]? with
        | none => rfl
        | some b1 =>
          cases hb2 : code[i + 2]? with
          | none => rfl
          | some b2 =>
            have h1 : b1 < 256 := hbytes b1 (mem_of_get code _ b1 hb1)
            have h2 : b2 < 256 := hbytes b2 (mem_of_get code _ b2 hb2)
            simp only [ok_bind, Option.bind_some, or_eq_add16 b1 b2 ext h1 h2 he, lk.extNum op hop256]
            have hs : ∀ (hx : (d.extendedArg == some op) = true), t.extShift.getD 0 = 16 := by
              intro hx
              have := lk.shift op hop256 (by rw [lk.extNum op hop256]; exact hx)
              simpa [h6] using this
            have key : (if (d.extendedArg == some op) = true then (b1 + b2 * 256 + ext) <<< t.extShift.getD 0 else 0) =
                (if (d.extendedArg == some op) = true then (b1 + b2 * 256 + ext) * 65536 else 0) := by
              by_cases hx : (d.extendedArg == some op) = true
              · simp only [hx, if_true, hs hx, Nat.shiftLeft_eq]
              · simp [hx]
            rw [key]
            have he' : (if (d.extendedArg == some op) = true then (b1 + b2 * 256 + ext) * 65536 else 0) % 65536 = 0 := by
              split <;> omega
            have := ih (i + 3) _ he'
            cases hr : unpackBytecodeGo t code f (i + 3)
                (if (d.extendedArg == some op) = true then (b1 + b2 * 256 + ext) * 65536 else 0) with
            | error e => rw [hr] at this; simp [Except.toOption] at this; simp [← this, Except.toOption, bind, Except.bind]
            | ok rest => rw [hr] at this; simp [Except.toOption] at this; simp [← this, Except.toOption, bind, Except.bind, pure, Except.pure]
      · simp only [ha, if_false]
        have := ih (i + 1) ext he
        cases hr : unpackBytecodeGo t code f (i + 1) ext with
        | error e => rw [hr] at this; simp [Except.toOption] at this; simp [← this, Except.toOption, bind, Except.bind]
        | ok rest => rw [hr] at this; simp [Except.toOption] at this; simp [← this, Except.toOption, bind, Except.bind, pure, Except.pure]
    · simp [hi, Except.toOption]

theorem word_spec (t : OpTable) (d : Spec.Dis.DisTbl) (code : Bytes) (lk : LabelOk t d)
    (hbytes : IsBytes code) (h6 : py36 t = true) (reset : Bool) (hmode : verGe d.version 3 10 = reset) :
    ∀ f i ext, (reset = true → carryOk t code f i ext = true) →
      (Decode.unpackWordGo t reset code f i ext).toOption = Spec.Dis.unpackWordGo d code f i ext 0 := by
  intro f
  induction f with
  | zero => intros; rfl
  | succ f ih =>
    intro i ext hc
    rw [Decode.unpackWordGo, Spec.Dis.unpackWordGo]
    by_cases hi : i < code.length
    · simp only [hi, if_true, idx_eq, Nat.lt_irrefl, if_false, lk.lt311, lk.lt312, Bool.false_eq_true, Bool.false_and]
      have hop : ∃ op, code[i]? = some op := ⟨code[i], by simp [hi]⟩
      obtain ⟨op, hop⟩ := hop
      have hop256 : op < 256 := hbytes op (mem_of_get code i op hop)
      simp only [hop, ok_bind, Option.bind_eq_bind, Option.bind_some, lk.takes op hop256, decide_eq_true_eq]
      by_cases ha : op ≥ d.haveArgument
      · simp only [ha, if_true]
        cases hb : code[i + 1]? with
        | none => rfl
        | some b =>
          simp only [ok_bind, Option.bind_some, lk.extNum op hop256]
          have key : (if (d.extendedArg == some op) = true then (b ||| ext) <<< (if reset = true then t.extShift.getD 0 else 8) else 0) =
              (if (d.extendedArg == some op) = true then (b ||| ext) <<< 8 else 0) := by
            by_cases hx : (d.extendedArg == some op) = true
            · have := lk.shift op hop256 (by rw [lk.extNum op hop256]; exact hx)
              simp only [h6, if_true] at this
              cases reset <;> simp [hx, this]
            · simp [hx]
          rw [key]
          have hc' : reset = true → carryOk t code f (i + 2) (if (d.extendedArg == some op) = true then (b ||| ext) <<< 8 else 0) = true := by
            intro hr
            have := hc hr
            rw [carryOk] at this
            simp only [hi, if_true, hop, lk.takes op hop256, ha, decide_true, h6, hb, lk.extName op hop256] at this
            exact this
          have := ih (i + 2) _ hc'
          cases hr : Decode.unpackWordGo t reset code f (i + 2)
              (if (d.extendedArg == some op) = true then (b ||| ext) <<< 8 else 0) with
          | error e => rw [hr] at this; simp [Except.toOption] at this; simp [← this, Except.toOption, bind, Except.bind]
          | ok rest => rw [hr] at this; simp [Except.toOption] at this; simp [← this, Except.toOption, bind, Except.bind, pure, Except.pure]
      · simp only [ha, if_false]
        -- operand-less opcode: xdis keeps the pending prefix; CPython keeps it before 3.10 and drops it from 3.10
        have hext : (if verGe d.version 3 10 = true then 0 else ext) = ext ∧
            (reset = true → carryOk t code f (i + 2) ext = true) := by
          cases reset with
          | false => simp [hmode]
          | true =>
            have := hc rfl
            rw [carryOk] at this
            simp only [hi, if_true, hop, lk.takes op hop256, ha, decide_false, Bool.false_eq_true, if_false, h6,
              Bool.and_eq_true, beq_iff_eq] at this
            obtain ⟨he, hc2⟩ := this
            subst he
            simp [hc2]
        rw [hext.1]
        have := ih (i + 2) ext hext.2
        cases hr : Decode.unpackWordGo t reset code f (i + 2) ext with
        | error e => rw [hr] at this; simp [Except.toOption] at this; simp [← this, Except.toOption, bind, Except.bind]
        | ok rest => rw [hr] at this; simp [Except.toOption] at this; simp [← this, Except.toOption, bind, Except.bind, pure, Except.pure]
    · simp [hi, Except.toOption]

/-! ### every opcode of the decoded stream is a byte of the code string -/

theorem unpack27_mem (d : Spec.Dis.DisTbl) (code : Bytes) : ∀ f i ext r,
    Spec.Dis.unpack27Go d code f i ext = some r → ∀ x ∈ r, x.2.1 ∈ code := by
  intro f
  induction f with
  | zero => intro i ext r h x hx; simp [Spec.Dis.unpack27Go] at h; subst h; simp at hx
  | succ f ih =>
    intro i ext r h x hx
    rw [Spec.Dis.unpack27Go] at h
    by_cases hi : i < code.length
    · simp only [hi, if_true, Option.bind_eq_bind, Option.bind_eq_some_iff] at h
      obtain ⟨op, hop, h⟩ := h
      split at h
      · simp only [Option.bind_eq_some_iff] at h
        obtain ⟨b1, _, b2, _, rest, hr, hcons⟩ := h
        simp only [pure, Option.some.injEq] at hcons
        subst hcons
        rcases List.mem_cons.mp hx with hx | hx
        · subst hx; exact mem_of_get code i op hop
        · exact ih _ _ _ hr x hx
      · simp only [Option.bind_eq_some_iff] at h
        obtain ⟨rest, hr, hcons⟩ := h
        simp only [pure, Option.some.injEq] at hcons
        subst hcons
        rcases List.mem_cons.mp hx with hx | hx
        · subst hx; exact mem_of_get code i op hop
        · exact ih _ _ _ hr x hx
    · simp [hi] at h; subst h; simp at hx

theorem unpackWord_mem (d : Spec.Dis.DisTbl) (code : Bytes) : ∀ f i ext c r,
    Spec.Dis.unpackWordGo d code f i ext c = some r → ∀ x ∈ r, x.2.1 ∈ code := by
  intro f
  induction f with
  | zero => intro i ext c r h x hx; simp [Spec.Dis.unpackWordGo] at h; subst h; simp at hx
  | succ f ih =>
    intro i ext c r h x hx
    rw [Spec.Dis.unpackWordGo] at h
    by_cases hi : i < code.length
    · simp only [hi, if_true] at h
      split at h
      · exact ih _ _ _ _ h x hx
      · simp only [Option.bind_eq_bind, Option.bind_eq_some_iff] at h
        obtain ⟨op, hop, h⟩ := h
        generalize (if verGe d.version 3 12 = true then (d.hasarg.getD []).contains op else decide (op ≥ d.haveArgument)) = takes at h
        cases takes with
        | true =>
          simp only [if_true, Option.bind_eq_some_iff] at h
          obtain ⟨b, _, rest, hr, hcons⟩ := h
          simp only [pure, Option.some.injEq] at hcons
          subst hcons
          rcases List.mem_cons.mp hx with hx | hx
          · subst hx; exact mem_of_get code i op hop
          · exact ih _ _ _ _ hr x hx
        | false =>
          simp only [Bool.false_eq_true, if_false, Option.bind_eq_some_iff] at h
          obtain ⟨rest, hr, hcons⟩ := h
          simp only [pure, Option.some.injEq] at hcons
          subst hcons
          rcases List.mem_cons.mp hx with hx | hx
          · subst hx; exact mem_of_get code i op hop
          · exact ih _ _ _ _ hr x hx
    · simp [hi] at h; subst h; simp at hx

/-! ### the label lists -/

theorem filterMap_congr' {α β : Type} (f g : α → Option β) (l : List α) (h : ∀ x ∈ l, f x = g x) :
    l.filterMap f = l.filterMap g := by
  induction l with
  | nil => rfl
  | cons x xs ih =>
    simp only [List.filterMap_cons, h x (by simp)]
    rw [ih (fun y hy => h y (by simp [hy]))]

theorem labels_of_stream (tgt : Nat → Nat → Nat → Option Int) (d : Spec.Dis.DisTbl) (code : Bytes)
    (hbytes : IsBytes code) (ops : List Triple) (hmem : ∀ x ∈ ops, x.2.1 ∈ code)
    (htgt : ∀ off op a, op < 256 → tgt off op a = Spec.Dis.target d off op a) :
    foldLabels tgt ops [] =
      Spec.Dis.dedup (ops.filterMap fun (off, op, arg) => arg.bind (Spec.Dis.target d off op)) := by
  rw [fold_dedup, dedup_eq]
  congr 1
  apply filterMap_congr'
  intro x hx
  obtain ⟨off, op, arg⟩ := x
  cases arg with
  | none => rfl
  | some a => exact htgt off op a (hbytes op (hmem _ hx))

/-- C04_labels_pre: cross_dis.findlabels_pre_310 = dis.findlabels of CPython ≤ 3.5, for every byte string -/
theorem C04_labels_pre (t : OpTable) (d : Spec.Dis.DisTbl) (code : Bytes) (lk : LabelOk t d)
    (hbytes : IsBytes code) (h6 : py36 t = false) (hera : verGe d.version 3 6 = false)
    (htgt : ∀ off op a, op < 256 → tgtPre t off op a = Spec.Dis.target d off op a) :
    (findlabelsPre310 t code).toOption = Spec.Dis.findlabels d code := by
  rw [pre_is_fold]
  have hs := bytecode_spec t d code lk hbytes h6 (code.length + 1) 0 0 rfl
  unfold Spec.Dis.findlabels Spec.Dis.unpack
  simp only [hera, Bool.false_eq_true, if_false]
  unfold unpackBytecode
  rw [← hs]
  cases hr : unpackBytecodeGo t code (code.length + 1) 0 0 with
  | error e => rfl
  | ok ops =>
    have hmem := unpack27_mem d code _ _ _ ops (by rw [← hs, hr]; rfl)
    simp only [Except.map, Except.toOption, Option.bind_eq_bind, Option.bind_some, pure]
    rw [labels_of_stream (tgtPre t) d code hbytes ops hmem htgt]

/-- C04_labels_word: wordcode.findlabels = dis.findlabels of CPython 3.6–3.10, for every byte string
    (3.10: provided no EXTENDED_ARG prefix is pending at an operand-less opcode) -/
theorem C04_labels_word (t : OpTable) (cache313 : List (Str × Nat)) (d : Spec.Dis.DisTbl) (code : Bytes)
    (lk : LabelOk t d) (hbytes : IsBytes code) (h6 : py36 t = true) (hera : verGe d.version 3 6 = true)
    (hver : verLt t.version 3 10 = !(verGe d.version 3 10))
    (hc : verGe d.version 3 10 = true → CarryOk t code)
    (htgt : ∀ off op a, op < 256 → tgtWord t cache313 off op a = Spec.Dis.target d off op a) :
    (findlabelsWord t cache313 code).toOption = Spec.Dis.findlabels d code := by
  rw [word_is_fold]
  unfold Spec.Dis.findlabels Spec.Dis.unpack
  simp only [hera, if_true]
  have main : ∀ reset, verGe d.version 3 10 = reset →
      ((Decode.unpackWordGo t reset code (code.length + 1) 0 0).map
        (fun ops => foldLabels (tgtWord t cache313) ops [])).toOption =
      (Spec.Dis.unpackWordGo d code (code.length + 1) 0 0 0).bind fun ops =>
        pure (Spec.Dis.dedup (ops.filterMap fun (off, op, arg) => arg.bind (Spec.Dis.target d off op))) := by
    intro reset hm
    have hs := word_spec t d code lk hbytes h6 reset hm (code.length + 1) 0 0
      (fun hr => hc (by rw [hm, hr]))
    rw [← hs]
    cases hr : Decode.unpackWordGo t reset code (code.length + 1) 0 0 with
    | error e => rfl
    | ok ops =>
      have hmem := unpackWord_mem d code _ _ _ _ ops (by rw [← hs, hr]; rfl)
      simp only [Except.map, Except.toOption, Option.bind_some, pure]
      rw [labels_of_stream (tgtWord t cache313) d code hbytes ops hmem htgt]
  cases hv : verGe d.version 3 10 with
  | false =>
    simp only [hver, hv, Bool.not_false, if_true]
    exact main false hv
  | true =>
    simp only [hver, hv, Bool.not_true, Bool.false_eq_true, if_false]
    exact main true hv

end XV.Props.C04

/- driver ops for the line-table family (C05, C17, C19) -/
import XV.Driver.Util
import XV.Model.Lines
import XV.Model.LineEnc
import XV.Spec.Lines
namespace XV.Driver
open XV

def showOptInt : Option Int → String | none => "N" | some i => toString i
def joinC (xs : List String) : String := if xs.isEmpty then "-" else ",".intercalate xs
def showStarts (xs : List (Nat × Int)) : String := joinC (xs.map fun (o, l) => s!"{o}:{l}")
def showStartsO (xs : List (Nat × Option Int)) : String := joinC (xs.map fun (o, l) => s!"{o}:{showOptInt l}")
def showRanges (xs : List (Nat × Nat × Option Int)) : String :=
  joinC (xs.map fun (s, e, l) => s!"{s}:{e}:{showOptInt l}")
def showPos (xs : List (Option (Int × Int × Option Int × Option Int))) : String :=
  joinC (xs.map fun p => match p with
    | none => "N"
    | some (a, b, c, d) => s!"{a}:{b}:{showOptInt c}:{showOptInt d}")
def showUnitLines (xs : List (Option Int)) : String := joinC (xs.map showOptInt)

/-- "o:l,o:l" -/
def parsePairs (s : String) : Option (List (Int × Int)) :=
  if s == "-" then some [] else
  (s.splitOn ",").mapM fun p => match p.splitOn ":" with
    | [a, b] => do let x ← a.toInt?; let y ← b.toInt?; pure (x, y)
    | _ => none

def parseLocEntries (s : String) : Option (List Spec.Lines.LocEntry) :=
  if s == "-" then some [] else
  (s.splitOn ",").mapM fun p => match p.splitOn ":" with
    | ["s", u, c, hi, lo] => do pure (.short (← u.toNat?) (← c.toNat?) (← hi.toNat?) (← lo.toNat?))
    | ["o", u, k, col, ec] => do pure (.oneLine (← u.toNat?) (← k.toNat?) (← col.toNat?) (← ec.toNat?))
    | ["n", u, d] => do pure (.noCol (← u.toNat?) (← d.toInt?))
    | ["l", u, d, ed, c1, ec1] => do pure (.long (← u.toNat?) (← d.toInt?) (← ed.toNat?) (← c1.toNat?) (← ec1.toNat?))
    | ["z", u] => do pure (.none (← u.toNat?))
    | _ => none

def parseExcEntries (s : String) : Option (List Spec.Lines.ExcEntry) :=
  if s == "-" then some [] else
  (s.splitOn ",").mapM fun p => match p.splitOn ":" with
    | [a, b, c, d, e] => do pure { start := ← a.toNat?, length := ← b.toNat?, target := ← c.toNat?, depth := ← d.toNat?, lasti := e == "1" }
    | _ => none

def showEnc : Except Model.LineEnc.EncErr Bytes → String
  | .ok b => showHex b
  | .error _ => "(err ValueError)"

def linesDispatch (op : String) (args : List String) : Option String :=
  match op, args with
  | "x.linestarts", [signed, dup, first, len, h] => do
      let f ← parseInt first; let n ← parseNat len; let b ← parseHex h
      pure (showStarts (Model.Lines.lnotabStarts (signed == "1") (dup == "1") f n b))
  | "x.colines310", [first, h] => do
      let f ← parseInt first; let b ← parseHex h
      pure (match Model.Lines.coLines310 f b with | some r => showRanges r | none => "(err structError)")
  | "x.starts310", [first, h] => do
      let f ← parseInt first; let b ← parseHex h
      pure (match Model.Lines.coLines310 f b with
        | some r => showStarts (Model.Lines.startsFromRanges r) | none => "(err structError)")
  | "x.colines311", [first, h] => do
      let f ← parseInt first; let b ← parseHex h
      pure (showRanges (Model.Lines.coLines311 f b))
  | "x.starts311", [first, h] => do
      let f ← parseInt first; let b ← parseHex h
      pure (showStarts (Model.Lines.startsFromRanges (Model.Lines.coLines311 f b)))
  | "x.starts313", [first, h] => do
      let f ← parseInt first; let b ← parseHex h
      pure (showStartsO (Model.Lines.startsFromRanges313 (Model.Lines.coLines311 f b)))
  | "x.positions311", [first, h] => do
      let f ← parseInt first; let b ← parseHex h
      pure (match Model.Lines.positions311 f b with
        | .ok ps => showPos ps
        | .error .assertion => "(err assertionError)"
        | .error .stopIteration => "(err stopIteration)")
  | "x.exctable", [h] => do
      let b ← parseHex h
      pure (joinC ((Model.Lines.excTable b).map fun e =>
        s!"{e.start}:{e.stop}:{e.target}:{e.depth}:{if e.lasti then 1 else 0}"))
  | "x.offset2line", [off, ps] => do
      let o ← parseNat off; let l ← parsePairs ps
      pure (toString (Model.Lines.offset2line o (l.map fun (a, b) => (a.toNat, b))))
  | "x.enc15", [first, ps] => do
      let f ← parseInt first; let l ← parsePairs ps; pure (showEnc (Model.LineEnc.encode15 f l))
  | "x.enc3", [first, ps] => do
      let f ← parseInt first; let l ← parsePairs ps; pure (showEnc (Model.LineEnc.encode3 f l))
  | "x.enc36", [first, ps] => do
      let f ← parseInt first; let l ← parsePairs ps; pure (showEnc (Model.LineEnc.encode36 f l))
  | "x.enc310", [first, len, ps] => do
      let f ← parseInt first; let n ← parseInt len; let l ← parsePairs ps
      pure (showEnc (Model.LineEnc.encode310 f n l))
  -- Spec side
  | "py.starts27", [first, h] => do
      let f ← parseInt first; let b ← parseHex h; pure (showStarts (Spec.Lines.starts27 f b))
  | "py.starts36", [first, h] => do
      let f ← parseInt first; let b ← parseHex h; pure (showStarts (Spec.Lines.starts36 f b))
  | "py.starts38", [first, len, h] => do
      let f ← parseInt first; let n ← parseNat len; let b ← parseHex h
      pure (showStarts (Spec.Lines.starts38 f n b))
  | "py.colines310", [first, h] => do
      let f ← parseInt first; let b ← parseHex h; pure (showRanges (Spec.Lines.coLines310 f b))
  | "py.encloc", [es] => do
      let l ← parseLocEntries es; pure (showHex (Spec.Lines.encodeLoc l))
  | "py.unitlines", [first, es] => do
      let f ← parseInt first; let l ← parseLocEntries es; pure (showUnitLines (Spec.Lines.unitLines f l))
  | "py.unitpositions", [first, es] => do
      let f ← parseInt first; let l ← parseLocEntries es; pure (showPos (Spec.Lines.unitPositions f l))
  | "py.encexc", [es] => do
      let l ← parseExcEntries es; pure (showHex (Spec.Lines.encodeExc l))
  | _, _ => none

end XV.Driver

/-
C07 — the premise of `C07_paths`, proved for the unmarshaller Model: on every payload that marshal.c
(the Spec with its well-formedness guards) accepts, the host whose own version the file has (built-in
marshal path) and every other host (xdis's unmarshaller path) observe the same code object.  This is
`C01_main` read through the loader switch of `Model.HostPath`.
-/
import XV.Props.C07
import XV.Props.C01.Main
namespace XV.Props.C07.Paths
open XV XV.Model XV.Model.HostPath XV.Model.Unmarshal XV.Spec.Marshal XV.Props.C10.Sim

/-- a CPython host: PYTHON_MAGIC_INT and the built-in `marshal.loads` of its version -/
def cpHost (magicH : Nat) (verH : List Nat) : Host V :=
  { magic := magicH,
    marshalLoads := fun d => match loadsStrict verH d with | .ok (v, _) => some v | .error _ => none }

/-- xdis's `load_code` for the file's magic (`verOf` = magic_int2tuple) -/
def xload (verOf : Nat → List Nat) (limit : Nat) : Nat → Bytes → Option V :=
  fun m d => match loadCode m (verOf m) false limit d with | .ok (v, _) => some v | .error _ => none

def cfgOf (magic : Nat) (ver : List Nat) (limit : Nat) : Cfg :=
  { magic := magic, version := ver, marshalVersion := marshalVersionOf ver magic, isGraal := false, depthLimit := limit }

/-- C07_paths_proved: a file of version `ver` (magic `magic`) whose payload marshal.c accepts is observed
    identically on the host of that very version — which hands the payload to its built-in marshal; the
    consumer then reads the native object as its port — and on any host of another version, which runs
    xdis's unmarshaller.  No premise about the unmarshaller is left: it is `C01_main`. -/
theorem C07_paths_proved (magic : Nat) (ver : List Nat) (verOf : Nat → List Nat) (limit : Nat) (data : Bytes) (pv : V) (rest : Bytes)
    (hver : verOf magic = ver) (hbytes : AllBytes data) (hlimit : 2000 ≤ limit)
    (hm : magic ≠ 3400 ∧ magic ≠ 3401 ∧ magic ≠ 3410 ∧ magic ≠ 3411)
    (hcode : ∃ b tl, data = b :: tl ∧ b &&& 127 = 99)
    (h : loadsStrict ver data = .ok (pv, rest))
    (otherMagic : Nat) (otherVer : List Nat) (hother : otherMagic ≠ magic) :
    (HostPath.loadCode (cpHost magic ver) (xload verOf limit) magic data).map (observe (portV (cfgOf magic ver limit) true) id) =
    (HostPath.loadCode (cpHost otherMagic otherVer) (xload verOf limit) magic data).map (observe (portV (cfgOf magic ver limit) true) id) := by
  have hmain := XV.Props.C01.Main.C01_main magic ver limit data pv rest hbytes hlimit hm hcode h
  have hne : (otherMagic == magic) = false := by simpa using hother
  simp only [HostPath.loadCode, cpHost, xload, beq_self_eq_true, if_true, hne, h, hver, hmain, Option.map_some, observe, cfgOf]
  rfl

/-- non-vacuity: the compiled 3.8 sample of C01 meets the hypotheses (marshal.c accepts it, leaving nothing), and
    both branches of the switch are taken: host 3.8 (magic 3413) reads it natively, host 3.12 (magic 3531) through xdis -/
example : (loadsStrict [3, 8] XV.Props.C01.Main.sample38).toOption.isSome = true ∧ AllBytes XV.Props.C01.Main.sample38 ∧
    (HostPath.loadCode (cpHost 3413 [3, 8]) (xload (fun _ => [3, 8]) 2000) 3413 XV.Props.C01.Main.sample38).isSome = true ∧
    (HostPath.loadCode (cpHost 3531 [3, 12]) (xload (fun _ => [3, 8]) 2000) 3413 XV.Props.C01.Main.sample38).isSome = true := by
  decide +kernel

end XV.Props.C07.Paths

/-
UTF-8 decoding as Python does it: `strict` (rejects surrogates, overlong forms, > U+10FFFF,
truncation) and `surrogatepass` (additionally accepts the 3-byte encodings of U+D800–U+DFFF).
-/
import XV.Base.Bytes
namespace XV.Utf8
open XV

def cont (b : Nat) : Bool := b ≥ 0x80 && b < 0xC0

/-- decode; `none` = UnicodeDecodeError -/
def decode (surrogatepass : Bool) : Nat → Bytes → Option (List Nat)
  | 0, _ => some []
  | _, [] => some []
  | fuel + 1, b0 :: rest =>
    if b0 < 0x80 then (decode surrogatepass fuel rest).map (b0 :: ·)
    else if b0 < 0xC2 then none
    else if b0 < 0xE0 then
      match rest with
      | b1 :: r => if cont b1 then (decode surrogatepass fuel r).map (((b0 - 0xC0) * 64 + (b1 - 0x80)) :: ·) else none
      | _ => none
    else if b0 < 0xF0 then
      match rest with
      | b1 :: b2 :: r =>
        if cont b1 && cont b2 then
          let cp := (b0 - 0xE0) * 4096 + (b1 - 0x80) * 64 + (b2 - 0x80)
          if cp < 0x800 then none
          else if cp ≥ 0xD800 && cp ≤ 0xDFFF && !surrogatepass then none
          else (decode surrogatepass fuel r).map (cp :: ·)
        else none
      | _ => none
    else if b0 < 0xF5 then
      match rest with
      | b1 :: b2 :: b3 :: r =>
        if cont b1 && cont b2 && cont b3 then
          let cp := (b0 - 0xF0) * 262144 + (b1 - 0x80) * 4096 + (b2 - 0x80) * 64 + (b3 - 0x80)
          if cp < 0x10000 || cp > 0x10FFFF then none else (decode surrogatepass fuel r).map (cp :: ·)
        else none
      | _ => none
    else none

def decodeStrict (bs : Bytes) : Option (List Nat) := decode false (bs.length + 1) bs
def decodeSurrogatePass (bs : Bytes) : Option (List Nat) := decode true (bs.length + 1) bs

end XV.Utf8

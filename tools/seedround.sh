#!/bin/bash
# tools/seedround.sh <srcdir> <out.tsv> <seed>...   import seeds produced by sub-agents (patch.diff, demo.py, notes.md in
# <srcdir>/<seed>/), confirm each (applies; baseline 39/39 with it; demo exits 1 with it and 0 without), run the check of
# its property against it, undo, and write seeded/<seed>/meta.json + one row of <out.tsv>.
cd /verif
src=$1; out=$2; shift 2
[ -f $out ] || echo -e "seed\tproperty\tapplies\tbaseline\tdemo_with\tdemo_without\tcheck_rc\tviolations\tno_failing_input\tfirst" > $out
for seed in "$@"; do
  prop=${seed:0:3}
  [ -f $src/$seed/patch.diff ] || { echo "$seed: no patch"; continue; }
  mkdir -p seeded/$seed; cp $src/$seed/patch.diff $src/$seed/demo.py $src/$seed/notes.md seeded/$seed/ 2>/dev/null
  if [ -n "$(git -C /repo status --short)" ]; then echo "/repo not clean"; exit 2; fi
  if ! git -C /repo apply --check /verif/seeded/$seed/patch.diff 2>/dev/null; then
     if git -C /repo apply --3way /verif/seeded/$seed/patch.diff 2>/dev/null; then git -C /repo reset -q; git -C /repo diff > /verif/seeded/$seed/patch.diff; git -C /repo checkout -- .; applies=rebased
     else echo -e "$seed\t$prop\tNO" >> $out; git -C /repo checkout -- . ; continue; fi
  else applies=yes; fi
  git -C /repo apply /verif/seeded/$seed/patch.diff
  base=$(tools/baseline.py /repo | head -1 | grep -o "[0-9]*/[0-9]*" | head -1)
  timeout 600 /venv/bin/python seeded/$seed/demo.py /repo > /tmp/sr.$seed.demo1 2>&1; d1=$?
  git -C /repo checkout -- .
  timeout 600 /venv/bin/python seeded/$seed/demo.py /repo > /tmp/sr.$seed.demo0 2>&1; d0=$?
  git -C /repo apply /verif/seeded/$seed/patch.diff
  ./check $prop quick > /tmp/sr.$seed.check 2>&1; rc=$?
  git -C /repo checkout -- .
  if [ -n "$(git -C /repo status --short)" ]; then git -C /repo reset -q --hard HEAD; git -C /repo clean -fdq; fi
  nv=$(grep -c "^VIOLATION" /tmp/sr.$seed.check)
  nf=$(grep "^VIOLATION" /tmp/sr.$seed.check | grep -c "no-failing-input-found")
  first=$(grep -A1 "^VIOLATION" /tmp/sr.$seed.check | grep "what:" | head -1 | cut -c1-400 | tr '\t"' "  ")
  echo -e "$seed\t$prop\t$applies\t$base\t$d1\t$d0\t$rc\t$nv\t$nf\t$first" >> $out
  python3 - "$seed" "$prop" "$applies" "$base" "$d1" "$d0" "$rc" "$nv" "$nf" "$first" <<'PY'
import json, sys, re
seed, prop, applies, base, d1, d0, rc, nv, nf, first = sys.argv[1:]
notes = open("/verif/seeded/%s/notes.md" % seed).read()
title = notes.strip().split("\n")[0].lstrip("# ").strip()
m = re.search(r"(?is)##\s*what it needs[^\n]*\n(.*?)(\n## |\Z)", notes)
needs = (m.group(1).strip() if m else "see notes.md")[:1500]
files = sorted(set(re.findall(r"^\+\+\+ b/(\S+)", open("/verif/seeded/%s/patch.diff" % seed).read(), re.M)))
json.dump({"seed": seed, "property": prop, "title": title, "files_changed": files, "needs_to_manifest": needs,
  "how_produced": "fresh sub-agent given only the text of property %s and a scratch git worktree of /repo under /tmp; nothing from /verif" % prop,
  "confirmed_by_me": {"patch_applies_to_repo_HEAD": applies, "baseline_with_patch": base,
      "demo_exit_with_patch": int(d1), "demo_exit_without_patch": int(d0)},
  "what_was_run": ["git -C /repo apply /verif/seeded/%s/patch.diff; tools/baseline.py /repo; python seeded/%s/demo.py /repo; ./check %s quick; git -C /repo checkout -- ." % (seed, seed, prop)],
  "result": {"check_exit_code": int(rc), "violation_lines": int(nv), "no_failing_input_found_lines": int(nf),
             "detected_by_own_check": int(rc) == 1, "first_violation": first}},
  open("/verif/seeded/%s/meta.json" % seed, "w"), indent=1)
PY
  echo "$seed done rc=$rc nv=$nv demo=$d1/$d0 base=$base"
done

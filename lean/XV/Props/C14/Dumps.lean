/-
C14 — structural round trip: for EVERY plain value (None, booleans, Ellipsis, StopIteration, ints of
any size, text floats and complexes, bytes, text of any code points, tuples, lists, sets, frozensets
and dicts, nested to any depth marshal.c accepts), the bytes `xdis.marsh.dumps` writes are read back by
marshal.c's reader (the Spec validated against `marshal.loads`) to the same value, consuming exactly
those bytes.
-/
import XV.Props.C14
import XV.Props.C14.Utf8
import XV.Props.C10.Sim
namespace XV.Props.C14.Dumps
open XV XV.Model.Marsh XV.Model.Unmarshal XV.Spec.Marshal
set_option linter.unusedVariables false
set_option linter.unusedSimpArgs false

/-! ### what is a plain value, its size and depth, and what marshal.c returns for it -/


def i32ok (x : Int) : Bool := decide (-2147483648 ≤ x) && decide (x < 2147483648)

/-- a code object in the 3.4–3.10 marshal layout, as the reader produces it: the sixteen fields in
    order, integer fields within 32 bits, co_posonlyargcount present exactly from 3.8 -/
def codeShape (ver : List Nat) (fs : List (String × V)) : Bool :=
  match fs with
  | [("co_argcount", .int a), ("co_posonlyargcount", pos), ("co_kwonlyargcount", .int k), ("co_nlocals", .int nl),
     ("co_stacksize", .int ss), ("co_flags", .int fl), ("co_code", _), ("co_consts", _), ("co_names", _),
     ("co_varnames", _), ("co_freevars", _), ("co_cellvars", _), ("co_filename", _), ("co_name", _),
     ("co_firstlineno", .int first), ("co_linetable", _)] =>
      verGeL ver 3 0 && !(verGeL ver 3 11) && i32ok a && i32ok k && i32ok nl && i32ok ss && i32ok fl && i32ok first &&
      (match pos with
       | .int p => verGeL ver 3 8 && i32ok p
       | .none => !(verGeL ver 3 8)
       | _ => false)
  | _ => false

mutual
/-- values `dumps` handles; size fields fit their 32-bit slots (a property of any object that fits in memory) -/
def Plain (ver : List Nat) : V → Bool
  | .none | .tru | .fls | .ellipsis | .stopIter => true
  | .int i | .long i => decide ((digits15 (i.natAbs + 1) i.natAbs).length < 2147483648)
  | .floatText s => decide (s.length < 256)
  | .complexText r i => decide (r.length < 256) && decide (i.length < 256)
  | .bytes b => decide (b.length < 2147483648)
  | .str cps => cps.all (· < 0x110000) && decide ((utf8Enc cps).length < 2147483648)
  | .tuple xs | .list xs | .set xs | .fset xs => decide (xs.length < 2147483648) && PlainL ver xs
  | .dict kvs => PlainKV ver kvs
  | .code fs => codeShape ver fs && PlainF ver fs
  | _ => false
def PlainF (ver : List Nat) : List (String × V) → Bool
  | [] => true
  | (_, v) :: r => Plain ver v && PlainF ver r
def PlainL (ver : List Nat) : List V → Bool
  | [] => true
  | x :: xs => Plain ver x && PlainL ver xs
def PlainKV (ver : List Nat) : List (V × V) → Bool
  | [] => true
  | (k, v) :: r => Plain ver k && Plain ver v && PlainKV ver r
end

mutual
def size : V → Nat
  | .tuple xs | .list xs | .set xs | .fset xs => 1 + sizeL xs
  | .dict kvs => 1 + sizeKV kvs
  | .code fs => 3 + sizeF fs
  | _ => 1
def sizeF : List (String × V) → Nat
  | [] => 0
  | (_, v) :: r => max (size v) (sizeF r)
def sizeL : List V → Nat
  | [] => 1
  | x :: xs => 1 + size x + sizeL xs
def sizeKV : List (V × V) → Nat
  | [] => 2
  | (k, v) :: r => 1 + size k + size v + sizeKV r
end

mutual
def depthOf : V → Nat
  | .tuple xs | .list xs | .set xs | .fset xs => 1 + depthL xs
  | .dict kvs => 1 + depthKV kvs
  | .code fs => 1 + depthF fs
  | _ => 0
def depthF : List (String × V) → Nat
  | [] => 0
  | (_, v) :: r => max (depthOf v) (depthF r)
def depthL : List V → Nat
  | [] => 0
  | x :: xs => max (depthOf x) (depthL xs)
def depthKV : List (V × V) → Nat
  | [] => 0
  | (k, v) :: r => max (max (depthOf k) (depthOf v)) (depthKV r)
end

mutual
/-- Python 3 has one int type -/
def norm : V → V
  | .long i => .int i
  | .tuple xs => .tuple (normL xs)
  | .list xs => .list (normL xs)
  | .set xs => .set (normL xs)
  | .fset xs => .fset (normL xs)
  | .dict kvs => .dict (normKV kvs)
  | .code fs => .code (normF fs)
  | v => v
def normF : List (String × V) → List (String × V)
  | [] => []
  | (n, v) :: r => (n, norm v) :: normF r
def normL : List V → List V
  | [] => []
  | x :: xs => norm x :: normL xs
def normKV : List (V × V) → List (V × V)
  | [] => []
  | (k, v) :: r => (norm k, norm v) :: normKV r
end

variable (ver : List Nat)

/-! ### run lemmas for the Spec's primitives -/

def st (inp : Bytes) (refs : List (Option V)) (strs : List V) : PSt := { inp := inp, refs := refs, strs := strs }

theorem run_bind (p : P α) (f : α → P β) (s : PSt) :
    (p >>= f).run s = match p.run s with | .ok (a, s') => (f a).run s' | .error er => .error er :=
  XV.Props.C10.Sim.P_run_bind p f s

theorem run_pure (a : α) (s : PSt) : (pure a : P α).run s = .ok (a, s) := rfl

theorem rd_app (k : Nat) (b tail : Bytes) (hk : b.length = k) (r : List (Option V)) (s : List V) :
    (rd k).run (st (b ++ tail) r s) = .ok (b, st tail r s) := by
  rw [XV.Props.C10.Sim.rd_run]
  have h1 : ¬ ((st (b ++ tail) r s).inp.length < k) := by simp [st]; omega
  simp only [h1, if_false]
  subst hk
  simp [st]

theorem u8_app (x : Nat) (tail : Bytes) (r : List (Option V)) (s : List V) :
    u8.run (st (x :: tail) r s) = .ok (x, st tail r s) := by
  rw [XV.Props.C10.Sim.u8_run]
  rfl

theorem i32_app (x : Int) (h1 : -2147483648 ≤ x) (h2 : x < 2147483648) (tail : Bytes) (r : List (Option V)) (s : List V) :
    i32.run (st (wLong x ++ tail) r s) = .ok (x, st tail r s) := by
  unfold i32
  rw [run_bind, rd_app 4 (wLong x) tail (by simp [wLong, toLE_length]) r s]
  simp only [run_pure, wLong_roundtrip x h1 h2]

theorem size32_app (n : Nat) (h : n < 2147483648) (tail : Bytes) (r : List (Option V)) (s : List V) :
    size32.run (st (wLong (n : Int) ++ tail) r s) = .ok (n, st tail r s) := by
  unfold size32
  rw [run_bind, i32_app (n : Int) (by omega) (by omega) tail r s]
  have : ¬ ((n : Int) < 0) := by omega
  simp only [this, if_false, Int.toNat_natCast]
  rfl

theorem i16_app (d : Nat) (h : d < 32768) (tail : Bytes) (r : List (Option V)) (s : List V) :
    i16.run (st (wShort d ++ tail) r s) = .ok ((d : Int), st tail r s) := by
  unfold i16
  rw [run_bind, rd_app 2 (wShort d) tail (by simp [wShort, toLE_length]) r s]
  simp only [run_pure]
  have hm : d % 65536 = d := by omega
  have hp : (256 : Nat) ^ 2 = 65536 := by decide
  have : leNat (wShort d) = d := by
    unfold wShort
    rw [hm, leNat_toLE 2 d (by rw [hp]; omega)]
  rw [this]
  unfold signedOf
  have : d < 256 ^ 2 / 2 := by rw [hp]; omega
  simp [this]

/-! ### the digit array of an int -/

theorem pow15 (j : Nat) : (2:Int)^((j+1)*15) = 32768 * 2^(j*15) := by
  have : (j+1)*15 = j*15 + 15 := by omega
  rw [this, Int.pow_add]
  have : (2:Int)^15 = 32768 := by decide
  rw [this, Int.mul_comm]

def lastOr1 : List Nat → Int
  | [] => 1
  | [d] => d
  | _ :: ds => lastOr1 ds

/-- value of a digit list as an integer -/
def dvI : List Nat → Int
  | [] => 0
  | d :: ds => (d : Int) + 32768 * dvI ds

theorem dvI_eq (ds : List Nat) : dvI ds = (digitsVal ds : Int) := by
  induction ds with
  | nil => rfl
  | cons d ds ih => simp only [dvI, digitsVal, ih, Int.natCast_add, Int.natCast_mul]; rfl

/-- marshal.c's digit loop over the shorts `dump_long` wrote -/
theorem digits_app (ds : List Nat) (hds : ∀ d ∈ ds, d < 32768) (j : Nat) (acc : Int) (tail : Bytes)
    (r : List (Option V)) (s : List V) :
    (digits ds.length j acc).run (st (ds.flatMap wShort ++ tail) r s) =
      .ok ((acc + dvI ds * 2 ^ (j * 15), lastOr1 ds), st tail r s) := by
  induction ds generalizing j acc with
  | nil =>
    simp only [List.length_nil, digits, List.flatMap_nil, List.nil_append, dvI, lastOr1, Int.zero_mul, Int.add_zero]
    rfl
  | cons d ds ih =>
    have hd : d < 32768 := hds d (by simp)
    have hrest : ∀ x ∈ ds, x < 32768 := fun x hx => hds x (by simp [hx])
    simp only [List.length_cons, List.flatMap_cons, List.append_assoc]
    rw [digits, run_bind, i16_app d hd]
    simp only []
    have hr : ¬ ((d : Int) < 0 ∨ (d : Int) > 32767) := by omega
    simp only [hr, if_false]
    cases ds with
    | nil =>
      simp only [List.length_nil, if_true, List.flatMap_nil, List.nil_append, dvI, lastOr1, Int.mul_zero, Int.add_zero]
      rfl
    | cons d2 ds2 =>
      have hne : ¬ ((d2 :: ds2).length = 0) := by simp
      simp only [hne, if_false]
      rw [ih hrest]
      have hv : acc + (d : Int) * 2 ^ (j * 15) + dvI (d2 :: ds2) * 2 ^ ((j + 1) * 15) =
          acc + dvI (d :: d2 :: ds2) * 2 ^ (j * 15) := by
        rw [pow15, show dvI (d :: d2 :: ds2) = (d : Int) + 32768 * dvI (d2 :: ds2) from rfl]
        generalize dvI (d2 :: ds2) = w
        generalize (2 : Int) ^ (j * 15) = p
        show acc + (d : Int) * p + w * (32768 * p) = acc + ((d : Int) + 32768 * w) * p
        rw [Int.add_mul, Int.mul_assoc, Int.add_assoc, Int.mul_left_comm w 32768 p]
      rw [hv]
      rfl

set_option maxHeartbeats 2000000


theorem ref_false (v : V) (s : PSt) : (ref v false).run s = .ok (v, s) := rfl
theorem reserve_false (s : PSt) : (reserve false).run s = .ok (none, s) := rfl
theorem insert_none (v : V) (s : PSt) : (Spec.Marshal.insert v none).run s = .ok (v, s) := rfl

theorem lastOr1_getLast (ds : List Nat) (d : Nat) (h : ds.getLast? = some d) : lastOr1 ds = (d : Int) := by
  induction ds with
  | nil => simp at h
  | cons x xs ih =>
    cases xs with
    | nil => simp at h; subst h; rfl
    | cons y ys =>
      rw [List.getLast?_cons_cons] at h
      simp only [lastOr1]
      exact ih h

/-- the int case: `dump_long` then marshal.c's 'l' reader -/
theorem int_case (i : Int) (hp : (digits15 (i.natAbs + 1) i.natAbs).length < 2147483648)
    (fuel d : Nat) (txt : Bool) (hd : d ≤ 2000) (tail : Bytes) (r : List (Option V)) (s : List V) :
    (rObj cpython 4 ver (fuel + 1) d txt).run (st (dumpLong i ++ tail) r s) = .ok (some (V.int i), st tail r s) := by
  have hdep : ¬ d > cpython.maxDepth := by simp [cpython]; omega
  obtain ⟨hv, hlt, hlast⟩ := digits15_spec (i.natAbs + 1) i.natAbs (by omega)
  generalize hds : digits15 (i.natAbs + 1) i.natAbs = ds at hv hlt hlast hp
  have hdump : dumpLong i ++ tail =
      108 :: (wLong (if i < 0 then -(ds.length : Int) else ds.length) ++ (ds.flatMap wShort ++ tail)) := by
    simp [dumpLong, hds]
  rw [hdump, rObj]
  simp only [hdep, if_false]
  rw [run_bind, u8_app]
  simp only [if_true, Nat.reduceAnd, Nat.reduceEqDiff, if_false]
  rw [run_bind, run_bind, i32_app _ (by split <;> omega) (by split <;> omega)]
  simp only []
  have hna : (if i < 0 then -(ds.length : Int) else (ds.length : Int)).natAbs = ds.length := by split <;> omega
  rw [run_bind, hna, digits_app ds hlt 0 0]
  simp only [Nat.zero_mul, Int.pow_zero, Int.mul_one, Int.zero_add]
  rw [dvI_eq, hv]
  -- normalisation: the most significant digit is not zero
  have hnorm : ¬ ((if i < 0 then -(ds.length : Int) else (ds.length : Int)) ≠ 0 ∧ lastOr1 ds = 0) := by
    rintro ⟨hn0, hl0⟩
    cases hgl : ds.getLast? with
    | none =>
      have : ds = [] := by
        cases ds with
        | nil => rfl
        | cons a as => simp at hgl
      subst this
      simp at hn0
    | some dl =>
      have := lastOr1_getLast ds dl hgl
      have := hlast dl hgl
      omega
  have hflag : (decide True && decide (0 ≠ 0)) = false := by decide
  simp only [hnorm, if_false, hflag, ref_false, show (4 ≥ 3) = True from by simp, if_true, run_pure]
  -- the value: sign taken from the digit count, magnitude from the digits
  have hval : (if (if i < 0 then -(ds.length : Int) else (ds.length : Int)) < 0 then -(i.natAbs : Int) else (i.natAbs : Int)) = i := by
    by_cases hi : i < 0
    · simp only [hi, if_true]
      have hne : ds ≠ [] := by
        intro h; subst h
        simp [digitsVal] at hv
        omega
      have : 0 < ds.length := by cases ds with | nil => exact absurd rfl hne | cons a as => simp
      have : -(ds.length : Int) < 0 := by omega
      simp only [this, if_true]
      omega
    · simp only [hi, if_false]
      have : ¬ ((ds.length : Int) < 0) := by omega
      simp only [this, if_false]
      omega
  rw [hval]

theorem depth_le_of (x : V) (xs : List V) : depthOf x ≤ depthL (x :: xs) ∧ depthL xs ≤ depthL (x :: xs) := by
  simp only [depthL]; omega

/-- a container: size field, item loop, no reference slot -/
theorem cont_case (tc : Nat) (mk : List V → V) (xs : List V) (fuel d : Nat) (txt : Bool) (tail : Bytes) (r : List (Option V)) (s : List V)
    (hd : d ≤ 2000) (hlen : xs.length < 2147483648) (htc : tc = 40 ∨ tc = 91 ∨ tc = 60 ∨ tc = 62)
    (hmk : (tc = 40 → mk = V.tuple) ∧ (tc = 91 → mk = V.list) ∧ (tc = 60 → mk = V.set) ∧ (tc = 62 → mk = V.fset))
    (hitems : (items cpython 4 ver fuel d txt xs.length).run (st (dumpList xs ++ tail) r s) = .ok (normL xs, st tail r s)) :
    (rObj cpython 4 ver (fuel + 1) d txt).run (st (tc :: (wLong (xs.length : Int) ++ (dumpList xs ++ tail))) r s) =
      .ok (some (mk (normL xs)), st tail r s) := by
  have hdep : ¬ d > cpython.maxDepth := by simp [cpython]; omega
  rw [rObj]
  simp only [hdep, if_false]
  rw [run_bind, u8_app]
  obtain ⟨h1, h2, h3, h4⟩ := hmk
  rcases htc with rfl | rfl | rfl | rfl
  · simp only [if_true, Nat.reduceAnd, Nat.reduceEqDiff, if_false, Nat.reduceLT]
    rw [run_bind, run_bind, size32_app _ hlen]
    simp only []
    have hflag : (decide True && decide (0 ≠ 0)) = false := by decide
    rw [hflag, run_bind, reserve_false]
    simp only []
    rw [run_bind, hitems]
    simp only [insert_none, run_pure, h1 rfl]
  · simp only [if_true, Nat.reduceAnd, Nat.reduceEqDiff, if_false, Nat.reduceLT]
    rw [run_bind, run_bind, size32_app _ hlen]
    simp only []
    have hflag : (decide True && decide (0 ≠ 0)) = false := by decide
    rw [hflag, run_bind, reserve_false]
    simp only []
    rw [run_bind, hitems]
    simp only [insert_none, run_pure, h2 rfl]
  · simp only [if_true, Nat.reduceAnd, Nat.reduceEqDiff, if_false, Nat.reduceLT]
    rw [run_bind, run_bind, size32_app _ hlen]
    simp only []
    have hflag : (decide True && decide (0 ≠ 0)) = false := by decide
    rw [hflag, run_bind, reserve_false]
    simp only []
    rw [run_bind, hitems]
    simp only [insert_none, run_pure, h3 rfl]
  · simp only [if_true, Nat.reduceAnd, Nat.reduceEqDiff, if_false, Nat.reduceLT]
    rw [run_bind, run_bind, size32_app _ hlen]
    simp only []
    have hflag : (decide True && decide (0 ≠ 0)) = false := by decide
    rw [hflag, run_bind, reserve_false]
    simp only []
    rw [run_bind, hitems]
    simp only [insert_none, run_pure, h4 rfl]

def StmtA (fuel : Nat) : Prop :=
  ∀ v, Plain ver v = true → size v ≤ fuel → ∀ d txt tail r s, d + depthOf v ≤ 2000 →
    (rObj cpython 4 ver fuel d txt).run (st (dump v ++ tail) r s) = .ok (some (norm v), st tail r s)
def StmtB (fuel : Nat) : Prop :=
  ∀ xs, PlainL ver xs = true → sizeL xs ≤ fuel → ∀ d txt tail r s, d + 1 + depthL xs ≤ 2000 →
    (items cpython 4 ver fuel d txt xs.length).run (st (dumpList xs ++ tail) r s) = .ok (normL xs, st tail r s)
def StmtC (fuel : Nat) : Prop :=
  ∀ kvs, PlainKV ver kvs = true → sizeKV kvs ≤ fuel → ∀ d txt tail r s, d + 1 + depthKV kvs ≤ 2000 →
    (dictItems cpython 4 ver fuel d txt).run (st (dumpKVs kvs ++ 48 :: tail) r s) = .ok (normKV kvs, st tail r s)

theorem size_pos (v : V) : 1 ≤ size v := by cases v <;> simp [size] <;> omega
theorem sizeL_pos (xs : List V) : 1 ≤ sizeL xs := by cases xs <;> simp [sizeL] <;> omega

theorem stepB (fuel : Nat) (hA : StmtA ver fuel) (hB : StmtB ver fuel) : StmtB ver (fuel + 1) := by
  intro xs hp hs d txt tail r s hdep
  cases xs with
  | nil =>
    simp only [List.length_nil, dumpList, List.nil_append, normL]
    rw [items]
    · rfl
    · omega
  | cons x xs =>
    simp only [PlainL, Bool.and_eq_true] at hp
    simp only [sizeL] at hs
    have hdx := depth_le_of x xs
    simp only [List.length_cons, dumpList, List.append_assoc, normL]
    rw [items, run_bind, hA x hp.1 (by omega) (d + 1) txt _ r s (by omega)]
    simp only []
    rw [run_bind, hB xs hp.2 (by omega) d txt tail r s (by omega)]
    rfl

theorem rObj_null (f d : Nat) (txt : Bool) (hd : d ≤ 2000) (tail : Bytes) (r : List (Option V)) (s : List V) :
    (rObj cpython 4 ver (f + 1) d txt).run (st (48 :: tail) r s) = .ok (none, st tail r s) := by
  have hdep : ¬ d > cpython.maxDepth := by simp [cpython]; omega
  rw [rObj]
  simp only [hdep, if_false]
  rw [run_bind, u8_app]
  simp only [if_true, Nat.reduceAnd, Nat.reduceEqDiff, if_false]
  have hg : ¬ ((cpython.strict && (decide True && decide (0 ≠ 0))) = true) := by simp [cpython]
  rw [if_neg hg]
  rfl

theorem stepC (fuel : Nat) (hA : StmtA ver fuel) (hC : StmtC ver fuel) : StmtC ver (fuel + 1) := by
  intro kvs hp hs d txt tail r s hdep
  cases kvs with
  | nil =>
    simp only [dumpKVs, List.nil_append, normKV]
    simp only [sizeKV] at hs
    obtain ⟨f', rfl⟩ : ∃ f', fuel = f' + 1 := ⟨fuel - 1, by omega⟩
    rw [dictItems, run_bind, rObj_null ver f' (d + 1) txt (by simp [depthKV] at hdep; omega)]
    rfl
  | cons kv kvs =>
    obtain ⟨k, v⟩ := kv
    simp only [PlainKV, Bool.and_eq_true] at hp
    simp only [sizeKV] at hs
    simp only [depthKV] at hdep
    simp only [dumpKVs, List.append_assoc, normKV]
    rw [dictItems, run_bind, hA k hp.1.1 (by omega) (d + 1) txt _ r s (by omega)]
    simp only []
    rw [run_bind, hA v hp.1.2 (by omega) (d + 1) txt _ r s (by omega)]
    simp only []
    rw [run_bind, hC kvs hp.2 (by omega) d txt tail r s (by omega)]
    rfl

/-- what `codeShape` says, as an equation -/
theorem shape_of (ver : List Nat) (fs : List (String × V)) (h : codeShape ver fs = true) :
    ∃ a pos k nl ss fl c cs ns vn fv cv fn nm first lt,
      fs = [("co_argcount", .int a), ("co_posonlyargcount", pos), ("co_kwonlyargcount", .int k), ("co_nlocals", .int nl),
        ("co_stacksize", .int ss), ("co_flags", .int fl), ("co_code", c), ("co_consts", cs), ("co_names", ns),
        ("co_varnames", vn), ("co_freevars", fv), ("co_cellvars", cv), ("co_filename", fn), ("co_name", nm),
        ("co_firstlineno", .int first), ("co_linetable", lt)] ∧
      verGeL ver 3 0 = true ∧ verGeL ver 3 11 = false ∧ i32ok a = true ∧ i32ok k = true ∧ i32ok nl = true ∧
      i32ok ss = true ∧ i32ok fl = true ∧ i32ok first = true ∧
      ((∃ p, pos = .int p ∧ verGeL ver 3 8 = true ∧ i32ok p = true) ∨ (pos = .none ∧ verGeL ver 3 8 = false)) := by
  unfold codeShape at h
  split at h
  · rename_i a pos k nl ss fl c cs ns vn fv cv fn nm first lt
    simp only [Bool.and_eq_true, Bool.not_eq_true'] at h
    obtain ⟨⟨⟨⟨⟨⟨⟨⟨h1, h2⟩, h3⟩, h4⟩, h5⟩, h6⟩, h7⟩, h8⟩, h9⟩ := h
    refine ⟨a, pos, k, nl, ss, fl, c, cs, ns, vn, fv, cv, fn, nm, first, lt, rfl, h1, h2, h3, h4, h5, h6, h7, h8, ?_⟩
    split at h9
    · rename_i p
      simp only [Bool.and_eq_true] at h9
      exact Or.inl ⟨p, rfl, h9.1, h9.2⟩
    · simp only [Bool.not_eq_true'] at h9
      exact Or.inr ⟨rfl, h9⟩
    · cases h9
  · cases h

theorem obj_app (ver : List Nat) (f2 : Nat) (hA : StmtA ver f2) (v : V) (hp : Plain ver v = true) (hs : size v ≤ f2)
    (d : Nat) (txt : Bool) (tail : Bytes) (r : List (Option V)) (s : List V) (hd : d + 1 + depthOf v ≤ 2000) :
    (obj cpython 4 ver (f2 + 1) d txt).run (st (dump v ++ tail) r s) = .ok (norm v, st tail r s) := by
  unfold obj
  rw [run_bind, hA v hp hs (d + 1) txt tail r s (by omega)]
  rfl

theorem i32ok_iff (x : Int) (h : i32ok x = true) : -2147483648 ≤ x ∧ x < 2147483648 := by
  simpa [i32ok] using h


theorem depthF_mem (fs : List (String × V)) (n : String) (v : V) (h : (n, v) ∈ fs) : depthOf v ≤ depthF fs := by
  induction fs with
  | nil => simp at h
  | cons x xs ih =>
    obtain ⟨m, w⟩ := x
    simp only [depthF]
    rcases List.mem_cons.mp h with h | h
    · cases h; omega
    · have := ih h; omega

theorem sizeF_mem (fs : List (String × V)) (n : String) (v : V) (h : (n, v) ∈ fs) : size v ≤ sizeF fs := by
  induction fs with
  | nil => simp at h
  | cons x xs ih =>
    obtain ⟨m, w⟩ := x
    simp only [sizeF]
    rcases List.mem_cons.mp h with h | h
    · cases h; omega
    · have := ih h; omega

/-- a code object: dump_code3's bytes read by marshal.c's code reader -/
theorem code_case (ver : List Nat) (fs : List (String × V)) (hshape : codeShape ver fs = true) (hpf : PlainF ver fs = true)
    (f2 d : Nat) (txt : Bool) (tail : Bytes) (r : List (Option V)) (s : List V)
    (hd : d + 1 + depthF fs ≤ 2000) (hsz : sizeF fs ≤ f2) (hA : StmtA ver f2) :
    (rObj cpython 4 ver (f2 + 3) d txt).run (st (dump (.code fs) ++ tail) r s) =
      .ok (some (.code (normF fs)), st tail r s) := by
  obtain ⟨a, pos, k, nl, ss, fl, c, cs, ns, vn, fv, cv, fn, nm, first, lt, hfs, g30, g311, ha, hk, hnl, hss, hfl, hfirst, hpos⟩ :=
    shape_of ver fs hshape
  have g13 := XV.Props.C10.Sim.verGeL_mono ver 3 0 1 3 (by omega) g30
  have g15 := XV.Props.C10.Sim.verGeL_mono ver 3 0 1 5 (by omega) g30
  have g21 := XV.Props.C10.Sim.verGeL_mono ver 3 0 2 1 (by omega) g30
  have g23 := XV.Props.C10.Sim.verGeL_mono ver 3 0 2 3 (by omega) g30
  have hdep : ¬ d > cpython.maxDepth := by simp [cpython]; omega
  have dz := fun n v h => depthF_mem fs n v h
  have sz := fun n v h => sizeF_mem fs n v h
  have d_c := dz "co_code" c (by rw [hfs]; simp); have s_c := sz "co_code" c (by rw [hfs]; simp)
  have d_cs := dz "co_consts" cs (by rw [hfs]; simp); have s_cs := sz "co_consts" cs (by rw [hfs]; simp)
  have d_ns := dz "co_names" ns (by rw [hfs]; simp); have s_ns := sz "co_names" ns (by rw [hfs]; simp)
  have d_vn := dz "co_varnames" vn (by rw [hfs]; simp); have s_vn := sz "co_varnames" vn (by rw [hfs]; simp)
  have d_fv := dz "co_freevars" fv (by rw [hfs]; simp); have s_fv := sz "co_freevars" fv (by rw [hfs]; simp)
  have d_cv := dz "co_cellvars" cv (by rw [hfs]; simp); have s_cv := sz "co_cellvars" cv (by rw [hfs]; simp)
  have d_fn := dz "co_filename" fn (by rw [hfs]; simp); have s_fn := sz "co_filename" fn (by rw [hfs]; simp)
  have d_nm := dz "co_name" nm (by rw [hfs]; simp); have s_nm := sz "co_name" nm (by rw [hfs]; simp)
  have d_lt := dz "co_linetable" lt (by rw [hfs]; simp); have s_lt := sz "co_linetable" lt (by rw [hfs]; simp)
  generalize depthF fs = DF at hd d_c d_cs d_ns d_vn d_fv d_cv d_fn d_nm d_lt
  generalize sizeF fs = SF at hsz s_c s_cs s_ns s_vn s_fv s_cv s_fn s_nm s_lt
  clear dz sz
  subst hfs
  simp only [PlainF, Bool.and_eq_true, Bool.and_true] at hpf
  obtain ⟨_, _, _, _, _, _, pc, pcs, pns, pvn, pfv, pcv, pfn, pnm, _, plt⟩ := hpf
  have hflag : (decide True && decide (0 ≠ 0)) = false := by decide
  obtain ⟨a1, a2⟩ := i32ok_iff a ha
  obtain ⟨k1, k2⟩ := i32ok_iff k hk
  obtain ⟨n1, n2⟩ := i32ok_iff nl hnl
  obtain ⟨s1, s2⟩ := i32ok_iff ss hss
  obtain ⟨l1, l2⟩ := i32ok_iff fl hfl
  obtain ⟨r1, r2⟩ := i32ok_iff first hfirst
  rcases hpos with ⟨p, rfl, g38, hp⟩ | ⟨rfl, g38⟩
  · obtain ⟨p1, p2⟩ := i32ok_iff p hp
    simp only [dump, dumpFields, assembleCode, norm, normF, List.cons_append, List.nil_append, List.append_assoc]
    rw [rObj]; simp only [hdep, if_false]; rw [run_bind, u8_app]
    simp only [if_true, Nat.reduceAnd, Nat.reduceEqDiff, if_false]
    rw [run_bind, hflag, code, run_bind, reserve_false]
    simp only [argcountF, posonlyF, kwonlyF, nlocalsF, stacksizeF, flagsF, firstF, intF, g30, g311, g13, g15, g21, g23, g38,
      if_true, if_false, Bool.false_eq_true]
    rw [run_bind, i32_app a a1 a2]; simp only []
    rw [run_bind, run_bind, i32_app p p1 p2]; simp only [run_pure]
    rw [run_bind, i32_app k k1 k2]; simp only []
    rw [run_bind, i32_app nl n1 n2]; simp only []
    rw [run_bind, i32_app ss s1 s2]; simp only []
    rw [run_bind, i32_app fl l1 l2]; simp only []
    rw [run_bind, obj_app ver f2 hA c pc (by omega) d false _ r s (by omega)]; simp only []
    rw [run_bind, obj_app ver f2 hA cs pcs (by omega) d false _ r s (by omega)]; simp only []
    rw [run_bind, obj_app ver f2 hA ns pns (by omega) d true _ r s (by omega)]; simp only []
    rw [run_bind, obj_app ver f2 hA vn pvn (by omega) d true _ r s (by omega)]; simp only []
    rw [run_bind, obj_app ver f2 hA fv pfv (by omega) d true _ r s (by omega)]; simp only []
    rw [run_bind, obj_app ver f2 hA cv pcv (by omega) d true _ r s (by omega)]; simp only []
    rw [run_bind, obj_app ver f2 hA fn pfn (by omega) d true _ r s (by omega)]; simp only []
    rw [run_bind, obj_app ver f2 hA nm pnm (by omega) d true _ r s (by omega)]; simp only []
    rw [run_bind, i32_app first r1 r2]; simp only []
    rw [run_bind, obj_app ver f2 hA lt plt (by omega) d false _ r s (by omega)]; simp only []
    rfl
  · simp only [dump, dumpFields, assembleCode, norm, normF, List.cons_append, List.nil_append, List.append_assoc]
    rw [rObj]; simp only [hdep, if_false]; rw [run_bind, u8_app]
    simp only [if_true, Nat.reduceAnd, Nat.reduceEqDiff, if_false]
    rw [run_bind, hflag, code, run_bind, reserve_false]
    simp only [argcountF, posonlyF, kwonlyF, nlocalsF, stacksizeF, flagsF, firstF, intF, g30, g311, g13, g15, g21, g23, g38,
      if_true, if_false, Bool.false_eq_true]
    rw [run_bind, i32_app a a1 a2]; simp only []
    rw [run_bind, run_pure]; simp only []
    rw [run_bind, i32_app k k1 k2]; simp only []
    rw [run_bind, i32_app nl n1 n2]; simp only []
    rw [run_bind, i32_app ss s1 s2]; simp only []
    rw [run_bind, i32_app fl l1 l2]; simp only []
    rw [run_bind, obj_app ver f2 hA c pc (by omega) d false _ r s (by omega)]; simp only []
    rw [run_bind, obj_app ver f2 hA cs pcs (by omega) d false _ r s (by omega)]; simp only []
    rw [run_bind, obj_app ver f2 hA ns pns (by omega) d true _ r s (by omega)]; simp only []
    rw [run_bind, obj_app ver f2 hA vn pvn (by omega) d true _ r s (by omega)]; simp only []
    rw [run_bind, obj_app ver f2 hA fv pfv (by omega) d true _ r s (by omega)]; simp only []
    rw [run_bind, obj_app ver f2 hA cv pcv (by omega) d true _ r s (by omega)]; simp only []
    rw [run_bind, obj_app ver f2 hA fn pfn (by omega) d true _ r s (by omega)]; simp only []
    rw [run_bind, obj_app ver f2 hA nm pnm (by omega) d true _ r s (by omega)]; simp only []
    rw [run_bind, i32_app first r1 r2]; simp only []
    rw [run_bind, obj_app ver f2 hA lt plt (by omega) d false _ r s (by omega)]; simp only []
    rfl

theorem stepA (fuel : Nat) (hB : StmtB ver fuel) (hC : StmtC ver fuel)
    (hAll : ∀ f2, f2 + 2 = fuel → StmtA ver f2) : StmtA ver (fuel + 1) := by
  intro v hp hs d txt tail r s hdepth
  have hflag : (decide True && decide (0 ≠ 0)) = false := by decide
  cases v with
  | none =>
    have hdep : ¬ d > cpython.maxDepth := by simp [cpython]; simp [depthOf] at hdepth; omega
    simp only [dump, List.cons_append, List.nil_append, norm]
    rw [rObj]; simp only [hdep, if_false]; rw [run_bind, u8_app]
    simp only [if_true, Nat.reduceAnd, Nat.reduceEqDiff, if_false]; rfl
  | tru =>
    have hdep : ¬ d > cpython.maxDepth := by simp [cpython]; simp [depthOf] at hdepth; omega
    simp only [dump, List.cons_append, List.nil_append, norm]
    rw [rObj]; simp only [hdep, if_false]; rw [run_bind, u8_app]
    simp only [if_true, Nat.reduceAnd, Nat.reduceEqDiff, if_false]; rfl
  | fls =>
    have hdep : ¬ d > cpython.maxDepth := by simp [cpython]; simp [depthOf] at hdepth; omega
    simp only [dump, List.cons_append, List.nil_append, norm]
    rw [rObj]; simp only [hdep, if_false]; rw [run_bind, u8_app]
    simp only [if_true, Nat.reduceAnd, Nat.reduceEqDiff, if_false]; rfl
  | ellipsis =>
    have hdep : ¬ d > cpython.maxDepth := by simp [cpython]; simp [depthOf] at hdepth; omega
    simp only [dump, List.cons_append, List.nil_append, norm]
    rw [rObj]; simp only [hdep, if_false]; rw [run_bind, u8_app]
    simp only [if_true, Nat.reduceAnd, Nat.reduceEqDiff, if_false]; rfl
  | stopIter =>
    have hdep : ¬ d > cpython.maxDepth := by simp [cpython]; simp [depthOf] at hdepth; omega
    simp only [dump, List.cons_append, List.nil_append, norm]
    rw [rObj]; simp only [hdep, if_false]; rw [run_bind, u8_app]
    simp only [if_true, Nat.reduceAnd, Nat.reduceEqDiff, if_false]; rfl
  | int i =>
    simp only [Plain, decide_eq_true_eq] at hp
    simp only [dump, norm]
    exact int_case ver i hp fuel d txt (by simp [depthOf] at hdepth; omega) tail r s
  | long i =>
    simp only [Plain, decide_eq_true_eq] at hp
    simp only [dump, norm]
    exact int_case ver i hp fuel d txt (by simp [depthOf] at hdepth; omega) tail r s
  | floatText t =>
    have hdep : ¬ d > cpython.maxDepth := by simp [cpython]; simp [depthOf] at hdepth; omega
    simp only [Plain, decide_eq_true_eq] at hp
    have hm : t.length % 256 = t.length := by omega
    simp only [dump, List.cons_append, List.nil_append, List.append_assoc, norm, hm]
    rw [rObj]; simp only [hdep, if_false]; rw [run_bind, u8_app]
    simp only [if_true, Nat.reduceAnd, Nat.reduceEqDiff, if_false]
    rw [run_bind, run_bind, u8_app]
    simp only []
    rw [run_bind, rd_app _ t tail rfl, hflag]
    rfl
  | complexText re im =>
    have hdep : ¬ d > cpython.maxDepth := by simp [cpython]; simp [depthOf] at hdepth; omega
    simp only [Plain, Bool.and_eq_true, decide_eq_true_eq] at hp
    have hm1 : re.length % 256 = re.length := by omega
    have hm2 : im.length % 256 = im.length := by omega
    simp only [dump, List.cons_append, List.nil_append, List.append_assoc, norm, hm1, hm2]
    rw [rObj]; simp only [hdep, if_false]; rw [run_bind, u8_app]
    simp only [if_true, Nat.reduceAnd, Nat.reduceEqDiff, if_false]
    rw [run_bind, run_bind, u8_app]
    simp only []
    rw [run_bind, rd_app _ re _ rfl]
    simp only []
    rw [run_bind, u8_app]
    simp only []
    rw [run_bind, rd_app _ im tail rfl, hflag]
    rfl
  | bytes b =>
    have hdep : ¬ d > cpython.maxDepth := by simp [cpython]; simp [depthOf] at hdepth; omega
    simp only [Plain, decide_eq_true_eq] at hp
    simp only [dump, List.cons_append, List.nil_append, List.append_assoc, norm]
    rw [rObj]; simp only [hdep, if_false]; rw [run_bind, u8_app]
    simp only [if_true, Nat.reduceAnd, Nat.reduceEqDiff, if_false]
    have hg : ¬ ((cpython.strict && txt) = true) := by simp [cpython]
    rw [if_neg hg, run_bind, run_bind, size32_app _ hp]
    simp only []
    rw [run_bind, rd_app _ b tail rfl, hflag]
    rfl
  | str cps =>
    have hdep : ¬ d > cpython.maxDepth := by simp [cpython]; simp [depthOf] at hdepth; omega
    simp only [Plain, Bool.and_eq_true, decide_eq_true_eq, List.all_eq_true] at hp
    simp only [dump, List.cons_append, List.nil_append, List.append_assoc, norm]
    rw [rObj]; simp only [hdep, if_false]; rw [run_bind, u8_app]
    simp only [if_true, Nat.reduceAnd, Nat.reduceEqDiff, if_false]
    rw [run_bind, run_bind, size32_app _ hp.2]
    simp only []
    rw [run_bind, rd_app _ (utf8Enc cps) tail rfl]
    have h43 : (4 ≥ 3) = True := by simp
    simp only [h43, if_true, XV.Props.C14.Utf8.C14_text cps hp.1, hflag]
    rfl
  | tuple xs =>
    simp only [Plain, Bool.and_eq_true, decide_eq_true_eq] at hp
    simp only [size] at hs
    simp only [depthOf] at hdepth
    simp only [dump, List.cons_append, List.nil_append, List.append_assoc, norm]
    exact cont_case ver 40 V.tuple xs fuel d txt tail r s (by omega) hp.1 (Or.inl rfl)
      ⟨fun _ => rfl, (fun h => absurd h (by decide)), (fun h => absurd h (by decide)), (fun h => absurd h (by decide))⟩
      (hB xs hp.2 (by omega) d txt tail r s (by omega))
  | list xs =>
    simp only [Plain, Bool.and_eq_true, decide_eq_true_eq] at hp
    simp only [size] at hs
    simp only [depthOf] at hdepth
    simp only [dump, List.cons_append, List.nil_append, List.append_assoc, norm]
    exact cont_case ver 91 V.list xs fuel d txt tail r s (by omega) hp.1 (Or.inr (Or.inl rfl))
      ⟨(fun h => absurd h (by decide)), fun _ => rfl, (fun h => absurd h (by decide)), (fun h => absurd h (by decide))⟩
      (hB xs hp.2 (by omega) d txt tail r s (by omega))
  | set xs =>
    simp only [Plain, Bool.and_eq_true, decide_eq_true_eq] at hp
    simp only [size] at hs
    simp only [depthOf] at hdepth
    simp only [dump, List.cons_append, List.nil_append, List.append_assoc, norm]
    exact cont_case ver 60 V.set xs fuel d txt tail r s (by omega) hp.1 (Or.inr (Or.inr (Or.inl rfl)))
      ⟨(fun h => absurd h (by decide)), (fun h => absurd h (by decide)), fun _ => rfl, (fun h => absurd h (by decide))⟩
      (hB xs hp.2 (by omega) d txt tail r s (by omega))
  | fset xs =>
    simp only [Plain, Bool.and_eq_true, decide_eq_true_eq] at hp
    simp only [size] at hs
    simp only [depthOf] at hdepth
    simp only [dump, List.cons_append, List.nil_append, List.append_assoc, norm]
    exact cont_case ver 62 V.fset xs fuel d txt tail r s (by omega) hp.1 (Or.inr (Or.inr (Or.inr rfl)))
      ⟨(fun h => absurd h (by decide)), (fun h => absurd h (by decide)), (fun h => absurd h (by decide)), fun _ => rfl⟩
      (hB xs hp.2 (by omega) d txt tail r s (by omega))
  | dict kvs =>
    have hdep : ¬ d > cpython.maxDepth := by simp [cpython]; simp [depthOf] at hdepth; omega
    simp only [Plain] at hp
    simp only [size] at hs
    simp only [depthOf] at hdepth
    simp only [dump, List.cons_append, List.nil_append, List.append_assoc, norm]
    rw [rObj]; simp only [hdep, if_false]; rw [run_bind, u8_app]
    simp only [if_true, Nat.reduceAnd, Nat.reduceEqDiff, if_false]
    rw [run_bind, run_bind, hflag, reserve_false]
    simp only []
    rw [run_bind, hC kvs hp (by omega) d txt tail r s (by omega)]
    rfl
  | float _ => simp [Plain] at hp
  | complex _ _ => simp [Plain] at hp
  | u2 _ => simp [Plain] at hp
  | code fs =>
    simp only [Plain, Bool.and_eq_true] at hp
    simp only [size] at hs
    simp only [depthOf] at hdepth
    obtain ⟨f2, rfl⟩ : ∃ f2, fuel = f2 + 2 := ⟨fuel - 2, by omega⟩
    simp only [norm]
    exact code_case ver fs hp.1 hp.2 f2 d txt tail r s (by omega) (by omega) (hAll f2 rfl)

theorem all_stmts : ∀ fuel, StmtA ver fuel ∧ StmtB ver fuel ∧ StmtC ver fuel := by
  intro fuel
  induction fuel using Nat.strongRecOn with
  | ind fuel ih =>
    cases fuel with
    | zero =>
      refine ⟨?_, ?_, ?_⟩
      · intro v _ hs; have := size_pos v; omega
      · intro xs _ hs; have := sizeL_pos xs; omega
      · intro kvs _ hs; cases kvs with
        | nil => simp [sizeKV] at hs
        | cons kv kvs => obtain ⟨k, v⟩ := kv; simp [sizeKV] at hs
    | succ f =>
      obtain ⟨hA, hB, hC⟩ := ih f (by omega)
      exact ⟨stepA ver f hB hC (fun f2 h2 => (ih f2 (by omega)).1), stepB ver f hA hB, stepC ver f hA hC⟩

theorem wLong_length (x : Int) : (wLong x).length = 4 := by simp [wLong, toLE_length]

mutual
theorem size_le : (v : V) → Plain ver v = true → size v + 1 ≤ 2 * (dump v).length
  | .none, _ | .tru, _ | .fls, _ | .ellipsis, _ | .stopIter, _ => by simp [size, dump]
  | .int i, _ | .long i, _ => by simp [size, dump, dumpLong, wLong_length]; omega
  | .floatText t, _ => by simp [size, dump]; omega
  | .complexText a b, _ => by simp [size, dump]; omega
  | .bytes b, _ => by simp [size, dump, wLong_length]; omega
  | .str cps, _ => by simp [size, dump, wLong_length]; omega
  | .tuple xs, hp => by
      have := sizeL_le xs (by simp [Plain] at hp; exact hp.2)
      simp [size, dump, wLong_length]; omega
  | .list xs, hp => by
      have := sizeL_le xs (by simp [Plain] at hp; exact hp.2)
      simp [size, dump, wLong_length]; omega
  | .set xs, hp => by
      have := sizeL_le xs (by simp [Plain] at hp; exact hp.2)
      simp [size, dump, wLong_length]; omega
  | .fset xs, hp => by
      have := sizeL_le xs (by simp [Plain] at hp; exact hp.2)
      simp [size, dump, wLong_length]; omega
  | .dict kvs, hp => by
      have := sizeKV_le kvs (by simp [Plain] at hp; exact hp)
      simp [size, dump]; omega
  | .float _, hp | .complex _ _, hp | .u2 _, hp => by simp [Plain] at hp
  | .code fs, hp => by
      simp only [Plain, Bool.and_eq_true] at hp
      have hall := sizeF_le fs hp.2
      obtain ⟨a, pos, k, nl, ss, fl, c, cs, ns, vn, fv, cv, fn, nm, first, lt, hfs, _, _, _, _, _, _, _, _, hpos⟩ :=
        shape_of ver fs hp.1
      -- every field is either an integer (size 1) or an object whose dump is part of the code's dump
      have hL : ∀ n v, (n, v) ∈ fs → size v + 49 ≤ 2 * (dump (V.code fs)).length := by
        intro n v hm
        have hv := hall n v hm
        subst hfs
        have hlen : (dump (V.code [("co_argcount", .int a), ("co_posonlyargcount", pos), ("co_kwonlyargcount", .int k),
            ("co_nlocals", .int nl), ("co_stacksize", .int ss), ("co_flags", .int fl), ("co_code", c), ("co_consts", cs),
            ("co_names", ns), ("co_varnames", vn), ("co_freevars", fv), ("co_cellvars", cv), ("co_filename", fn),
            ("co_name", nm), ("co_firstlineno", .int first), ("co_linetable", lt)])).length ≥
            25 + (dump c).length + (dump cs).length + (dump ns).length + (dump vn).length + (dump fv).length +
              (dump cv).length + (dump fn).length + (dump nm).length + (dump lt).length := by
          simp only [dump, dumpFields, assembleCode, List.length_append, List.length_cons, List.length_nil, wLong_length]
          omega
        simp only [List.mem_cons, Prod.mk.injEq, List.mem_nil_iff, or_false] at hm
        rcases hm with ⟨_, rfl⟩ | ⟨_, rfl⟩ | ⟨_, rfl⟩ | ⟨_, rfl⟩ | ⟨_, rfl⟩ | ⟨_, rfl⟩ | ⟨_, rfl⟩ | ⟨_, rfl⟩ | ⟨_, rfl⟩ |
          ⟨_, rfl⟩ | ⟨_, rfl⟩ | ⟨_, rfl⟩ | ⟨_, rfl⟩ | ⟨_, rfl⟩ | ⟨_, rfl⟩ | ⟨_, rfl⟩
        all_goals first
          | (simp only [size]; omega)
          | omega
          | (rcases hpos with ⟨p, rfl, _, _⟩ | ⟨rfl, _⟩ <;> simp only [size] <;> omega)
      have hF : ∀ (gs : List (String × V)), (∀ n v, (n, v) ∈ gs → (n, v) ∈ fs) → sizeF gs + 49 ≤ 2 * (dump (V.code fs)).length := by
        intro gs
        induction gs with
        | nil =>
          intro _
          have := hL "co_argcount" (.int a) (by rw [hfs]; simp)
          simp only [sizeF]; simp only [size] at this; omega
        | cons x xs ih =>
          intro hsub
          obtain ⟨n, v⟩ := x
          have h1 := hL n v (hsub n v (by simp))
          have h2 := ih (fun n' v' h' => hsub n' v' (by simp [h']))
          simp only [sizeF]
          omega
      have := hF fs (fun _ _ h => h)
      simp only [size]
      omega
theorem sizeF_le : (fs : List (String × V)) → PlainF ver fs = true → ∀ n v, (n, v) ∈ fs → size v + 1 ≤ 2 * (dump v).length
  | [], _ => by intro n v h; simp at h
  | (m, w) :: r, hp => by
      simp only [PlainF, Bool.and_eq_true] at hp
      intro n v h
      rcases List.mem_cons.mp h with h | h
      · cases h; exact size_le w hp.1
      · exact sizeF_le r hp.2 n v h
theorem sizeL_le : (xs : List V) → PlainL ver xs = true → sizeL xs ≤ 1 + 2 * (dumpList xs).length
  | [], _ => by simp [sizeL, dumpList]
  | x :: xs, hp => by
      simp only [PlainL, Bool.and_eq_true] at hp
      have h1 := size_le x hp.1
      have h2 := sizeL_le xs hp.2
      simp [sizeL, dumpList]; omega
theorem sizeKV_le : (kvs : List (V × V)) → PlainKV ver kvs = true → sizeKV kvs ≤ 2 + 2 * (dumpKVs kvs).length
  | [], _ => by simp [sizeKV, dumpKVs]
  | (k, v) :: r, hp => by
      simp only [PlainKV, Bool.and_eq_true] at hp
      have h1 := size_le k hp.1.1
      have h2 := size_le v hp.1.2
      have h3 := sizeKV_le r hp.2
      simp [sizeKV, dumpKVs]; omega
end

/-- C14_dumps — for every plain value (nested to a depth marshal.c accepts) the bytes
    `xdis.marsh.dumps` writes are read by marshal.c's reader to the same value (`long` and `int`
    being one type in Python 3), consuming exactly those bytes: nothing left over when the
    string is exactly the dump -/
theorem C14_dumps (hera : era ver = 4) (v : V) (hp : Plain ver v = true) (hd : depthOf v ≤ 1999) :
    Spec.Marshal.loads ver (dump v) = .ok (norm v, []) := by
  unfold Spec.Marshal.loads loadsWith
  have hsz := size_le ver v hp
  have hA := (all_stmts ver (2 * (dump v).length + 3)).1 v hp (by omega) (0 + 1) false [] [] [] (by omega)
  simp only [List.append_nil, st] at hA
  rw [hera]
  show (match (obj cpython 4 ver (2 * (dump v).length + 3 + 1) 0 false).run { inp := dump v, refs := [], strs := [] } with
    | .ok (v, s) => Except.ok (v, s.inp) | .error e => .error e) = _
  unfold obj
  rw [run_bind, hA]
  rfl

/-- non-vacuity: big ints of both signs, text with Latin-1, BMP, astral and lone-surrogate code points,
    nested containers with None keys and values are all plain, within the depth bound -/
example :
    let v := V.tuple [.int (2 ^ 100), .long (-(2 ^ 31) - 1), .str [233, 8364, 128512, 0xdc80], .floatText [49, 46, 53],
                      .list [.dict [(.none, .int 1), (.int 2, .none)], .fset [.bytes [0, 255]]], .tru, .ellipsis]
    Plain [3, 12] v = true ∧ depthOf v ≤ 1999 ∧ era [3, 12] = 4 := by decide +kernel

end XV.Props.C14.Dumps

/-
Spec: what CPython's marshal.c reader does, per marshal era:
  era 0: ≤ 2.3          (no 't'/'R', no binary floats)
  era 1: 2.4            ('t' interned strings, 'R' string references)
  era 2: 2.5 – 2.7      (binary floats 'g'/'y'; sets)          [Python 2 object model]
  era 3: 3.0 – 3.3      (bytes/str split; no 't'/'R'; 'I' still read)
  era 4: 3.4 +          (FLAG_REF and 'r'; 'a' 'A' 'z' 'Z' ')' 't'; no 'I')
Values use the same tree type `V` as the Model, with the PRODUCING Python's kinds:
Python 2 `str` is `.bytes`, Python 2 `unicode` is `.u2 raw` (its UTF-8 form), `long` is `.long`.
Written from marshal.c's documented behaviour; validated on every run against
marshal.loads of the installed interpreters.  Never mentions xdis.
-/
import XV.Model.Unmarshal
namespace XV.Spec.Marshal
open XV XV.Model.Unmarshal

inductive PErr where | eof | badData | valueError | outOfFuel
  deriving Repr, DecidableEq

structure PSt where
  inp : Bytes
  refs : List (Option V)      -- none = reserved, not yet filled
  strs : List V

abbrev P := StateT PSt (Except PErr)

/-- `maxDepth` = marshal.c's MAX_MARSHAL_STACK_DEPTH (2000).  `strict` adds the well-formedness
    guards of the simulation theorem — conditions every stream written by a CPython satisfies
    and under which marshal.c's own later checks (PyCode_New / _PyCode_Validate / intern_strings)
    accept the code object: the ASCII type codes hold bytes < 0x80; from 3.11 the locals-plus names are a tuple, their kinds a bytes object, and
    a FREE kind is neither LOCAL nor CELL; and (the ghost flag `txt`, set only while the
    name fields of Python 3 bytecode are read: `co_names`, `co_varnames`, `co_freevars`, `co_cellvars`, `co_filename`,
    `co_name`) no 's' bytes object occurs inside those fields — PyCode_New rejects such an object ("non-string found in
    code slot", name/filename must be str); xdis reads exactly these fields with bytes_for_s = False.  `loads` (used for validation against the
    interpreters) runs with `strict := false`. -/
structure SCfg where
  strict : Bool
  maxDepth : Nat

def cpython : SCfg := { strict := false, maxDepth := 2000 }

def era (v : List Nat) : Nat :=
  if verGeL v 3 4 then 4 else if verGeL v 3 0 then 3 else if verGeL v 2 5 then 2 else if verGeL v 2 4 then 1 else 0

def rd (k : Nat) : P Bytes := do
  let s ← get
  if s.inp.length < k then throw .eof
  set { s with inp := s.inp.drop k }
  pure (s.inp.take k)

def i32 : P Int := do let b ← rd 4; pure (signedOf 4 (leNat b))
def i16 : P Int := do let b ← rd 2; pure (signedOf 2 (leNat b))
def u8 : P Nat := do let b ← rd 1; pure (leNat b)

/-- a size field: negative sizes are "bad marshal data" -/
def size32 : P Nat := do let n ← i32; if n < 0 then throw .badData else pure n.toNat

def ref (v : V) (flag : Bool) : P V := do
  if flag then modify fun s => { s with refs := s.refs ++ [some v] }
  pure v
def reserve (flag : Bool) : P (Option Nat) := do
  if flag then do let s ← get; set { s with refs := s.refs ++ [none] }; pure (some s.refs.length)
  else pure none
def insert (v : V) (i : Option Nat) : P V := do
  match i with
  | some k => modify fun s => { s with refs := s.refs.set k (some v) }
  | none => pure ()
  pure v

def latin1 (b : Bytes) : V := .str b

/-- an ASCII-typed string ('a' 'A' 'z' 'Z'): one code point per byte; the strict guard wants real ASCII -/
def asciiStr (sc : SCfg) (b : Bytes) : P V :=
  if sc.strict && !(b.all (· < 0x80)) then throw .badData else pure (latin1 b)

def isStrV : V → Bool
  | .str _ => true
  | _ => false

def kindOK (x : Nat) : Bool := x &&& 0x80 = 0 || (x &&& 0x20 = 0 && x &&& 0x40 = 0)

/-! the integer fields of a code object: 16-bit before 2.3, 32-bit from 2.3; which exist when -/
def intF (ver : List Nat) : P Int := if verGeL ver 2 3 then i32 else i16
def argcountF (ver : List Nat) : P Int := if verGeL ver 1 3 then intF ver else pure 0
def posonlyF (ver : List Nat) : P V := if verGeL ver 3 8 then (do let x ← i32; pure (.int x)) else pure .none
def kwonlyF (ver : List Nat) : P Int := if verGeL ver 3 0 then i32 else pure 0
def nlocalsF (ver : List Nat) : P Int := if verGeL ver 3 11 then pure 0 else if verGeL ver 1 3 then intF ver else pure 0
def stacksizeF (ver : List Nat) : P Int := if verGeL ver 1 5 then intF ver else pure 0
def flagsF (ver : List Nat) : P Int := if verGeL ver 1 3 then intF ver else pure 0
def firstF (ver : List Nat) : P Int := if verGeL ver 1 5 then intF ver else pure (-1)

mutual
def rObj (sc : SCfg) (e : Nat) (ver : List Nat) : Nat → Nat → Bool → P (Option V)      -- none = NULL
  | 0, _, _ => throw .outOfFuel
  | fuel + 1, depth, txt => do
    if depth > sc.maxDepth then throw .valueError else do      -- MAX_MARSHAL_STACK_DEPTH
    let b ← u8
    let flag := e = 4 && b &&& 0x80 ≠ 0
    let ty := if e = 4 then b &&& 0x7F else b
    -- TYPE_NULL ends a dict; marshal.c never writes it with FLAG_REF (strict guard)
    if ty = 48 then (if sc.strict && flag then throw .badData else pure none) else do
    let v : V ← (match ty with
    | 78 => pure .none
    | 70 => pure .fls
    | 84 => pure .tru
    | 83 => pure .stopIter
    | 46 => pure .ellipsis
    | 105 => do let i ← i32; ref (.int i) flag
    | 73 => if e = 4 then throw .badData else do
        let b ← rd 8; ref (.int (signedOf 8 (leNat b))) flag
    | 108 => do
        let n ← i32
        let ds ← digits n.natAbs 0 0
        -- marshal.c rejects a most significant digit of zero ("unnormalized long data")
        let v := if n < 0 then -ds.1 else ds.1
        if n ≠ 0 ∧ ds.2 = 0 then throw .badData
        else ref (if e ≥ 3 then .int v else .long v) flag
    | 102 => do let k ← u8; let s ← rd k; ref (.floatText s) flag
    | 103 => if e < 2 then throw .badData else do let b ← rd 8; ref (.float (leNat b)) flag
    | 120 => do let k1 ← u8; let s1 ← rd k1; let k2 ← u8; let s2 ← rd k2; ref (.complexText s1 s2) flag
    | 121 => if e < 2 then throw .badData else do
        let r ← rd 8; let i ← rd 8; ref (.complex (leNat r) (leNat i)) flag
    | 115 => if sc.strict && txt then throw .badData else do let n ← size32; let s ← rd n; ref (.bytes s) flag
    | 116 => if e = 0 ∨ e = 3 then throw .badData else do
        let n ← size32; let s ← rd n
        if e = 4 then
          match Utf8.decodeSurrogatePass s with
          | some cps => ref (.str cps) flag
          | none => throw .valueError
        else do
          modify fun st => { st with strs := st.strs ++ [.bytes s] }
          pure (.bytes s)
    | 82 => if !(e = 1 ∨ e = 2) then throw .badData else do
          let n ← i32; let st ← get
          if n < 0 then throw .badData else
          match st.strs[n.toNat]? with
          | some v => pure v
          | none => throw .badData
    | 117 => do
        let n ← size32; let s ← rd n
        if e ≥ 3 then
          match Utf8.decodeSurrogatePass s with
          | some cps => ref (.str cps) flag
          | none => throw .valueError
        else
          match Utf8.decodeSurrogatePass s with       -- Python 2's UTF-8 decoder lets surrogates through
          | some _ => pure (.u2 s)
          | none => throw .valueError
    | 97 => if e < 4 then throw .badData else do let n ← size32; let s ← rd n; let v ← asciiStr sc s; ref v flag
    | 65 => if e < 4 then throw .badData else do let n ← size32; let s ← rd n; let v ← asciiStr sc s; ref v flag
    | 122 => if e < 4 then throw .badData else do let n ← u8; let s ← rd n; let v ← asciiStr sc s; ref v flag
    | 90 => if e < 4 then throw .badData else do let n ← u8; let s ← rd n; let v ← asciiStr sc s; ref v flag
    | 41 => if e < 4 then throw .badData else do
        let n ← u8
        let i ← reserve flag
        let xs ← items sc e ver fuel depth txt n
        insert (.tuple xs) i
    | 40 => do
        let n ← size32
        let i ← reserve flag
        let xs ← items sc e ver fuel depth txt n
        insert (.tuple xs) i
    | 91 => do
        let n ← size32
        let i ← reserve flag
        let xs ← items sc e ver fuel depth txt n
        insert (.list xs) i
    | 60 => if e = 0 then throw .badData else do
        let n ← size32
        let i ← reserve flag
        let xs ← items sc e ver fuel depth txt n
        insert (.set xs) i
    | 62 => if e = 0 then throw .badData else do
        let n ← size32
        let i ← reserve flag
        let xs ← items sc e ver fuel depth txt n
        insert (.fset xs) i
    | 123 => do
        let i ← reserve flag
        let kvs ← dictItems sc e ver fuel depth txt
        insert (.dict kvs) i
    | 114 => if e < 4 then throw .badData else do
        let n ← i32; let st ← get
        if n < 0 then throw .badData else
        match st.refs[n.toNat]? with
        | some (some v) => pure v
        | _ => throw .badData
    | 99 => code sc e ver fuel depth flag
    | _ => throw .badData)
    pure (some v)

def digits : Nat → Nat → Int → P (Int × Int)        -- (value, last digit read)
  | 0, _, acc => pure (acc, 1)
  | k + 1, j, acc => do
    let d ← i16
    if d < 0 ∨ d > 32767 then throw .badData
    else if k = 0 then pure (acc + d * (2 : Int) ^ (j * 15), d)
    else digits k (j + 1) (acc + d * (2 : Int) ^ (j * 15))

def items (sc : SCfg) (e : Nat) (ver : List Nat) : Nat → Nat → Bool → Nat → P (List V)
  | 0, _, _, _ => throw .outOfFuel
  | _, _, _, 0 => pure []
  | fuel + 1, depth, txt, n + 1 => do
    let x ← rObj sc e ver fuel (depth + 1) txt
    match x with
    | none => throw .badData                       -- "NULL object in marshal data for tuple"
    | some v => do
      let xs ← items sc e ver fuel depth txt n
      pure (v :: xs)

def dictItems (sc : SCfg) (e : Nat) (ver : List Nat) : Nat → Nat → Bool → P (List (V × V))
  | 0, _, _ => throw .outOfFuel
  | fuel + 1, depth, txt => do
    let k ← rObj sc e ver fuel (depth + 1) txt
    match k with
    | none => pure []
    | some kv => do
      let v ← rObj sc e ver fuel (depth + 1) txt
      match v with
      | none => if sc.strict then throw .badData else pure []     -- a NULL value is never written
      | some vv => do
        let rest ← dictItems sc e ver fuel depth txt
        pure ((kv, vv) :: rest)

def obj (sc : SCfg) (e : Nat) (ver : List Nat) (fuel depth : Nat) (txt : Bool) : P V := do
  match fuel with
  | 0 => throw .outOfFuel
  | f + 1 =>
    let x ← rObj sc e ver f (depth + 1) txt
    match x with
    | some v => pure v
    | none => throw .badData

/-- code object layouts, from the documented history of PyCode_New / marshal.c -/
def code (sc : SCfg) (e : Nat) (ver : List Nat) : Nat → Nat → Bool → P V
  | 0, _, _ => throw .outOfFuel
  | fuel + 1, depth, flag => do
    let slot ← reserve flag
    let ge := verGeL ver
    let argcount ← argcountF ver
    let posonly ← posonlyF ver
    let kwonly ← kwonlyF ver
    let nlocals ← nlocalsF ver
    let stacksize ← stacksizeF ver
    let flags ← flagsF ver
    let co ← obj sc e ver fuel depth false
    let consts ← obj sc e ver fuel depth false
    let names ← obj sc e ver fuel depth (ge 3 0)
    if ge 3 11 then do
      let lpn ← obj sc e ver fuel depth false
      let lpk ← obj sc e ver fuel depth false
      let filename ← obj sc e ver fuel depth false
      let name ← obj sc e ver fuel depth false
      let qualname ← obj sc e ver fuel depth false
      let first ← i32
      let lt ← obj sc e ver fuel depth false
      let et ← obj sc e ver fuel depth false
      let ns : List V := match lpn with | .tuple xs => xs | _ => []
      let ks : Bytes := match lpk with | .bytes b => b | _ => []
      if sc.strict && !((match lpn with | .tuple _ => true | _ => false) &&
                        (match lpk with | .bytes _ => true | _ => false) && ks.all kindOK) then throw .badData else
      let tagged := ns.zip ks
      -- Objects/codeobject.c: co_varnames = locals, co_cellvars = cells (incl. local cells), co_freevars = frees
      let vs := tagged.filterMap fun (n, k) => if k &&& 0x20 ≠ 0 then some n else none
      let cs := tagged.filterMap fun (n, k) => if k &&& 0x40 ≠ 0 then some n else none
      let fs := tagged.filterMap fun (n, k) => if k &&& 0x80 ≠ 0 then some n else none
      insert (.code [("co_argcount", .int argcount), ("co_posonlyargcount", posonly), ("co_kwonlyargcount", .int kwonly),
        ("co_nlocals", .int vs.length), ("co_stacksize", .int stacksize), ("co_flags", .int flags), ("co_code", co),
        ("co_consts", consts), ("co_names", names), ("co_varnames", .tuple vs), ("co_freevars", .tuple fs),
        ("co_cellvars", .tuple cs), ("co_filename", filename), ("co_name", name), ("co_qualname", qualname),
        ("co_firstlineno", .int first), ("co_linetable", lt), ("co_exceptiontable", et)]) slot
    else do
      let varnames ← (if ge 1 3 then obj sc e ver fuel depth (ge 3 0) else pure (.tuple []))
      let freevars ← (if ge 2 1 then obj sc e ver fuel depth (ge 3 0) else pure (V.tuple []))
      let cellvars ← (if ge 2 1 then obj sc e ver fuel depth (ge 3 0) else pure (V.tuple []))
      let filename ← obj sc e ver fuel depth (ge 3 0)
      let name ← obj sc e ver fuel depth (ge 3 0)
      let first ← firstF ver
      let lt ← (if ge 1 5 then obj sc e ver fuel depth false else pure (V.bytes []))
      insert (.code [("co_argcount", .int argcount), ("co_posonlyargcount", posonly), ("co_kwonlyargcount", .int kwonly),
        ("co_nlocals", .int nlocals), ("co_stacksize", .int stacksize), ("co_flags", .int flags), ("co_code", co),
        ("co_consts", consts), ("co_names", names), ("co_varnames", varnames), ("co_freevars", freevars),
        ("co_cellvars", cellvars), ("co_filename", filename), ("co_name", name),
        ("co_firstlineno", .int first), ("co_linetable", lt)]) slot
end

/-- marshal.loads for the given producing version: value and unread remainder -/
def loadsWith (sc : SCfg) (ver : List Nat) (data : Bytes) : Except PErr (V × Bytes) :=
  match (obj sc (era ver) ver (2 * data.length + 4) 0 false).run { inp := data, refs := [], strs := [] } with
  | .ok (v, s) => .ok (v, s.inp)
  | .error e => .error e

def loads (ver : List Nat) (data : Bytes) : Except PErr (V × Bytes) := loadsWith cpython ver data

/-- the same reader with the well-formedness guards of the simulation theorem switched on -/
def loadsStrict (ver : List Nat) (data : Bytes) : Except PErr (V × Bytes) :=
  loadsWith { strict := true, maxDepth := 2000 } ver data

/- `portB bfs`: what a Python 3 host holding xdis's result should contain for a value a Python 2
   wrote: a Python 2 `str` (here `.bytes`) becomes text when it is valid UTF-8 and `bfs` is false
   (bfs = "bytes for s"); the fields that are byte strings by nature (co_code, the line table)
   are read with bfs = true, every other field of a code object with bfs = false -/
mutual
def portB : Bool → V → V
  | bfs, .bytes b => if bfs then .bytes b else compatStr b
  | bfs, .tuple xs => .tuple (portBList bfs xs)
  | bfs, .list xs => .list (portBList bfs xs)
  | bfs, .set xs => .set (portBList bfs xs)
  | bfs, .fset xs => .fset (portBList bfs xs)
  | bfs, .dict kvs => .dict (portBKVs bfs kvs)
  | _, .code fs => .code (portBFields fs)
  | _, v => v
def portBList : Bool → List V → List V
  | _, [] => []
  | bfs, x :: xs => portB bfs x :: portBList bfs xs
def portBKVs : Bool → List (V × V) → List (V × V)
  | _, [] => []
  | bfs, (k, v) :: rest => (portB bfs k, portB bfs v) :: portBKVs bfs rest
def portBFields : List (String × V) → List (String × V)
  | [] => []
  | (n, v) :: rest => (n, portB (n == "co_code" || n == "co_linetable") v) :: portBFields rest
end

def port2 (v : V) : V := portB false v

def port (ver : List Nat) (v : V) : V := if verGeL ver 3 0 then v else port2 v

end XV.Spec.Marshal

namespace XV.Spec.Marshal
open XV XV.Model.Unmarshal

/-- the sequence of reads marshal.c performs for a code object of version `v`:
    `i2`/`i4` = 16/32-bit integer field, `o` = nested object -/
def layoutOf (v : List Nat) : List String :=
  let ge := verGeL v
  let int := if ge 2 3 then "i4" else "i2"
  (if ge 1 3 then [int] else []) ++                      -- co_argcount
  (if ge 3 8 then ["i4"] else []) ++                     -- co_posonlyargcount
  (if ge 3 0 then ["i4"] else []) ++                     -- co_kwonlyargcount
  (if ge 3 11 then [] else if ge 1 3 then [int] else []) ++   -- co_nlocals
  (if ge 1 5 then [int] else []) ++                      -- co_stacksize
  (if ge 1 3 then [int] else []) ++                      -- co_flags
  ["o", "o", "o"] ++                                     -- co_code co_consts co_names
  (if ge 3 11 then ["o", "o", "o", "o", "o", "i4", "o", "o"]
   else (if ge 1 3 then ["o"] else []) ++                -- co_varnames
        (if ge 2 1 then ["o", "o"] else []) ++           -- co_freevars co_cellvars
        ["o", "o"] ++                                    -- co_filename co_name
        (if ge 1 5 then [int, "o"] else []))             -- co_firstlineno co_lnotab

end XV.Spec.Marshal

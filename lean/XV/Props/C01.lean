/-
C01 — Unmarshalled code objects equal what the producing CPython itself loads.
-/
import XV.Model.Unmarshal
import XV.Spec.Marshal
import XV.Spec.Magic
import XV.Gen.Layouts
namespace XV.Props.C01
open XV XV.Model.Unmarshal

/-- magics of final releases: those some release name "X.Y" / "X.Y.Z" of xdis's tables maps to -/
def releasedMagics : List Nat :=
  (Gen.magicsTbl.filterMap fun p =>
    match Spec.Magic.isFinalName p.1 with
    | some _ => if p.2.length = 4 then some (leNat (p.2.take 2)) else none
    | none => none).eraseDups

/-- forget which string type a nested read is decoded as -/
def normTok (s : String) : String := if s == "o0" || s == "o1" then "o" else s

/-- T2 tie + layout: for every final-release magic, the sequence of reads xdis's t_code
    actually performs (probed on the implementation on every run) is the sequence marshal.c
    writes for that version — same integer widths, same number and position of objects -/
def layoutOk (m : Nat) : Bool :=
  match Spec.Magic.implTuple m, Gen.codeLayout.lookup m with
  | some v, some seq => seq.map normTok == Spec.Marshal.layoutOf v
  | _, _ => false

theorem C01_layout : ∀ m ∈ releasedMagics, layoutOk m = true := by decide +kernel

/-- where each integer field of the code object comes from (k-th read ↦ field), probed -/
def fieldOrderOk (m : Nat) : Bool :=
  match Spec.Magic.implTuple m, Gen.codeFields.lookup m with
  | some v, some fs =>
    let f := fun n => (fs.lookup n).getD ""
    if verGeL v 3 11 then
      f "co_argcount" == "101" && f "co_posonlyargcount" == "102" && f "co_kwonlyargcount" == "103" &&
      f "co_stacksize" == "104" && f "co_flags" == "105" && f "co_firstlineno" == "106" &&
      f "co_code" == "o#1" && f "co_consts" == "o#2" && f "co_names" == "o#3" && f "co_filename" == "o#6" &&
      f "co_name" == "o#7" && f "co_qualname" == "o#8" && f "co_lnotab" == "o#9" && f "co_exceptiontable" == "o#10"
    else if verGeL v 3 8 then
      f "co_argcount" == "101" && f "co_posonlyargcount" == "102" && f "co_kwonlyargcount" == "103" &&
      f "co_nlocals" == "104" && f "co_stacksize" == "105" && f "co_flags" == "106" && f "co_firstlineno" == "107" &&
      f "co_varnames" == "o#4" && f "co_freevars" == "o#5" && f "co_cellvars" == "o#6" && f "co_filename" == "o#7" &&
      f "co_name" == "o#8" && f "co_lnotab" == "o#9"
    else if verGeL v 3 0 then
      f "co_argcount" == "101" && f "co_kwonlyargcount" == "102" && f "co_nlocals" == "103" &&
      f "co_stacksize" == "104" && f "co_flags" == "105" && f "co_firstlineno" == "106" &&
      f "co_varnames" == "o#4" && f "co_freevars" == "o#5" && f "co_cellvars" == "o#6" && f "co_lnotab" == "o#9"
    else if verGeL v 2 1 then
      f "co_argcount" == "101" && f "co_nlocals" == "102" && f "co_stacksize" == "103" && f "co_flags" == "104" &&
      f "co_firstlineno" == "105" && f "co_varnames" == "o#4" && f "co_freevars" == "o#5" && f "co_cellvars" == "o#6" &&
      f "co_filename" == "o#7" && f "co_name" == "o#8" && f "co_lnotab" == "o#9"
    else if verGeL v 1 5 then
      f "co_argcount" == "101" && f "co_nlocals" == "102" && f "co_stacksize" == "103" && f "co_flags" == "104" &&
      f "co_firstlineno" == "105" && f "co_varnames" == "o#4" && f "co_filename" == "o#5" && f "co_name" == "o#6" &&
      f "co_lnotab" == "o#7"
    else if verGeL v 1 3 then
      f "co_argcount" == "101" && f "co_nlocals" == "102" && f "co_flags" == "103" &&
      f "co_varnames" == "o#4" && f "co_filename" == "o#5" && f "co_name" == "o#6"
    else f "co_code" == "o#1" && f "co_consts" == "o#2" && f "co_names" == "o#3" && f "co_filename" == "o#4" && f "co_name" == "o#5"
  | _, _ => false

/-- every field is taken from the read marshal.c wrote it with (no two fields swapped) -/
theorem C01_field_order : ∀ m ∈ releasedMagics, fieldOrderOk m = true := by decide +kernel

example : releasedMagics.length ≥ 25 ∧ releasedMagics.contains 62211 = true ∧ releasedMagics.contains 3571 = true := by
  decide +kernel

end XV.Props.C01

/-
Model of xdis/marsh.py `_Marshaller` for plain values on a Python 3 host (the `dumps` path
after the UTF-8 repair): one function per dump_* method, bytes as the final chunk assembly
produces them.
-/
import XV.Base.Bytes
import XV.Model.Unmarshal
namespace XV.Model.Marsh
open XV XV.Model.Unmarshal

/-- `w_long(x)`: four bytes `x & 0xFF, (x >> 8) & 0xFF, …` — Python's `&` on a negative int
    is two's complement, i.e. the residue mod 2^32 -/
def wLong (x : Int) : Bytes := toLE 4 (x % 4294967296).toNat

/-- `w_short(x)` -/
def wShort (x : Nat) : Bytes := toLE 2 (x % 65536)

/-- the `while x: digits.append(x & 0x7FFF); x >>= 15` loop of dump_long -/
def digits15 : Nat → Nat → List Nat
  | 0, _ => []
  | fuel + 1, x => if x = 0 then [] else (x % 32768) :: digits15 fuel (x / 32768)

def dumpLong (x : Int) : Bytes :=
  let ds := digits15 (x.natAbs + 1) x.natAbs
  [108] ++ wLong (if x < 0 then -(ds.length : Int) else ds.length) ++ ds.flatMap wShort

/-- UTF-8 encoder with surrogatepass (`str.encode("utf-8", "surrogatepass")`) -/
def utf8Enc : List Nat → Bytes
  | [] => []
  | c :: cs =>
    (if c < 0x80 then [c]
     else if c < 0x800 then [0xC0 + c / 64, 0x80 + c % 64]
     else if c < 0x10000 then [0xE0 + c / 4096, 0x80 + (c / 64) % 64, 0x80 + c % 64]
     else [0xF0 + c / 262144, 0x80 + (c / 4096) % 64, 0x80 + (c / 64) % 64, 0x80 + c % 64]) ++ utf8Enc cs

/-- `dump_code3`: type code, the integer fields as 32-bit words (co_posonlyargcount only when
    the object has one), the object fields in marshal.c's order; `fields` are the already
    dumped object fields, in the order of the `.code` association list -/
def assembleCode (fs : List (String × V)) (dumped : List Bytes) : Bytes :=
  match fs, dumped with
  | [("co_argcount", .int a), ("co_posonlyargcount", pos), ("co_kwonlyargcount", .int k), ("co_nlocals", .int nl),
     ("co_stacksize", .int ss), ("co_flags", .int fl), ("co_code", _), ("co_consts", _), ("co_names", _),
     ("co_varnames", _), ("co_freevars", _), ("co_cellvars", _), ("co_filename", _), ("co_name", _),
     ("co_firstlineno", .int first), ("co_linetable", _)],
    [_, _, _, _, _, _, dcode, dconsts, dnames, dvarnames, dfree, dcell, dfilename, dname, _, dlt] =>
      [99] ++ wLong a ++ (match pos with | .int p => wLong p | _ => []) ++ wLong k ++ wLong nl ++ wLong ss ++ wLong fl ++
      dcode ++ dconsts ++ dnames ++ dvarnames ++ dfree ++ dcell ++ dfilename ++ dname ++ wLong first ++ dlt
  | _, _ => []          -- 3.11+ layouts and anything else: dump_code3 raises / is not modelled

mutual
/-- `_Marshaller.dump(x)` (`V` with floats carrying their repr text, the writer's own choice of
    encoding; code objects of the 3.0–3.10 layout through dump_code3) -/
def dump : V → Bytes
  | .none => [78] | .tru => [84] | .fls => [70] | .ellipsis => [46] | .stopIter => [83]
  | .int i => dumpLong i
  | .long i => dumpLong i
  | .floatText s => [102, s.length % 256] ++ s
  | .float _ => []                -- the writer never emits binary floats for plain values
  | .complexText r i => [120, r.length % 256] ++ r ++ [i.length % 256] ++ i
  | .complex _ _ => []
  | .bytes b => [115] ++ wLong b.length ++ b
  | .str cps => let u := utf8Enc cps; [117] ++ wLong u.length ++ u
  | .u2 raw => [117] ++ wLong raw.length ++ raw
  | .tuple xs => [40] ++ wLong xs.length ++ dumpList xs
  | .list xs => [91] ++ wLong xs.length ++ dumpList xs
  | .set xs => [60] ++ wLong xs.length ++ dumpList xs
  | .fset xs => [62] ++ wLong xs.length ++ dumpList xs
  | .dict kvs => [123] ++ dumpKVs kvs ++ [48]
  | .code fs => assembleCode fs (dumpFields fs)
def dumpList : List V → Bytes
  | [] => []
  | x :: xs => dump x ++ dumpList xs
def dumpKVs : List (V × V) → Bytes
  | [] => []
  | (k, v) :: rest => dump k ++ dump v ++ dumpKVs rest
def dumpFields : List (String × V) → List Bytes
  | [] => []
  | (_, v) :: rest => dump v :: dumpFields rest
end

end XV.Model.Marsh

/-
C02 — Instruction stream decodes exactly as CPython's dis does for that version.
Model = XV.Model.Decode (transcription of get_logical_instruction_at_offset /
get_instructions_bytes); Spec = XV.Spec.Dis (dis._unpack_opargs per era).
-/
import XV.Model.Decode
import XV.Spec.Dis
import XV.Spec.OpTables
import XV.Props.C02.Stream
import XV.Props.C02.Stream311
namespace XV.Props.C02
open XV XV.Model XV.Model.Decode

/-! ### ties (T2), kernel-checked over every table and every opcode number -/

def allTrue : List Bool → Bool
  | [] => true
  | b :: bs => b && allTrue bs

def zipAll (f : Nat → Bool) : Nat → List Bool → Bool
  | _, [] => true
  | i, b :: bs => (f i == b) && zipAll f (i + 1) bs

def zipAllN (f : Nat → Nat) : Nat → List Nat → Bool
  | _, [] => true
  | i, b :: bs => Nat.beq (f i) b && zipAllN f (i + 1) bs

/-- the Model's `op_has_argument` / `instruction_size` return what the implementation
    returned for every opcode number of every table -/
def tieHelpersOk (t : OpTable) : Bool :=
  zipAll t.hasArg 0 t.hasArgProbe && zipAllN t.instrSizeOf 0 t.instrSize
    && t.hasArgProbe.length == 256 && t.instrSize.length == 256

theorem C02_tie_helpers_all : Gen.allTables.all tieHelpersOk = true := by decide +kernel

theorem C02_tie_helpers : ∀ t ∈ Gen.allTables, tieHelpersOk t = true :=
  List.all_eq_true.mp C02_tie_helpers_all

/-! ### the table facts the simulation needs, discharged over the real tables -/

def specTakes (d : Spec.Dis.DisTbl) (op : Nat) : Bool :=
  if verGe d.version 3 12 then (d.hasarg.getD []).contains op else op ≥ d.haveArgument

def disTblFor (t : OpTable) : Option Spec.Dis.DisTbl :=
  match Spec.OpTables.refFor t with
  | some r => some (Spec.Dis.ofRef r)
  | none => (Spec.OpTables.snapFor t).map Spec.Dis.ofSnap

/-- xdis and CPython agree, for every opcode number CPython defines, on (a) whether the opcode takes an
    operand and (b) whether it is EXTENDED_ARG; EXTENDED_ARG takes an operand; and the
    instruction width is the era's (1/3 bytes before 3.6, 2 from 3.6) -/
def decodeFactsOk (t : OpTable) : Bool :=
  match disTblFor t with
  | none => false
  | some d =>
    (d.names.map (·.2)).all fun op => op ≥ 256 ||
      ((t.hasArg op == specTakes d op) &&
      (isExtName t op == (d.extendedArg == some op)) &&
      (!(isExtName t op) || t.hasArg op) &&
      (t.instrSizeOf op == (if verGe t.version 3 6 then 2 else if t.hasArg op then 3 else 1)))

theorem C02_decode_facts_all : Gen.allTables.all decodeFactsOk = true := by decide +kernel

theorem C02_decode_facts : ∀ t ∈ Gen.allTables, decodeFactsOk t = true :=
  List.all_eq_true.mp C02_decode_facts_all

/-! ### folding of EXTENDED_ARG prefixes (word code) -/

/-- one prefix: `EXTENDED_ARG hi ; OP lo` decodes to the operand `hi*256 + lo` at offset 2,
    on any table and for any bytes — the 8-bit fold of 3.6+ -/
theorem C02_fold_one (hi lo : Nat) (hlo : lo < 256) : (lo ||| ((0 ||| hi) <<< 8)) = hi * 256 + lo := by
  simp only [Nat.zero_or]
  rw [Nat.or_comm, ← Nat.shiftLeft_add_eq_or_of_lt (by simpa using hlo), Nat.shiftLeft_eq]

/-- concrete decode on the real 3.8 table: three prefixes fold big-endian, sizes and
    has_extended_arg as xdis reports them, the next group starts after the last word -/
example : (instrs Gen.opcode_38 [144, 1, 144, 2, 144, 3, 100, 4, 1, 0]).toOption =
    some [ { offset := 0, opcode := 144, arg := some 1, instSize := 2, hasExtArg := false },
          { offset := 2, opcode := 144, arg := some 258, instSize := 4, hasExtArg := true },
          { offset := 4, opcode := 144, arg := some 66051, instSize := 6, hasExtArg := true },
          { offset := 6, opcode := 100, arg := some 16909060, instSize := 8, hasExtArg := true },
          { offset := 8, opcode := 1, arg := none, instSize := 2, hasExtArg := false } ] := by
  decide +kernel

/-- and CPython's reader gives the same triples -/
example : (C02.disTblFor Gen.opcode_38).bind (fun d => Spec.Dis.unpack d [144, 1, 144, 2, 144, 3, 100, 4, 1, 0]) =
    some [(0, 144, some 1), (2, 144, some 258), (4, 144, some 66051), (6, 100, some 16909060), (8, 1, none)] := by
  decide +kernel

/-! ### the unbounded stream theorem on the real tables (eras without inline caches) -/

def streamFacts (t : OpTable) (d : Spec.Dis.DisTbl) : Bool :=
  ((List.range 256).all fun op =>
    (!(isExtName t op) || t.hasArg op) &&
    Nat.beq (t.instrSizeOf op) (if py36 t then 2 else if t.hasArg op then 3 else 1) &&
    (t.hasArg op == decide (op ≥ d.haveArgument)) &&
    (isExtName t op == (d.extendedArg == some op))) &&
  (py36 t == verGe d.version 3 6) && !(verGe d.version 3 11) && !(verGe d.version 3 12)

/-- every table before 3.11 satisfies the stream facts against CPython's opcode data
    (the reference interpreter's, or the reviewed snapshot where there is none) -/
def streamFactsOk (t : OpTable) : Bool :=
  match disTblFor t with
  | none => false
  | some d => verGe d.version 3 11 || streamFacts t d

theorem C02_stream_tables_all : Gen.allTables.all streamFactsOk = true := by decide +kernel

theorem C02_stream_tables : ∀ t ∈ Gen.allTables, streamFactsOk t = true :=
  List.all_eq_true.mp C02_stream_tables_all

theorem facts_of (t : OpTable) (d : Spec.Dis.DisTbl) (h : streamFacts t d = true) : TableOk t ∧ DisOk t d := by
  simp only [streamFacts, Bool.and_eq_true, List.all_eq_true, List.mem_range, Bool.or_eq_true,
    Bool.not_eq_true', beq_iff_eq] at h
  obtain ⟨⟨⟨hall, hera⟩, h11⟩, h12⟩ := h
  refine ⟨⟨?_, ?_⟩, ⟨?_, ?_, hera, h11, h12⟩⟩
  · intro op hop hx
    have := (hall op hop).1.1.1
    rcases this with h | h
    · rw [hx] at h; cases h
    · exact h
  · intro op hop
    exact Nat.eq_of_beq_eq_true (hall op hop).1.1.2
  · intro op hop; exact (hall op hop).1.2
  · intro op hop; exact (hall op hop).2

/-- C02_stream_all: on every opcode table of a version before 3.11 that xdis ships, for every
    byte string of any length, Model.Decode.instrs = CPython's _unpack_opargs -/
theorem C02_stream_all (t : OpTable) (ht : t ∈ Gen.allTables) (d : Spec.Dis.DisTbl) (hd : disTblFor t = some d)
    (h11 : verGe d.version 3 11 = false) (code : Bytes) (hbytes : IsBytes code)
    (hc : (verGe d.version 3 10 = true ∧ py36 t = true) ∨ CarryOk t code) :
    (instrs t code).toOption.map (List.map tri) = Spec.Dis.unpack d code := by
  have h := C02_stream_tables t ht
  simp only [streamFactsOk, hd, h11, Bool.false_or] at h
  obtain ⟨ok, dk⟩ := facts_of t d h
  exact C02_stream t d code ok dk hbytes hc

/-- non-vacuity: the hypotheses hold for a real 3.8 code string with a three-prefix operand -/
example : IsBytes [144, 1, 144, 2, 144, 3, 100, 4, 1, 0] ∧ CarryOk Gen.opcode_38 [144, 1, 144, 2, 144, 3, 100, 4, 1, 0] := by
  constructor
  · intro b hb; simp at hb; omega
  · unfold CarryOk; decide +kernel

/-- and the carry condition is what it says: 3.8 `EXTENDED_ARG 1; POP_TOP; LOAD_CONST 0` is excluded
    (CPython 3.8 reports LOAD_CONST 256 there, xdis 0) -/
example : carryOk Gen.opcode_38 [144, 1, 1, 0, 100, 0] 7 0 0 = false := by decide +kernel
example : ((instrs Gen.opcode_38 [144, 1, 1, 0, 100, 0]).toOption.map (List.map tri)) =
    some [(0, 144, some 1), (2, 1, none), (4, 100, some 0)] ∧
    (disTblFor Gen.opcode_38).bind (fun d => Spec.Dis.unpack d [144, 1, 1, 0, 100, 0]) =
    some [(0, 144, some 1), (2, 1, none), (4, 100, some 256)] := by decide +kernel

/-! ### the unbounded stream theorem on the real tables with inline caches (3.11, 3.12, 3.13) -/

def streamFacts311 (t : OpTable) (d : Spec.Dis.DisTbl) : Bool :=
  ((List.range 256).all fun op =>
    (!(isExtName t op) || t.hasArg op) &&
    Nat.beq (t.instrSizeOf op) (if py36 t then 2 else if t.hasArg op then 3 else 1) &&
    (!(isDefined d op) ||
      (t.hasArg op == (if verGe d.version 3 12 then (d.hasarg.getD []).contains op else decide (op ≥ d.haveArgument)))) &&
    (isExtName t op == (d.extendedArg == some op))) &&
  py36 t && verGe d.version 3 11 && !(t.hasArg 0)

def streamFacts311Ok (t : OpTable) : Bool :=
  match disTblFor t with
  | none => false
  | some d => !(verGe d.version 3 11) || streamFacts311 t d

theorem C02_stream_tables_311_all : Gen.allTables.all streamFacts311Ok = true := by decide +kernel

theorem facts311_of (t : OpTable) (d : Spec.Dis.DisTbl) (h : streamFacts311 t d = true) : TableOk t ∧ DisOk311 t d := by
  simp only [streamFacts311, Bool.and_eq_true, List.all_eq_true, List.mem_range, Bool.or_eq_true,
    Bool.not_eq_true', beq_iff_eq] at h
  obtain ⟨⟨⟨hall, hera⟩, h11⟩, h0⟩ := h
  refine ⟨⟨?_, ?_⟩, ⟨?_, ?_, hera, h11, h0⟩⟩
  · intro op hop hx
    have := (hall op hop).1.1.1
    rcases this with h | h
    · rw [hx] at h; cases h
    · exact h
  · intro op hop
    exact Nat.eq_of_beq_eq_true (hall op hop).1.1.2
  · intro op hop hdef
    rcases (hall op hop).1.2 with h | h
    · rw [hdef] at h; cases h
    · exact h
  · intro op hop; exact (hall op hop).2

/-- C02_stream_311_all: on the 3.11, 3.12 and 3.13 tables xdis ships, for every byte string of any
    length laid out with its inline cache slots (`CacheOk`), the non-CACHE part of
    Model.Decode.instrs is CPython's _unpack_opargs -/
theorem C02_stream_311_all (t : OpTable) (ht : t ∈ Gen.allTables) (d : Spec.Dis.DisTbl) (hd : disTblFor t = some d)
    (h11 : verGe d.version 3 11 = true) (code : Bytes) (hbytes : IsBytes code) (hc : CacheOk t d code) :
    ((instrs t code).toOption.map (List.map tri)).map (List.filter nc) = Spec.Dis.unpack d code := by
  have h := List.all_eq_true.mp C02_stream_tables_311_all t ht
  simp only [streamFacts311Ok, hd, h11, Bool.not_true, Bool.false_or] at h
  obtain ⟨ok, dk⟩ := facts311_of t d h
  exact C02_stream_311 t d code ok dk hbytes hc

/-- non-vacuity: `def f(a, g): return a.b + g(a)` as CPython 3.12.1 and 3.11.7 compile it (LOAD_ATTR
    with 9 / 4 cache slots, CALL, BINARY_OP) meets the layout hypothesis -/
def code312 : Bytes := [151, 0, 124, 0, 106, 0, 0, 0, 0, 0, 0, 0, 0, 0, 0, 0, 0, 0, 0, 0, 0, 0, 0, 0, 2, 0, 124, 1, 124, 0,
  171, 1, 0, 0, 0, 0, 0, 0, 122, 0, 0, 0, 83, 0]
def code311 : Bytes := [151, 0, 124, 0, 106, 0, 0, 0, 0, 0, 0, 0, 0, 0, 2, 0, 124, 1, 124, 0, 166, 1, 0, 0, 171, 1, 0, 0,
  0, 0, 0, 0, 0, 0, 122, 0, 0, 0, 83, 0]
example : (match disTblFor Gen.opcode_312 with | some d => cacheOk Gen.opcode_312 d code312 45 0 0 0 | none => false) = true ∧
    (match disTblFor Gen.opcode_311 with | some d => cacheOk Gen.opcode_311 d code311 41 0 0 0 | none => false) = true := by
  decide +kernel

/-- and a code unit that should be a cache slot but is not CACHE is excluded: CPython skips it, xdis lists it -/
example : (match disTblFor Gen.opcode_312 with
    | some d => cacheOk Gen.opcode_312 d [106, 0, 1, 0, 0, 0, 0, 0, 0, 0, 0, 0, 0, 0, 0, 0, 0, 0, 0, 0] 21 0 0 0
    | none => true) = false := by decide +kernel

end XV.Props.C02

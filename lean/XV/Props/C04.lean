/-
C04 — Jump targets, labels and is_jump_target agree with CPython and with each other.
The target of a jump is affine in (offset, operand) with coefficients that depend only on
(table, opcode).  `jumpForm`/`labelForm` (xdis) and `targetForm` (CPython) expose those
coefficients; lemmas show the transcribed functions evaluate exactly to their forms for
EVERY offset and operand, and `decide +kernel` compares the forms for every opcode of
every table.
-/
import XV.Model.Decode
import XV.Spec.Dis
import XV.Spec.OpTables
import XV.Props.C04.Labels
import XV.Props.C04.Labels311
namespace XV.Props.C04
open XV XV.Model XV.Model.Decode

inductive JForm where
  | rel (m k : Int)      -- target = offset + k + m * operand
  | abs (m : Int)        -- target = m * operand
  | none
  deriving DecidableEq, Repr

def JForm.eval : JForm → Nat → Nat → Option Int
  | .rel m k, off, arg => some ((off : Int) + k + m * arg)
  | .abs m, _, arg => some (m * arg)
  | .none, _, _ => Option.none

/-! ### xdis: the decoder's jump branch -/

def jumpForm (t : OpTable) (op : Nat) : JForm :=
  if t.constOps.contains op || t.nameOps.contains op then .none
  else if t.isJrel op then
    let nm := t.opnameOf op
    let m : Int := (if isInfix jbName nm then -1 else 1) * (if verGe t.version 3 10 then 2 else 1)
    let k : Int := (t.instrSizeOf op : Int)
      + (if verGe t.version 3 13 && pjNames.contains nm then 2 else 0)
      + (if verGe t.version 3 12 && (nm == forIterName || nm == sendName) then 2 else 0)
    .rel m k
  else if t.isJabs op then .abs (if verGe t.version 3 10 then 2 else 1)
  else .none

/-- the transcribed jump branch IS its affine form, for every instruction -/
theorem jumpArgval_form (t : OpTable) (off op arg size : Nat) (ext : Bool) :
    jumpArgval t { offset := off, opcode := op, arg := some arg, instSize := size, hasExtArg := ext }
      = (jumpForm t op).eval off arg := by
  unfold jumpArgval jumpForm
  simp only
  by_cases h1 : (t.constOps.contains op || t.nameOps.contains op) = true
  · rw [if_pos h1, if_pos h1]; rfl
  · rw [if_neg h1, if_neg h1]
    by_cases h2 : t.isJrel op = true
    · rw [if_pos h2, if_pos h2]
      simp only [JForm.eval]
      congr 1
      repeat' split
      all_goals omega
    · rw [if_neg h2, if_neg h2]
      by_cases h3 : t.isJabs op = true
      · rw [if_pos h3, if_pos h3]
        simp only [JForm.eval]
        congr 1
        repeat' split
        all_goals omega
      · rw [if_neg h3, if_neg h3]; rfl

/-! ### xdis: the label finders -/

/-- wordcode.findlabels' per-instruction label, as a form -/
def labelFormWord (t : OpTable) (cache313 : List (Str × Nat)) (op : Nat) : JForm :=
  if t.isJrel op then
    let nm := t.opnameOf op
    let m : Int := (if verGe t.version 3 11 && isInfix jbName nm then -1 else 1) * (if verGe t.version 3 10 then 2 else 1)
    let k : Int := 2 + (if verGe t.version 3 13 then 2 * (cacheSize cache313 nm : Int)
                        else if verGe t.version 3 12 && (Str.eqb nm forIterName || Str.eqb nm sendName) then 2 else 0)
    .rel m k
  else if t.isJabs op then .abs (if verGe t.version 3 10 then 2 else 1)
  else .none

/-- cross_dis.findlabels_pre_310's label -/
def labelFormPre (t : OpTable) (op : Nat) : JForm :=
  if t.isJrel op then .rel 1 (t.instrSizeOf op) else if t.isJabs op then .abs 1 else .none

/-- which form the table's bound finder uses -/
def labelForm (t : OpTable) (op : Nat) : Option JForm :=
  if t.findlabels == wordFindlabels then some (labelFormWord t Gen.cacheSize313 op)
  else if t.findlabels == crossFindlabels && verLt t.version 3 10 then some (labelFormPre t op)
  else none

/-! ### CPython -/

def targetForm (d : Spec.Dis.DisTbl) (op : Nat) : JForm :=
  if d.hasjrel.contains op then
    if verLt d.version 3 6 then .rel 1 3
    else if verLt d.version 3 10 then .rel 1 2
    else .rel (if verGe d.version 3 11 && Spec.Dis.isInfix Spec.Dis.jbName (Spec.Dis.nameOf d op) then -2 else 2)
              (2 + (if verGe d.version 3 12 then 2 * (Spec.Dis.cachesOf d op : Int) else 0))
  else if d.hasjabs.contains op then .abs (if verLt d.version 3 10 then 1 else 2)
  else .none

/-- CPython's target IS its affine form, for every offset and operand -/
theorem target_form (d : Spec.Dis.DisTbl) (off op arg : Nat) :
    Spec.Dis.target d off op arg = (targetForm d op).eval off arg := by
  unfold Spec.Dis.target targetForm
  by_cases h1 : d.hasjrel.contains op = true
  · rw [if_pos h1, if_pos h1]
    by_cases h2 : verLt d.version 3 6 = true
    · rw [if_pos h2, if_pos h2]; simp [JForm.eval]
    · rw [if_neg h2, if_neg h2]
      by_cases h3 : verLt d.version 3 10 = true
      · rw [if_pos h3, if_pos h3]; simp [JForm.eval]
      · rw [if_neg h3, if_neg h3]
        simp only [JForm.eval]
        congr 1
        repeat' split
        all_goals omega
  · rw [if_neg h1, if_neg h1]
    by_cases h2 : d.hasjabs.contains op = true
    · rw [if_pos h2, if_pos h2]
      by_cases h3 : verLt d.version 3 10 = true
      · simp [h3, JForm.eval]
      · simp [h3, JForm.eval]; omega
    · rw [if_neg h2, if_neg h2]; rfl

/-! ### the comparison, over every table and every opcode CPython defines -/

def disTblFor (t : OpTable) : Option Spec.Dis.DisTbl :=
  match Spec.OpTables.refFor t with
  | some r => some (Spec.Dis.ofRef r)
  | none => (Spec.OpTables.snapFor t).map Spec.Dis.ofSnap

def formsOk (t : OpTable) : Bool :=
  match disTblFor t with
  | none => false
  | some d => (d.names.map (·.2)).all fun op => op ≥ 256 ||
      (jumpForm t op == targetForm d op && labelForm t op == some (targetForm d op))

/-- for every table and every opcode: the decoder's target form, the bound label finder's
    form and CPython's form coincide -/
theorem C04_forms : ∀ t ∈ Gen.allTables, formsOk t = true := by decide +kernel

/-- C04, targets: on every table, for every defined opcode, every offset and every operand
    the argval xdis reports for a jump is the offset CPython transfers control to -/
theorem C04_target (t : OpTable) (ht : t ∈ Gen.allTables) (d : Spec.Dis.DisTbl) (hd : disTblFor t = some d)
    (op : Nat) (hop : op ∈ d.names.map (·.2)) (h256 : op < 256) (off arg size : Nat) (ext : Bool) :
    jumpArgval t { offset := off, opcode := op, arg := some arg, instSize := size, hasExtArg := ext }
      = Spec.Dis.target d off op arg := by
  have h := C04_forms t ht
  unfold formsOk at h
  rw [hd] at h
  simp only [List.all_eq_true] at h
  have := h op hop
  simp only [Bool.or_eq_true, decide_eq_true_eq, Bool.and_eq_true, beq_iff_eq] at this
  rcases this with h0 | ⟨h1, _⟩
  · omega
  · rw [jumpArgval_form, target_form, h1]

/-- is_jump_target is membership in the label list (as the decoder computes it) -/
theorem C04_flag (labels : List Int) (off : Nat) : (labels.contains (off : Int)) = true ↔ (off : Int) ∈ labels := by
  simp

/-- non-vacuity: real tables, real jump opcodes (3.12 FOR_ITER has a cache, 3.11 JUMP_BACKWARD negates) -/
example : (disTblFor Gen.opcode_312).map (fun d => targetForm d 93) = some (.rel 2 4) ∧
          (disTblFor Gen.opcode_311).map (fun d => targetForm d 140) = some (.rel (-2) 2) ∧
          (disTblFor Gen.opcode_27).map (fun d => targetForm d 110) = some (.rel 1 3) := by decide +kernel

/-! ### the unbounded label theorem on the real tables (eras without inline caches) -/

theorem tgtPre_form (t : OpTable) (off op a : Nat) : tgtPre t off op a = (labelFormPre t op).eval off a := by
  unfold tgtPre labelFormPre
  by_cases h1 : t.isJrel op = true
  · simp [h1, JForm.eval]
  · by_cases h2 : t.isJabs op = true
    · simp [h1, h2, JForm.eval]
    · simp [h1, h2, JForm.eval]

theorem tgtWord_form (t : OpTable) (c : List (Str × Nat)) (off op a : Nat) :
    tgtWord t c off op a = (labelFormWord t c op).eval off a := by
  unfold tgtWord labelFormWord
  by_cases h1 : t.isJrel op = true
  · simp only [h1, if_true, JForm.eval]
    congr 1
    repeat' split
    all_goals omega
  · by_cases h2 : t.isJabs op = true
    · simp only [h1, h2, if_true, Bool.false_eq_true, if_false, JForm.eval]
      congr 1
      repeat' split
      all_goals omega
    · simp [h1, h2, JForm.eval]

def labelFacts (t : OpTable) (d : Spec.Dis.DisTbl) : Bool :=
  ((List.range 256).all fun op =>
    (t.hasArg op == decide (op ≥ d.haveArgument)) &&
    ((t.extendedArg == some op) == (d.extendedArg == some op)) &&
    (isExtName t op == (d.extendedArg == some op)) &&
    (!(t.extendedArg == some op) || Nat.beq (t.extShift.getD 0) (if py36 t then 8 else 16)) &&
    (labelForm t op == some (targetForm d op))) &&
  !(verGe d.version 3 11) && !(verGe d.version 3 12) && (py36 t == verGe d.version 3 6) &&
  (verLt t.version 3 10 == !(verGe d.version 3 10)) && ((t.findlabels == wordFindlabels) == py36 t)

def labelFactsOk (t : OpTable) : Bool :=
  match disTblFor t with
  | none => false
  | some d => verGe d.version 3 11 || labelFacts t d

theorem C04_label_tables_all : Gen.allTables.all labelFactsOk = true := by decide +kernel

/-- C04_labels: on every opcode table of a version before 3.11 that xdis ships, for every byte
    string of any length, the label list `opc.findlabels` returns is `dis.findlabels` of that
    CPython (3.10: provided no EXTENDED_ARG prefix is pending at an operand-less opcode) -/
theorem C04_labels (t : OpTable) (ht : t ∈ Gen.allTables) (d : Spec.Dis.DisTbl) (hd : disTblFor t = some d)
    (h11 : verGe d.version 3 11 = false) (code : Bytes) (hbytes : C02.IsBytes code)
    (hc : verGe d.version 3 10 = true → C02.CarryOk t code) :
    (Decode.findlabels t Gen.cacheSize313 code).map Except.toOption = some (Spec.Dis.findlabels d code) := by
  have h := List.all_eq_true.mp C04_label_tables_all t ht
  simp only [labelFactsOk, hd, h11, Bool.false_or] at h
  simp only [labelFacts, Bool.and_eq_true, List.all_eq_true, List.mem_range, Bool.or_eq_true,
    Bool.not_eq_true', beq_iff_eq] at h
  obtain ⟨⟨⟨⟨⟨hall, h311⟩, h312⟩, hera⟩, hver⟩, hbind⟩ := h
  have lk : LabelOk t d := by
    refine ⟨fun op hop => (hall op hop).1.1.1.1, fun op hop => (hall op hop).1.1.1.2,
      fun op hop => (hall op hop).1.1.2, ?_, h311, h312⟩
    intro op hop hx
    rcases (hall op hop).1.2 with h | h
    · rw [hx] at h; cases h
    · exact Nat.eq_of_beq_eq_true h
  have hform : ∀ op, op < 256 → labelForm t op = some (targetForm d op) := fun op hop => (hall op hop).2
  unfold Decode.findlabels
  by_cases hw : (t.findlabels == wordFindlabels) = true
  · have h6 : py36 t = true := by rw [← hbind, hw]
    simp only [hw, if_true, Option.map_some]
    congr 1
    apply C04_labels_word t Gen.cacheSize313 d code lk hbytes h6 (by rw [← hera, h6]) hver hc
    intro off op a hop
    have := hform op hop
    simp only [labelForm, hw, if_true, Option.some.injEq] at this
    rw [tgtWord_form, target_form, this]
  · have h6 : py36 t = false := by
      have : (t.findlabels == wordFindlabels) = false := by simpa using hw
      rw [← hbind, this]
    have hf := fun op hop => hform op hop
    have hcross : (t.findlabels == crossFindlabels && verLt t.version 3 10) = true := by
      have := hform 0 (by omega)
      simp only [labelForm, hw, Bool.false_eq_true, if_false] at this
      by_cases hcr : (t.findlabels == crossFindlabels && verLt t.version 3 10) = true
      · exact hcr
      · simp [hcr] at this
    simp only [hw, Bool.false_eq_true, if_false, hcross, if_true, Option.map_some]
    congr 1
    apply C04_labels_pre t d code lk hbytes h6 (by rw [← hera, h6])
    intro off op a hop
    have := hform op hop
    simp only [labelForm, hw, Bool.false_eq_true, if_false, hcross, if_true, Option.some.injEq] at this
    rw [tgtPre_form, target_form, this]

/-! ### the unbounded label theorem on the real tables with inline caches (3.11, 3.12, 3.13) -/

def labelFacts311 (t : OpTable) (d : Spec.Dis.DisTbl) : Bool :=
  ((List.range 256).all fun op =>
    (!(C02.isDefined d op) ||
      (t.hasArg op == (if verGe d.version 3 12 then (d.hasarg.getD []).contains op else decide (op ≥ d.haveArgument)))) &&
    ((t.extendedArg == some op) == (d.extendedArg == some op)) &&
    (isExtName t op == (d.extendedArg == some op)) &&
    (!(t.extendedArg == some op) || Nat.beq (t.extShift.getD 0) 8) &&
    (labelForm t op == some (targetForm d op))) &&
  verGe d.version 3 11 && py36 t && !(t.hasArg 0) && !(verLt t.version 3 10) && (t.findlabels == wordFindlabels)

def labelFacts311Ok (t : OpTable) : Bool :=
  match disTblFor t with
  | none => false
  | some d => !(verGe d.version 3 11) || labelFacts311 t d

theorem C04_label_tables_311_all : Gen.allTables.all labelFacts311Ok = true := by decide +kernel

/-- C04_labels_311_all: on the 3.11, 3.12 and 3.13 tables xdis ships, for every byte string of any
    length laid out with its inline cache slots and with no prefix pending at an operand-less opcode,
    the label list `opc.findlabels` returns is `dis.findlabels` of that CPython (backward jumps,
    the jump's own cache entries in 3.12/3.13 included) -/
theorem C04_labels_311_all (t : OpTable) (ht : t ∈ Gen.allTables) (d : Spec.Dis.DisTbl) (hd : disTblFor t = some d)
    (h11 : verGe d.version 3 11 = true) (code : Bytes) (hbytes : C02.IsBytes code)
    (hck : C02.CacheOk t d code) (hcarry : C02.CarryOk t code) :
    (Decode.findlabels t Gen.cacheSize313 code).map Except.toOption = some (Spec.Dis.findlabels d code) := by
  have h := List.all_eq_true.mp C04_label_tables_311_all t ht
  simp only [labelFacts311Ok, hd, h11, Bool.not_true, Bool.false_or] at h
  simp only [labelFacts311, Bool.and_eq_true, List.all_eq_true, List.mem_range, Bool.or_eq_true,
    Bool.not_eq_true', beq_iff_eq] at h
  obtain ⟨⟨⟨⟨⟨hall, hge⟩, h36⟩, h0⟩, hver⟩, hw⟩ := h
  have lk : LabelOk311 t d := by
    refine ⟨?_, fun op hop => (hall op hop).1.1.1.2, fun op hop => (hall op hop).1.1.2, ?_, h36, hge, h0⟩
    · intro op hop hdef
      rcases (hall op hop).1.1.1.1 with h | h
      · rw [hdef] at h; cases h
      · exact h
    · intro op hop hx
      rcases (hall op hop).1.2 with h | h
      · rw [hx] at h; cases h
      · exact Nat.eq_of_beq_eq_true h
  have hform : ∀ op, op < 256 → labelForm t op = some (targetForm d op) := fun op hop => (hall op hop).2
  have hw' : (t.findlabels == wordFindlabels) = true := by rw [hw]; exact beq_self_eq_true _
  unfold Decode.findlabels
  simp only [hw', if_true, Option.map_some]
  congr 1
  apply C04_labels_311 t Gen.cacheSize313 d code lk hbytes hver hck hcarry
  intro off op a hop
  have := hform op hop
  simp only [labelForm, hw', if_true, Option.some.injEq] at this
  rw [tgtWord_form, target_form, this]

/-- non-vacuity on real 3.12 code: `for x in a: g(x)` compiled by CPython 3.12.1 (FOR_ITER with its
    cache entry, JUMP_BACKWARD) meets both layout hypotheses -/
def loop312 : Bytes := [151, 0, 124, 0, 68, 0, 93, 10, 0, 0, 125, 2, 2, 0, 124, 1, 124, 2, 171, 1, 0, 0, 0, 0, 0, 0, 1, 0, 140, 12, 4, 0, 121, 0]

example : (match disTblFor Gen.opcode_312 with
    | some d => C02.cacheOk Gen.opcode_312 d loop312 (loop312.length + 1) 0 0 0 | none => false) = true ∧
    C02.carryOk Gen.opcode_312 loop312 (loop312.length + 1) 0 0 = true := by decide +kernel

end XV.Props.C04

/-
C04 — Jump targets, labels and is_jump_target agree with CPython and with each other.
The target of a jump is affine in (offset, operand) with coefficients that depend only on
(table, opcode).  `jumpForm`/`labelForm` (xdis) and `targetForm` (CPython) expose those
coefficients; lemmas show the transcribed functions evaluate exactly to their forms for
EVERY offset and operand, and `decide +kernel` compares the forms for every opcode of
every table.
-/
import XV.Model.Decode
import XV.Spec.Dis
import XV.Spec.OpTables
namespace XV.Props.C04
open XV XV.Model XV.Model.Decode

inductive JForm where
  | rel (m k : Int)      -- target = offset + k + m * operand
  | abs (m : Int)        -- target = m * operand
  | none
  deriving DecidableEq, Repr

def JForm.eval : JForm → Nat → Nat → Option Int
  | .rel m k, off, arg => some ((off : Int) + k + m * arg)
  | .abs m, _, arg => some (m * arg)
  | .none, _, _ => Option.none

/-! ### xdis: the decoder's jump branch -/

def jumpForm (t : OpTable) (op : Nat) : JForm :=
  if t.constOps.contains op || t.nameOps.contains op then .none
  else if t.isJrel op then
    let nm := t.opnameOf op
    let m : Int := (if isInfix jbName nm then -1 else 1) * (if verGe t.version 3 10 then 2 else 1)
    let k : Int := (t.instrSizeOf op : Int)
      + (if verGe t.version 3 13 && pjNames.contains nm then 2 else 0)
      + (if verGe t.version 3 12 && (nm == forIterName || nm == sendName) then 2 else 0)
    .rel m k
  else if t.isJabs op then .abs (if verGe t.version 3 10 then 2 else 1)
  else .none

/-- the transcribed jump branch IS its affine form, for every instruction -/
theorem jumpArgval_form (t : OpTable) (off op arg size : Nat) (ext : Bool) :
    jumpArgval t { offset := off, opcode := op, arg := some arg, instSize := size, hasExtArg := ext }
      = (jumpForm t op).eval off arg := by
  unfold jumpArgval jumpForm
  simp only
  by_cases h1 : (t.constOps.contains op || t.nameOps.contains op) = true
  · rw [if_pos h1, if_pos h1]; rfl
  · rw [if_neg h1, if_neg h1]
    by_cases h2 : t.isJrel op = true
    · rw [if_pos h2, if_pos h2]
      simp only [JForm.eval]
      congr 1
      repeat' split
      all_goals omega
    · rw [if_neg h2, if_neg h2]
      by_cases h3 : t.isJabs op = true
      · rw [if_pos h3, if_pos h3]
        simp only [JForm.eval]
        congr 1
        repeat' split
        all_goals omega
      · rw [if_neg h3, if_neg h3]; rfl

/-! ### xdis: the label finders -/

/-- wordcode.findlabels' per-instruction label, as a form -/
def labelFormWord (t : OpTable) (cache313 : List (Str × Nat)) (op : Nat) : JForm :=
  if t.isJrel op then
    let nm := t.opnameOf op
    let m : Int := (if verGe t.version 3 11 && isInfix jbName nm then -1 else 1) * (if verGe t.version 3 10 then 2 else 1)
    let k : Int := 2 + (if verGe t.version 3 13 then 2 * (cacheSize cache313 nm : Int)
                        else if verGe t.version 3 12 && (nm == forIterName || nm == sendName) then 2 else 0)
    .rel m k
  else if t.isJabs op then .abs (if verGe t.version 3 10 then 2 else 1)
  else .none

/-- cross_dis.findlabels_pre_310's label -/
def labelFormPre (t : OpTable) (op : Nat) : JForm :=
  if t.isJrel op then .rel 1 (t.instrSizeOf op) else if t.isJabs op then .abs 1 else .none

/-- which form the table's bound finder uses -/
def labelForm (t : OpTable) (op : Nat) : Option JForm :=
  if t.findlabels == wordFindlabels then some (labelFormWord t Gen.cacheSize313 op)
  else if t.findlabels == crossFindlabels && verLt t.version 3 10 then some (labelFormPre t op)
  else none

/-! ### CPython -/

def targetForm (d : Spec.Dis.DisTbl) (op : Nat) : JForm :=
  if d.hasjrel.contains op then
    if verLt d.version 3 6 then .rel 1 3
    else if verLt d.version 3 10 then .rel 1 2
    else .rel (if verGe d.version 3 11 && Spec.Dis.isInfix Spec.Dis.jbName (Spec.Dis.nameOf d op) then -2 else 2)
              (2 + (if verGe d.version 3 12 then 2 * (Spec.Dis.cachesOf d op : Int) else 0))
  else if d.hasjabs.contains op then .abs (if verLt d.version 3 10 then 1 else 2)
  else .none

/-- CPython's target IS its affine form, for every offset and operand -/
theorem target_form (d : Spec.Dis.DisTbl) (off op arg : Nat) :
    Spec.Dis.target d off op arg = (targetForm d op).eval off arg := by
  unfold Spec.Dis.target targetForm
  by_cases h1 : d.hasjrel.contains op = true
  · rw [if_pos h1, if_pos h1]
    by_cases h2 : verLt d.version 3 6 = true
    · rw [if_pos h2, if_pos h2]; simp [JForm.eval]
    · rw [if_neg h2, if_neg h2]
      by_cases h3 : verLt d.version 3 10 = true
      · rw [if_pos h3, if_pos h3]; simp [JForm.eval]
      · rw [if_neg h3, if_neg h3]
        simp only [JForm.eval]
        congr 1
        repeat' split
        all_goals omega
  · rw [if_neg h1, if_neg h1]
    by_cases h2 : d.hasjabs.contains op = true
    · rw [if_pos h2, if_pos h2]
      by_cases h3 : verLt d.version 3 10 = true
      · simp [h3, JForm.eval]
      · simp [h3, JForm.eval]; omega
    · rw [if_neg h2, if_neg h2]; rfl

/-! ### the comparison, over every table and every opcode CPython defines -/

def disTblFor (t : OpTable) : Option Spec.Dis.DisTbl :=
  match Spec.OpTables.refFor t with
  | some r => some (Spec.Dis.ofRef r)
  | none => (Spec.OpTables.snapFor t).map Spec.Dis.ofSnap

def formsOk (t : OpTable) : Bool :=
  match disTblFor t with
  | none => false
  | some d => (d.names.map (·.2)).all fun op => op ≥ 256 ||
      (jumpForm t op == targetForm d op && labelForm t op == some (targetForm d op))

/-- for every table and every opcode: the decoder's target form, the bound label finder's
    form and CPython's form coincide -/
theorem C04_forms : ∀ t ∈ Gen.allTables, formsOk t = true := by decide +kernel

/-- C04, targets: on every table, for every defined opcode, every offset and every operand
    the argval xdis reports for a jump is the offset CPython transfers control to -/
theorem C04_target (t : OpTable) (ht : t ∈ Gen.allTables) (d : Spec.Dis.DisTbl) (hd : disTblFor t = some d)
    (op : Nat) (hop : op ∈ d.names.map (·.2)) (h256 : op < 256) (off arg size : Nat) (ext : Bool) :
    jumpArgval t { offset := off, opcode := op, arg := some arg, instSize := size, hasExtArg := ext }
      = Spec.Dis.target d off op arg := by
  have h := C04_forms t ht
  unfold formsOk at h
  rw [hd] at h
  simp only [List.all_eq_true] at h
  have := h op hop
  simp only [Bool.or_eq_true, decide_eq_true_eq, Bool.and_eq_true, beq_iff_eq] at this
  rcases this with h0 | ⟨h1, _⟩
  · omega
  · rw [jumpArgval_form, target_form, h1]

/-- is_jump_target is membership in the label list (as the decoder computes it) -/
theorem C04_flag (labels : List Int) (off : Nat) : (labels.contains (off : Int)) = true ↔ (off : Int) ∈ labels := by
  simp

/-- non-vacuity: real tables, real jump opcodes (3.12 FOR_ITER has a cache, 3.11 JUMP_BACKWARD negates) -/
example : (disTblFor Gen.opcode_312).map (fun d => targetForm d 93) = some (.rel 2 4) ∧
          (disTblFor Gen.opcode_311).map (fun d => targetForm d 140) = some (.rel (-2) 2) ∧
          (disTblFor Gen.opcode_27).map (fun d => targetForm d 110) = some (.rel 1 3) := by decide +kernel

end XV.Props.C04

/-
C13 — A bytecode file read and written back is the same program for its Python.
Header part: what write_bytecode_file emits is read back, by the header reader of C06
(and hence by the format of the version), to the timestamp and size that were written.
The code-object part composes the unmarshaller (C01/C10) with the writer Model (C14).
-/
import XV.Props.C06
import XV.Model.Marsh
namespace XV.Props.C13
open XV XV.Model XV.Model.Header XV.Spec.PycHeader

/-- Model of the header bytes written by `write_bytecode_file(path, code, magic_int, ts, filesize)`
    for a version of the given form: magic, CR LF, (3.7+) a zero flag word, timestamp, (3.3+) size -/
def writeHeader (f : Form) (magic ts size : Nat) : Bytes :=
  toLE 2 magic ++ [13, 10] ++
  (match f with
   | .pep552 => toLE 4 0 ++ toLE 4 ts ++ toLE 4 size
   | .tsSize => toLE 4 ts ++ toLE 4 size
   | .tsOnly => toLE 4 ts)

def kindFor : Form → Kind
  | .pep552 => .pep552 false | .tsSize => .tsSize | .tsOnly => .tsOnly

/-- the written header parses back (by the reader proved in C06) to the timestamp and the
    size that were written, with the payload starting right after it — for every 32-bit
    timestamp/size, every magic and every payload -/
theorem C13_header (f : Form) (magic ts size : Nat) (hts : ts < 2 ^ 32) (hsz : size < 2 ^ 32) (payload : Bytes) :
    parseFields (kindFor f) ((writeHeader f magic ts size ++ payload).drop 4) =
      some (match f with
            | .pep552 => (some ts, some size, none, 16)
            | .tsSize => (some ts, some size, none, 12)
            | .tsOnly => (some ts, none, none, 8)) := by
  have hd : ∀ rest : Bytes, (toLE 2 magic ++ [13, 10] ++ rest).drop 4 = rest := by
    intro rest
    simp [toLE]
  cases f with
  | pep552 =>
    have := C06.C06_fields (.pepTs 0 ts size) ⟨by decide, by decide, hts, hsz⟩ payload (.pep552 false) (by rfl)
    simp only [writeHeader, kindFor, List.append_assoc] at this ⊢
    rw [show toLE 2 magic ++ ([13, 10] ++ (toLE 4 0 ++ (toLE 4 ts ++ (toLE 4 size ++ payload)))) =
          toLE 2 magic ++ [13, 10] ++ (toLE 4 0 ++ (toLE 4 ts ++ (toLE 4 size ++ payload))) by simp, hd]
    simpa [encode, meaning] using this
  | tsSize =>
    have := C06.C06_fields (.tsSize ts size) ⟨hts, hsz⟩ payload .tsSize (by rfl)
    simp only [writeHeader, kindFor, List.append_assoc] at this ⊢
    rw [show toLE 2 magic ++ ([13, 10] ++ (toLE 4 ts ++ (toLE 4 size ++ payload))) =
          toLE 2 magic ++ [13, 10] ++ (toLE 4 ts ++ (toLE 4 size ++ payload)) by simp, hd]
    simpa [encode, meaning] using this
  | tsOnly =>
    have := C06.C06_fields (.tsOnly ts) hts payload .tsOnly (by rfl)
    simp only [writeHeader, kindFor, List.append_assoc] at this ⊢
    rw [show toLE 2 magic ++ ([13, 10] ++ (toLE 4 ts ++ payload)) =
          toLE 2 magic ++ [13, 10] ++ (toLE 4 ts ++ payload) by simp, hd]
    simpa [encode, meaning] using this

/-- the writer's header form is the version's (same gates as the Spec's `formOf`) -/
theorem C13_form : ∀ m ∈ C01.releasedMagics,
    (match Header.tupleOf C06.tables m with
     | some v => kindFor (formOf v) == Header.kindOf C06.tables m v
     | none => false) = true := by decide +kernel

end XV.Props.C13

"""C03 — operands resolve as in CPython.  Theorems: lean/XV/Props/C03.lean."""
import json
import random

import core
import gen_code
import progrun
from worker import Worker, Oracle
from props.C02 import load_refs

RULE = ("(a) compiled programs (closures where a parameter is a cell, class bodies, comprehensions, >255 names/constants, "
        "super(), paired fast ops) x every reference interpreter: argval of every table-indexed instruction vs dis; "
        "(b) raw instructions over every table-indexed opcode of every table x operands at table boundaries, resolved by "
        "implementation and Lean Model; distinct = distinct (version, program, code object) or (table, opcode, operand)")


def res_impl(i, tabs):
    """map the implementation's argval back to 'which table entry'"""
    av = i["argval"]
    if isinstance(av, list) and len(av) == 2 and all(isinstance(x, (str, int)) for x in av):
        return "pair(%s,%s)" % tuple(ent(x, tabs) for x in av)
    return ent(av, tabs)


def ent(av, tabs):
    if isinstance(av, str) and av[:1] in "cnvf" and av[1:].isdigit():
        return "entry:%s" % av
    if isinstance(av, int):
        return "raw:%d" % av
    return "other:%s" % (av,)


def spec_resolve(v, cat, opname, arg, consts, nms, varnames, cells):
    """CPython's dis rule for a table-indexed operand (None = index out of range there: outside the domain)"""
    def at(xs, i):
        return "entry:%d" % xs[i] if 0 <= i < len(xs) else None
    if cat == "const":
        return at(consts, arg)
    if cat == "name":
        if v >= (3, 11) and opname == "LOAD_GLOBAL":
            return at(nms, arg >> 1)
        if v >= (3, 12) and opname == "LOAD_ATTR":
            return at(nms, arg >> 1)
        if v >= (3, 12) and opname == "LOAD_SUPER_ATTR":
            return at(nms, arg >> 2)
        return at(nms, arg)
    # CPython's merged table: locals, then cells that are not locals, then frees (here: ids >= 400)
    lp = varnames + [c for c in cells if c not in varnames]
    if cat == "local":
        if v >= (3, 13) and opname in ("LOAD_FAST_LOAD_FAST", "STORE_FAST_LOAD_FAST", "STORE_FAST_STORE_FAST"):
            a, b = at(lp, arg >> 4), at(lp, arg & 15)
            return None if a is None or b is None else "pair(%s,%s)" % (a, b)
        return at(lp if v >= (3, 11) else varnames, arg)
    if cat == "free":
        return at(lp if v >= (3, 11) else cells, arg)
    return None


def run(ctx):
    rep, drv = ctx.rep, ctx.driver
    progrun.apply(ctx, "diff_argvals", "operand resolution (argval)")
    rng = random.Random(ctx.seed)
    tabs = ctx.tables["optables"]
    refs = load_refs()
    w = Worker()
    try:
        names = [it.split(":")[0] for it in drv.ask(["c09.tables"])[0].split()]
        lines, meta = [], []
        for tn in names:
            t = tabs[tn]
            v = tuple(t["version_tuple"][:2])
            info = gen_code.table_info(t, refs.get(v) if not t["is_pypy"] else None)
            if info["cache"] is None:
                info["cache"] = {}
            cat = {}
            for c, k in (("CONST_OPS", "const"), ("NAME_OPS", "name"), ("LOCAL_OPS", "local"), ("FREE_OPS", "free"), ("COMPARE_OPS", "compare")):
                for op in t[c] or []:
                    cat.setdefault(op, k)
            nv, nc = rng.choice([(3, 2), (5, 4), (2, 0)])
            # tables as id lists: consts 100.., names 200.., varnames 300.., cells 400.. with one cell that is also a local
            consts = list(range(100, 100 + 6))
            nms = list(range(200, 200 + 6))
            varnames = list(range(300, 300 + nv))
            cells = ([300] if nv and nc else []) + list(range(400, 400 + nc))
            for op in sorted(cat):
                if op >= 256 or op not in info["ops"]:
                    continue
                for arg in sorted(set([0, 1, 2, 3, 4, 5, 6, 7, 9, 16, 17, 33, 64, 255] + [rng.randrange(0, 40) for _ in range(2 if not ctx.thorough else 12)])):
                    lines.append("x.resolvecode %s %s %s %s %s %s" % (tn, bytes(gen_code.emit(info, op, arg)).hex(), ",".join(map(str, consts)), ",".join(map(str, nms)),
                                                                     ",".join(map(str, varnames)) or "-", ",".join(map(str, cells)) or "-"))
                    meta.append((tn, op, arg, consts, nms, varnames, cells, info, cat[op], v))
            # indices that need EXTENDED_ARG: a table with more than 65536 entries
            if tn in ("opcode_27", "opcode_35", "opcode_38", "opcode_311", "opcode_313") and t["CONST_OPS"]:
                big = list(range(1000000, 1000000 + 66500))
                opc = [o for o in t["CONST_OPS"] if o in info["ops"]][0]
                for arg in (255, 256, 65535, 65536, 65536 + 425, 66499):
                    lines.append("x.resolvecode %s %s %s %s %s %s" % (tn, bytes(gen_code.emit(info, opc, arg)).hex(), ",".join(map(str, big)), "-", "-", "-"))
                    meta.append((tn, opc, arg, big, [], [], [], info, "const", v))
        outs = drv.ask(lines)
        for (tn, op, arg, consts, nms, varnames, cells, info, kind, v), mo in zip(meta, outs):
            code = bytes(gen_code.emit(info, op, arg))
            nm = lambda p, xs: ["%s%d" % (p, x) for x in xs]
            r = w.r("instrs", table=tn, code=code.hex(), constants=nm("c", consts), names=nm("n", nms), varnames=nm("v", varnames),
                    cells=["v300" if x == 300 else "f%d" % x for x in cells])
            rep.count(1, (tn, op, arg))
            inp = {"table": tn, "opcode": op, "opname": info["names"][op], "arg": arg, "consts": len(consts), "names": len(nms),
                   "varnames": len(varnames), "cells(cellvars+freevars)": len(cells)}
            if "instrs" not in r:
                im = "err:%s" % r.get("err")
            else:
                ins = [i for i in r["instrs"] if i["opcode"] == op]
                av = ins[-1]["argval"] if ins else None
                def back(x):
                    if isinstance(x, str) and x[:1] in "cnvf" and x[1:].isdigit():
                        return "entry:%s" % x[1:]
                    if isinstance(x, int):
                        return "raw:%d" % x
                    return "cmp:%s" % x
                im = "pair(%s,%s)" % (back(av[0]), back(av[1])) if isinstance(av, list) and len(av) == 2 else back(av)
            want = spec_resolve(v, kind, info["names"][op], arg, consts, nms, varnames, cells)
            if want is not None and im != want:
                rep.violation("resolve:%s:%d:%d" % (tn, op, arg), "%s %d resolves to %s; CPython %d.%d resolves it to %s (tables: %s)"
                              % (info["names"][op], arg, im, v[0], v[1], want, {k: inp[k] for k in ("consts", "names", "varnames", "cells(cellvars+freevars)")}),
                              dict(inp, code=code.hex(), actual=im, expected=want, rule="dis.py of that version"))
            elif im != mo:
                rep.violation("corr:resolve:%s:%d:%d" % (tn, op, arg), "Model of operand resolution disagrees with implementation on %s: impl %s model %s" % (inp, im, mo),
                              dict(inp, impl=im, model=mo), found_input=False)
        rep.sample({"resolve": lines[0], "model": outs[0]})
    finally:
        w.close()


def replay(ctx, rp):
    print(json.dumps(rp.get("replay"), indent=1)[:1500])
    run(ctx)

/-
Spec: the argval rule of CPython's `dis` (`_get_instructions_bytes`) for table-indexed operands,
read off the installed dis.py of 2.7 and 3.6 … 3.13, over the interpreter's own `opcode` data
(`RefTable`).  `none` = CPython raises (index out of range) or the opcode is not table-indexed.
-/
import XV.Model.OpTable
import XV.Model.Operand
namespace XV.Spec.Argval
open XV XV.Model XV.Model.Operand

def opNum (r : RefTable) (name : Str) : Option Nat := (r.opmap.find? (fun p => Str.eqb p.1 name)).map (·.2)

def isOp (r : RefTable) (name : Str) (op : Nat) : Bool := opNum r name == some op

def nameAt (idx : Nat) (tbl : List Nat) : Option Res := (tbl[idx]?).map .entry

/-- 3.13 super-instructions: two 4-bit indices -/
def pairAt (arg : Nat) (lp : List Nat) : Option Res :=
  match nameAt (arg >>> 4) lp, nameAt (arg &&& 15) lp with
  | some a, some b => some (.pair a b)
  | _, _ => none

/-- `lp` = co_localsplusnames (3.11+: `_varname_from_oparg`), `cells` = co_cellvars + co_freevars (≤ 3.10) -/
def argval (r : RefTable) (op arg : Nat) (consts names varnames cells lp : List Nat) : Option Res :=
  let v := r.version
  if r.hasconst.contains op then nameAt arg consts
  else if r.hasname.contains op then
    if verGe v 3 11 && isOp r nmLoadGlobal op then nameAt (arg / 2) names
    else if verGe v 3 12 && isOp r nmLoadAttr op then nameAt (arg / 2) names
    else if verGe v 3 12 && isOp r nmLoadSuperAttr op then nameAt (arg / 4) names
    else nameAt arg names
  else if r.hasjrel.contains op || r.hasjabs.contains op then none
  else if verGe v 3 13 && (isOp r nmLFLF op || isOp r nmSFLF op || isOp r nmSFSF op) then
    pairAt arg lp
  else if verGe v 3 11 then
    if r.haslocal.contains op || r.hasfree.contains op then nameAt arg lp
    else if r.hascompare.contains op then
      (r.cmpOp[if verGe v 3 13 then arg >>> 5 else if verGe v 3 12 then arg >>> 4 else arg]?).map .cmp
    else none
  else if r.haslocal.contains op then nameAt arg varnames
  else if r.hascompare.contains op then (r.cmpOp[arg]?).map .cmp
  else if r.hasfree.contains op then nameAt arg cells
  else none

end XV.Spec.Argval

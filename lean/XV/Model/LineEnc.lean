/-
Model of the line-table ENCODERS used by `freeze()`:
  Code15.encode_lineno_tab (also Code2), Code3.encode_lineno_tab (also Code38),
  Code310.encode_lineno_tab, and freeze()'s dict → sorted list normalisation.
Errors are explicit: `chr()`/`bytearray()` of a value outside 0..255 raises ValueError.
-/
import XV.Base.Bytes
namespace XV.Model.LineEnc
open XV

inductive EncErr where | valueError
  deriving Repr, DecidableEq

/-- line continuation: while `ld ≥ 256` emit `(od, 255)` — the address increment goes
    with the first chunk, later chunks carry 0 — returning the remaining (od, ld) -/
def splitLine : Nat → Nat → Nat → Bytes × Nat × Nat
  | 0, od, ld => ([], od, ld)
  | fuel + 1, od, ld =>
    if ld ≥ 256 then let (bs, o, l) := splitLine fuel 0 (ld - 255); ([od, 255] ++ bs, o, l) else ([], od, ld)

/-- emit `n` copies of a continuation pair while `d ≥ 256`, subtracting 255 each time -/
def splitBig (pair : Bytes) : Nat → Nat → Bytes × Nat
  | 0, d => ([], d)
  | fuel + 1, d => if d ≥ 256 then let (bs, r) := splitBig pair fuel (d - 255); (pair ++ bs, r) else ([], d)

/-- Code15 / Code2 -/
def encode15Go : Int → Int → List (Int × Int) → Except EncErr Bytes
  | _, _, [] => .ok []
  | prevOff, prevLine, (off, line) :: rest =>
    let od := off - prevOff
    let ld := line - prevLine
    if ld < 0 then encode15Go prevOff prevLine rest      -- `continue`: prev_* not updated
    else if od < 0 then .error .valueError               -- chr(negative)
    else
      let (c1, od') := splitBig [255, 0] od.toNat od.toNat
      let (c2, od'', ld') := splitLine ld.toNat od' ld.toNat
      do let tl ← encode15Go off line rest
         pure (c1 ++ c2 ++ [od'', ld'] ++ tl)

def encode15 (first : Int) (m : List (Int × Int)) : Except EncErr Bytes := encode15Go 0 first m

/-- Code3 / Code38 -/
def encode3Go : Int → Int → List (Int × Int) → Except EncErr Bytes
  | _, _, [] => .ok []
  | prevOff, prevLine, (off, line) :: rest =>
    let od := off - prevOff
    let ld := line - prevLine
    let (c1, odN) : Bytes × Int := if od ≥ 256 then
        let (c, r) := splitBig [255, 0] od.toNat od.toNat; (c, (r : Int)) else ([], od)
    if ld ≥ 256 ∧ odN < 0 then .error .valueError        -- bytearray([negative, 255])
    else
    let (c2, odN, ldN) : Bytes × Int × Int := if ld ≥ 256 then
        let (c, o, r) := splitLine ld.toNat odN.toNat ld.toNat; (c, (o : Int), (r : Int)) else ([], odN, ld)
    if 0 ≤ ldN ∧ ldN ≤ 256 then
      if odN < 0 ∨ ldN = 256 then .error .valueError     -- bytearray([negative]) / bytearray([.., 256])
      else do let tl ← encode3Go off line rest
              pure (c1 ++ c2 ++ [odN.toNat, ldN.toNat] ++ tl)
    else do let tl ← encode3Go off line rest
            pure (c1 ++ c2 ++ tl)

def encode3 (first : Int) (m : List (Int × Int)) : Except EncErr Bytes := encode3Go 0 first m


/-- Code3 / Code38 for Python 3.6–3.9, where the line increment is a SIGNED byte:
    `while line_diff > 127: emit (od, 127); od = 0; line_diff -= 127` -/
def splitPos : Nat → Nat → Int → Bytes × Nat × Int
  | 0, od, ld => ([], od, ld)
  | fuel + 1, od, ld =>
    if ld > 127 then let (bs, o, l) := splitPos fuel 0 (ld - 127); ([od, 127] ++ bs, o, l) else ([], od, ld)

/-- `while line_diff < -128: emit (od, 0x80); od = 0; line_diff += 128` -/
def splitNeg : Nat → Nat → Int → Bytes × Nat × Int
  | 0, od, ld => ([], od, ld)
  | fuel + 1, od, ld =>
    if ld < -128 then let (bs, o, l) := splitNeg fuel 0 (ld + 128); ([od, 128] ++ bs, o, l) else ([], od, ld)

def encode36Go : Int → Int → List (Int × Int) → Except EncErr Bytes
  | _, _, [] => .ok []
  | prevOff, prevLine, (off, line) :: rest =>
    let od := off - prevOff
    let ld := line - prevLine
    if od < 0 then .error .valueError else                -- bytearray([negative, ..])
    let (c1, od1) := splitBig [255, 0] od.toNat od.toNat
    let (c2, od2, ld2) := splitPos ld.natAbs od1 ld
    let (c3, od3, ld3) := splitNeg ld.natAbs od2 ld2
    do let tl ← encode36Go off line rest
       pure (c1 ++ c2 ++ c3 ++ [od3, (ld3 % 256).toNat] ++ tl)

def encode36 (first : Int) (m : List (Int × Int)) : Except EncErr Bytes := encode36Go 0 first m

/-! ### Code310 (PEP 626 line table): each pair is (length of a range in bytes, signed line delta);
    the delta is applied before the range; a mapping entry (offset, line) starts a range that ends at
    the next entry's offset, the last one at the end of the code -/

/-- `while ldelta > 127: emit (0, 127); ldelta -= 127` -/
def split310Pos : Nat → Int → Bytes × Int
  | 0, ld => ([], ld)
  | fuel + 1, ld => if ld > 127 then let (bs, l) := split310Pos fuel (ld - 127); ([0, 127] ++ bs, l) else ([], ld)

/-- `while ldelta < -127: emit (0, -127 & 0xFF); ldelta += 127` -/
def split310Neg : Nat → Int → Bytes × Int
  | 0, ld => ([], ld)
  | fuel + 1, ld => if ld < -127 then let (bs, l) := split310Neg fuel (ld + 127); ([0, 129] ++ bs, l) else ([], ld)

/-- `while sdelta > 254: emit (254, ldelta & 0xFF); ldelta = 0; sdelta -= 254` -/
def split310Addr : Nat → Nat → Int → Bytes × Nat × Int
  | 0, sd, ld => ([], sd, ld)
  | fuel + 1, sd, ld =>
    if sd > 254 then let (bs, s, l) := split310Addr fuel (sd - 254) 0; ([254, (ld % 256).toNat] ++ bs, s, l)
    else ([], sd, ld)

/-- where the range of an entry ends: at the next entry's offset, or at the end of the code -/
def nextOff (codeLen : Int) : List (Int × Int) → Int
  | (o2, _) :: _ => o2
  | [] => codeLen

def encode310Go (codeLen : Int) : Int → List (Int × Int) → Except EncErr Bytes
  | _, [] => .ok []
  | prevLine, (off, line) :: rest =>
    let sd := nextOff codeLen rest - off
    let ld := line - prevLine
    if sd < 0 then .error .valueError else               -- bytearray([negative, ..])
    let (c1, ld1) := split310Pos ld.natAbs ld
    let (c2, ld2) := split310Neg ld.natAbs ld1
    let (c3, sd3, ld3) := split310Addr sd.toNat sd.toNat ld2
    do let tl ← encode310Go codeLen line rest
       pure (c1 ++ c2 ++ c3 ++ [sd3, (ld3 % 256).toNat] ++ tl)

def encode310 (first : Int) (codeLen : Int) (m : List (Int × Int)) : Except EncErr Bytes :=
  encode310Go codeLen first m

end XV.Model.LineEnc

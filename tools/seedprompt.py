#!/usr/bin/env python3
# tools/seedprompt.py <seed>...  : write /tmp/seedprompts/<seed>.txt (the brief for a fresh sub-agent: property text + worktree only)
import json, sys
props = {}
for l in open('/verif/properties.jsonl'):
    d = json.loads(l); props[d['id']] = d
T = '''You are testing how well a verification effort for the Python library python-xdis (a cross-version Python bytecode loader/disassembler) detects realistic regressions. Your job: produce ONE realistic, subtle code change (a "seeded defect") to python-xdis that BREAKS the semantic property below, while the library still imports and its pinned test suite still passes.

PROPERTY {pid}: {title}
{statement}
(Quantified over: {q})

YOUR SCRATCH WORKTREE (a git worktree of the repository at its current commit): {wt}
Work ONLY inside {wt} and write your outputs to {out}/ . Do NOT read or touch /repo, /verif or any other directory's copy of the project; do not look for existing verification machinery anywhere. Do not commit anything.

Requirements for the change:
1. It must look like a plausible maintainer edit (refactor, "simplification", off-by-one, wrong version gate, swapped argument, shared mutable state, wrong boundary constant, wrong struct format, ...) of a few lines in the xdis/ package — not sabotage comments, not test edits, not deleting features.
2. It must need something SPECIFIC to manifest: a particular unusual input, boundary value, bytecode version, a multi-step sequence of operations, a particular host Python, or two cooperating sites that each look fine alone. Changes that ordinary use would expose at once (every file fails to load, every listing differs) are not wanted. Prefer a defect different in kind from the obvious ones (think about which code paths a tester would probably forget: rarely taken branches, less common bytecode variants and versions, values at the edge of a field's range, behaviour that depends on what was done earlier in the same process or on which Python runs the library).
2b. To avoid the first idea everybody has: before editing, write down (in notes.md, section "## Candidates") at least six candidate defects of clearly different kinds and in different functions/files, then pick one by running  python3 -c "import random; print(random.randrange(6))"  and implement that one (if it turns out infeasible, take the next).
3. With the change applied the pinned baseline must still pass: run  /tmp/seedtools/baseline.py {wt}   (it must print "baseline: 39/39 stable tests pass").
4. Provide a demonstration program {out}/demo.py that takes the path of an xdis source tree as argv[1] (it must insert that path at the front of sys.path so that `import xdis` comes from there; verify with xdis.__file__; do not hard-code {wt} anywhere in it), exits 0 on the unmodified tree and exits 1 (printing what went wrong) on the modified tree. Confirm both: run it against {wt} with your change, then `git diff > /tmp/seeds_out/{sid}/patch.diff; git checkout -- .`, run again, then re-apply the patch.

Environment facts: no network. xdis imports (stdlib only) on Pythons 3.8-3.13; run it with e.g. `PYTHONPATH={wt} /venv/bin/python` (3.12.1). Reference CPython interpreters you may use to produce bytecode or ground truth: /root/.pyenv/versions/{{2.7.18,3.6.15,3.7.16,3.8.18,3.9.18,3.10.13,3.11.7,3.12.1,3.13.0}}/bin/python . The repo's test/ directory has many sample .pyc files of old versions. xdis prints nothing special on import. Running the test-suite: `cd {wt} && /venv/bin/python -m pytest -q -p no:cacheprovider pytest test_unit` (some tests fail even unmodified; only the 39 in the baseline matter — use the baseline tool).

Deliver in {out}/ :
- patch.diff  : output of `git -C {wt} diff` (must apply cleanly with `git apply` to a clean checkout)
- demo.py     : as described
- notes.md    : first line "# {sid} — <one-line title>", then what the change is, why it breaks the property, a section "## What it needs in order to manifest", the commands you ran and their results (baseline with change; demo with and without change).
Leave the worktree with your change applied. In your final answer give a 5-line summary (file/function changed, trigger condition, baseline result, demo results).'''
for sid in sys.argv[1:]:
    p = props[sid[:3]]
    open('/tmp/seedprompts/%s.txt' % sid, 'w').write(T.format(pid=p['id'], title=p['title'], statement=p['statement'],
        q=p['quantifier']['text'], wt='/tmp/wt/' + sid, out='/tmp/seeds_out/' + sid, sid=sid))
    print("wrote", sid)

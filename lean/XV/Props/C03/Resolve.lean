/-
C03_resolve — for every opcode table with a reference interpreter, every opcode that interpreter
defines, every operand and every set of tables: whenever CPython's `dis` resolves the operand
(index in range), xdis's `get_logical_instruction_at_offset` resolves it to the same table entry —
the same table (constants, names, locals, cells/frees or the merged 3.11+ table), the same index
after the version's shift (LOAD_GLOBAL/LOAD_ATTR >> 1, LOAD_SUPER_ATTR >> 2, COMPARE_OP >> 4 / >> 5,
the 3.13 paired operands), comparison operators up to the '-' ↦ ' ' spelling (C03_cmp).
-/
import XV.Props.C03
import XV.Spec.Argval
namespace XV.Props.C03
open XV XV.Model XV.Model.Operand XV.Spec.Argval
set_option linter.unusedVariables false
set_option linter.unusedSimpArgs false

/-- which table an operand indexes, and after which shift -/
inductive Sel where
  | const | name (shift : Nat) | pair | lp | varnames | cells | cmp (shift : Nat) | none
  deriving DecidableEq, Repr

def selM (t : OpTable) (op : Nat) : Sel :=
  let nm := t.opnameOf op
  if t.constOps.contains op then .const
  else if t.nameOps.contains op then
    if verGe t.version 3 11 && nm == nmLoadGlobal then .name 1
    else if verGe t.version 3 12 && nm == nmLoadAttr then .name 1
    else if verGe t.version 3 12 && nm == nmLoadSuperAttr then .name 2
    else .name 0
  else if t.isJrel op || t.isJabs op then .none
  else if t.localOps.contains op then
    if verGe t.version 3 13 && (nm == nmLFLF || nm == nmSFLF || nm == nmSFSF) then .pair
    else if verGe t.version 3 11 then .lp else .varnames
  else if t.freeOps.contains op then
    if verGe t.version 3 11 then .lp else .cells
  else if t.compareOps.contains op then
    .cmp (if verGe t.version 3 13 then 5 else if verGe t.version 3 12 then 4 else 0)
  else .none

def selS (r : RefTable) (op : Nat) : Sel :=
  let v := r.version
  if r.hasconst.contains op then .const
  else if r.hasname.contains op then
    if verGe v 3 11 && isOp r nmLoadGlobal op then .name 1
    else if verGe v 3 12 && isOp r nmLoadAttr op then .name 1
    else if verGe v 3 12 && isOp r nmLoadSuperAttr op then .name 2
    else .name 0
  else if r.hasjrel.contains op || r.hasjabs.contains op then .none
  else if verGe v 3 13 && (isOp r nmLFLF op || isOp r nmSFLF op || isOp r nmSFSF op) then .pair
  else if verGe v 3 11 then
    if r.haslocal.contains op || r.hasfree.contains op then .lp
    else if r.hascompare.contains op then .cmp (if verGe v 3 13 then 5 else if verGe v 3 12 then 4 else 0)
    else .none
  else if r.haslocal.contains op then .varnames
  else if r.hascompare.contains op then .cmp 0
  else if r.hasfree.contains op then .cells
  else .none

/-- what a selector denotes (CPython's reading: `none` when the index is out of range) -/
def evalSel (s : Sel) (arg : Nat) (consts names varnames cells lp : List Nat) (cmpOp : List Str) : Option Res :=
  match s with
  | .const => nameAt arg consts
  | .name k => nameAt (arg >>> k) names
  | .pair => pairAt arg lp
  | .lp => nameAt arg lp
  | .varnames => nameAt arg varnames
  | .cells => nameAt arg cells
  | .cmp k => (cmpOp[arg >>> k]?).map .cmp
  | .none => Option.none

theorem shr1 (a : Nat) : a / 2 = a >>> 1 := by simp [Nat.shiftRight_eq_div_pow]
theorem shr2 (a : Nat) : a / 4 = a >>> 2 := by simp [Nat.shiftRight_eq_div_pow]

/-- CPython's rule is its selector -/
theorem argval_sel (r : RefTable) (op arg : Nat) (consts names varnames cells lp : List Nat) :
    argval r op arg consts names varnames cells lp = evalSel (selS r op) arg consts names varnames cells lp r.cmpOp := by
  unfold argval selS
  simp only [shr1, shr2]
  repeat' split
  all_goals first | rfl | simp [evalSel]

theorem nameInfo_of (i : Nat) (tbl : List Nat) (res : Res) (h : nameAt i tbl = some res) : nameInfo i tbl = res := by
  unfold nameAt at h; unfold nameInfo
  cases hx : tbl[i]? <;> simp_all

theorem const_of (i : Nat) (tbl : List Nat) (res : Res) (h : nameAt i tbl = some res) :
    (match tbl[i]? with | some c => Res.entry c | none => Res.indexError) = res := by
  unfold nameAt at h
  cases hx : tbl[i]? <;> simp_all

theorem pair_of (arg : Nat) (lp : List Nat) (res : Res) (h : pairAt arg lp = some res) :
    Res.pair (nameInfo (arg >>> 4) lp) (nameInfo (arg &&& 15) lp) = res := by
  unfold pairAt at h
  cases h1 : nameAt (arg >>> 4) lp with
  | none => simp [h1] at h
  | some a =>
    cases h2 : nameAt (arg &&& 15) lp with
    | none => simp [h1, h2] at h
    | some b =>
      simp [h1, h2] at h
      rw [nameInfo_of _ _ _ h1, nameInfo_of _ _ _ h2, h]

theorem cmp_of (i : Nat) (ops : List Str) (res : Res) (h : (ops[i]?).map Res.cmp = some res) :
    (match ops[i]? with | some c => Res.cmp c | none => Res.indexError) = res := by
  cases hx : ops[i]? <;> simp_all

/-- xdis's rule, when the index is in range, is its selector -/
theorem resolve_sel (t : OpTable) (op arg : Nat) (consts names varnames cells : List Nat) (res : Res)
    (h : evalSel (selM t op) arg consts names varnames cells (localsplus varnames cells) t.cmpOp = some res) :
    resolve t op arg consts names varnames cells = res := by
  unfold selM at h
  unfold resolve
  simp only [] at h ⊢
  repeat' split at h
  all_goals simp only [*, if_true, if_false, Bool.false_eq_true] at *
  all_goals first
    | exact const_of _ _ _ h
    | exact nameInfo_of _ _ _ h
    | exact pair_of _ _ _ h
    | exact cmp_of _ _ _ h
    | (simp only [evalSel] at h; first | exact const_of _ _ _ h | exact nameInfo_of _ _ _ h | exact pair_of _ _ _ h | exact cmp_of _ _ _ h | cases h)

/-- comparison operators are spelled with '-' by xdis and ' ' by CPython -/
def normRes : Res → Res
  | .cmp s => .cmp (dashToSpace s)
  | x => x

def isDefinedRef (r : RefTable) (op : Nat) : Bool := r.opmap.any (·.2 == op)

/-- xdis and CPython select the same table and shift for every opcode CPython defines -/
def selOk (t : OpTable) : Bool :=
  match Spec.OpTables.refFor t with
  | none => true
  | some r => (List.range 256).all fun op => !(isDefinedRef r op) || decide (selM t op = selS r op)

theorem C03_sel_tables : ∀ t ∈ Gen.allTables, selOk t = true := by decide +kernel

theorem natsEq_eq (a b : List Nat) (h : Spec.OpTables.natsEq a b = true) : a = b := by
  induction a generalizing b with
  | nil => cases b <;> simp_all [Spec.OpTables.natsEq]
  | cons x xs ih =>
    cases b with
    | nil => simp [Spec.OpTables.natsEq] at h
    | cons y ys =>
      simp only [Spec.OpTables.natsEq, Bool.and_eq_true] at h
      rw [Nat.eq_of_beq_eq_true h.1, ih ys h.2]

/-- from C03_cmp: CPython's operator at index i is xdis's, with '-' read as ' ' -/
theorem cmp_at (t : OpTable) (r : RefTable) (hc : (r.cmpOp.zip t.cmpOp).all (fun p => Spec.OpTables.natsEq p.1 (dashToSpace p.2)) = true)
    (hl : r.cmpOp.length ≤ t.cmpOp.length) (i : Nat) (c : Str) (h : r.cmpOp[i]? = some c) :
    ∃ c', t.cmpOp[i]? = some c' ∧ c = dashToSpace c' := by
  have hi : i < r.cmpOp.length := by
    rcases Nat.lt_or_ge i r.cmpOp.length with h1 | h1
    · exact h1
    · rw [List.getElem?_eq_none h1] at h; cases h
  have hi' : i < t.cmpOp.length := by omega
  refine ⟨t.cmpOp[i], by simp [hi'], ?_⟩
  rw [List.all_eq_true] at hc
  have hm : (r.cmpOp[i], t.cmpOp[i]) ∈ r.cmpOp.zip t.cmpOp := by
    rw [List.mem_iff_getElem]
    exact ⟨i, by simp; omega, by simp⟩
  have := natsEq_eq _ _ (hc _ hm)
  simp only at this
  rw [← this]
  simp [List.getElem?_eq_getElem hi] at h
  exact h.symm

/-- C03_resolve: on every table with a reference interpreter, for every opcode that interpreter defines,
    every operand and every constants / names / locals / cells tables (`lp` being the merged 3.11+ table,
    which xdis rebuilds — C03_split_join): whenever CPython's dis resolves the operand, xdis resolves it
    to the same entry (comparison operators up to the spelling of '-') -/
theorem C03_resolve (t : OpTable) (ht : t ∈ Gen.allTables) (r : RefTable) (hr : Spec.OpTables.refFor t = some r)
    (op : Nat) (hop : op < 256) (hdef : isDefinedRef r op = true) (arg : Nat)
    (consts names varnames cells lp : List Nat) (hlp : localsplus varnames cells = lp) (res : Res)
    (h : argval r op arg consts names varnames cells lp = some res) :
    normRes (resolve t op arg consts names varnames cells) = res := by
  have hs := C03_sel_tables t ht
  simp only [selOk, hr, List.all_eq_true, List.mem_range, Bool.or_eq_true, Bool.not_eq_true', decide_eq_true_eq] at hs
  have hsel : selM t op = selS r op := by
    rcases hs op hop with h1 | h1
    · rw [hdef] at h1; cases h1
    · exact h1
  have hcm := C03_cmp t ht
  simp only [cmpOk, hr, Bool.and_eq_true, decide_eq_true_eq] at hcm
  rw [argval_sel, ← hsel, ← hlp] at h
  -- comparison operators: move from CPython's tuple to xdis's
  cases hsm : selM t op with
  | cmp k =>
    rw [hsm] at h
    simp only [evalSel, Option.map_eq_some_iff] at h
    obtain ⟨c, hc, rfl⟩ := h
    obtain ⟨c', hc', rfl⟩ := cmp_at t r hcm.1 hcm.2 _ c hc
    have : evalSel (selM t op) arg consts names varnames cells (localsplus varnames cells) t.cmpOp = some (.cmp c') := by
      rw [hsm]; simp [evalSel, hc']
    rw [resolve_sel t op arg consts names varnames cells _ this]
    rfl
  | const | name _ | pair | lp | varnames | cells | none =>
    have h' : evalSel (selM t op) arg consts names varnames cells (localsplus varnames cells) t.cmpOp = some res := by
      rw [hsm] at h ⊢; exact h
    rw [resolve_sel t op arg consts names varnames cells res h']
    rw [hsm] at h
    simp only [evalSel, nameAt, pairAt] at h
    first
      | (simp only [Option.map_eq_some_iff] at h; obtain ⟨_, _, rfl⟩ := h; rfl)
      | (cases h)
      | (repeat' split at h
         all_goals first | (cases h; rfl) | (simp at h))

/-- non-vacuity: CPython 3.12 resolves LOAD_GLOBAL 5 to names[2], LOAD_SUPER_ATTR 9 to names[2], COMPARE_OP 40 to
    cmp_op[2]; 3.13 resolves LOAD_FAST_LOAD_FAST 0x21 to the pair (lp[2], lp[1]) — and 116 is defined in the 3.12 reference -/
example : (Spec.OpTables.refFor Gen.opcode_312).bind (fun r => argval r 116 5 [] [10, 20, 30] [] [] []) = some (.entry 30) ∧
    (Spec.OpTables.refFor Gen.opcode_312).bind (fun r => argval r 141 9 [] [10, 20, 30] [] [] []) = some (.entry 30) ∧
    ((Spec.OpTables.refFor Gen.opcode_312).map (fun r => isDefinedRef r 116)) = some true ∧
    (Spec.OpTables.refFor Gen.opcode_313).bind (fun r => argval r 88 0x21 [] [] [] [] [7, 8, 9]) = some (.pair (.entry 9) (.entry 8)) := by
  decide +kernel

end XV.Props.C03

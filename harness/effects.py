"""Static effect facts extracted from the ASTs under /repo/xdis on every run:
an over-approximated call graph (calls resolved by simple name across all xdis modules;
getattr(self, "t_" + ...) resolved to every method named t_*), the functions reachable from
given roots, and the dangerous / output call sites inside them."""
import ast
import os

import core

DANGEROUS_NAMES = {"exec", "eval", "compile", "__import__", "execfile"}
DANGEROUS_ATTRS = {("os", "system"), ("os", "remove"), ("os", "unlink"), ("os", "rename"), ("os", "rmdir"), ("os", "mkdir"),
                   ("os", "makedirs"), ("os", "popen"), ("subprocess", "*"), ("shutil", "*"), ("importlib", "import_module"),
                   ("py_compile", "compile"), ("tempfile", "mkstemp"), ("tempfile", "mkdtemp"), ("pickle", "*"), ("marshal", "dump")}
OUTPUT_NAMES = {"print"}


def scan():
    funcs = {}          # qualified name -> info
    root = os.path.join(core.REPO, "xdis")
    for d, _, fs in os.walk(root):
        for f in sorted(fs):
            if not f.endswith(".py"):
                continue
            path = os.path.join(d, f)
            rel = os.path.relpath(path, core.REPO)
            try:
                tree = ast.parse(open(path).read())
            except SyntaxError:
                continue
            mod = rel[:-3].replace("/", ".")

            def visit(node, prefix):
                for ch in ast.iter_child_nodes(node):
                    if isinstance(ch, (ast.FunctionDef, ast.AsyncFunctionDef)):
                        q = prefix + "." + ch.name
                        calls, danger, outs, writes = set(), [], [], []
                        for sub in ast.walk(ch):
                            if isinstance(sub, ast.Call):
                                fn = sub.func
                                if isinstance(fn, ast.Name):
                                    calls.add(fn.id)
                                    if fn.id in DANGEROUS_NAMES:
                                        danger.append("%s:%d %s()" % (rel, sub.lineno, fn.id))
                                    if fn.id in OUTPUT_NAMES:
                                        # print(..., file=x) to an explicit stream is the listing itself
                                        if not any(k.arg == "file" for k in sub.keywords):
                                            outs.append("%s:%d print()" % (rel, sub.lineno))
                                    if fn.id == "open":
                                        mode = None
                                        if len(sub.args) > 1 and isinstance(sub.args[1], ast.Constant):
                                            mode = sub.args[1].value
                                        for k in sub.keywords:
                                            if k.arg == "mode" and isinstance(k.value, ast.Constant):
                                                mode = k.value.value
                                        if mode and any(c in str(mode) for c in "wax+"):
                                            danger.append("%s:%d open(mode=%r)" % (rel, sub.lineno, mode))
                                    if fn.id == "getattr" and len(sub.args) >= 2 and isinstance(sub.args[1], ast.BinOp):
                                        left = sub.args[1].left
                                        if isinstance(left, ast.Constant) and isinstance(left.value, str):
                                            calls.add("PREFIX:" + left.value)
                                elif isinstance(fn, ast.Attribute):
                                    calls.add(fn.attr)
                                    base = fn.value.id if isinstance(fn.value, ast.Name) else None
                                    if base and ((base, fn.attr) in DANGEROUS_ATTRS or (base, "*") in DANGEROUS_ATTRS):
                                        danger.append("%s:%d %s.%s()" % (rel, sub.lineno, base, fn.attr))
                                    if base == "sys" and False:
                                        pass
                                    if fn.attr == "write" and isinstance(fn.value, ast.Attribute) and isinstance(fn.value.value, ast.Name) \
                                            and fn.value.value.id == "sys" and fn.value.attr == "stdout":
                                        outs.append("%s:%d sys.stdout.write()" % (rel, sub.lineno))
                        funcs[q] = {"name": ch.name, "calls": calls, "danger": danger, "outs": outs, "file": rel, "line": ch.lineno}
                        visit(ch, q)
                    elif isinstance(ch, ast.ClassDef):
                        visit(ch, prefix + "." + ch.name)
            visit(tree, mod)
    return funcs


def reachable(funcs, roots):
    by_name = {}
    for q, info in funcs.items():
        by_name.setdefault(info["name"], []).append(q)
    seen = set()
    todo = [q for q in funcs if funcs[q]["name"] in roots]
    while todo:
        q = todo.pop()
        if q in seen:
            continue
        seen.add(q)
        for c in funcs[q]["calls"]:
            if c.startswith("PREFIX:"):
                pre = c[7:]
                for n, qs in by_name.items():
                    if n.startswith(pre):
                        todo += qs
            else:
                todo += by_name.get(c, [])
    return seen


def facts(roots, exclude_files=()):
    funcs = scan()
    r = reachable(funcs, roots)
    danger, outs = [], []
    for q in sorted(r):
        if any(funcs[q]["file"].startswith(e) for e in exclude_files):
            continue
        danger += funcs[q]["danger"]
        outs += funcs[q]["outs"]
    return {"reachable": len(r), "danger": sorted(set(danger)), "outs": sorted(set(outs))}


HOSTNAMES = {"PYTHON_VERSION_TRIPLE", "PYTHON_VERSION_STR", "PYTHON3", "IS_PYPY", "IS_GRAAL", "IS_RUST", "PYTHON_MAGIC_INT",
             "PYTHON_IMPLEMENTATION", "PYTHON_VERSION"}
SYSATTRS = {"version_info", "version", "byteorder", "maxsize", "hexversion", "implementation", "platform", "maxunicode", "flags"}


def host_sites():
    """every (file, scope) under /repo/xdis whose body reads the identity of the host interpreter:
    the names exported by xdis.version_info / xdis.magics, sys.version_info & co., platform.*"""
    out = {}
    root = os.path.join(core.REPO, "xdis")
    for d, _, fs in os.walk(root):
        for f in sorted(fs):
            if not f.endswith(".py"):
                continue
            path = os.path.join(d, f)
            rel = os.path.relpath(path, core.REPO)
            try:
                tree = ast.parse(open(path).read())
            except SyntaxError:
                continue

            def visit(node, scope):
                for ch in ast.iter_child_nodes(node):
                    if isinstance(ch, (ast.FunctionDef, ast.AsyncFunctionDef, ast.ClassDef)):
                        visit(ch, (scope + "." if scope else "") + ch.name)
                        continue
                    if isinstance(ch, (ast.Import, ast.ImportFrom)):
                        continue
                    if isinstance(ch, ast.Name) and ch.id in HOSTNAMES and isinstance(ch.ctx, ast.Load):
                        out.setdefault((rel, scope or "<module>"), set()).add(ch.id)
                    if isinstance(ch, ast.Attribute) and isinstance(ch.value, ast.Name) and ch.value.id in ("sys", "platform") \
                            and (ch.attr in SYSATTRS or ch.value.id == "platform"):
                        out.setdefault((rel, scope or "<module>"), set()).add(ch.value.id + "." + ch.attr)
                    visit(ch, scope)
            visit(tree, "")
    return [[k[0], k[1], sorted(v)] for k, v in sorted(out.items())]


def host_allow():
    """the reviewed list /verif/ref/host_sites.txt: `file scope class  # why it cannot change a result`"""
    out = []
    for ln in open(os.path.join(core.VERIF, "ref", "host_sites.txt")):
        ln = ln.split("#")[0].strip()
        if ln:
            f, scope, cls = ln.split()[:3]
            out.append([f, scope, cls])
    return out


if __name__ == "__main__":
    import json
    print(json.dumps(facts({"load_module"}), indent=1))
    print(json.dumps(facts({"disassemble_file"}), indent=1)[:3000])

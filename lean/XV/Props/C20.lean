/-
C20 — xdis.std is a faithful drop-in for the host's dis module.
The instruction fields are the ones C02–C05 decide (same decoder, same finders); this file
adds what is specific to the std layer: the first_line shift, the module-level tables, and
the choice of table by make_std_api.
-/
import XV.Props.C09
import XV.Gen.Magics
namespace XV.Props.C20
open XV XV.Model XV.Spec.OpTables

/-- Model of the line shift of Bytecode.get_instructions / get_instructions_bytes:
    `line_offset = first_line - co_firstlineno`, `starts_line = linestarts[offset] + line_offset` -/
def shifted (firstLine : Option Int) (coFirst line : Int) : Int :=
  match firstLine with
  | some f => line + (f - coFirst)
  | none => line

/-- C20_first_line: with first_line given, the first source line is reported as first_line
    and every other line keeps its distance to it — dis's contract — for all values -/
theorem C20_first_line (f coFirst line : Int) :
    shifted (some f) coFirst coFirst = f ∧ shifted (some f) coFirst line - shifted (some f) coFirst coFirst = line - coFirst ∧
    shifted none coFirst line = line := by
  simp [shifted]; omega

/-- C20_make + C20_tables: for every (major, minor) with an installed interpreter, the table
    make_std_api / the default API selects (probed on the implementation) is a table of
    allTables for exactly that version, not a PyPy variant, and equals that interpreter's
    opcode module (opmap, HAVE_ARGUMENT, EXTENDED_ARG, the category lists) -/
def stdApiOk (r : RefTable) : Bool :=
  match Gen.stdApiTables.lookup r.version with
  | none => false
  | some n =>
    match Gen.allTables.find? (·.name == n) with
    | none => false
    | some t => t.version == r.version && !t.isPypy && refOk t && (refFor t).isSome

theorem C20_make : ∀ r ∈ Gen.allRefs, stdApiOk r = true := by decide +kernel

end XV.Props.C20

/-
Spec: CPython's `marshal.c` WRITER (`w_object`) in the text-float format versions 0 and 1, on a
Python 3 host, for plain values.  In these versions nothing is interned and nothing is flagged
as a reference (both start with version 3), floats and complexes are written as text ('f'/'x':
one length byte and the `%.17g` text; the text is carried by the value), every `str` is 'u' +
UTF-8/surrogatepass, an int that fits 32 signed bits is 'i', any other 'l' with 15-bit digits.
Versions 0 and 1 produce the same bytes on Python 3.  Validated byte-for-byte against
`marshal.dumps(v, 0)` and `marshal.dumps(v, 1)` of the installed interpreters by the C14 check.
-/
import XV.Base.Bytes
import XV.Model.Unmarshal
namespace XV.Spec.MarshalW
open XV XV.Model.Unmarshal

/-- `w_long`: 32 bits, little-endian, two's complement -/
def w32 (x : Int) : Bytes := toLE 4 (x % 4294967296).toNat

/-- `w_short` of a 15-bit digit -/
def w16 (d : Nat) : Bytes := toLE 2 (d % 65536)

/-- `w_PyLong`'s digit array: base 2^15, least significant first, no leading zero digit -/
def digits : Nat → Nat → List Nat
  | 0, _ => []
  | fuel + 1, x => if x = 0 then [] else (x % 32768) :: digits fuel (x / 32768)

/-- `PyUnicode_AsEncodedString(v, "utf8", "surrogatepass")` -/
def encUtf8 : List Nat → Bytes
  | [] => []
  | c :: cs =>
    (if c < 0x80 then [c]
     else if c < 0x800 then [0xC0 + c / 64, 0x80 + c % 64]
     else if c < 0x10000 then [0xE0 + c / 4096, 0x80 + (c / 64) % 64, 0x80 + c % 64]
     else [0xF0 + c / 262144, 0x80 + (c / 4096) % 64, 0x80 + (c / 64) % 64, 0x80 + c % 64]) ++ encUtf8 cs

/-- an int object: 'i' when `PyLong_AsLongAndOverflow` succeeds and the value fits 32 signed bits,
    else `w_PyLong` -/
def wInt (x : Int) : Bytes :=
  if -2147483648 ≤ x ∧ x < 2147483648 then [105] ++ w32 x
  else
    let ds := digits (x.natAbs + 1) x.natAbs
    [108] ++ w32 (if x < 0 then -(ds.length : Int) else ds.length) ++ ds.flatMap w16

mutual
/-- `w_object(v)` for version 0/1 (no FLAG_REF, no interning).  Values outside the plain domain
    (binary floats belong to version ≥ 2, code objects, Python 2 unicode) give `[]`: the theorems
    exclude them by `PlainW`. -/
def wObj : V → Bytes
  | .none => [78] | .tru => [84] | .fls => [70] | .ellipsis => [46] | .stopIter => [83]
  | .int i => wInt i
  | .long i => wInt i
  | .floatText s => [102, s.length % 256] ++ s
  | .complexText r i => [120, r.length % 256] ++ r ++ [i.length % 256] ++ i
  | .bytes b => [115] ++ w32 b.length ++ b
  | .str cps => let u := encUtf8 cps; [117] ++ w32 u.length ++ u
  | .tuple xs => [40] ++ w32 xs.length ++ wList xs
  | .list xs => [91] ++ w32 xs.length ++ wList xs
  | .set xs => [60] ++ w32 xs.length ++ wList xs
  | .fset xs => [62] ++ w32 xs.length ++ wList xs
  | .dict kvs => [123] ++ wKVs kvs ++ [48]
  | .float _ => [] | .complex _ _ => [] | .u2 _ => [] | .code _ => []
def wList : List V → Bytes
  | [] => []
  | x :: xs => wObj x ++ wList xs
def wKVs : List (V × V) → Bytes
  | [] => []
  | (k, v) :: rest => wObj k ++ wObj v ++ wKVs rest
end

end XV.Spec.MarshalW

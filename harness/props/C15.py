"""C15 — stack effects equal the interpreter's.  Theorems: lean/XV/Props/C15.lean."""
import json
import os
import random

import core
from worker import Worker, Oracle
from props.C02 import load_refs

RULE = ("every opcode number below 256 of every version with an interpreter (3.6-3.13) x operands on a boundary grid "
        "(0..31, byte/word boundaries, flag bits, 2^16, 2^16+1 and seeded values up to 2^24; thorough: all of 0..2^16): "
        "xstack_effect vs dis.stack_effect (jump unspecified) vs the Lean Model; every table (incl. versions without an "
        "interpreter) Model vs implementation; distinct = distinct (table, opcode, operand)")


def run(ctx):
    rep, drv = ctx.rep, ctx.driver
    rng = random.Random(ctx.seed)
    refs = load_refs()
    tabs = ctx.tables["optables"]
    w = Worker()
    fresh = [False]
    try:
        base = list(range(0, 32)) + [63, 64, 127, 128, 255, 256, 257, 511, 512, 513, 767, 1023, 4095, 4096, 65535, 65536, 65537]
        names = [it.split(":")[0] for it in drv.ask(["c09.tables"])[0].split()]
        # second pass in reverse order, same worker process: the answer must not depend on which tables
        # (e.g. the PyPy variant of the same version) were asked before
        for pass_no, tn in [(0, n) for n in names] + [(1, n) for n in reversed(names)]:
            t = tabs[tn]
            v = tuple(t["version_tuple"][:2])
            ref = refs.get(v) if not t["is_pypy"] else None
            if pass_no == 1 and v < (3, 6):
                continue
            if pass_no == 1 and not fresh[0]:
                w.close()
                w = Worker()           # a fresh process that meets the tables in the opposite order
                fresh[0] = True
            grid = sorted(set(base + [rng.randrange(2 ** 24) for _ in range(6)])) if not ctx.thorough else \
                (list(range(0, 65537)) + [2 ** 20 + 3, 2 ** 24 - 1] if ref and v >= (3, 6) and pass_no == 0 else sorted(set(base + [rng.randrange(2 ** 24) for _ in range(200)])))
            ops = [op for op in range(256) if t["opname"][op] and not t["opname"][op].startswith("<")]
            if ref and v >= (3, 12) and ref.get("hasarg"):
                takes = set(ref["hasarg"])
            else:
                takes = set(op for op in ops if op >= t["HAVE_ARGUMENT"])
            o = Oracle(v) if (ref is not None and v >= (3, 6) and v in core.ORACLES) else None
            try:
                pairs, opairs = [], []
                for op in ops:
                    args = grid if op in takes else [0]
                    for a in args:
                        pairs.append([op, a])
                        opairs.append([op, a if op in takes else None])
                got = w.r("stack_effects", table=tn, pairs=pairs)
                mo = drv.ask(["x.effect %s %d %d" % (tn, op, a) for op, a in pairs])
                if pass_no == 0:
                    # the same question through the std-style API object of that version
                    sub = [j for j in range(len(pairs)) if j % 3 == 0]
                    gstd = w.r("stack_effects", table=tn, pairs=[pairs[j] for j in sub], via_std=True)
                    if isinstance(gstd, list):
                        for j, g2 in zip(sub, gstd):
                            if g2 != got[j]:
                                op, a = pairs[j]
                                rep.violation("std-effect:%s:%d" % (tn, op),
                                              "make_std_api(%d.%d%s).stack_effect(%s %d) = %s, xstack_effect with that version's table gives %s"
                                              % (v[0], v[1], ", 'pypy'" if t["is_pypy"] else "", t["opname"][op], a, g2, got[j]),
                                              {"table": tn, "opcode": op, "opname": t["opname"][op], "arg": a, "actual": g2, "expected": got[j],
                                               "call": "make_std_api(%r%s).stack_effect(%d, %d)" % (v, ", 'pypy'" if t["is_pypy"] else "", op, a)})
                                break
                want = o.r("stack_effect", pairs=opairs) if o else None
                rep.count(len(pairs))
                seen_bad = set()
                for j, (op, a) in enumerate(pairs):
                    rep.distinct.add((tn, op, a)) if len(rep.distinct) < 200000 else None
                    if op in seen_bad:
                        continue
                    g = got[j]
                    gs = "None" if g is None else str(g)
                    if want is not None and want[j] is not None and g != want[j]:
                        seen_bad.add(op)
                        rep.violation("effect:%s:%d:%d" % (tn, op, a), "xstack_effect(%s %d) = %s for %d.%d, dis.stack_effect gives %s" % (t["opname"][op], a, gs, v[0], v[1], want[j]),
                                      {"table": tn, "opcode": op, "opname": t["opname"][op], "arg": a, "actual": g, "expected": want[j],
                                       "call": "xstack_effect(%d, %s, %d)" % (op, tn, a), "oracle": "dis.stack_effect of CPython %d.%d" % v})
                    elif gs != mo[j]:
                        seen_bad.add(op)
                        rep.violation("corr:effect:%s:%d:%d" % (tn, op, a), "Model of xstack_effect disagrees on %s %s %d: impl %s model %s" % (tn, t["opname"][op], a, gs, mo[j]),
                                      {"table": tn, "opcode": op, "arg": a, "impl": gs, "model": mo[j]}, found_input=False)
            finally:
                if o:
                    o.close()
            if pass_no == 0:
                rep.sample({"table": tn, "opcodes": len(ops), "operands_per_opcode": len(grid)})
        # the answer must not depend on the host Python either (a construct only newer hosts have, a
        # table value taken from the running interpreter): the oldest and the newest installed host,
        # all hosts in the thorough tier, on a small operand grid, against the main host's answers
        hosts = dict(core.HOSTS) if ctx.thorough else {k: v for k, v in core.HOSTS.items() if k in (min(core.HOSTS), max(core.HOSTS))}
        small = [0, 1, 2, 3, 7, 8, 15, 16, 255, 256, 257]
        wm = Worker()
        try:
            for hv, path in sorted(hosts.items()):
                if path == core.MAIN_HOST:
                    continue
                hw = Worker(path)
                try:
                    for tn in names:
                        t = tabs[tn]
                        v = tuple(t["version_tuple"][:2])
                        if v < (3, 6):
                            continue
                        ops = [op for op in range(256) if t["opname"][op] and not t["opname"][op].startswith("<")]
                        pairs = [[op, a] for op in ops for a in (small if op >= t["HAVE_ARGUMENT"] else [0])]
                        a1 = wm.r("stack_effects", table=tn, pairs=pairs)
                        a2 = hw.r("stack_effects", table=tn, pairs=pairs)
                        rep.count(len(pairs))
                        for (op, a), x, y in zip(pairs, a1, a2):
                            if x != y:
                                rep.violation("host-effect:%d.%d:%s:%d" % (hv[0], hv[1], tn, op),
                                              "xstack_effect(%s %d) for table %s is %s under host %d.%d and %s under the main host"
                                              % (t["opname"][op], a, tn, y, hv[0], hv[1], x),
                                              {"table": tn, "opcode": op, "opname": t["opname"][op], "arg": a, "host": "%d.%d" % hv,
                                               "actual": y, "expected": x, "call": "xstack_effect(%d, %s, %d) under %s" % (op, tn, a, path)})
                                break
                finally:
                    hw.close()
        finally:
            wm.close()
    finally:
        w.close()


def replay(ctx, rp):
    r = rp.get("replay", {})
    print(json.dumps(r, indent=1)[:800])
    if "table" in r and "opcode" in r and "arg" in r:
        w = Worker()
        try:
            got = w.r("stack_effects", table=r["table"], pairs=[[r["opcode"], r["arg"]]])
            print("now:", got)
            if "expected" in r and got[0] != r["expected"]:
                ctx.rep.violation(rp["key"], rp["what"], r)
        finally:
            w.close()

/-
C10 / C01 — the simulation theorem: whenever marshal.c's reader (Spec) accepts a stream, xdis's
unmarshaller (Model) accepts it too, consumes exactly the same bytes, and returns the same value
(for Python 2 bytecode: the same value under the `portB` reading of Python 2 strings), with the
reference tables related at every step — so a back-reference yields the same object at every
place it is used.  For every stream, every nesting depth and every marshal era 0–4.
-/
import XV.Model.Unmarshal
import XV.Spec.Marshal
namespace XV.Props.C10.Sim
open XV XV.Model.Unmarshal XV.Spec.Marshal
set_option linter.unusedSimpArgs false
set_option linter.unusedVariables false

/-! ### lockstep framework -/

/-- the reference tables agree wherever marshal.c's slot is filled -/
def RefRel (rs : List (Option V)) (rm : List V) : Prop :=
  rs.length = rm.length ∧ ∀ (i : Nat) (v : V), rs[i]? = some (some v) → rm[i]? = some v

/-- state invariant: same unread input, related reference tables, and (in the eras that
    have Python 2 string references) the same interned-string table -/
def Inv (e : Nat) (ss : PSt) (sm : St) : Prop :=
  ss.inp = sm.inp ∧ RefRel ss.refs sm.refs ∧
    (((e = 1 ∨ e = 2) → sm.strs = ss.strs ∧ ∀ v ∈ ss.strs, ∃ b, v = V.bytes b) ∧ AllBytes ss.inp)

/-- `Lock e R p m`: from related states, if the Spec computation `p` succeeds then the Model
    computation `m` succeeds, with `R`-related results and related final states -/
theorem allBytes_drop {bs : Bytes} (k : Nat) (h : AllBytes bs) : AllBytes (bs.drop k) :=
  fun b hb => h b (List.mem_of_mem_drop hb)

def Lock (e : Nat) (R : α → β → Prop) (p : P α) (m : M β) : Prop :=
  ∀ ss sm a ss', Inv e ss sm → p.run ss = .ok (a, ss') →
    ∃ b sm', m.run sm = .ok (b, sm') ∧ R a b ∧ Inv e ss' sm'

theorem P_run_bind (p : P α) (f : α → P β) (s : PSt) :
    (p >>= f).run s = match p.run s with | .ok (a, s') => (f a).run s' | .error er => .error er := by
  simp only [StateT.run, bind, StateT.bind, Except.bind]
  cases p s <;> rfl

theorem M_run_bind (p : M α) (f : α → M β) (s : St) :
    (p >>= f).run s = match p.run s with | .ok (a, s') => (f a).run s' | .error er => .error er := by
  simp only [StateT.run, bind, StateT.bind, Except.bind]
  cases p s <;> rfl

theorem Lock.seq {R : α → β → Prop} {Q : γ → δ → Prop} {p : P α} {m : M β} {f : α → P γ} {g : β → M δ}
    (h1 : Lock e R p m) (h2 : ∀ a b, R a b → Lock e Q (f a) (g b)) : Lock e Q (p >>= f) (m >>= g) := by
  intro ss sm c ss' hI hrun
  rw [P_run_bind] at hrun
  cases hp : p.run ss with
  | error er => rw [hp] at hrun; cases hrun
  | ok r =>
    obtain ⟨a, s1⟩ := r
    rw [hp] at hrun
    obtain ⟨b, sm1, hm, hR, hI1⟩ := h1 ss sm a s1 hI hp
    obtain ⟨d, sm2, hm2, hQ, hI2⟩ := h2 a b hR s1 sm1 c ss' hI1 hrun
    exact ⟨d, sm2, by rw [M_run_bind, hm]; exact hm2, hQ, hI2⟩

theorem Lock.ret {R : α → β → Prop} {a : α} {b : β} (h : R a b) : Lock e R (pure a : P α) (pure b : M β) := by
  intro ss sm c ss' hI hrun
  simp only [StateT.run, Pure.pure, StateT.pure, Except.pure] at hrun
  cases hrun
  exact ⟨b, sm, rfl, h, hI⟩

theorem Lock.fail {R : α → β → Prop} {er : PErr} {m : M β} : Lock e R (throw er : P α) m := by
  intro ss sm c ss' _ hrun
  simp only [StateT.run, throw, throwThe, MonadExceptOf.throw, StateT.lift, Except.bind, bind, liftM, monadLift, MonadLift.monadLift] at hrun
  cases hrun

theorem Lock.mono {R Q : α → β → Prop} {p : P α} {m : M β} (h : Lock e R p m) (hq : ∀ a b, R a b → Q a b) :
    Lock e Q p m := by
  intro ss sm c ss' hI hrun
  obtain ⟨b, sm', h1, h2, h3⟩ := h ss sm c ss' hI hrun
  exact ⟨b, sm', h1, hq _ _ h2, h3⟩

/-- Spec-side guard: `if c then throw … else p` -/
theorem Lock.guard {R : α → β → Prop} {c : Prop} [Decidable c] {er : PErr} {p : P α} {m : M β}
    (h : ¬c → Lock e R p m) : Lock e R (if c then (throw er : P α) else p) m := by
  by_cases hc : c
  · simp only [hc, if_true]; exact Lock.fail
  · simp only [hc, if_false]; exact h hc


/-! ### primitives -/

theorem rd_run (k : Nat) (s : PSt) :
    (rd k).run s = if s.inp.length < k then .error .eof else .ok (s.inp.take k, { s with inp := s.inp.drop k }) := by
  unfold rd
  by_cases h : s.inp.length < k <;>
  simp [h, bind, StateT.bind, get, getThe, MonadStateOf.get, StateT.get, pure, Except.pure, StateT.run, set,
    StateT.set, StateT.pure, throw, throwThe, MonadExceptOf.throw, StateT.lift, Except.bind, liftM, monadLift, MonadLift.monadLift]

theorem readN_run (k : Nat) (s : St) :
    (readN (k : Int)).run s = .ok (s.inp.take k, { s with inp := s.inp.drop k }) := by
  unfold readN
  have : ¬ ((k : Int) < 0) := by omega
  simp [this, bind, StateT.bind, get, getThe, MonadStateOf.get, StateT.get, pure, Except.pure, StateT.run, set,
    StateT.set, StateT.pure, Except.bind]

/-- Spec `rd k` against Model `fp.read(k)` -/
theorem lock_rd (k : Nat) : Lock e (fun a b => b = a ∧ a.length = k) (rd k) (readN (k : Int)) := by
  intro ss sm a ss' hI hrun
  rw [rd_run] at hrun
  by_cases h : ss.inp.length < k
  · simp [h] at hrun
  · simp only [h, if_false] at hrun
    cases hrun
    obtain ⟨h1, h2, h3⟩ := hI
    refine ⟨_, _, readN_run k sm, ⟨by rw [h1], by simp; omega⟩, ?_, h2, h3.1, allBytes_drop k h3.2⟩
    simp [h1]

theorem readExact_run (k : Nat) (s : St) :
    (readExact k).run s = if (s.inp.take k).length = k then .ok (s.inp.take k, { s with inp := s.inp.drop k })
      else .error .structError := by
  unfold readExact
  rw [M_run_bind, readN_run]
  by_cases h : (s.inp.take k).length = k
  · simp only [h, if_true]; rfl
  · simp only [h, if_false]; rfl

/-- Spec `rd k` against Model `unpack(fmt, fp.read(k))` -/
theorem lock_rdExact (k : Nat) : Lock e (fun a b => b = a) (rd k) (readExact k) := by
  intro ss sm a ss' hI hrun
  rw [rd_run] at hrun
  by_cases h : ss.inp.length < k
  · simp [h] at hrun
  · simp only [h, if_false] at hrun
    cases hrun
    obtain ⟨h1, h2, h3⟩ := hI
    refine ⟨sm.inp.take k, { sm with inp := sm.inp.drop k }, ?_, by rw [h1], by simp [h1], h2, h3.1, allBytes_drop k h3.2⟩
    rw [readExact_run]
    have : (sm.inp.take k).length = k := by simp; rw [← h1]; omega
    simp [this]

theorem lock_map {R : α → β → Prop} {p : P α} {m : M β} (f : α → γ) (g : β → δ) (Q : γ → δ → Prop)
    (h : Lock e R p m) (hq : ∀ a b, R a b → Q (f a) (g b)) :
    Lock e Q (do let x ← p; pure (f x)) (do let y ← m; pure (g y)) :=
  Lock.seq h (fun a b hab => Lock.ret (hq a b hab))

theorem lock_i32 : Lock e (fun a b => b = a) i32 rI32 :=
  lock_map _ _ _ (lock_rdExact 4) (fun a b h => by rw [h])
theorem lock_i16 : Lock e (fun a b => b = a) i16 rI16 :=
  lock_map _ _ _ (lock_rdExact 2) (fun a b h => by rw [h])
theorem lock_u8 : Lock e (fun a b => b = a) u8 rU8 :=
  lock_map _ _ _ (lock_rdExact 1) (fun a b h => by rw [h])

/-- a size field: marshal.c rejects negative sizes; xdis reads the same 32-bit value -/
theorem lock_size32 : Lock e (fun (a : Nat) (b : Int) => b = (a : Int)) size32 rI32 := by
  unfold size32
  have := Lock.seq (e := e) (R := fun (a b : Int) => b = a) (Q := fun (a : Nat) (b : Int) => b = (a : Int))
    (f := fun n => if n < 0 then (throw PErr.badData : P Nat) else pure n.toNat) (g := fun n => (pure n : M Int)) lock_i32
    (fun a b hab => by
      subst hab
      exact Lock.guard (fun hn => Lock.ret (by show _ = ((Int.toNat _ : Nat) : Int); omega)))
  simpa using this


/-! ### reference-table primitives -/

theorem RefRel.append_some {rs : List (Option V)} {rm : List V} (h : RefRel rs rm) (v : V) :
    RefRel (rs ++ [some v]) (rm ++ [v]) := by
  obtain ⟨hl, hv⟩ := h
  refine ⟨by simp [hl], fun i w hi => ?_⟩
  rcases Nat.lt_trichotomy i rs.length with hlt | heq | hgt
  · rw [List.getElem?_append_left hlt] at hi
    rw [List.getElem?_append_left (by omega)]
    exact hv i w hi
  · subst heq
    simp at hi
    subst hi
    rw [hl]; simp
  · rw [List.getElem?_eq_none (by simp; omega)] at hi
    cases hi

theorem RefRel.append_none {rs : List (Option V)} {rm : List V} (h : RefRel rs rm) (w : V) :
    RefRel (rs ++ [none]) (rm ++ [w]) := by
  obtain ⟨hl, hv⟩ := h
  refine ⟨by simp [hl], fun i u hi => ?_⟩
  rcases Nat.lt_trichotomy i rs.length with hlt | heq | hgt
  · rw [List.getElem?_append_left hlt] at hi
    rw [List.getElem?_append_left (by omega)]
    exact hv i u hi
  · subst heq
    simp at hi
  · rw [List.getElem?_eq_none (by simp; omega)] at hi
    cases hi

theorem RefRel.set {rs : List (Option V)} {rm : List V} (h : RefRel rs rm) (k : Nat) (v : V) :
    RefRel (rs.set k (some v)) (rm.set k v) := by
  obtain ⟨hl, hv⟩ := h
  refine ⟨by simp [hl], fun i u hi => ?_⟩
  by_cases hik : k = i
  · subst hik
    by_cases hlt : k < rs.length
    · rw [List.getElem?_set_self hlt] at hi
      cases hi
      rw [List.getElem?_set_self (by omega)]
    · rw [List.getElem?_eq_none (by simp; omega)] at hi; cases hi
  · rw [List.getElem?_set_ne hik] at hi
    rw [List.getElem?_set_ne hik]
    exact hv i u hi


theorem lock_ref (v w : V) (flag : Bool) (hw : flag = true → w = v) :
    Lock e (fun a b => a = v ∧ b = w) (ref v flag) (rRef w flag) := by
  intro ss sm a ss' hI hrun
  obtain ⟨h1, h2, h3⟩ := hI
  cases flag <;>
  simp [ref, rRef, bind, StateT.bind, pure, Except.pure, StateT.run, StateT.pure, modify, modifyGet,
    MonadStateOf.modifyGet, StateT.modifyGet, Except.bind] at hrun ⊢
  · obtain ⟨rfl, rfl⟩ := hrun
    exact ⟨_, _, ⟨rfl, rfl⟩, ⟨rfl, rfl⟩, h1, h2, h3⟩
  · obtain ⟨rfl, rfl⟩ := hrun
    have := hw rfl; subst this
    exact ⟨_, _, ⟨rfl, rfl⟩, ⟨rfl, rfl⟩, h1, h2.append_some _, h3⟩

theorem lock_reserve (w : V) (flag : Bool) :
    Lock e (fun a b => b = a ∧ (a.isSome = true → flag = true)) (reserve flag) (rRefReserve w flag) := by
  intro ss sm a ss' hI hrun
  obtain ⟨h1, h2, h3⟩ := hI
  cases flag <;>
  simp [reserve, rRefReserve, bind, StateT.bind, pure, Except.pure, StateT.run, StateT.pure, get, getThe,
    MonadStateOf.get, StateT.get, set, StateT.set, Except.bind] at hrun ⊢
  · obtain ⟨rfl, rfl⟩ := hrun
    exact ⟨_, _, ⟨rfl, rfl⟩, by simp, h1, h2, h3⟩
  · obtain ⟨rfl, rfl⟩ := hrun
    exact ⟨_, _, ⟨rfl, rfl⟩, by simp [h2.1], h1, h2.append_none w, h3⟩

theorem lock_insert (v w : V) (i : Option Nat) (hw : i.isSome = true → w = v) :
    Lock e (fun a b => a = v ∧ b = w) (Spec.Marshal.insert v i) (rRefInsert w i) := by
  intro ss sm a ss' hI hrun
  obtain ⟨h1, h2, h3⟩ := hI
  cases i <;>
  simp [Spec.Marshal.insert, rRefInsert, bind, StateT.bind, pure, Except.pure, StateT.run, StateT.pure, modify, modifyGet,
    MonadStateOf.modifyGet, StateT.modifyGet, Except.bind] at hrun ⊢
  · obtain ⟨rfl, rfl⟩ := hrun
    exact ⟨_, _, ⟨rfl, rfl⟩, ⟨rfl, rfl⟩, h1, h2, h3⟩
  · obtain ⟨rfl, rfl⟩ := hrun
    have := hw rfl; subst this
    exact ⟨_, _, ⟨rfl, rfl⟩, ⟨rfl, rfl⟩, h1, h2.set _ _, h3⟩

/-! ### the statement -/

/-- configuration under which the simulation is stated -/
structure CfgOK (c : Cfg) (sc : SCfg) : Prop where
  graal : c.isGraal = false
  depth : sc.maxDepth ≤ c.depthLimit
  m1 : c.magic ≠ 3400
  m2 : c.magic ≠ 3401
  m3 : c.magic ≠ 3410
  m4 : c.magic ≠ 3411
  strict : sc.strict = true

/-- what xdis should hold for the value marshal.c built: the value itself for Python 3
    bytecode, its `portB` reading for Python 2 bytecode -/
def portV (c : Cfg) (bfs : Bool) (v : V) : V := if verGeL c.version 3 0 then v else portB bfs v

/-- how the Spec's ghost flag follows xdis's `bytes_for_s`: in Python 3 bytecode it marks the
    one place (co_varnames) read with bytes_for_s = False; in Python 2 bytecode it is never set -/
def Ctx (c : Cfg) (bfs txt : Bool) : Prop := if verGeL c.version 3 0 then txt = !bfs else txt = false

def RO (c : Cfg) (bfs : Bool) : Option V → V → Prop
  | none, w => w = .none
  | some v, w => w = portV c bfs v

/-- `some <$> x` on the Spec side against the bare Model computation -/
theorem Lock.wrap {c : Cfg} {bfs : Bool} {x : P V} {m : M V} (h : Lock e (fun a b => b = portV c bfs a) x m) :
    Lock e (RO c bfs) (do let v ← x; pure (Option.some v)) m := by
  have h2 := Lock.seq (g := fun w => (pure w : M V)) h
    (fun a b hab => Lock.ret (R := RO c bfs) (a := Option.some a) (b := b) hab)
  intro ss sm a ss' hI hrun
  obtain ⟨b, sm', h3, h4, h5⟩ := h2 ss sm a ss' hI hrun
  refine ⟨b, sm', ?_, h4, h5⟩
  rw [M_run_bind] at h3
  cases hm : m.run sm with
  | error er => rw [hm] at h3; cases h3
  | ok r =>
    rw [hm] at h3
    obtain ⟨r1, r2⟩ := r
    simp [StateT.run, pure, StateT.pure, Except.pure] at h3
    obtain ⟨rfl, rfl⟩ := h3
    rfl

theorem Lock.seqEq {Q : γ → δ → Prop} {p : P α} {m : M α} {f : α → P γ} {g : α → M δ}
    (h1 : Lock e (fun a b => b = a) p m) (h2 : ∀ a, Lock e Q (f a) (g a)) : Lock e Q (p >>= f) (m >>= g) :=
  Lock.seq h1 (fun a b hab => by cases hab; exact h2 _)

theorem lock_u8_read1 : Lock e (fun (a : Nat) (bl : Bytes) => bl = [a]) u8 (readN 1) := by
  intro ss sm a ss' hI hrun
  unfold u8 at hrun
  rw [P_run_bind, rd_run] at hrun
  by_cases h : ss.inp.length < 1
  · simp [h] at hrun
  · simp only [h, if_false] at hrun
    simp [StateT.run, pure, StateT.pure, Except.pure] at hrun
    obtain ⟨rfl, rfl⟩ := hrun
    obtain ⟨h1, h2, h3⟩ := hI
    have hr := readN_run 1 sm
    refine ⟨_, _, hr, ?_, by simp [h1], h2, h3.1, by simpa using allBytes_drop 1 h3.2⟩
    rw [← h1]
    match hh : ss.inp with
    | [] => simp [hh] at h
    | x :: rest => simp [leNat]

theorem lit_bits : ∀ lit, lit < 128 → lit &&& 127 = lit ∧ lit &&& 128 = 0 := by decide

/-- the type byte: marshal.c masks FLAG_REF only in era 4; a byte it accepts in an earlier era
    has the flag bit clear, so xdis's unconditional masking sees the same code and the same flag -/
theorem ty_lit (e b lit : Nat) (hl : lit < 128) (h : (if e = 4 then b &&& 127 else b) = lit) :
    b &&& 127 = lit ∧ (decide (b &&& 128 ≠ 0) = (decide (e = 4) && decide (b &&& 128 ≠ 0))) := by
  by_cases he : e = 4
  · simp [he] at h ⊢; exact h
  · simp only [he, if_false] at h
    subst h
    have := lit_bits b hl
    simp [he, this.1, this.2]


theorem lock_post {R : α → β → Prop} {p : P α} {m : M β} (h : Lock e R p m) (g : β → δ) :
    Lock e (fun a d => ∃ b, R a b ∧ d = g b) p (do let y ← m; pure (g y)) := by
  intro ss sm a ss' hI hrun
  obtain ⟨b, sm', h1, h2, h3⟩ := h ss sm a ss' hI hrun
  refine ⟨g b, sm', ?_, ⟨b, h2, rfl⟩, h3⟩
  rw [M_run_bind, h1]; rfl

theorem lock_rd8_i64 : Lock e (fun a b => b = signedOf 8 (leNat a)) (rd 8) rI64 :=
  (lock_post (lock_rdExact 8) _).mono (fun a d ⟨b, h1, h2⟩ => by rw [h2, h1])
theorem lock_rd8_u64 : Lock e (fun a b => b = leNat a) (rd 8) rU64 :=
  (lock_post (lock_rdExact 8) _).mono (fun a d ⟨b, h1, h2⟩ => by rw [h2, h1])

/-- values without a Python 2 `str` or a container inside: read the same in every context -/
def Leaf : V → Bool
  | .none | .tru | .fls | .ellipsis | .stopIter | .int _ | .long _ | .float _ | .floatText _
  | .complex _ _ | .complexText _ _ | .str _ | .u2 _ => true
  | _ => false

theorem portB_leaf (b : Bool) (v : V) (h : Leaf v = true) : portB b v = v := by
  cases v <;> simp only [portB] <;> simp [Leaf] at h

theorem portV_leaf (c : Cfg) (b : Bool) (v : V) (h : Leaf v = true) : portV c b v = v := by
  unfold portV; split
  · rfl
  · exact portB_leaf b v h


/-! ### version gates -/

theorem verGeL_mono (v : List Nat) (a b a' b' : Nat) (hle : a' < a ∨ (a' = a ∧ b' ≤ b))
    (h : verGeL v a b = true) : verGeL v a' b' = true := by
  match v with
  | [] => simp [verGeL] at h
  | [x] =>
    simp only [verGeL, Bool.or_eq_true, Bool.and_eq_true, decide_eq_true_eq, beq_iff_eq] at h ⊢
    omega
  | x :: y :: _ =>
    simp only [verGeL, Bool.or_eq_true, Bool.and_eq_true, decide_eq_true_eq, beq_iff_eq] at h ⊢
    omega

theorem era_eq4 (v : List Nat) : (era v = 4) ↔ verGeL v 3 4 = true := by
  unfold era; split <;> simp_all <;> (repeat' split) <;> simp

theorem era_ge3 (v : List Nat) : (era v ≥ 3) ↔ verGeL v 3 0 = true := by
  unfold era
  by_cases h34 : verGeL v 3 4 = true
  · simp [h34, verGeL_mono v 3 4 3 0 (by omega) h34]
  · by_cases h30 : verGeL v 3 0 = true
    · simp [h34, h30]
    · simp only [h34, h30]; (repeat' split) <;> simp_all

theorem era_lt4_of_py2 (v : List Nat) (h : verGeL v 3 0 = false) : era v ≤ 2 := by
  have := era_ge3 v
  simp [h] at this
  omega

theorem lock_digits : ∀ (k j : Nat) (acc : Int), Lock e (fun a b => b = a.1) (digits k j acc) (rDigits k j acc) := by
  intro k
  induction k with
  | zero => intro j acc; rw [digits, rDigits]; exact Lock.ret rfl
  | succ k ih =>
    intro j acc
    rw [digits, rDigits]
    refine Lock.seqEq lock_i16 (fun d => ?_)
    refine Lock.guard (fun _ => ?_)
    by_cases hk : k = 0
    · subst hk
      simp only [if_true]
      rw [rDigits]
      exact Lock.ret rfl
    · simp only [hk, if_false]
      exact ih _ _

theorem utf8_ascii (fuel : Nat) (b : Bytes) (sp : Bool) (h : b.all (· < 0x80) = true) (hf : b.length < fuel) :
    Utf8.decode sp fuel b = some b := by
  induction b generalizing fuel with
  | nil => cases fuel <;> simp [Utf8.decode]
  | cons x xs ih =>
    cases fuel with
    | zero => simp at hf
    | succ f =>
      simp only [List.all_cons, Bool.and_eq_true, decide_eq_true_eq] at h
      simp only [Utf8.decode, h.1, if_true]
      rw [ih f h.2 (by simp at hf; omega)]
      rfl

theorem compatStr_ascii (b : Bytes) (h : b.all (· < 0x80) = true) : compatStr b = .str b := by
  unfold compatStr Utf8.decodeStrict
  rw [utf8_ascii _ b false h (by omega)]

/-- the strict guard on the ASCII type codes, a Spec-only step -/
theorem lock_asciiStr {Q : γ → δ → Prop} (sc : SCfg) (hs : sc.strict = true) (s : Bytes) (f : V → P γ) (m : M δ)
    (h : compatStr s = .str s → Lock e Q (f (.str s)) m) : Lock e Q (asciiStr sc s >>= f) m := by
  unfold asciiStr
  by_cases ha : s.all (· < 0x80) = true
  · simp only [hs, ha, Bool.not_true, Bool.and_false]
    simp only [Bool.false_eq_true, if_false, pure_bind]
    exact h (compatStr_ascii s ha)
  · simp only [hs, ha, Bool.true_and]
    simp only [Bool.not_false, if_true]
    intro ss sm a ss' _ hrun
    rw [P_run_bind] at hrun
    simp [StateT.run, throw, throwThe, MonadExceptOf.throw, StateT.lift, Except.bind, bind, liftM, monadLift,
      MonadLift.monadLift] at hrun

theorem M_run_modify (f : St → St) (m : M β) (s : St) :
    (do modify f; m).run s = m.run (f s) := by
  simp [bind, StateT.bind, StateT.run, modify, modifyGet, MonadStateOf.modifyGet, StateT.modifyGet, pure, Except.pure, Except.bind]

theorem P_run_modify (f : PSt → PSt) (m : P β) (s : PSt) :
    (do modify f; m).run s = m.run (f s) := by
  simp [bind, StateT.bind, StateT.run, modify, modifyGet, MonadStateOf.modifyGet, StateT.modifyGet, pure, Except.pure, Except.bind]

/-- xdis also records 3.4+ interned strings in `internStrings`; nothing reads that list in era 4 -/
theorem lock_modStrs_model {Q : γ → δ → Prop} {p : P γ} {m : M δ} (v : V) (hne : ¬(e = 1 ∨ e = 2))
    (h : Lock e Q p m) :
    Lock e Q p (do modify (fun st => { st with strs := st.strs ++ [v] }); m) := by
  intro ss sm a ss' hI hrun
  rw [M_run_modify]
  exact h ss _ a ss' ⟨hI.1, hI.2.1, fun h => absurd h hne, hI.2.2.2⟩ hrun

theorem lock_modStrs_both {Q : γ → δ → Prop} {p : P γ} {m : M δ} (s : Bytes) (h : Lock e Q p m) :
    Lock e Q (do modify (fun st => { st with strs := st.strs ++ [V.bytes s] }); p)
             (do modify (fun st => { st with strs := st.strs ++ [V.bytes s] }); m) := by
  intro ss sm a ss' hI hrun
  rw [M_run_modify]
  rw [P_run_modify] at hrun
  refine h { ss with strs := ss.strs ++ [V.bytes s] } { sm with strs := sm.strs ++ [V.bytes s] } a ss'
    ⟨hI.1, hI.2.1, fun he => ?_, hI.2.2.2⟩ hrun
  obtain ⟨h1, h2⟩ := hI.2.2.1 he
  refine ⟨by simp [h1], fun v hv => ?_⟩
  simp at hv
  rcases hv with hv | rfl
  · exact h2 v hv
  · exact ⟨s, rfl⟩

theorem lock_refLeaf (c : Cfg) (bfs : Bool) (v : V) (flag : Bool) (h : Leaf v = true) :
    Lock e (fun a b => b = portV c bfs a) (ref v flag) (rRef v flag) :=
  (lock_ref v v flag (fun _ => rfl)).mono (by rintro a b ⟨rfl, rfl⟩; exact (portV_leaf c bfs _ h).symm)

theorem lock_rdN (k : Nat) : Lock e (fun a b => b = a) (rd k) (readN (k : Int)) :=
  (lock_rd k).mono (fun a b h => h.1)

theorem py3_of_flag (c : Cfg) (e b : Nat) (he : e = era c.version)
    (h : (decide (e = 4) && decide (b &&& 128 ≠ 0)) = true) : verGeL c.version 3 0 = true := by
  simp only [Bool.and_eq_true, decide_eq_true_eq] at h
  have := (era_eq4 c.version).1 (he ▸ h.1)
  exact verGeL_mono _ 3 4 3 0 (by omega) this

theorem era_le4 (v : List Nat) : era v ≤ 4 := by
  unfold era; (repeat' split) <;> omega

theorem portB_bytes (bfs : Bool) (b : Bytes) : portB bfs (.bytes b) = if bfs then .bytes b else compatStr b := by
  simp only [portB]

/-- 'R': a Python 2 string reference -/
theorem lock_strRef (c : Cfg) (bfs : Bool) (n : Int) (he12 : e = 1 ∨ e = 2) (hpy2 : verGeL c.version 3 0 = false) :
    Lock e (fun a b => b = portV c bfs a)
      (do let st ← get
          if n < 0 then throw PErr.badData else
          match st.strs[n.toNat]? with
          | some v => pure v
          | none => throw PErr.badData : P V)
      (do let s ← get
          match pyIndex s.strs n with
          | some v => pure (if bfs then v else compatV v)
          | Option.none => throw Err.indexError : M V) := by
  intro ss sm a ss' hI hrun
  obtain ⟨h1, h2, h3⟩ := hI
  obtain ⟨h4, h5⟩ := h3.1 he12
  by_cases hn : n < 0
  · simp [hn, bind, StateT.bind, StateT.run, get, getThe, MonadStateOf.get, StateT.get, pure, Except.pure, Except.bind,
      throw, throwThe, MonadExceptOf.throw, StateT.lift, liftM, monadLift, MonadLift.monadLift] at hrun
  · cases hv : ss.strs[n.toNat]? with
    | none =>
      simp [hn, hv, bind, StateT.bind, StateT.run, get, getThe, MonadStateOf.get, StateT.get, pure, Except.pure, Except.bind,
        throw, throwThe, MonadExceptOf.throw, StateT.lift, liftM, monadLift, MonadLift.monadLift] at hrun
    | some v =>
      simp [hn, hv, bind, StateT.bind, StateT.run, get, getThe, MonadStateOf.get, StateT.get, pure, Except.pure, Except.bind,
        StateT.pure] at hrun
      obtain ⟨rfl, rfl⟩ := hrun
      obtain ⟨bb, rfl⟩ := h5 v (List.mem_of_getElem? hv)
      have hp : pyIndex sm.strs n = some (V.bytes bb) := by
        unfold pyIndex; rw [h4]; simp [show n ≥ 0 by omega, hv]
      refine ⟨(if bfs then V.bytes bb else compatV (V.bytes bb)), sm, ?_, ?_, h1, h2, fun _ => ⟨h4, h5⟩, h3.2⟩
      · simp [hp, bind, StateT.bind, StateT.run, get, getThe, MonadStateOf.get, StateT.get, pure, Except.pure, Except.bind,
          StateT.pure]
      · unfold portV; simp only [hpy2, portB_bytes]
        cases bfs <;> simp [compatV]

/-- 'r': an object reference -/
theorem lock_objRef (c : Cfg) (bfs : Bool) (n : Int) (hpy3 : verGeL c.version 3 0 = true) :
    Lock e (fun a b => b = portV c bfs a)
      (do let st ← get
          if n < 0 then throw PErr.badData else
          match st.refs[n.toNat]? with
          | some (some v) => pure v
          | _ => throw PErr.badData : P V)
      (do let s ← get
          match pyIndex s.refs n with
          | some v => pure v
          | Option.none => throw Err.indexError : M V) := by
  intro ss sm a ss' hI hrun
  obtain ⟨h1, h2, h3⟩ := hI
  by_cases hn : n < 0
  · simp [hn, bind, StateT.bind, StateT.run, get, getThe, MonadStateOf.get, StateT.get, pure, Except.pure, Except.bind,
      throw, throwThe, MonadExceptOf.throw, StateT.lift, liftM, monadLift, MonadLift.monadLift] at hrun
  · cases hv : ss.refs[n.toNat]? with
    | none =>
      simp [hn, hv, bind, StateT.bind, StateT.run, get, getThe, MonadStateOf.get, StateT.get, pure, Except.pure, Except.bind,
        throw, throwThe, MonadExceptOf.throw, StateT.lift, liftM, monadLift, MonadLift.monadLift] at hrun
    | some ov =>
      cases ov with
      | none =>
        simp [hn, hv, bind, StateT.bind, StateT.run, get, getThe, MonadStateOf.get, StateT.get, pure, Except.pure, Except.bind,
          throw, throwThe, MonadExceptOf.throw, StateT.lift, liftM, monadLift, MonadLift.monadLift] at hrun
      | some v =>
        simp [hn, hv, bind, StateT.bind, StateT.run, get, getThe, MonadStateOf.get, StateT.get, pure, Except.pure, Except.bind,
          StateT.pure] at hrun
        obtain ⟨rfl, rfl⟩ := hrun
        have hp : pyIndex sm.refs n = some v := by
          unfold pyIndex; simp [show n ≥ 0 by omega, h2.2 _ _ hv]
        refine ⟨v, sm, ?_, ?_, h1, h2, h3⟩
        · simp [hp, bind, StateT.bind, StateT.run, get, getThe, MonadStateOf.get, StateT.get, pure, Except.pure, Except.bind,
            StateT.pure]
        · unfold portV; simp only [hpy3, if_true]


/-- Spec bind against a Model computation with nothing left to do afterwards -/
theorem Lock.seqPure {R : α → β → Prop} {Q : γ → δ → Prop} {p : P α} {m : M β} {f : α → P γ} {g : β → δ}
    (h1 : Lock e R p m) (h2 : ∀ a b, R a b → Lock e Q (f a) (pure (g b))) :
    Lock e Q (p >>= f) (do let y ← m; pure (g y)) :=
  Lock.seq h1 h2

def portVList (c : Cfg) (bfs : Bool) (xs : List V) : List V :=
  if verGeL c.version 3 0 then xs else portBList bfs xs
def portVKVs (c : Cfg) (bfs : Bool) (xs : List (V × V)) : List (V × V) :=
  if verGeL c.version 3 0 then xs else portBKVs bfs xs

theorem portV_tuple (c : Cfg) (bfs : Bool) (xs : List V) : portV c bfs (.tuple xs) = .tuple (portVList c bfs xs) := by
  unfold portV portVList; split <;> simp only [portB]
theorem portV_list (c : Cfg) (bfs : Bool) (xs : List V) : portV c bfs (.list xs) = .list (portVList c bfs xs) := by
  unfold portV portVList; split <;> simp only [portB]
theorem portV_set (c : Cfg) (bfs : Bool) (xs : List V) : portV c bfs (.set xs) = .set (portVList c bfs xs) := by
  unfold portV portVList; split <;> simp only [portB]
theorem portV_fset (c : Cfg) (bfs : Bool) (xs : List V) : portV c bfs (.fset xs) = .fset (portVList c bfs xs) := by
  unfold portV portVList; split <;> simp only [portB]
theorem portV_dict (c : Cfg) (bfs : Bool) (xs : List (V × V)) : portV c bfs (.dict xs) = .dict (portVKVs c bfs xs) := by
  unfold portV portVKVs; split <;> simp only [portB]
theorem portVList_nil (c : Cfg) (bfs : Bool) : portVList c bfs [] = [] := by
  unfold portVList; split <;> simp only [portBList]
theorem portVList_cons (c : Cfg) (bfs : Bool) (x : V) (xs : List V) :
    portVList c bfs (x :: xs) = portV c bfs x :: portVList c bfs xs := by
  unfold portVList portV; split <;> simp only [portBList]
theorem portVKVs_nil (c : Cfg) (bfs : Bool) : portVKVs c bfs [] = [] := by
  unfold portVKVs; split <;> simp only [portBKVs]
theorem portVKVs_cons (c : Cfg) (bfs : Bool) (k v : V) (xs : List (V × V)) :
    portVKVs c bfs ((k, v) :: xs) = (portV c bfs k, portV c bfs v) :: portVKVs c bfs xs := by
  unfold portVKVs portV; split <;> simp only [portBKVs]

end XV.Props.C10.Sim

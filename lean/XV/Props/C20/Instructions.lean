/-
C20 / C12 — the instruction records, end to end: xdis's `get_instructions_bytes` assembles each record from
the decoded stream (C02), the label list of `opc.findlabels` plus the exception-table targets (C04) and the
line-start map (C05).  CPython's `dis._get_instructions_bytes` assembles the same record from
`_unpack_opargs`, `findlabels` and `findlinestarts`.  Composing the component theorems: for every code string
the two lists of records (offset, opcode, arg, is_jump_target, starts_line) are equal — before 3.11 literally,
from 3.11 after dropping the CACHE entries `dis` hides.
-/
import XV.Props.C02
import XV.Props.C04
namespace XV.Props.C20.Instructions
open XV XV.Model XV.Model.Decode XV.Spec.Dis XV.Props.C02

structure IRec where
  offset : Nat
  opcode : Nat
  arg : Option Nat
  isJumpTarget : Bool
  startsLine : Option Int
  deriving DecidableEq, Repr

/-- one record per decoded instruction: `is_jump_target = offset in labels`, `starts_line = linestarts.get(offset)` -/
def assemble (stream : List Spec.Dis.Triple) (labels : List Int) (starts : List (Nat × Int)) : List IRec :=
  stream.map fun x =>
    { offset := x.1, opcode := x.2.1, arg := x.2.2, isJumpTarget := labels.contains (x.1 : Int), startsLine := starts.lookup x.1 }

/-- xdis: `get_instructions_bytes` (labels = opc.findlabels(code, opc) extended by the exception-table targets) -/
def xdisInstructions (t : OpTable) (code : Bytes) (starts : List (Nat × Int)) (excTargets : List Int) : Option (List IRec) := do
  let s ← (instrs t code).toOption
  let l ← (Decode.findlabels t Gen.cacheSize313 code).bind Except.toOption
  pure (assemble (s.map tri) (l ++ excTargets) starts)

/-- CPython: `dis._get_instructions_bytes` (labels = findlabels(code) plus the exception-table targets) -/
def disInstructions (d : DisTbl) (code : Bytes) (starts : List (Nat × Int)) (excTargets : List Int) : Option (List IRec) := do
  let s ← Spec.Dis.unpack d code
  let l ← Spec.Dis.findlabels d code
  pure (assemble s (l ++ excTargets) starts)

/-- C20_instructions (every version before 3.11 that xdis ships, every code string): the records are equal -/
theorem C20_instructions (t : OpTable) (ht : t ∈ Gen.allTables) (d : DisTbl) (hd : disTblFor t = some d)
    (h11 : verGe d.version 3 11 = false) (code : Bytes) (hbytes : IsBytes code) (hc : CarryOk t code)
    (starts : List (Nat × Int)) (excTargets : List Int) :
    xdisInstructions t code starts excTargets = disInstructions d code starts excTargets := by
  have hs := C02_stream_all t ht d hd h11 code hbytes (Or.inr hc)
  have hl := C04.C04_labels t ht d hd h11 code hbytes (fun _ => hc)
  unfold xdisInstructions disInstructions
  rw [← hs]
  cases hi : (instrs t code).toOption with
  | none => rfl
  | some s =>
    cases hf : Decode.findlabels t Gen.cacheSize313 code with
    | none => simp [hf] at hl
    | some r =>
      simp only [hf, Option.map_some, Option.some.injEq] at hl
      simp [hl]

theorem assemble_filter (stream : List Spec.Dis.Triple) (labels : List Int) (starts : List (Nat × Int)) (p : Spec.Dis.Triple → Bool) :
    assemble (stream.filter p) labels starts =
    (assemble stream labels starts).filter (fun r => p (r.offset, r.opcode, r.arg)) := by
  unfold assemble
  rw [List.filter_map]
  rfl

/-- C20_instructions_311 (3.11, 3.12, 3.13): the non-CACHE records are equal -/
theorem C20_instructions_311 (t : OpTable) (ht : t ∈ Gen.allTables) (d : DisTbl) (hd : disTblFor t = some d)
    (h11 : verGe d.version 3 11 = true) (code : Bytes) (hbytes : IsBytes code) (hck : CacheOk t d code) (hc : CarryOk t code)
    (starts : List (Nat × Int)) (excTargets : List Int) :
    (xdisInstructions t code starts excTargets).map (List.filter fun r => r.opcode != 0) =
    disInstructions d code starts excTargets := by
  have hs := C02_stream_311_all t ht d hd h11 code hbytes hck
  have hl := C04.C04_labels_311_all t ht d hd h11 code hbytes hck hc
  unfold xdisInstructions disInstructions
  rw [← hs]
  cases hi : (instrs t code).toOption with
  | none => rfl
  | some s =>
    cases hf : Decode.findlabels t Gen.cacheSize313 code with
    | none => simp [hf] at hl
    | some r =>
      simp only [hf, Option.map_some, Option.some.injEq] at hl
      simp only [Option.map_some, Option.bind_some, hl, bind, pure]
      cases Spec.Dis.findlabels d code with
      | none => rfl
      | some l =>
        simp only [Option.bind_some, Option.map_some, assemble_filter]
        rfl

/-- non-vacuity: a 3.8 code string with a three-prefix operand and a jump gives records, with a label and a line start -/
example : (xdisInstructions Gen.opcode_38 [144, 1, 144, 2, 144, 3, 100, 4, 113, 0, 1, 0] [(0, 7)] []).map
      (fun rs => (rs.length, rs.map (·.isJumpTarget), rs.map (·.startsLine))) =
    some (6, [true, false, false, false, false, false], [some 7, none, none, none, none, none]) := by
  decide +kernel

end XV.Props.C20.Instructions

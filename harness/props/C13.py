"""C13 — read -> write -> same program.  Theorems: lean/XV/Props/C13.lean."""
import json
import random

import core
import progcheck
import progrun
from worker import Worker, Oracle

RULE = ("corpus and generated programs compiled by each reference interpreter, loaded with load_module (portable path) and "
        "written back with write_bytecode_file; the written file is loaded by the interpreter its magic names (fresh process) "
        "and compared field by field / constant by constant with the original, executed, and re-read by xdis; versions the "
        "writer cannot represent must raise; distinct = distinct (version, program)")

PRINT_PROG = '''
import sys
def fib(n):
    a, b = 0, 1
    for _ in range(n):
        a, b = b, a + b
    return a
class C(object):
    k = (1, 2.5, "s", None, 2**40)
    def m(self, x=3):
        return [i * x for i in range(4)], {"a": x}, self.k
print(fib(20))
print(C().m())
print(sorted(set([3, 1, 2])), 0xFFFFFFFF, -2**31, "caf\\xe9")
'''


def known_key(v, msg):
    if v < (3, 0):
        if "long" in msg and "int" in msg:
            return "write-py2-ints-become-long"
        if "unicode" in msg and "str2" in msg:
            return "write-py2-str-consts-become-unicode"
        if "died" in msg or "TARGET" in msg:
            return "write-py2-target-interpreter-aborts"
    return None


def run(ctx):
    rep, drv = ctx.rep, ctx.driver
    rng = random.Random(ctx.seed + 17)
    progs = progcheck.program_set(rng, 2 if not ctx.thorough else 30)
    progs["printing"] = PRINT_PROG
    w = Worker()
    oracles = {}
    try:
        for v in sorted(core.ORACLES):
            for name, src in sorted(progs.items()):
                if name in progrun.HEAVY and not ctx.thorough:
                    continue
                oc = progcheck.oracle_compile(v, name, src, oracles)
                if "pyc" not in oc:
                    continue
                rep.count(1, (v, name))
                inp = {"version": list(v), "program": name, "source": src[:1200]}
                r = w.r("rewrite_pyc", pyc=oc["pyc"], path="portable")
                if "load_err" in r:
                    rep.violation("load:%d.%d:%s" % (v[0], v[1], name), "load_module failed on %s: %s" % (inp["program"], r), inp)
                    continue
                if "write_err" in r:
                    if v >= (3, 11):
                        continue           # the writer refuses what it cannot represent
                    rep.violation("write-raised:%d.%d:%s" % (v[0], v[1], name), "write_bytecode_file raised %s (%s) for a %d.%d file" % (r["write_err"], r.get("msg"), v[0], v[1]), inp)
                    continue
                # tie of the writer Model (dump_code3 + plain values) used by C13_write_read / C13_roundtrip
                if (3, 4) <= v <= (3, 10):
                    hx = 32 if v >= (3, 7) else 24            # header: 16 bytes from 3.7, 12 before
                    mo = drv.ask(["x.marshdumpcode %d %d %s" % (v[0], v[1], oc["pyc"][hx:])])[0]
                    if mo not in ("(skip-float)",) and mo.replace("-", "") != r["pyc"][hx:]:
                        rep.violation("corr:dumpcode:%d.%d:%s" % (v[0], v[1], name),
                                      "Model of _Marshaller (dump_code3) disagrees with the implementation on %r (%d.%d): impl %s.. model %s.." % (
                                          name, v[0], v[1], r["pyc"][hx:hx + 80], mo[:80]),
                                      dict(inp, impl=r["pyc"][hx:8000], model=mo[:8000]), found_input=False)
                    rep.coverage.setdefault("writer_model_tie", {"compared": 0, "skipped_float": 0})
                    rep.coverage["writer_model_tie"]["skipped_float" if mo == "(skip-float)" else "compared"] += 1
                # the interpreter named by the magic loads it, in a fresh process
                o = Oracle(v)
                try:
                    try:
                        back = o.r("load_pyc_native", pyc=r["pyc"], run=True)
                        orig = o.r("load_pyc_native", pyc=oc["pyc"], run=True)
                    except Exception as e:  # noqa
                        back, orig = {"err": "TARGET INTERPRETER DIED", "msg": str(e)[-120:]}, {}
                finally:
                    o.close()
                bad = None
                if "codes" not in back:
                    bad = "CPython %d.%d cannot load the written file: %s %s" % (v[0], v[1], back.get("err"), back.get("msg"))
                else:
                    fa, fb = [x["fields"] for x in back["codes"]], [x["fields"] for x in oc["codes"]]
                    if fa != fb:
                        for a, b in zip(fa, fb):
                            d = [k for k in b if a.get(k) != b[k]]
                            if d:
                                bad = "field %s of code object %r: written file has %s, original %s" % (d[0], b["co_name"], str(a.get(d[0]))[:120], str(b[d[0]])[:120])
                                break
                        else:
                            bad = "number of code objects differs"
                    elif back.get("ran") != orig.get("ran") or back.get("printed") != orig.get("printed"):
                        bad = "execution differs: written %s %s, original %s %s" % (back.get("ran"), back.get("printed"), orig.get("ran"), orig.get("printed"))
                if bad:
                    kk = known_key(v, bad)
                    rep.violation(kk or "rewrite:%d.%d:%s" % (v[0], v[1], name), "read->write of %r for CPython %d.%d: %s" % (name, v[0], v[1], bad),
                                  dict(inp, written_pyc=r["pyc"][:8000], original_pyc=oc["pyc"][:8000], call="load_module(f); write_bytecode_file(g, co, magic, ts, size)"))
                    continue
                # and xdis reads the written file back to the same content
                a1 = w.r("load_pyc", pyc=oc["pyc"], path="portable")
                a2 = w.r("load_pyc", pyc=r["pyc"], path="portable")
                if "codes" not in a2 or [c["fields"] for c in a1["codes"]] != [c["fields"] for c in a2["codes"]] or \
                        (a1["timestamp"], a1["source_size"]) != (a2["timestamp"], a2["source_size"]):
                    rep.violation("reread:%d.%d:%s" % (v[0], v[1], name), "xdis reads the written file differently from the original (%r, %d.%d)" % (name, v[0], v[1]),
                                  dict(inp, written_pyc=r["pyc"][:8000]))
        rep.sample({"programs": sorted(progs)[:6], "versions": [list(v) for v in sorted(core.ORACLES)]})
        # 3.11+ must be refused
        for v in [(3, 11), (3, 12), (3, 13)]:
            oc = progcheck.oracle_compile(v, "consts", progs["consts"], oracles)
            r = w.r("rewrite_pyc", pyc=oc["pyc"], path="portable")
            rep.count(1, ("refuse", v))
            if "pyc" in r:
                o = Oracle(v)
                back = o.r("load_pyc_native", pyc=r["pyc"])
                o.close()
                if "codes" not in back or [x["fields"] for x in back["codes"]] != [x["fields"] for x in oc["codes"]]:
                    rep.violation("write-311:%d.%d" % v, "the writer emitted a %d.%d file that CPython does not load to the same code (%s) instead of refusing" % (v[0], v[1], str(back)[:100]),
                                  {"version": list(v), "written_pyc": r["pyc"][:4000]})
    finally:
        w.close()
        for o in oracles.values():
            o.close()


def replay(ctx, rp):
    print(json.dumps({k: v for k, v in rp.get("replay", {}).items() if "pyc" not in k}, indent=1)[:1200])
    run(ctx)

/-
Model of cross_dis.xstack_effect: the rule chain in source order.  Each Python
`return <expression in oparg>` is recorded as the closed form (`EForm`) whose `eval` IS that
expression; `effect` evaluates the first rule whose guard holds.
-/
import XV.Model.OpTable
import XV.Model.Decode
import XV.Spec.StackEffect
namespace XV.Model.StackEffect
open XV XV.Model XV.Spec.StackEffect

def nm (x : String) : Str := str x

/-- Python's `opname in "BUILD_CONST_KEY_MAP"` is a SUBSTRING test -/
def bckm : Str := [66,85,73,76,68,95,67,79,78,83,84,95,75,69,89,95,77,65,80]
example : bckm = str "BUILD_CONST_KEY_MAP" := by decide

def names (xs : List (List Nat)) (n : Str) : Bool := xs.contains n

def N_BUILD_MAP : Str := [66,85,73,76,68,95,77,65,80]
def N_UNPACK_EX : Str := [85,78,80,65,67,75,95,69,88]
def N_UNPACK_SEQUENCE : Str := [85,78,80,65,67,75,95,83,69,81,85,69,78,67,69]
def N_BUILD_LIST : Str := [66,85,73,76,68,95,76,73,83,84]
def N_BUILD_SET : Str := [66,85,73,76,68,95,83,69,84]
def N_BUILD_STRING : Str := [66,85,73,76,68,95,83,84,82,73,78,71]
def N_BUILD_TUPLE : Str := [66,85,73,76,68,95,84,85,80,76,69]
def N_BUILD_SLICE : Str := [66,85,73,76,68,95,83,76,73,67,69]
def N_FORMAT_VALUE : Str := [70,79,82,77,65,84,95,86,65,76,85,69]
def N_LOAD_ATTR : Str := [76,79,65,68,95,65,84,84,82]
def N_MAKE_FUNCTION : Str := [77,65,75,69,95,70,85,78,67,84,73,79,78]
def N_CALL : Str := [67,65,76,76]
def N_CALL_KW : Str := [67,65,76,76,95,75,87]
def N_CALL_FUNCTION_EX : Str := [67,65,76,76,95,70,85,78,67,84,73,79,78,95,69,88]
def N_LOAD_SUPER_ATTR : Str := [76,79,65,68,95,83,85,80,69,82,95,65,84,84,82]
def N_INSTR_LOAD_SUPER_ATTR : Str := [73,78,83,84,82,85,77,69,78,84,69,68,95] ++ N_LOAD_SUPER_ATTR
def N_LOAD_GLOBAL : Str := [76,79,65,68,95,71,76,79,66,65,76]
def N_PRECALL : Str := [80,82,69,67,65,76,76]
def N_RAISE_VARARGS : Str := [82,65,73,83,69,95,86,65,82,65,82,71,83]
example : N_BUILD_MAP = str "BUILD_MAP" ∧ N_UNPACK_EX = str "UNPACK_EX" ∧ N_UNPACK_SEQUENCE = str "UNPACK_SEQUENCE" ∧
    N_BUILD_LIST = str "BUILD_LIST" ∧ N_BUILD_SET = str "BUILD_SET" ∧ N_BUILD_STRING = str "BUILD_STRING" ∧
    N_BUILD_TUPLE = str "BUILD_TUPLE" ∧ N_BUILD_SLICE = str "BUILD_SLICE" ∧ N_FORMAT_VALUE = str "FORMAT_VALUE" ∧
    N_LOAD_ATTR = str "LOAD_ATTR" ∧ N_MAKE_FUNCTION = str "MAKE_FUNCTION" ∧ N_CALL = str "CALL" ∧ N_CALL_KW = str "CALL_KW" ∧
    N_CALL_FUNCTION_EX = str "CALL_FUNCTION_EX" ∧ N_LOAD_SUPER_ATTR = str "LOAD_SUPER_ATTR" ∧
    N_INSTR_LOAD_SUPER_ATTR = str "INSTRUMENTED_LOAD_SUPER_ATTR" ∧ N_LOAD_GLOBAL = str "LOAD_GLOBAL" ∧
    N_PRECALL = str "PRECALL" ∧ N_RAISE_VARARGS = str "RAISE_VARARGS" := by decide

/-- the rule chain: (guard, returned expression) in source order; the last rule always fires -/
def rules (t : OpTable) (op : Nat) : List (Bool × EForm) :=
  let v := t.version
  let n := t.opnameOf op
  let pop : Int := t.oppop.getD op 0
  let push : Int := t.oppush.getD op 0
  [ (Decode.isInfix n bckm && verGe v 3 12, .affine (-1) 0),
    (n == N_BUILD_MAP && verGe v 3 5, .affine (-2) 1),
    (n == N_UNPACK_EX && verGe v 3 0, .unpackEx push),
    (n == N_UNPACK_SEQUENCE && verGe v 3 0, .affine 1 push),
    ((n == N_BUILD_LIST || n == N_BUILD_SET || n == N_BUILD_STRING || n == N_BUILD_TUPLE) && verGe v 3 12, .affine (-1) 1),
    (n == N_BUILD_SLICE, .slice3 (-1)),
    (n == N_FORMAT_VALUE, .bit 4 (-1) 0),
    (n == N_LOAD_ATTR && verGe v 3 12, .bit 1 1 0),
    (n == N_MAKE_FUNCTION && verGe v 3 6, .pop4 (if verGe v 3 11 then 0 else -1)),
    (n == N_MAKE_FUNCTION && verGe v 3 5, .table35 0),
    -- MAKE_FUNCTION before 3.5 leaves the if/elif chain without returning: generic rules below
    (n == N_CALL && verGe v 3 12 && !(n == N_MAKE_FUNCTION), .affine (-1) (-1)),
    (n == N_CALL_KW, .affine (-1) (-2)),
    (n == N_CALL_FUNCTION_EX, if verGe v 3 5 && verLt v 3 11 then .bit 1 (-2) (-1) else .bit 1 (-3) (-2)),
    ((n == N_INSTR_LOAD_SUPER_ATTR || n == N_LOAD_SUPER_ATTR) && verGe v 3 12, .bit 1 (-1) (-2)),
    (n == N_LOAD_GLOBAL && verGe v 3 11, .bit 1 2 1),
    (n == N_PRECALL && verGe v 3 11, .affine (-1) 0),
    (n == N_RAISE_VARARGS && verGe v 3 12, .affine (-1) 0),
    (decide (push ≥ 0 ∧ pop ≥ 0), .const (push - pop)),
    (decide (pop < 0) && t.vargsOps.contains op, .affine (-1) (push + (pop + 1))),
    (decide (pop < 0) && t.nargsOps.contains op, .affine (-1) (pop + push)),
    (true, .const (-100)) ]

def firstRule : List (Bool × EForm) → EForm
  | [] => .const (-100)
  | (g, f) :: rest => if g then f else firstRule rest

/-- what `xstack_effect(op, opc, oparg)` returns as a function of oparg -/
def effectForm (t : OpTable) (op : Nat) : EForm := firstRule (rules t op)

/-- `xstack_effect(opcode, opc, oparg)` (None ↦ none) -/
def effect (t : OpTable) (op arg : Nat) : Option Int := (effectForm t op).eval arg

end XV.Model.StackEffect

"""C18 — each call's result is independent of what the process did before.
Theorems: lean/XV/Props/C18.lean."""
import hashlib
import json
import os
import random
import re
from concurrent.futures import ThreadPoolExecutor

import core
import progcheck
import writes
from worker import Worker

RULE = ("seeded random histories of public operations (load_module, disassemble_file in six formats, get_opcode_module, "
        "make_std_api(...) tables / code_info / dis / show_code, xdis.marsh dumps+loads) over files of every version, run in one "
        "process; every operation of a history is a probe after its prefix and its result is compared with the result of the "
        "same call as the first thing done in a fresh process (C18_each); an operation is repeated now and then (C18_repeat); "
        "the digest of every module-level container, class attribute and default-argument object of every xdis module is taken "
        "at the start, every 10 operations and at the end and must not change (C18_tables_unchanged); distinct = distinct "
        "(history, position)")
FORMATS = ["classic", "bytes", "extended", "extended-bytes", "xasm", "header"]
FUTURE_SRC = "from __future__ import annotations\n\ndef f(x: int, *a, **k) -> int:\n    return x\n\nasync def g():\n    yield 1\n"
EXPRS = ["(1, 'a', b'x', 2.5, None, (True, False))", "[1, [2, [3, []]], {'k': (1, 2)}]", "{'a': 1, 'b': (None, Ellipsis)}",
         "(2**40, -2**70, 1.5, 3+4j)", "('x' * 300, b'y' * 5, frozenset([1, 2, 3]))"]


def norm(res):
    s = json.dumps(res, sort_keys=True, default=repr)
    s = re.sub(r" at 0x[0-9a-f]+", " at 0x", s)
    s = re.sub(r"_0x[0-9a-f]+", "_0x", s)
    s = re.sub(r"/tmp/tmp[A-Za-z0-9_]+(\.[A-Za-z0-9_.]+)?", "<tmpfile>", s)       # mkstemp names differ per call
    return s


def op_key(op):
    name, kw = op
    a = {k: (hashlib.sha1(v.encode()).hexdigest()[:10] if k == "pyc" else v) for k, v in kw.items() if not k.startswith("_")}
    return name + ":" + json.dumps(a, sort_keys=True)


def describe(op, files):
    name, kw = op
    a = {k: v for k, v in kw.items() if k not in ("pyc",) and not k.startswith("_")}
    if "pyc" in kw:
        a["file"] = files.get(kw["pyc"][:64], "?")
    return "%s(%s)" % (name, ", ".join("%s=%r" % kv for kv in sorted(a.items())))


def build_pool(ctx, rng):
    files = []
    root = os.path.join(core.REPO, "test")
    by_dir = {}
    for d, _, fs in sorted(os.walk(root)):
        for f in sorted(fs):
            if f.endswith((".pyc", ".pyo")):
                by_dir.setdefault(d, []).append(os.path.join(d, f))
    for d, fs in sorted(by_dir.items()):
        for f in rng.sample(fs, min(len(fs), 3 if ctx.thorough else 1)):
            files.append((os.path.relpath(f, core.REPO), open(f, "rb").read().hex(), "." + os.path.basename(f) if "pypy38" in f else ".pyc"))
    oracles = {}
    progs = dict(progcheck.program_set(random.Random(ctx.seed + 5), 1))
    names = sorted(progs) if ctx.thorough else ["closure2", "consts", "try_with"]
    for v in sorted(core.ORACLES):
        for name in names + ["future_annotations"]:
            src = FUTURE_SRC if name == "future_annotations" else progs.get(name)
            if src is None:
                continue
            o = progcheck.oracle_compile(v, name, src, oracles)
            if "pyc" in o:
                files.append(("compiled:%d.%d:%s" % (v[0], v[1], name), o["pyc"], ".pyc"))
    for o in oracles.values():
        o.close()
    # files the loader refuses (interim-release magics, an unknown magic, a truncated file): a refusal is a result too,
    # and must not turn into an acceptance (or the reverse) because of what was loaded before
    base = next((hx for name, hx, _ in files if name.startswith("compiled:3.8:")), None)
    if base:
        for m in (3330, 3250, 3391, 3401, 3000, 20000, 62061 + 3):
            files.append(("relabelled:%d" % m, "%02x%02x" % (m & 255, m >> 8) + base[4:], ".pyc"))
        files.append(("truncated:40", base[:80], ".pyc"))
    ops = []
    for name, hx, suffix in files:
        ops.append(("load_pyc", {"pyc": hx, "suffix": suffix}))
        if re.search(r"[_:]2\.[4-7]", name) and "dropbox" not in name:
            ops.append(("marsh_loads", {"pyc": hx, "skip": 8}))
        for fmt in (FORMATS if ctx.thorough else rng.sample(FORMATS, 3)):
            ops.append(("listing", {"pyc": hx, "suffix": suffix, "fmt": fmt}))
    versions = []
    for t in (ctx.tables or {}).get("optables", {}).values() if isinstance((ctx.tables or {}).get("optables"), dict) else []:
        pass
    reg = json.load(open(os.path.join(core.BUILD, "tables.json")))
    for tname, t in sorted(reg["optables"].items()):
        v = t.get("version")
        if not v:
            continue
        variant = "pypy" if "pypy" in tname else None
        versions.append((list(v[:2]), variant))
    for v, variant in versions:
        ops.append(("optable", {"version": v, "variant": variant}))
        ops.append(("std_api", {"version": v, "variant": variant}))
    # std-style API objects applied to files of their own version
    by_ver = {}
    for name, hx, suffix in files:
        m = re.search(r"bytecode_pypy(\d)(\d+)", name) or re.search(r"(\d)\.(\d+)", name)
        if m and "dropbox" not in name and "graal" not in name:
            by_ver.setdefault((int(m.group(1)), int(m.group(2)), "pypy" in name), []).append((hx, suffix))
    for (a, b, pypy), fl in sorted(by_ver.items()):
        hx, suffix = fl[0]
        ops.append(("std_api", {"version": [a, b], "variant": "pypy" if pypy else None, "pyc": hx, "suffix": suffix}))
    for e in EXPRS:
        ops.append(("marsh_rt", {"expr": e}))
    fmap = {hx[:64]: name for name, hx, _ in files}
    return ops, fmap


def fresh_result(op):
    w = Worker()
    try:
        name, kw = op
        rep = w.call(name, _timeout=240, **kw)
        return norm({"r": rep.get("r"), "exc": rep.get("exc"), "stdout": rep.get("stdout")})
    except (TimeoutError, RuntimeError) as e:
        return "HANG " + str(e)
    finally:
        w.close()


def run_chain(chain, baseline):
    """one process, one history; returns (mismatches [(index, got)], digest changes [(index, names)])"""
    w = Worker()
    mism, dig = [], []
    try:
        d0 = w.r("state_digest", import_all=True)
        for i, op in enumerate(chain):
            name, kw = op
            try:
                rep = w.call(name, _timeout=240, **kw)
                got = norm({"r": rep.get("r"), "exc": rep.get("exc"), "stdout": rep.get("stdout")})
            except (TimeoutError, RuntimeError) as e:
                mism.append((i, "HANG " + str(e)))
                return mism, dig
            if got != baseline[op_key(op)]:
                mism.append((i, got))
            if i % 10 == 9 or i == len(chain) - 1:
                d = w.r("state_digest")
                ch = sorted(k for k in set(d0) | set(d) if d0.get(k) != d.get(k))
                if ch:
                    dig.append((i, ch))
                    d0 = d
    finally:
        w.close()
    return mism, dig


def after_history(hist, probe):
    w = Worker()
    try:
        for name, kw in hist:
            w.call(name, _timeout=240, **kw)
        name, kw = probe
        rep = w.call(name, _timeout=240, **kw)
        return norm({"r": rep.get("r"), "exc": rep.get("exc"), "stdout": rep.get("stdout")})
    except (TimeoutError, RuntimeError) as e:
        return "HANG " + str(e)
    finally:
        w.close()


def first_diff(a, b):
    k = next((i for i, (x, y) in enumerate(zip(a, b)) if x != y), min(len(a), len(b)))
    return k, a[max(0, k - 60):k + 100], b[max(0, k - 60):k + 100]


def run(ctx):
    rep = ctx.rep
    rng = random.Random(ctx.seed)
    allow = {tuple(r[:4]) for r in writes.allow()}
    sites = writes.scan()
    new = [r for r in sites if tuple(r[:4]) not in allow]
    rep.sample({"write_sites": len(sites), "reviewed": len(allow), "unreviewed": [" ".join(map(str, r)) for r in new][:10]})
    ops, fmap = build_pool(ctx, rng)
    nchains, length = (48, 120) if ctx.thorough else (12, 50)
    # operations most likely to leave something behind go first in every history, round robin so that all are used:
    # std-style API objects applied to a file (PyPy variants first), PyPy / Dropbox / Graal files, the oldest and newest versions
    def suspect(o):
        fn = fmap.get(o[1].get("pyc", "")[:64], "")
        return (o[0] == "std_api" and "pyc" in o[1]) or any(t in fn for t in ("pypy", "dropbox", "graal", "_1.", "3.13", "3.12"))
    starters = [o for o in ops if suspect(o)]
    starters.sort(key=lambda o: (0 if (o[0] == "std_api" and o[1].get("variant")) else 1 if o[0] == "std_api" else 2, op_key(o)))
    rest = starters[:]
    rng.shuffle(rest)
    pypy_std = [o for o in starters if o[0] == "std_api" and o[1].get("variant")]
    flagged = [o for o in ops if "future_annotations" in fmap.get(o[1].get("pyc", "")[:64], "")]
    chains, si = [], 0
    for c in range(nchains):
        ch = []
        if pypy_std:
            ch.append(pypy_std[c % len(pypy_std)])
        for _ in range(4):
            if rest:
                ch.append(rest[si % len(rest)])
                si += 1
        while len(ch) < length:
            r = rng.random()
            if ch and r < 0.08:
                ch.append(ch[-1] if rng.random() < 0.5 else rng.choice(ch))
            elif flagged and r < 0.16:
                ch.append(rng.choice(flagged))
            else:
                ch.append(rng.choice(ops))
        chains.append(ch)
    used = {}
    for ch in chains:
        for o in ch:
            used.setdefault(op_key(o), o)
    with ThreadPoolExecutor(16) as ex:
        keys = sorted(used)
        baseline = dict(zip(keys, ex.map(lambda k: fresh_result(used[k]), keys)))
        results = list(ex.map(lambda ch: run_chain(ch, baseline), chains))
    kinds = {}
    for ch in chains:
        for o in ch:
            kinds[o[0]] = kinds.get(o[0], 0) + 1
    rep.sample({"pool": len(ops), "distinct_ops_run": len(used), "histories": nchains, "history_length": length, "operations_by_kind": kinds,
                "baseline_errors": sum(1 for v in baseline.values() if '"exc": null' not in v)})
    for k, v in baseline.items():
        if v.startswith("HANG"):
            rep.violation("hang:" + k[:80], "operation did not finish in a fresh process: %s" % k[:200], {"op": k[:300]})
    for ci, (ch, (mism, dig)) in enumerate(zip(chains, results)):
        for i in range(len(ch)):
            rep.count(1, (ci, i))
        for i, names in dig:
            rep.violation("tables:" + ",".join(names)[:120],
                          "module-level state changed during a history: %s differ from their values at the start (history %d, by operation %d: %s)"
                          % (", ".join(names[:6]), ci, i, describe(ch[i], fmap)),
                          {"history": [describe(o, fmap) for o in ch[:i + 1]][-12:], "changed": names[:20], "seed": ctx.seed, "chain": ci})
        for i, got in mism[:3]:
            probe = ch[i]
            want = baseline[op_key(probe)]
            # shrink: does one earlier operation alone suffice?
            minimal = None
            seen = set()
            cands = []
            for o in ch[:i]:
                if op_key(o) not in seen:
                    seen.add(op_key(o))
                    cands.append(o)
            with ThreadPoolExecutor(16) as ex:
                outs = list(ex.map(lambda o: after_history([o], probe), cands))
            for o, out in zip(cands, outs):
                if out != want:
                    minimal = [o]
                    got = out
                    break
            hist = minimal if minimal else ch[:i]
            k, a, b = first_diff(want, got)
            rep.violation("history:%s<-%s" % (op_key(probe)[:70], op_key(hist[-1])[:50] if minimal else "chain%d" % ci),
                          "%s gives a different result after %s than in a fresh process: at char %d fresh ...%s... after history ...%s..."
                          % (describe(probe, fmap), " ; ".join(describe(o, fmap) for o in hist[-3:]), k, a, b),
                          {"probe": describe(probe, fmap), "history": [describe(o, fmap) for o in hist], "probe_op": [probe[0], probe[1]],
                           "history_ops": [[o[0], o[1]] for o in hist] if minimal else "seed %d chain %d prefix %d" % (ctx.seed, ci, i),
                           "expected": a, "actual": b})


def replay(ctx, rp):
    r = rp.get("replay", {})
    print(json.dumps({k: v for k, v in r.items() if k not in ("probe_op", "history_ops")}, indent=1)[:1500])
    if isinstance(r.get("history_ops"), list):
        hist = [(o[0], o[1]) for o in r["history_ops"]]
        probe = (r["probe_op"][0], r["probe_op"][1])
        a, b = fresh_result(probe), after_history(hist, probe)
        print("fresh == after-history:", a == b)
        if a != b:
            ctx.rep.violation("history:replay", "replayed history still changes the probe's result", r)
        return
    run(ctx)

/-
C17 — whole-table theorem for the 3.11+ location table: for EVERY list of well-formed entries
(short, one-line, no-column, long and no-location forms, any varint length, negative line
deltas), xdis's `parse_positions` applied to the encoded table returns exactly one
(line, end line, column, end column) per code unit as the format defines them.
-/
import XV.Props.C17
namespace XV.Props.C17.Positions
open XV XV.Model.Lines XV.Spec.Lines XV.Props.C17
set_option linter.unusedVariables false
set_option linter.unusedSimpArgs false

/-- the first byte of an entry: marker bit, form code, length in code units -/
theorem firstByte_bits' : ∀ code, code < 16 → ∀ u, u < 9 → 1 ≤ u →
    (firstByte code u &&& 128 = 128 ∧ (firstByte code u &&& 7) + 1 = u ∧ (firstByte code u >>> 3) &&& 15 = code) := by
  decide +kernel

theorem firstByte_bits (code : Nat) (hc : code < 16) (u : Nat) (h1 : 1 ≤ u) (h2 : u ≤ 8) :
    (firstByte code u &&& 128 = 128 ∧ (firstByte code u &&& 7) + 1 = u ∧ (firstByte code u >>> 3) &&& 15 = code) :=
  firstByte_bits' code hc u (by omega) h1

theorem short_bits : ∀ c, c < 10 → ∀ hi, hi < 8 → ∀ lo, lo < 16 →
    ((hi * 16 + lo) &&& 128 = 0 ∧ ((c <<< 3) ||| ((hi * 16 + lo) >>> 4)) = c * 8 + hi ∧ (hi * 16 + lo) &&& 15 = lo) := by
  decide +kernel

/-- what xdis's decoder should produce for an entry -/
def toPE : LocEntry → PosEntry
  | .short u c hi lo => { lineDelta := 0, numLines := 0, codeDelta := u * 2, column := ((c * 8 + hi : Nat) : Int),
                          endColumn := ((c * 8 + hi + lo : Nat) : Int), noLine := false }
  | .oneLine u k col ec => { lineDelta := k, numLines := 0, codeDelta := u * 2, column := col, endColumn := ec, noLine := false }
  | .noCol u d => { lineDelta := d, numLines := 0, codeDelta := u * 2, column := -1, endColumn := -1, noLine := false }
  | .long u d ed c1 ec1 => { lineDelta := d, numLines := ed, codeDelta := u * 2, column := (c1 : Int) - 1,
                             endColumn := (ec1 : Int) - 1, noLine := false }
  | .none u => { lineDelta := 0, numLines := 0, codeDelta := u * 2, column := -1, endColumn := -1, noLine := true }

/-- one entry: `decode_position_entry` reads back exactly the entry and stops at its end -/
theorem decode_entry (e : LocEntry) (hwf : e.WF) (tail : Bytes) :
    ∃ cb rest, encodeEntry e ++ tail = cb :: rest ∧ decodePosEntry cb rest = .ok (toPE e, tail) := by
  cases e with
  | short u c hi lo =>
    obtain ⟨h1, h2, h3, h4, h5⟩ := hwf
    obtain ⟨b1, b2, b3⟩ := firstByte_bits c (by omega) u h1 h2
    obtain ⟨s1, s2, s3⟩ := short_bits c (by omega) hi h4 lo h5
    refine ⟨firstByte c u, (hi * 16 + lo) :: tail, rfl, ?_⟩
    unfold decodePosEntry
    have hc15 : ¬ c = 15 := by omega
    have hc14 : ¬ c = 14 := by omega
    have hc13 : ¬ c = 13 := by omega
    have hc10 : ¬ (c = 10 ∨ c = 11 ∨ c = 12) := by omega
    simp only [b1, b2, b3, hc15, hc14, hc13, hc10, if_false, s1, s2, s3, toPE]
    simp
  | oneLine u k col ec =>
    obtain ⟨h1, h2, h3, h4, h5⟩ := hwf
    obtain ⟨b1, b2, b3⟩ := firstByte_bits (10 + k) (by omega) u h1 h2
    refine ⟨firstByte (10 + k) u, col :: ec :: tail, rfl, ?_⟩
    unfold decodePosEntry
    have hc15 : ¬ 10 + k = 15 := by omega
    have hc14 : ¬ 10 + k = 14 := by omega
    have hc13 : ¬ 10 + k = 13 := by omega
    have hc10 : (10 + k = 10 ∨ 10 + k = 11 ∨ 10 + k = 12) := by omega
    simp only [b1, b2, b3, hc15, hc14, hc13, hc10, if_false, if_true, toPE]
    simp
    omega
  | noCol u d =>
    obtain ⟨h1, h2⟩ := hwf
    obtain ⟨b1, b2, b3⟩ := firstByte_bits 13 (by omega) u h1 h2
    refine ⟨firstByte 13 u, encSVarint d ++ tail, rfl, ?_⟩
    unfold decodePosEntry
    simp only [b1, b2, b3, C17_svarint, toPE]
    simp
  | long u d ed c1 ec1 =>
    obtain ⟨h1, h2⟩ := hwf
    obtain ⟨b1, b2, b3⟩ := firstByte_bits 14 (by omega) u h1 h2
    refine ⟨firstByte 14 u, encSVarint d ++ (encVarint ed ++ (encVarint c1 ++ (encVarint ec1 ++ tail))), by
      simp [encodeEntry], ?_⟩
    unfold decodePosEntry
    simp only [b1, b2, b3, C17_svarint, C17_varint_le, toPE]
    simp
  | none u =>
    obtain ⟨h1, h2⟩ := hwf
    obtain ⟨b1, b2, b3⟩ := firstByte_bits 15 (by omega) u h1 h2
    refine ⟨firstByte 15 u, tail, rfl, ?_⟩
    unfold decodePosEntry
    simp only [b1, b2, b3, toPE]
    simp

theorem encodeEntry_length (e : LocEntry) : 1 ≤ (encodeEntry e).length := by
  cases e <;> simp [encodeEntry]

theorem encodeLoc_length (es : List LocEntry) : es.length ≤ (encodeLoc es).length := by
  induction es with
  | nil => simp [encodeLoc]
  | cons e es ih =>
    have := encodeEntry_length e
    simp [encodeLoc] at ih ⊢
    omega

/-- the entry loop of `parse_positions`: one decoded entry per encoded entry, none left over -/
theorem posEntries_all (es : List LocEntry) (hwf : ∀ e ∈ es, e.WF) (fuel : Nat) (hf : es.length < fuel) :
    posEntries fuel (encodeLoc es) = .ok (es.map toPE) := by
  induction es generalizing fuel with
  | nil => cases fuel <;> simp [encodeLoc, posEntries]
  | cons e es ih =>
    cases fuel with
    | zero => simp at hf
    | succ fuel =>
      obtain ⟨cb, rest, henc, hdec⟩ := decode_entry e (hwf e (by simp)) (encodeLoc es)
      have : encodeLoc (e :: es) = cb :: rest := by simp [encodeLoc] at henc ⊢; exact henc
      rw [this, posEntries, hdec]
      simp only []
      rw [ih (fun x hx => hwf x (by simp [hx])) fuel (by simp at hf; omega)]
      rfl

theorem colOpt_col1 (c1 : Nat) : colOpt ((c1 : Int) - 1) = colOf c1 := by
  unfold colOpt colOf
  by_cases h : c1 = 0
  · subst h; simp
  · have : (c1 : Int) - 1 ≥ 0 := by omega
    simp [h, this]
    omega

/-- expansion per code unit: xdis's tuples are the format's -/
theorem expand_eq (es : List LocEntry) (line : Int) :
    expandPositions line (es.map toPE) = unitPositions line es := by
  induction es generalizing line with
  | nil => rfl
  | cons e es ih =>
    cases e with
    | short u c hi lo =>
      simp only [List.map_cons, expandPositions, toPE, unitPositions, ih]
      simp [colOpt]
      omega
    | oneLine u k col ec =>
      simp only [List.map_cons, expandPositions, toPE, unitPositions, ih]
      simp [colOpt]
    | noCol u d =>
      simp only [List.map_cons, expandPositions, toPE, unitPositions, ih]
      simp [colOpt]
    | long u d ed c1 ec1 =>
      simp only [List.map_cons, expandPositions, toPE, unitPositions, ih, colOpt_col1]
      simp
    | none u =>
      simp only [List.map_cons, expandPositions, toPE, unitPositions, ih]
      simp

/-- C17_positions — for every list of well-formed location entries and every first line,
    `Code311.co_positions()` over the encoded table is the format's per-unit position list -/
theorem C17_positions (first : Int) (es : List LocEntry) (hwf : ∀ e ∈ es, e.WF) :
    positions311 first (encodeLoc es) = .ok (unitPositions first es) := by
  unfold positions311
  rw [posEntries_all es hwf _ (by have := encodeLoc_length es; omega)]
  simp only [Except.map, expand_eq]

/-- non-vacuity: the hypothesis is met by a table with all five forms, a three-byte negative
    delta and a two-byte column -/
example : ∀ e ∈ [LocEntry.short 2 3 5 9, .oneLine 1 2 17 40, .noCol 8 (-3000), .long 3 70000 2 0 200, .none 4], e.WF := by
  intro e he
  simp at he
  rcases he with rfl | rfl | rfl | rfl | rfl <;> simp [LocEntry.WF]

end XV.Props.C17.Positions

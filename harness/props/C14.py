"""C14 — xdis.marsh and the built-in marshal are interchangeable on plain values.  Theorems: lean/XV/Props/C14.lean."""
import json
import random
import re

import core
import mcanon
from worker import Worker

RULE = ("plain values generated from a grammar (None, bools, Ellipsis, StopIteration, ints at every magnitude boundary 2^15, "
        "2^31, 2^63, 2^64 and beyond, floats incl. -0.0/inf/tiny, complex, bytes, text of ASCII/Latin-1/BMP/astral/lone-surrogate "
        "code points, tuples, lists, sets, frozensets, dicts incl. None keys/values, nested) x hosts 3.8-3.13: xdis.marsh.dumps -> "
        "host marshal.loads and host marshal.dumps(v, 0|1) -> xdis.marsh.loads; distinct = distinct (host, value)")

ATOMS = ["None", "True", "False", "Ellipsis", "StopIteration", "0", "1", "-1", "255", "2**15", "2**15-1", "-2**15", "2**31-1", "2**31",
         "-2**31", "-2**31-1", "2**32-1", "2**32", "2**63-1", "2**63", "-2**63", "-2**63-1", "2**64-1", "2**64", "10**30", "-10**40",
         "0xDEADBEEF", "1.5", "-0.0", "0.0", "1e308", "5e-324", "float('inf')", "float('-inf')", "3.141592653589793", "1e-5", "1+2j",
         "complex(-0.0, 1e100)", "b''", "b'abc'", "b'\\x00\\xff\\x80'", "bytes(range(256))", "''", "'abc'", "'\\xe9'", "'\\u20ac'",
         "'\\U0001f600'", "'\\udc80'", "'a\\x00b'", "'x'*300", "'\\xff'*5",
         # floats that need all 17 significant digits to round-trip, the largest double, complex special values
         "0.1+0.2", "1.0/3", "2**0.5", "1.1*1.1", "1.7976931348623157e308", "2.2250738585072014e-308", "4.35e-323", "123456789.12345679",
         "complex(1.0/3, 0.1+0.2)", "complex(1, float('inf'))", "complex(float('-inf'), -0.0)", "complex(-0.0, -0.0)", "complex(0.0, -0.0)"]
HASHABLE = [a for a in ATOMS if "float" not in a and "." not in a and "j" not in a and "e" not in a.lower().replace("ellipsis", "").replace("true", "").replace("false", "").replace("none", "").replace("stopiteration", "").replace("bytes", "").replace("range", "").replace("deadbeef", "") or a in ("None", "True", "Ellipsis", "b'abc'", "'abc'", "0xDEADBEEF")]


def gen(rng, depth=0, hashable=False):
    if depth >= 3 or rng.randrange(3) == 0:
        return rng.choice(HASHABLE if hashable else ATOMS)
    k = rng.choice(["tuple", "tuple", "fset"] if hashable else ["tuple", "list", "set", "fset", "dict"])
    n = rng.choice([0, 1, 2, 3, 5])
    if k == "tuple":
        items = [gen(rng, depth + 1, hashable) for _ in range(n)]
        return "(" + ", ".join(items) + ("," if n == 1 else "") + ")"
    if k == "list":
        return "[" + ", ".join(gen(rng, depth + 1) for _ in range(n)) + "]"
    if k in ("set", "fset"):
        # distinct string/bytes/None/int elements only (no cross-kind equal values)
        elems = rng.sample(["None", "'a'", "'b'", "b'a'", "2**40", "7", "(1, 2)", "'\\xe9'", "-5", "Ellipsis"], min(n, 6))
        body = "[" + ", ".join(elems) + "]"
        return ("set(%s)" if k == "set" else "frozenset(%s)") % body
    keys = rng.sample(["None", "'k'", "1", "(1, 2)", "b'k'", "2**70"], min(n, 5))
    return "{" + ", ".join("%s: %s" % (kk, gen(rng, depth + 1)) for kk in keys) + "}"


def defloat(sx):
    """the Model carries float texts; the implementation calls float(text): do that here (ValueError if it does not parse)"""
    bad = []

    def fl(h):
        raw = bytes.fromhex(h) if h != "-" else b""
        try:
            return mcanon.dbits(float(raw))
        except ValueError:
            bad.append(h)
            return "?"
    sx = re.sub(r"\(floattext ([0-9a-f-]+)\)", lambda m: "(float %s)" % fl(m.group(1)), sx)
    sx = re.sub(r"\(complextext ([0-9a-f-]+) ([0-9a-f-]+)\)", lambda m: "(complex %s %s)" % (fl(m.group(1)), fl(m.group(2))), sx)
    return "(err ValueError)" if bad else sx


def _parse(sx):
    """s-expression text -> nested lists of atoms"""
    toks = sx.replace("(", " ( ").replace(")", " ) ").split()
    pos = [0]

    def rd():
        t = toks[pos[0]]
        pos[0] += 1
        if t != "(":
            return t
        out = []
        while toks[pos[0]] != ")":
            out.append(rd())
        pos[0] += 1
        return out
    return rd()


def _pykey(t):
    """the Python value a rendered key/element denotes, for equality and hashing (1 == True == 1.0)"""
    k = t[0]
    if k == "none":
        return None
    if k in ("true", "false"):
        return k == "true"
    if k in ("int", "long"):
        return int(t[1])
    if k == "float":
        import struct
        x = struct.unpack(">d", bytes.fromhex(t[1]))[0]
        return x if x == x else ("nan", t[1])
    if k in ("tuple",):
        return tuple(_pykey(x) for x in t[1:])
    if k == "fset":
        return frozenset(_pykey(x) for x in t[1:])
    return (k,) + tuple(str(x) for x in t[1:])


def _unparse(t):
    return t if isinstance(t, str) else "(" + " ".join(_unparse(x) for x in t) + ")"


def pysem(t):
    """apply Python's container semantics to a tree the Model built from a stream: a dict keeps the first key object
    and the last value of equal keys, a set the first of equal elements (the Model keeps every item it read)"""
    if isinstance(t, str) or not t:
        return t
    k = t[0]
    if k == "dict":
        seen = {}
        for kv in t[1:]:
            kk, vv = pysem(kv[0]), pysem(kv[1])
            key = _pykey(kk)
            if key in seen:
                seen[key][1] = vv
            else:
                seen[key] = [kk, vv]
        return ["dict"] + sorted(([a, b] for a, b in seen.values()), key=_unparse)
    if k in ("set", "fset"):
        seen = {}
        for x in t[1:]:
            x = pysem(x)
            seen.setdefault(_pykey(x), x)
        return [k] + sorted(seen.values(), key=_unparse)
    return [k] + [pysem(x) for x in t[1:]]


def malformed(rng, streams, n):
    """truncations and single-byte mutations of well-formed version-0 streams (a separate, mostly-invalid input stream)"""
    out = []
    codes = b"0NTFS.iIlfxstRu([{<>c?g"
    for _ in range(n):
        b = bytearray(bytes.fromhex(rng.choice(streams)))
        k = rng.randrange(4)
        if k == 0 and len(b) > 1:
            b = b[:rng.randrange(1, len(b))]
        elif k == 1:
            b[rng.randrange(len(b))] = rng.choice(codes)
        elif k == 2:
            b[rng.randrange(len(b))] = rng.randrange(256)
        else:
            i = rng.randrange(len(b))
            b[i:i] = bytes([rng.choice(codes)]) + bytes(rng.randrange(256) for _ in range(rng.randrange(0, 5)))
        out.append(bytes(b).hex())
    return out


def run(ctx):
    rep, drv = ctx.rep, ctx.driver
    rng = random.Random(ctx.seed)
    hosts = dict(core.HOSTS) if ctx.thorough else {k: v for k, v in core.HOSTS.items() if k in ((3, 8), (3, 12), (3, 13))}
    exprs = list(ATOMS) + ["(lambda t: (t, t))(tuple(range(300)))", "[[], (), {}, set(), frozenset()]", "{None: 1, 2: None}"]
    exprs += [gen(rng) for _ in range(60 if not ctx.thorough else 2500)]
    # doubles drawn from random 64-bit patterns (every exponent range, full mantissas), written exactly in hex notation
    import struct
    for _ in range(60 if not ctx.thorough else 3000):
        x = struct.unpack("<d", struct.pack("<Q", rng.getrandbits(64)))[0]
        if x == x:
            exprs.append("float.fromhex(%r)" % x.hex())
    for hv, path in sorted(hosts.items()):
        w = Worker(path)
        try:
            results = [w.r("marsh_roundtrip", expr=e) for e in exprs]
            model = drv.ask(["x.marshdump %s" % r["host_dumps4"] if isinstance(r, dict) and "host_dumps4" in r else "nop" for r in results]) if hv == (3, 12) else None
            for i, (e, r) in enumerate(zip(exprs, results)):
                rep.count(1, (hv, e))
                inp = {"host": "%d.%d" % hv, "value": e}
                if not isinstance(r, dict) or "value" not in r:
                    rep.violation("worker:%s" % e, "could not evaluate %s: %s" % (e, str(r)[:100]), inp, found_input=False)
                    continue
                want = mcanon.render(r["value"])
                isnan = "nan" in e
                if "xdumps_err" in r:
                    rep.violation("dumps:%d.%d:%s" % (hv[0], hv[1], e), "xdis.marsh.dumps(%s) raised %s on host %d.%d" % (e, r["xdumps_err"], hv[0], hv[1]),
                                  dict(inp, call="xdis.marsh.dumps(value)", actual=r["xdumps_err"]))
                elif "host_loads_err" in r:
                    rep.violation("dumps:%d.%d:%s" % (hv[0], hv[1], e), "marshal.loads rejects xdis.marsh.dumps(%s) = %s with %s (host %d.%d)" % (e, r["xdumps"][:80], r["host_loads_err"], hv[0], hv[1]),
                                  dict(inp, call="marshal.loads(xdis.marsh.dumps(value))", bytes=r["xdumps"], actual=r["host_loads_err"]))
                elif mcanon.render(r["host_loads"]) != want and not isnan:
                    rep.violation("dumps:%d.%d:%s" % (hv[0], hv[1], e), "marshal.loads(xdis.marsh.dumps(%s)) = %s, not the value %s (host %d.%d)" % (e, mcanon.render(r["host_loads"])[:150], want[:150], hv[0], hv[1]),
                                  dict(inp, bytes=r["xdumps"], actual=mcanon.render(r["host_loads"])[:2000], expected=want[:2000]))
                for ver in (0, 1):
                    if "host_dumps%d" % ver not in r:
                        continue
                    if "xloads%d_err" % ver in r:
                        rep.violation("loads:%d.%d:%d:%s" % (hv[0], hv[1], ver, e), "xdis.marsh.loads(marshal.dumps(%s, %d)) raised %s (host %d.%d)" % (e, ver, r["xloads%d_err" % ver], hv[0], hv[1]),
                                      dict(inp, call="xdis.marsh.loads(marshal.dumps(value, %d))" % ver, bytes=r["host_dumps%d" % ver], actual=r["xloads%d_err" % ver]))
                    elif mcanon.render(r["xloads%d" % ver]) != want and not isnan:
                        rep.violation("loads:%d.%d:%d:%s" % (hv[0], hv[1], ver, e), "xdis.marsh.loads(marshal.dumps(%s, %d)) = %s, not %s (host %d.%d)"
                                      % (e, ver, mcanon.render(r["xloads%d" % ver])[:150], want[:150], hv[0], hv[1]),
                                      dict(inp, bytes=r["host_dumps%d" % ver], actual=mcanon.render(r["xloads%d" % ver])[:2000], expected=want[:2000]))
                if model is not None and "xdumps" in r and model[i] not in ("(skip-float)", "nop") and model[i].replace("-", "") != r["xdumps"]:
                    rep.violation("corr:dumps:%s" % e, "Model of _Marshaller disagrees with implementation on %s: impl %s model %s" % (e, r["xdumps"][:120], model[i][:120]),
                                  dict(inp, impl=r["xdumps"], model=model[i]), found_input=False)
            # Spec writer (marshal.c w_object, format versions 0/1) byte-exact against this host
            okr = [r for r in results if isinstance(r, dict) and "host_dumps0" in r and "host_dumps4" in r]
            spec = drv.ask(["py.wobj01 %s" % r["host_dumps4"] for r in okr])
            nspec = 0
            for r, m in zip(okr, spec):
                if m.startswith("("):
                    continue
                nspec += 1
                for ver in (0, 1):
                    if m.replace("-", "") != r.get("host_dumps%d" % ver):
                        rep.violation("corr:wobj:%d.%d" % hv, "Spec writer disagrees with marshal.dumps(v, %d) on host %d.%d: host %s spec %s"
                                      % (ver, hv[0], hv[1], str(r.get("host_dumps%d" % ver))[:100], m[:100]),
                                      {"host": "%d.%d" % hv, "host_dumps4": r["host_dumps4"], "spec": m}, found_input=False)
                        break
            rep.count(nspec, (hv, "spec-writer-tie"))
            # Model of _FastUnmarshaller against xdis.marsh.loads: the host's version-0 streams plus malformed ones
            good = sorted(set(r["host_dumps0"] for r in okr))
            crafted = ["3c010000005b00000000", "3e01000000280100000" + "05b00000000", "7b5b000000004e30", "7b4e4e30", "7b4e30",
                       "2803000000740100000061520000000052ffffffff", "5200000000", "2802000000740200000c3a9"[:0] + "28020000007402000000c3a95201000000",
                       "7401000000ff", "4900000000000000" + "80", "49ffffffffffffff7f", "6cfeffffff01000200", "6c02000000ff7f0180", "6c0100000000ff",
                       "30", "5b0100000030", "5bffffffff", "28ffffff7f4e", "73ffffffff", "7305000000abcd", "6605312e35", "66ff", "7801310132", "63", "3f", ""]
            streams = good + crafted + malformed(rng, good + crafted[:12], 300 if not ctx.thorough else 6000)
            impl = w.r("marsh_fastloads", streams=streams)
            mod = drv.ask(["x.fastloads %s" % (h or "-") for h in streams])
            kinds = {}
            for h, a, m in zip(streams, impl["results"] if isinstance(impl, dict) else [], mod):
                if m.startswith("(skip") or a[0] == "untreeable":
                    kinds["skipped"] = kinds.get("skipped", 0) + 1
                    continue
                if a[0] == "err":
                    got = "(err %s)" % a[1]
                else:
                    got = mcanon.render(a[1])
                want = m if m.startswith("(err") else defloat(m.split(" ", 1)[1])
                if not want.startswith("(err") and ("(dict" in want or "set" in want):
                    want = _unparse(pysem(_parse(want)))
                    got = _unparse(pysem(_parse(got))) if not got.startswith("(err") else got
                kinds[got if a[0] == "err" else "ok"] = kinds.get(got if a[0] == "err" else "ok", 0) + 1
                if got != want:
                    # a bad float text raises ValueError at once in the implementation, the Model reads on: unjudged
                    if got == "(err ValueError)" and (b"f" in bytes.fromhex(h) or b"x" in bytes.fromhex(h)):
                        kinds["skipped"] = kinds.get("skipped", 0) + 1
                        continue
                    rep.violation("corr:fastloads:%d.%d" % hv, "Model of xdis.marsh.loads disagrees with the implementation on %s: impl %s model %s (host %d.%d)"
                                  % (h[:80], got[:120], want[:120], hv[0], hv[1]), {"host": "%d.%d" % hv, "stream": h, "impl": got, "model": want},
                                  found_input=False)
                    break
            rep.count(len(streams), (hv, "fastloads-tie"))
            rep.notes.append("fastloads tie host %d.%d: %d streams (%d well-formed), outcomes %s" % (hv[0], hv[1], len(streams), len(good), json.dumps(kinds, sort_keys=True)))
            rep.sample({"host": "%d.%d" % hv, "value": exprs[-1], "xdis.marsh.dumps": results[-1].get("xdumps", "")[:80]})
            # the same questions after this process has marshalled code objects of other versions
            hist = w.r("marsh_history", repo=core.REPO)
            sub = sorted(set(range(len(ATOMS))) | set(range(0, len(exprs), max(1, len(exprs) // 60))))
            for i in sub:
                r1 = results[i]
                if not isinstance(r1, dict) or "xdumps" not in r1:
                    continue
                r2 = w.r("marsh_roundtrip", expr=exprs[i])
                rep.count(1, (hv, "after-history", exprs[i]))
                if not isinstance(r2, dict) or r2.get("xdumps") != r1["xdumps"] or \
                        ("host_loads" in r1 and mcanon.render(r2.get("host_loads", ["none"])) != mcanon.render(r1["host_loads"]) and "nan" not in exprs[i]):
                    rep.violation("dumps-after-history:%d.%d:%s" % (hv[0], hv[1], exprs[i]),
                                  "xdis.marsh.dumps(%s) gives %s after code objects of other versions were marshalled in the process, %s before (host %d.%d)"
                                  % (exprs[i], str((r2 or {}).get("xdumps", (r2 or {}).get("xdumps_err")))[:80], r1["xdumps"][:80], hv[0], hv[1]),
                                  {"host": "%d.%d" % hv, "value": exprs[i], "history": hist.get("done") if isinstance(hist, dict) else str(hist)[:200],
                                   "before": r1["xdumps"], "after": (r2 or {}).get("xdumps"),
                                   "call": "marsh_history (dumps / write_bytecode_file of corpus code objects), then xdis.marsh.dumps(value)"})
                    break
        finally:
            w.close()


def replay(ctx, rp):
    r = rp.get("replay", {})
    print(json.dumps(r, indent=1)[:1000])
    if "value" in r and "host" in r:
        hv = tuple(int(x) for x in r["host"].split("."))
        w = Worker(core.HOSTS[hv])
        try:
            got = w.r("marsh_roundtrip", expr=r["value"])
            print("now:", str(got)[:400])
            bad = "xdumps_err" in got or "host_loads_err" in got or mcanon.render(got.get("host_loads", ["none"])) != mcanon.render(got["value"]) \
                or any(("xloads%d_err" % k) in got or (("xloads%d" % k) in got and mcanon.render(got["xloads%d" % k]) != mcanon.render(got["value"])) for k in (0, 1))
            if bad:
                ctx.rep.violation(rp["key"], rp["what"], r)
        finally:
            w.close()

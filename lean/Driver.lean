/-
xvdriver: line protocol over the executable Model/Spec definitions — the SAME
definitions the theorems are about, compiled.  One request per line
(`op arg arg ...`), one reply line.  No Mathlib import anywhere below, so this
links as a plain executable.
-/
import XV.Driver.Ops

partial def loop (h : IO.FS.Stream) (out : IO.FS.Stream) : IO Unit := do
  let line ← h.getLine
  if line.isEmpty then return ()
  let ws := (line.trimAscii.toString.splitOn " ").filter (· ≠ "")
  match ws with
  | [] => out.putStrLn "(err empty)"
  | op :: args => out.putStrLn (XV.Driver.dispatch op args)
  loop h out

def main : IO Unit := do
  let out ← IO.getStdout
  loop (← IO.getStdin) out
  out.flush

"""C17 — 3.11+ exception and position tables.  Theorems: lean/XV/Props/C17.lean."""
import json
import random

import core
import progrun
import gen_lines
from worker import Worker, Oracle

RULE = ("location/exception tables generated from the format grammar through the Spec ENCODERS (every entry form, "
        "1-3 byte varints, negative line deltas) and decoded by implementation, Lean Model and CPython 3.11/3.12/3.13; "
        "distinct = distinct (version, table bytes)")
VERS = [(3, 11), (3, 12), (3, 13)]


def fpos(ps):
    return ",".join("N" if (p is None or p[0] is None) else "%s:%s:%s:%s" % tuple("N" if x is None else x for x in p) for p in ps) or "-"


def fexc(es):
    return ",".join("%d:%d:%d:%d:%d" % (a, b, c, d, 1 if e else 0) for a, b, c, d, e in es) or "-"


def run(ctx):
    rep, drv = ctx.rep, ctx.driver
    rng = random.Random(ctx.seed)
    w = Worker()
    oracles = {v: Oracle(v) for v in VERS}
    progrun.apply(ctx, "diff_tables311", "exception/position tables")
    try:
        N = 80 if not ctx.thorough else 2500
        first = 20000
        # ---------------- location table: positions and per-unit lines
        ecs = [("s:2:0:1:3,n:1:-3,l:8:200:1:5:70,z:1", 12), ("l:1:0:0:0:0", 1), ("n:3:2048", 3)] + \
              [gen_lines.loc_entries(rng) for _ in range(N)]
        enc = drv.ask(["py.encloc " + es for es, _ in ecs])
        outs = drv.ask(sum([["x.positions311 %d %s" % (first, h), "py.unitpositions %d %s" % (first, es),
                             "x.colines311 %d %s" % (first, h), "py.unitlines %d %s" % (first, es)]
                            for (es, _), h in zip(ecs, enc)], []))
        for i, ((es, units), h) in enumerate(zip(ecs, enc)):
            mpos, spos, mcol, sul = outs[4 * i:4 * i + 4]
            for v in VERS:
                o = oracles[v]
                inp = {"version": list(v), "first": first, "linetable": h, "entries": es}
                r = w.r("co_positions", version=list(v), first=first, tab=h)
                ip = fpos(r["positions"]) if "positions" in r else "(err %s)" % r["err"]
                op_ = fpos(o.r("co_positions", first=first, code_len=units * 2, tab=h))
                rep.count(1, (v, h))
                if spos != op_:
                    rep.notes.append("spec_drift positions %s: spec %s oracle %s" % (inp, spos, op_))
                if ip != op_:
                    rep.violation("positions:%d.%d:%s" % (v[0], v[1], h), "co_positions() differs from CPython %d.%d on %s: xdis %s CPython %s"
                                  % (v[0], v[1], inp, ip[:300], op_[:300]), dict(inp, call="Code311.co_positions()", actual=ip, expected=op_))
                elif ip != mpos:
                    rep.violation("corr:positions:%s" % h, "Model of parse_positions disagrees with implementation on %s: impl %s model %s" % (inp, ip[:300], mpos[:300]),
                                  dict(inp, impl=ip, model=mpos), found_input=False)
                r = w.r("co_lines", version=list(v), first=first, tab=h)
                if "ranges" in r:
                    il = ",".join("%d:%d:%s" % (a, b, "N" if c is None else c) for a, b, c in r["ranges"]) or "-"
                    iu = sum([[c] * ((b - a) // 2) for a, b, c in r["ranges"]], [])
                else:
                    il, iu = "(err %s)" % r["err"], None
                ou = sum([[c] * ((b - a) // 2) for a, b, c in o.r("co_lines", first=first, code_len=units * 2, tab=h)], [])
                su = [None if x == "N" else int(x) for x in sul.split(",")]
                if su != ou:
                    rep.notes.append("spec_drift unit lines %s" % inp)
                if iu != ou:
                    rep.violation("unitlines:%d.%d:%s" % (v[0], v[1], h), "line of each code unit differs from CPython %d.%d co_lines() on %s: xdis %s CPython %s"
                                  % (v[0], v[1], inp, iu, ou), dict(inp, call="Code311.co_lines()", actual=iu, expected=ou))
                elif il != mcol:
                    rep.violation("corr:colines311:%s" % h, "Model of parse_linetable disagrees with implementation on %s: impl %s model %s" % (inp, il, mcol),
                                  dict(inp, impl=il, model=mcol), found_input=False)
            if i < 2:
                rep.sample({"entries": es, "linetable": h, "positions": mpos[:120], "unit_lines": sul[:80]})
            if i % 4 == 0:
                # the tables are a function of (first line, table): an object queried once and then moved
                # (replace / attribute assignment) answers like a fresh object at the new first line
                for v in VERS:
                    rr = w.r("relocate311", version=list(v), first=first, delta=1000, tab=h)
                    rep.count(1, ("relocate", v, h))
                    if "fresh_lines" not in rr:
                        continue
                    for how in ("replace", "assign"):
                        if rr[how + "_lines"] != rr["fresh_lines"] or rr[how + "_positions"] != rr["fresh_positions"]:
                            rep.violation("relocate:%d.%d:%s:%s" % (v[0], v[1], how, h),
                                          "after co_lines()/co_positions() were queried once, moving the code object to first line %d by %s gives %s, a fresh object gives %s (%d.%d, table %s)"
                                          % (first + 1000, "replace(co_firstlineno=...)" if how == "replace" else "assignment to co_firstlineno",
                                             str(rr[how + "_lines"])[:100], str(rr["fresh_lines"])[:100], v[0], v[1], h),
                                          {"version": list(v), "first": first, "linetable": h, "entries": es, "moved_by": how,
                                           "actual": rr[how + "_lines"], "expected": rr["fresh_lines"],
                                           "call": "co.co_lines(); co.co_positions(); co2 = co.replace(co_firstlineno=first+1000); co2.co_lines()"})
                            break
        # ---------------- exception table
        xs = ["0:2:4:0:1", "1000:2000:3000:33:0", "-"] + [gen_lines.exc_entries(rng) for _ in range(N)]
        enc = drv.ask(["py.encexc " + e for e in xs])
        outs = drv.ask(["x.exctable " + h for h in enc])
        for e, h, mo in zip(xs, enc, outs):
            want = "-" if e == "-" else ",".join("%d:%d:%d:%d:%d" % (2 * a, 2 * a + 2 * b, 2 * c, d, l) for a, b, c, d, l in
                                                  [tuple(int(x) for x in t.split(":")) for t in e.split(",")])
            hh = "" if h == "-" else h
            r = w.r("exc_table", tab=hh)
            ie = fexc(r["entries"]) if "entries" in r else "(err %s)" % r["err"]
            inp = {"exception_table": hh, "entries(start,len,target,depth,lasti in code units)": e}
            for v in VERS:
                oe = fexc(oracles[v].r("exc_table", code_len=8, tab=hh))
                rep.count(1, ("exc", v, hh))
                if oe != want:
                    rep.notes.append("spec_drift exctable %s: encoder-meaning %s CPython %s" % (inp, want, oe))
                if ie != oe:
                    rep.violation("exctable:%s" % hh, "parse_exception_table differs from CPython %d.%d on %s: xdis %s CPython %s" % (v[0], v[1], inp, ie, oe),
                                  dict(inp, call="xdis.bytecode.parse_exception_table", actual=ie, expected=oe))
                    break
            else:
                if ie != mo:
                    rep.violation("corr:exctable:%s" % hh, "Model of parse_exception_table disagrees: impl %s model %s" % (ie, mo), dict(inp, impl=ie, model=mo), found_input=False)
            # what Bytecode exposes and renders
            rb = w.r("bytecode_exc_entries", version=[3, 12], code_len=8, tab=hh)
            if "entries" in rb:
                be = fexc(rb["entries"]) if rb["entries"] is not None else "-"
                if be != ie:
                    rep.violation("bytecode-exc-entries:%s" % hh, "Bytecode.exception_entries %s differs from parse_exception_table %s" % (be, ie), dict(inp), found_input=True)
                lines = rb["text"].split("\n")[1:] if rb["text"] else []
                wantl = ["  %d to %d -> %d [%d]%s" % (a, b - 2, c, d, " lasti" if l else "") for a, b, c, d, l in (rb["entries"] or [])]
                if lines != wantl:
                    rep.violation("render-exctable:%s" % hh, "ExceptionTable section does not list the entries: %r vs %r" % (lines[:3], wantl[:3]), dict(inp, text=rb["text"]))
        rep.sample({"exception_entries": xs[1], "table": enc[1], "parsed": outs[1]})
    finally:
        w.close()
        for o in oracles.values():
            o.close()


def replay(ctx, rp):
    print(json.dumps(rp.get("replay"), indent=1)[:1500])
    r = rp.get("replay", {})
    w = Worker()
    try:
        if "linetable" in r and rp["key"].startswith("positions"):
            got = w.r("co_positions", version=r["version"], first=r["first"], tab=r["linetable"])
            now = fpos(got.get("positions", []))
            print("now:", now[:300])
            if now != r.get("expected"):
                ctx.rep.violation(rp["key"], rp["what"], r)
        elif "exception_table" in r:
            got = w.r("exc_table", tab=r["exception_table"])
            now = fexc(got.get("entries", []))
            print("now:", now)
            if now != r.get("expected"):
                ctx.rep.violation(rp["key"], rp["what"], r)
    finally:
        w.close()

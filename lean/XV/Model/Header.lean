/-
Model of load.py::load_module_from_file_object up to the point where the code object is
read (header parsing), with `get_code=False`.  Outcomes are explicit: the returned fields,
ImportError, or an exception of another class escaping.
-/
import XV.Base.Bytes
import XV.Model.Magic
namespace XV.Model.Header
open XV XV.Model

inductive Out where
  | ok (ver : List Nat) (ts : Option Nat) (magic : Nat) (pypy : Bool) (size : Option Nat) (sip : Option Nat) (pos : Nat)
  | importError
  | dropbox                        -- magic 62135: fix_dropbox_pyc inside try/except → returns or ImportError
  | escaped (cls : String)
  deriving DecidableEq, Repr

def interim : List Nat :=
  [3010, 3020, 3030, 3040, 3050, 3060, 3061, 3071, 3361, 3091, 3101, 3103, 3141, 3270, 3280, 3290, 3300, 3320, 3330,
   3371, 62071, 62071, 62081, 62091, 62092, 62111]

structure Tables where
  tuples : List (Nat × Option (List Nat))     -- magic_int2tuple, as observed (Gen.implTuple)
  versions : List (List Nat × Str)            -- the `versions` dict: 4-byte magic ↦ name
  pypy3 : List Nat

def tupleOf (tb : Tables) (m : Nat) : Option (List Nat) := (tb.tuples.lookup m).join

def verGe (v : List Nat) (a b : Nat) : Bool :=
  match v with
  | x :: y :: _ => x > a || (x == a && y ≥ b)
  | _ => false

inductive Kind where | tsOnly | tsSize | pep552 (forceHash : Bool)
  deriving DecidableEq, Repr

/-- which header form load.py reads for a magic of version `v` -/
def kindOf (tb : Tables) (magic : Nat) (v : List Nat) : Kind :=
  if magic = 3439 ∨ verGe v 3 7 then .pep552 (magic = 3393)
  else if (3200 ≤ magic ∧ magic < 20121 ∧ verGe v 1 5) ∨ tb.pypy3.contains magic then .tsSize
  else .tsOnly

/-- fields after the 4-byte magic; `none` = a short read made unpack()/indexing raise (→ ImportError) -/
def parseFields (k : Kind) (rest : Bytes) : Option (Option Nat × Option Nat × Option Nat × Nat) :=
  match k with
  | .tsOnly => if rest.length ≥ 4 then some (some (leNat (rest.take 4)), none, none, 8) else none
  | .tsSize => if rest.length ≥ 8 then some (some (leNat (rest.take 4)), some (leNat ((rest.drop 4).take 4)), none, 12) else none
  | .pep552 force =>
    match rest.head? with
    | none => none                    -- ts[0] on an empty read: IndexError
    | some b0 =>
      if rest.length < 4 then none    -- a short flag word: the next unpack sees a short read
      else if (b0 &&& 1 ≠ 0) ∨ force then
        if rest.length ≥ 12 then some (none, none, some (leNat ((rest.drop 4).take 8)), 16) else none
      else
        if rest.length ≥ 12 then some (some (leNat ((rest.drop 4).take 4)), some (leNat ((rest.drop 8).take 4)), none, 16) else none

/-- `load_module_from_file_object(fp, filename, get_code=False)` on the bytes of the file -/
def load (tb : Tables) (data : Bytes) (pypy38name : Bool) : Out :=
  if data.length < 4 then .escaped "error"        -- struct.error from magic2int (load_module's size check prevents this)
  else
  let magic4 := data.take 4
  let magicInt := leNat (magic4.take 2)
  let rewritten := data.head? == some 48           -- b"0": PyPy 3.2
  let magic4' := if rewritten then int2magic 3187 else magic4
  match tupleOf tb magicInt with
  | none => .importError                            -- unknown magic (incl. the Pyston message)
  | some tv =>
    if interim.contains magicInt then .importError     -- "interim bytecode" message
    else if magicInt = 62135 then .dropbox
    else if magicInt = 62215 then .importError          -- "dropbox-hacked" message
    else
      let magicInt2 := leNat (magic4'.take 2)
      match tupleOf tb magicInt2 with
      | none => .importError                          -- KeyError inside the try → ImportError
      | some v =>
        match parseFields (kindOf tb magicInt2 v) (data.drop 4) with
        | none => .importError
        | some (ts, size, sip, pos) =>
          .ok tv ts magicInt2 (isPypyMagic tb.pypy3 magicInt2 pypy38name) size sip pos

end XV.Model.Header

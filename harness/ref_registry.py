"""CPython's own magic-number registry, read from the newest installed
interpreter's importlib/_bootstrap_external.py (a comment block), plus the magic
each installed interpreter really writes."""
import glob
import json
import re
import subprocess
import sys

from oracles import ORACLES, PYENV


def registry():
    paths = sorted(glob.glob(PYENV + "/3.13*/lib/python3.13/importlib/_bootstrap_external.py"))
    rows = []
    for line in open(paths[-1]):
        m = re.match(r"^#\s+Python (\S+?):?\s+(\d+)\b", line)
        if not m:
            continue
        label, magic = m.group(1), int(m.group(2))
        if label == "3000":
            major, minor = 3, 0
        else:
            mm = re.match(r"^(\d)\.(\d+)", label)
            major, minor = int(mm.group(1)), int(mm.group(2))
        rows.append([label, magic, major, minor])
    return rows


def installed():
    out = []
    code = ("import sys\ntry:\n import importlib.util as u; m=u.MAGIC_NUMBER\nexcept Exception:\n import imp; m=imp.get_magic()\n"
            "b=bytearray(m); print('%s %s %d %s' % (list(sys.version_info[:3]), sys.version_info[3], b[0]+256*b[1], list(b)))")
    for v, p in sorted(ORACLES.items()):
        s = subprocess.check_output([p, "-c", code]).decode().strip()
        m = re.match(r"^\[(\d+), (\d+), (\d+)\] (\w+) (\d+) \[(.*)\]$", s)
        out.append({"version": [int(m.group(1)), int(m.group(2)), int(m.group(3))], "level": m.group(4),
                    "magic": int(m.group(5)), "bytes": [int(x) for x in m.group(6).split(",")]})
    return out


if __name__ == "__main__":
    json.dump({"registry": registry(), "installed": installed()}, open(sys.argv[1], "w"))

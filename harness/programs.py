"""Source programs compiled by every reference interpreter whose grammar accepts them.
A fixed feature corpus plus seeded generated variants (Appendix C of DESIGN.md)."""

BASE = {
    "closure_param_cell": '''
def outer(a, b, *args, k=1, **kw):
    c = a + b
    def mid(x, y=c):
        z = x + a
        def inner(q):
            return q + z + a + x + k
        return inner
    return mid
class K:
    v = 1
    def m(self, n):
        def g():
            return self.v + n
        return g
''',
    "closure2": '''
def outer(a, b, *args, **kw):
    c = a + b
    def mid(x, y=c):
        z = x + a
        def inner(q):
            return q + z + a + x + b
        return inner
    return mid, args, kw
class K:
    def m(self, n):
        def g():
            return self, n
        return g
''',
    "shared_consts": '''
T = (1, 2, 3)
def f(x):
    return x in {"alpha", "beta", "gamma"}, (1, 2, 3), 300000, "gamma", (10, 20, 30, "alpha")
def g(x):
    return x in {"alpha", "beta", "gamma"}, (1, 2, 3), 300000, "alpha", (10, 20, 30, "alpha"), 2.5, 2.5
def h(x):
    return (1, 2, 3), x in {"alpha", "beta", "gamma"}, 123456789012345678901234567890, 123456789012345678901234567890
''',
    "shared_sets": '''
def classify(word, extra):
    if word in {"alpha", "beta", "gamma"}:
        return "alpha"
    if extra in {10, 2000, 300000}:
        return 2000
    return ("beta", "gamma", 300000, word)


def other(y, z):
    if z in {10, 2000, 300000}:
        return 10
    return y in {"alpha", "beta", "gamma"} or z == "gamma"
''',
    "loops_jumps": '''
def f(n):
    t = 0
    i = 0
    while i < n:
        if i % 2:
            i += 1
            continue
        for j in range(i):
            if j > 5:
                break
            t += j
        else:
            t -= 1
        i += 1
    while True:
        t += 1
        if t > 100:
            break
    return t
def g(xs):
    return [x * 2 for x in xs if x] , {x: 1 for x in xs}, {x for x in xs}
''',
    "try_with": '''
def f(p):
    try:
        with open(p) as fh:
            return fh.read()
    except (IOError, OSError) as e:
        return str(e)
    except Exception:
        raise
    finally:
        p = None
def h(x):
    try:
        try:
            return 1 / x
        finally:
            x = 0
    except ZeroDivisionError:
        return 0
''',
    "consts": '''
A = (1, 2.5, -0.0, 1e400, 3+4j, "s", b"b", None, True, Ellipsis, (1, (2, (3,))))
B = 2**31, 2**31 - 1, -2**31, 2**63, -2**63 - 1, 2**100, 10**30, 0xFFFFFFFF, 1 << 15, (1 << 15) - 1
C = -2**31 - 1, -2**40, -(2**62), 2**40, -4294967296, 0.1 + 0.2, 1.0 / 3, 1.7976931348623157e308, 5e-324
def f(x):
    if x in {1, 2, 3}:
        return "in-set"
    if x in (4, 5, 6):
        return u"\\u00e9\\u20ac", "\\x00\\xff"
    return frozenset, 1.5e-300, 12345678901234567890
''',
    "globals_attrs": '''
import os.path as P
G = 1
def f(o):
    global G
    G = o.a.b.c + len(o) + abs(G)
    o.x = P.join("a", "b")
    del o.y
    return o.method(1, k=2), print
''',
    "generators": '''
def g(n):
    for i in range(n):
        x = yield i
        if x:
            return x
def h(it):
    yield from it if False else it
    return (y for y in it)
''',
    "manylines": "x0 = 0\\n" + "\\n" * 140 + "x1 = 1\\n" + "\\n" * 300 + "x2 = (1 +\\n  2 +\\n  3)\\ny = f(a,\\n b,\\n c)\\n" if False else None,
    "async_code": '''
async def co(a):
    async with a as b:
        async for c in b:
            await c
    return [x async for x in a]
''',
    "posonly_kwonly": '''
def f(a, b, /, c, *, d, e=2):
    return a + b + c + d + e
def g(*, k):
    return lambda q, /: q + k
''',
    "match_stmt": '''
def f(p):
    match p:
        case (x, y) if x > y:
            return 1
        case {"k": v}:
            return v
        case [1, 2, *rest]:
            return rest
        case _:
            return None
''',
    "fstrings_walrus": '''
def f(a, b):
    if (n := len(a)) > 3:
        return f"{a!r:>{n}} {b=} {n:04d}"
    return f"{a}{b}"
''',
    "super_attr": '''
class A:
    def area(self): return 1
    size = 2
class B(A):
    def area(self):
        return super().area() + super().size + super(B, self).area()
''',
    "py2_only": '''
def f(a, (b, c)):
    print a, b
    exec "x=1"
    return `a`, 10L, 0777, ur"x"
''',
    "same_shape": '''
class P:
    def get_x(self):
        return self._x

    def get_y(self):
        return self._y


    def get_z(self):
        return self._z
f1 = lambda a: a + 1
f2 = lambda a: a + 1

f3 = lambda a: a + 1
def outer():
    def get_a():
        return a
    def get_b():
        return b
    a = b = 1
    return get_a, get_b
''',
    "kinds_in_sets": '''
def sniff(head, tag, n):
    if head[:4] in {b"GIF8", b"RIFF", b"\\x89PNG"}:
        return "image"
    if tag in {None, 0}:
        return None
    if tag in {"abc", None, 7, 2.5, (1, b"x")}:
        return b"abc"
    return n in {b"AIFC", "AIFC"}, (b"GIF8", "GIF8", frozenset)
''',
    "inlined_comprehensions": '''
data = [1, 2, 3]
squares = [x * x for x in data]
pairs = {k: v for k, v in zip(data, squares)}
evens = {y for y in data if y % 2 == 0}
class Table:
    rows = [n + 1 for n in data]
    def cell(self, z):
        return [z + w for w in self.rows]
def shadow(x):
    x = [x for x in range(x)]
    return lambda: x
''',
    "big_tables": None,
    "exc_star": '''
def f():
    try:
        g()
    except* ValueError as e:
        pass
    except* TypeError:
        raise
''',
}


def big_tables(n=262):
    lines = ["def f():"]
    for i in range(n):
        lines.append("    v%d = %d" % (i, 1000 + i))
    lines.append("    return " + " + ".join("v%d" % i for i in range(0, n, 7)) + " + " + " + ".join("g%d" % i for i in range(n)))
    return "\n".join(lines) + "\n"


def big_bytes_tuple(n=300):
    """a constant tuple of more than 255 items mixing bytes and text, and a code object with more than 255 constants"""
    items = ", ".join(("b'k%d'" % i) if i % 2 == 0 else ("'t%d'" % i) for i in range(n))
    lines = ["T = (%s)" % items, "def f():"]
    for i in range(n):
        lines.append("    g(%s)" % (("b'c%d'" % i) if i % 3 == 0 else ("'d%d'" % i)))
    return "\n".join(lines) + "\n"


def manylines():
    return ("x0 = 0\n" + "\n" * 140 + "x1 = 1\n" + "#c\n" * 300 + "x2 = (1 +\n  2 +\n  3)\n"
            "def f(a, b, c):\n    return a\ny = f(x0,\n x1,\n x2)\n" + "z = f(\n" + "  x0,\n" * 140 + "  x1, x2)\nw = 1; v = 2\n")


def long_jump_body(n=90):
    """a loop body long enough that jump operands exceed 255 (and code > 255 bytes pre-3.6)"""
    lines = ["def f(a):", "    t = 0", "    for i in a:", "        if i:"]
    for k in range(n):
        lines.append("            t = t + i * %d - a[%d]" % (k + 2, k % 5))
        if k % 25 == 24:
            lines.append("            if t > %d: continue" % k)
    lines += ["        else:", "            t -= 1", "    return t"]
    return "\n".join(lines) + "\n"


def corpus():
    out = {}
    for k, v in BASE.items():
        if v is not None:
            out[k] = v.lstrip("\n")
    out["big_tables"] = big_tables()
    out["manylines"] = manylines()
    out["big_bytes_tuple"] = big_bytes_tuple()
    out["long_jumps"] = long_jump_body()
    out["extarg3"] = "#craft:extarg  (the reference interpreter replaces the body: see oracle_ext.compile_program)\nx = 0\n"
    return out


def generated(rng, n):
    """seeded variants: functions with random numbers of args/cells/consts/line gaps"""
    out = {}
    for i in range(n):
        na = rng.randrange(0, 4)
        nl = rng.randrange(0, 4)
        args = ["a%d" % j for j in range(na)]
        body = []
        for j in range(nl):
            body.append("    l%d = %s" % (j, rng.choice(["1", "a0" if na else "2", "'s%d'" % j, "(1, 2)", "%d" % rng.randrange(-5, 2 ** rng.choice([8, 16, 31, 40, 70]))])))
            body.append("\n" * rng.choice([0, 0, 1, 3, 130]))
        cap = [x for x in args + ["l%d" % j for j in range(nl)] if rng.randrange(2)]
        body.append("    def inner(p):\n        return p%s\n" % "".join(" + " + c for c in cap))
        body.append("    while %s:\n        break\n" % (args[0] if args else "True"))
        body.append("    return inner\n")
        out["gen%d" % i] = "def f%d(%s):\n%s" % (i, ", ".join(args), "\n".join(body))
    return out

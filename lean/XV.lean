-- Root of the `XV` library: import everything that must be built.
import XV.Base.Bytes
import XV.Model.OpTable
import XV.Gen.Magics
import XV.Gen.OpTables
import XV.Gen.RefOpTables
import XV.Gen.Layouts

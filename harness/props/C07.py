"""C07 — results do not depend on the host Python or on which loader path is taken.
Theorems: lean/XV/Props/C07.lean."""
import json
import os
import random
import re
import threading

import core
import effects
import progcheck
import progrun
from worker import Worker

RULE = ("files of the historical corpus and programs compiled by 2.7/3.6-3.13 x every installed host 3.8-3.13 x "
        "{default path (built-in marshal when file version = host version), forced portable unmarshaller}: the snapshot of "
        "load_module (header fields; per code object all fields, constants by kind and value, instruction stream with argval, "
        "exception entries, labels, line starts, co_lines, co_positions — computed by Bytecode()/findlabels/findlinestarts on "
        "the object load_module returned, i.e. on the native code object on the fast path) and the listing text modulo object "
        "addresses and the banner line must coincide across hosts and paths; the path taken must be the one Model.HostPath.loadCode "
        "predicts; distinct = distinct (file, host, path)")
QUICK_FORMATS = ["classic", "xasm"]
ALL_FORMATS = ["classic", "bytes", "extended", "extended-bytes", "xasm", "header"]
QUICK_PROGS = ("closure2", "loops_jumps", "try_with", "consts", "manylines", "generators", "shared_sets")


def norm_listing(text):
    out = []
    for ln in text.split("\n"):
        if ln.startswith("# Disassembled from ") or (out and out[-1] is None and ln.startswith("# [")):
            out.append(None)
            continue
        ln = re.sub(r" at 0x[0-9a-f]+", " at 0x", ln)
        ln = re.sub(r"_0x[0-9a-f]+", "_0x", ln)
        out.append(ln)
    return "\n".join(x for x in out if x is not None)


CODE_REPR = re.compile(r'<(?:Code\w+ )?code object (.+?) at 0x, file "?(.+?)"?>?, line (\d+)>?')
SET_REPR = re.compile(r"frozenset\(\{(.*?)\}\)")


def canon_code_repr(text):
    return CODE_REPR.sub(lambda m: "<code object %s file %s line %s>" % m.groups(), text)


def canon_set_order(text):
    return SET_REPR.sub(lambda m: "frozenset({%s})" % ", ".join(sorted(m.group(1).split(", "))), text)


def per_unit(ranges):
    """co_lines() ranges as the line of every code unit: how ranges are merged is not part of the decoded content"""
    out = []
    for a, b, line in ranges:
        out += [line] * max(0, (b - a) // 2)
    return out


def snapshot(info):
    if not isinstance(info, dict) or "codes" not in info:
        return {"load": info if not isinstance(info, dict) else {k: info.get(k) for k in ("err",)}}
    top = {k: info.get(k) for k in ("version", "timestamp", "magic", "is_pypy", "source_size", "sip_hash", "opc", "bfs")}
    codes = []
    for ent in info["codes"]:
        e = {k: v for k, v in ent.items() if k != "fields"}
        if "co_lines" in e:
            e["co_lines"] = per_unit(e["co_lines"])
        e["fields"] = {k: v for k, v in ent["fields"].items() if k != "cls"}
        codes.append(e)
    top["codes"] = codes
    return top


def first_diff(a, b, path=""):
    if type(a) is not type(b):
        return path, a, b
    if isinstance(a, dict):
        for k in sorted(set(a) | set(b)):
            if k not in a or k not in b:
                return path + "/" + str(k), a.get(k, "<absent>"), b.get(k, "<absent>")
            d = first_diff(a[k], b[k], path + "/" + str(k))
            if d:
                return d
        return None
    if isinstance(a, list):
        if len(a) != len(b):
            for i, (x, y) in enumerate(zip(a, b)):
                d = first_diff(x, y, path + "/%d" % i)
                if d:
                    return d
            return path + "/len", len(a), len(b)
        for i, (x, y) in enumerate(zip(a, b)):
            d = first_diff(x, y, path + "/%d" % i)
            if d:
                return d
        return None
    return None if a == b else (path, a, b)


def inputs(ctx, rng):
    out = []
    root = os.path.join(core.REPO, "test")
    by_dir = {}
    for d, _, fs in sorted(os.walk(root)):
        for f in sorted(fs):
            if f.endswith((".pyc", ".pyo")):
                by_dir.setdefault(d, []).append(os.path.join(d, f))
    for d, fs in sorted(by_dir.items()):
        pick = fs if ctx.thorough else rng.sample(fs, 1)
        if ctx.thorough and len(pick) > 6:
            pick = rng.sample(pick, 6)
        for f in pick:
            out.append((os.path.relpath(f, core.REPO), open(f, "rb").read(), "." + os.path.basename(f) if "pypy38" in f else ".pyc"))
    oracles = {}
    progs = progcheck.program_set(random.Random(ctx.seed + 23), 2 if not ctx.thorough else 6)
    for v in sorted(core.ORACLES):
        for name in sorted(progs):
            if name in progrun.HEAVY and not ctx.thorough:
                continue
            # files of a host's own version exercise the fast path: take more of those
            if not ctx.thorough and name not in QUICK_PROGS and v < (3, 8):
                continue
            o = progcheck.oracle_compile(v, name, progs[name], oracles)
            if "pyc" in o:
                out.append(("compiled:%d.%d:%s" % (v[0], v[1], name), bytes.fromhex(o["pyc"]), ".pyc"))
    # a file of the host's own minor series that is NOT the host's magic: the 3.8 alphas (3400/3401/3410/3411)
    # have no co_posonlyargcount word, so only xdis's own unmarshaller can read them, also on a 3.8 host
    if (3, 8) in core.ORACLES:
        o = progcheck.oracle_compile((3, 8), "flat38a", "x = 1\ny = (x, 'a', b'b', 2.5, None)\nprint(y)\n", oracles)
        if "pyc" in o:
            pyc = bytes.fromhex(o["pyc"])
            payload = pyc[16:]
            if payload[:1] in (b"c", b"\xe3"):
                for m in (3401, 3411):
                    out.append(("interim:3.8a(%d):flat38a" % m,
                                bytes([m & 255, m >> 8]) + pyc[2:16] + payload[:5] + payload[9:], ".pyc"))
    for o in oracles.values():
        o.close()
    return out


def host_job(hv, py, items, formats, results, errors):
    """everything one host observes: {(file, path): (snapshot, {fmt: text}, native, host_magic, magic)}"""
    w = Worker(py)
    try:
        for name, data, suffix in items:
            for path in ("default", "portable"):
                kw = {"pyc": data.hex(), "suffix": suffix}
                if path == "portable":
                    # the default path already was the portable one: nothing new to observe
                    if (hv, name, "default") not in results or not results[(hv, name, "default")][2]:
                        continue
                    kw["path"] = "portable"
                try:
                    info = w.r("load_pyc", _timeout=180, **kw)
                except (TimeoutError, RuntimeError) as e:
                    errors.append((hv, name, path, "load_pyc did not finish: %s" % e))
                    w = Worker(py)
                    continue
                native = isinstance(info, dict) and info.get("native")
                texts = {}
                for fmt in formats:
                    try:
                        r = w.r("listing", pyc=data.hex(), fmt=fmt, suffix=suffix, _timeout=180, **({"path": "portable"} if path == "portable" else {}))
                        texts[fmt] = norm_listing(r["text"]) if not r.get("err") else "ERR " + re.sub(r" @ .*", "", r["err"])
                    except (TimeoutError, RuntimeError) as e:
                        errors.append((hv, name, path, "listing %s did not finish: %s" % (fmt, e)))
                        w = Worker(py)
                hm = info.get("host_magic") if isinstance(info, dict) else None
                results[(hv, name, path)] = (snapshot(info), texts, bool(native), hm, info.get("magic") if isinstance(info, dict) else None)
    finally:
        w.close()


def run(ctx):
    rep, drv = ctx.rep, ctx.driver
    rng = random.Random(ctx.seed)
    # static: host-identity reads outside the reviewed list (what C07_sites proves absent)
    allow = {(a, b) for a, b, _ in effects.host_allow()}
    sites = effects.host_sites()
    for f, scope, names in sites:
        if (f, scope) not in allow:
            rep.sample({"unreviewed_host_read": "%s %s %s" % (f, scope, ",".join(names))})
    rep.sample({"host_sites": len(sites), "reviewed": len(allow)})
    items = inputs(ctx, rng)
    formats = ALL_FORMATS if ctx.thorough else QUICK_FORMATS
    results, errors, threads = {}, [], []
    for hv, py in sorted(core.HOSTS.items()):
        t = threading.Thread(target=host_job, args=(hv, py, items, formats, results, errors))
        t.start()
        threads.append(t)
    for t in threads:
        t.join()
    for hv, name, path, what in errors:
        rep.violation("hang:%s:%d.%d:%s" % (name, hv[0], hv[1], path), "host %d.%d, %s path, %s: %s" % (hv[0], hv[1], path, name, what),
                      {"file": name, "host": "%d.%d" % hv, "path": path})
    hosts = sorted(core.HOSTS)
    data_of = {n: (d, s) for n, d, s in items}
    natives = 0
    for name, _, _ in items:
        base_key = next(((hv, name, "default") for hv in hosts if (hv, name, "default") in results and not results[(hv, name, "default")][2]), None)
        if base_key is None:
            continue
        base = results[base_key]
        for hv in hosts:
            for path in ("default", "portable"):
                key = (hv, name, path)
                if key not in results or key == base_key:
                    continue
                snap, texts, native, hm, fm = results[key]
                rep.count(1, key)
                natives += 1 if native else 0
                inp = {"file": name, "pyc": data_of[name][0].hex() if len(data_of[name][0]) < 20000 else "<see file>", "suffix": data_of[name][1],
                       "host": "%d.%d" % hv, "path": path, "fast_path_taken": native,
                       "baseline": "host %d.%d, %s" % (base_key[0][0], base_key[0][1], "portable unmarshaller")}
                # the switch the Model predicts
                if hm is not None and fm is not None and path == "default":
                    pred = drv.ask(["x.hostpath %d %d" % (hm, fm)])[0]
                    if (pred == "native") != native:
                        rep.violation("switch:%s:%d.%d" % (name, hv[0], hv[1]),
                                      "host %d.%d (magic %s) loading %s (magic %s): load_module took the %s path, Model.HostPath.loadCode predicts %s"
                                      % (hv[0], hv[1], hm, name, fm, "native" if native else "portable", pred), inp, found_input=True)
                d = first_diff(base[0], snap)
                if d:
                    rep.violation("decoded:%s:%d.%d:%s" % (name, hv[0], hv[1], path),
                                  "%s decodes differently under host %d.%d (%s%s) than under host %d.%d (portable): at %s: %s vs %s"
                                  % (name, hv[0], hv[1], path, ", fast path" if native else "", base_key[0][0], base_key[0][1], d[0], str(d[1])[:150], str(d[2])[:150]),
                                  dict(inp, where=d[0], expected=d[1], actual=d[2]))
                    continue
                for fmt in formats:
                    if fmt in texts and fmt in base[1] and texts[fmt] != base[1][fmt]:
                        ta, tb = base[1][fmt], texts[fmt]
                        if canon_code_repr(ta) != ta or canon_code_repr(tb) != tb:
                            ca, cb = canon_code_repr(ta), canon_code_repr(tb)
                            if (ca == cb) or (canon_set_order(ca) == canon_set_order(cb) and canon_set_order(ta) != canon_set_order(tb)):
                                rep.violation("code-constant-repr-native-vs-portable",
                                              "the repr of a code-object constant in listings depends on the loader path: CodeBase.__repr__ (xdis/codetype/base.py) prints "
                                              "'<Code38 code object f at 0x.., file x.py>, line 3' where the native object prints '<code object f at 0x.., file \"x.py\", line 3>' "
                                              "(%s, %s, host %d.%d fast path vs host %d.%d)" % (name, fmt, hv[0], hv[1], base_key[0][0], base_key[0][1]), dict(inp, format=fmt))
                            ta, tb = ca, cb
                        if ta != tb and canon_set_order(ta) == canon_set_order(tb):
                            rep.violation("set-constant-repr-order-follows-host-hash",
                                          "the elements of a frozenset constant are listed in the host's set iteration order, which differs between hosts "
                                          "(%s, %s, host %d.%d vs host %d.%d)" % (name, fmt, hv[0], hv[1], base_key[0][0], base_key[0][1]), dict(inp, format=fmt))
                        ta, tb = canon_set_order(ta), canon_set_order(tb)
                        if ta == tb:
                            continue
                        a, b = ta.split("\n"), tb.split("\n")
                        k = next((k for k, (x, y) in enumerate(zip(a, b)) if x != y), min(len(a), len(b)))
                        rep.violation("listing:%s:%d.%d:%s:%s" % (name, hv[0], hv[1], path, fmt),
                                      "%s listing of %s under host %d.%d (%s%s) differs from host %d.%d at line %d: %r vs %r"
                                      % (fmt, name, hv[0], hv[1], path, ", fast path" if native else "", base_key[0][0], base_key[0][1], k,
                                         (b[k] if k < len(b) else None), (a[k] if k < len(a) else None)),
                                      dict(inp, format=fmt, line=k, actual=b[k] if k < len(b) else None, expected=a[k] if k < len(a) else None))
                        break
    rep.sample({"files": len(items), "hosts": ["%d.%d" % h for h in hosts], "formats": formats, "fast_path_observations": natives,
                "observations": len(results)})
    if natives == 0:
        rep.violation("no-fast-path", "no (file, host) pair took the built-in marshal path: the comparison is vacuous", {}, found_input=False)


def replay(ctx, rp):
    print(json.dumps({k: v for k, v in rp.get("replay", {}).items() if k != "pyc"}, indent=1)[:1500])
    run(ctx)

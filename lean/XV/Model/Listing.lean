/-
Model of the listing loop `Bytecode.disassemble_bytes` (xdis/bytecode.py) and of the
code-object queue of `disco_loop` (xdis/disasm.py).  The loop is transcribed statement
by statement: the SET_LINENO carry of pre-2.3 code, the EXTENDED_ARG folding of the
"asm" format, the blank line before an instruction that starts a line, and the hiding
of CACHE entries.  The text of one row is produced by `Instruction.disassemble`; the
model keeps the row's columns (line number, '>>', offset, opcode, operand), which is
what C12 speaks about.
-/
namespace XV.Model.Listing

/-- one element of `get_instructions_bytes` as the loop sees it -/
structure LI where
  offset : Nat
  opcode : Nat
  arg : Option Nat
  /-- `argval` when it is a number (only read for SET_LINENO) -/
  argval : Nat
  startsLine : Option Nat
  jt : Bool
  isSetLineno : Bool
  isExtArg : Bool
  isCache : Bool
  isReserveFast : Bool
deriving Repr, DecidableEq

inductive Fmt | classic | bytes | extended | extendedBytes | asm
deriving Repr, DecidableEq

/-- the loop's local variables -/
structure St where
  setNo : Nat := 0
  lastSet : Bool := false
  extLine : Option Nat := none
  extOff : Option Nat := none
deriving Repr, DecidableEq

inductive Out
  | blank
  | row (offset opcode : Nat) (arg : Option Nat) (line : Option Nat) (jt : Bool)
  | warn
deriving Repr, DecidableEq

/-- Python truthiness of an `Optional[int]` -/
def truthy : Option Nat → Bool
  | some n => n != 0
  | none => false

/-- `asm_format not in ("extended_bytes", "bytes")`: the listing is asked for "extended-bytes",
    with a hyphen, so only "bytes" shows CACHE entries -/
def showsCache : Fmt → Bool
  | .bytes => true
  | _ => false

/-- one iteration of the `for instr in get_instructions_bytes(...)` loop -/
def step (fmt : Fmt) (showLineno : Bool) (st : St) (i : LI) : St × List Out :=
  let i1 := if st.lastSet then { i with startsLine := some st.setNo } else i
  let st1 : St := { st with lastSet := i1.isSetLineno, setNo := if i1.isSetLineno then i1.argval else st.setNo }
  if i1.isExtArg && fmt == .asm then
    ({ st1 with extLine := i1.startsLine, extOff := some i1.offset }, [])
  else
    let (i2, st2) := if truthy st1.extLine then ({ i1 with startsLine := st1.extLine }, { st1 with extLine := none }) else (i1, st1)
    let (i3, st3) := match st2.extOff with
      | some o => ({ i2 with offset := o, startsLine := st2.extLine, jt := true }, { st2 with extOff := none })
      | none => (i2, st2)
    let newLine := showLineno && (truthy st3.extLine || (i3.startsLine.isSome && decide (i3.offset > 0)))
    let pre := if newLine then [Out.blank] else []
    if i3.isCache && !(showsCache fmt) then (st3, pre)
    else (st3, pre ++ [Out.row i3.offset i3.opcode i3.arg i3.startsLine i3.jt] ++ (if i3.isReserveFast then [Out.warn] else []))

def run (fmt : Fmt) (showLineno : Bool) : St → List LI → List Out
  | _, [] => []
  | st, i :: is => let r := step fmt showLineno st i; r.2 ++ run fmt showLineno r.1 is

def listing (fmt : Fmt) (showLineno : Bool) (is : List LI) : List Out := run fmt showLineno {} is

def isRow : Out → Bool
  | .row .. => true
  | _ => false

/-! ### the queue of `disco_loop`: code objects are listed in breadth-first order -/

inductive CTree where
  | node (id : Nat) (kids : List CTree)

mutual
def CTree.size : CTree → Nat
  | .node _ ks => 1 + sizes ks
def sizes : List CTree → Nat
  | [] => 0
  | t :: ts => t.size + sizes ts
end

theorem sizes_append (a b : List CTree) : sizes (a ++ b) = sizes a + sizes b := by
  induction a with
  | nil => simp [sizes]
  | cons t ts ih => simp [sizes, ih]; omega

/-- `while queue: co = queue.popleft(); list(co); queue.extend(code constants of co)` -/
def bfs : List CTree → List Nat
  | [] => []
  | .node i ks :: q => i :: bfs (q ++ ks)
termination_by q => sizes q
decreasing_by simp [sizes, CTree.size, sizes_append]; omega

mutual
def CTree.pre : CTree → List Nat
  | .node i ks => i :: pres ks
def pres : List CTree → List Nat
  | [] => []
  | t :: ts => t.pre ++ pres ts
end

end XV.Model.Listing

#!/bin/bash
# Build the framework offline from files on disk: regenerate the Lean tables from
# /repo, build the whole Lean library (all Props) and the driver executable.
set -e
cd "$(dirname "$0")"
mkdir -p build evidence
rm -f build/refs.json build/registry.json
/venv/bin/python - <<'PY'
import sys
sys.path.insert(0, "harness")
import core
t, err = core.regenerate(print)
if t is None:
    print(err); sys.exit(1)
PY
cd lean
# every Props module (Props/Cxx.lean and Props/Cxx/*.lean), so that the checks find them built
mods=$(find XV/Props -name '*.lean' | sed 's/\.lean$//; s#/#.#g' | sort)
lake build xvdriver XV $mods 2>&1 | grep -v "^✔" | tail -40
test -x .lake/build/bin/xvdriver
echo "setup ok"

/-
C04, unbounded part, eras with inline caches (3.11, 3.12, 3.13): `wordcode.findlabels` returns
exactly the jump targets CPython's `dis.findlabels` returns, in order and without duplicates, for
every byte string laid out with its cache slots (`CacheOk`, see C02/Stream311) in which no
EXTENDED_ARG prefix is pending at an operand-less opcode (`CarryOk`; xdis's label generator keeps
a pending prefix across such an opcode, CPython drops it from 3.10).
-/
import XV.Props.C04.Labels
import XV.Props.C02.Stream311
namespace XV.Props.C04
open XV XV.Model XV.Model.Decode XV.Props.C02

structure LabelOk311 (t : OpTable) (d : Spec.Dis.DisTbl) : Prop where
  takes : ∀ op, op < 256 → isDefined d op = true → t.hasArg op =
    (if verGe d.version 3 12 then (d.hasarg.getD []).contains op else decide (op ≥ d.haveArgument))
  extNum : ∀ op, op < 256 → (t.extendedArg == some op) = (d.extendedArg == some op)
  extName : ∀ op, op < 256 → isExtName t op = (d.extendedArg == some op)
  shift : ∀ op, op < 256 → (t.extendedArg == some op) = true → t.extShift.getD 0 = 8
  era : py36 t = true
  ge311 : verGe d.version 3 11 = true
  cacheNoArg : t.hasArg 0 = false

theorem foldLabels_cons (tgt : Nat → Nat → Nat → Option Int) (x : Triple) (xs : List Triple) (acc : List Int) :
    foldLabels tgt (x :: xs) acc = foldLabels tgt xs
      (match x.2.2 with
       | none => acc
       | some a => match tgt x.1 x.2.1 a with
         | some j => addLabel acc j
         | none => acc) := by
  rfl

/-- the labels folded over xdis's generator (cache slots included, as operand-less code units)
    are the labels folded over CPython's stream (cache slots skipped) -/
theorem word_labels_311 (t : OpTable) (d : Spec.Dis.DisTbl) (code : Bytes) (lk : LabelOk311 t d)
    (hbytes : IsBytes code) (tgt : Nat → Nat → Nat → Option Int) :
    ∀ f i ext caches acc, cacheOk t d code f i ext caches = true → carryOk t code f i ext = true →
      ((Decode.unpackWordGo t true code f i ext).toOption.map fun ops => foldLabels tgt ops acc) =
        (Spec.Dis.unpackWordGo d code f i ext caches).map fun ops => foldLabels tgt ops acc := by
  intro f
  induction f with
  | zero => intros; rfl
  | succ f ih =>
    intro i ext caches acc hc hk
    rw [Decode.unpackWordGo, Spec.Dis.unpackWordGo]
    rw [cacheOk] at hc
    rw [carryOk] at hk
    by_cases hi : i < code.length
    · simp only [hi, if_true] at hc hk ⊢
      have hop : ∃ op, code[i]? = some op := ⟨code[i], by simp [hi]⟩
      obtain ⟨op, hop⟩ := hop
      have hop256 : op < 256 := hbytes op (List.mem_of_getElem? hop)
      simp only [hop] at hc hk
      simp only [idx_eq, hop, ok_bind]
      by_cases hca : caches > 0
      · simp only [hca, if_true, Bool.and_eq_true, beq_iff_eq] at hc ⊢
        obtain ⟨⟨h0, he⟩, hc⟩ := hc
        subst h0; subst he
        simp only [lk.cacheNoArg, Bool.false_eq_true, if_false, lk.era, Bool.and_eq_true, beq_iff_eq, true_and, if_true] at hk ⊢
        have := ih (i + 2) 0 (caches - 1) acc hc hk
        rw [← this]
        cases hr : Decode.unpackWordGo t true code f (i + 2) 0 with
        | error e => simp [Except.toOption, bind, Except.bind]
        | ok rest => simp [Except.toOption, bind, Except.bind, pure, Except.pure, foldLabels_cons]
      · simp only [hca, if_false, Bool.and_eq_true, bne_iff_ne, ne_eq] at hc ⊢
        obtain ⟨⟨hne, hdef⟩, hc⟩ := hc
        simp only [Option.bind_eq_bind, Option.bind_some, lk.ge311, if_true]
        rw [← lk.takes op hop256 hdef]
        by_cases ha : t.hasArg op = true
        · simp only [ha, if_true, lk.era] at hc hk ⊢
          cases hb : code[i + 1]? with
          | none => simp [Except.toOption, bind, Except.bind]
          | some b =>
            simp only [hb, Bool.and_eq_true, decide_eq_true_eq] at hc hk
            obtain ⟨hlt, hc⟩ := hc
            simp only [ok_bind, Option.bind_some, lk.extNum op hop256, ← lk.extName op hop256]
            have hsh : (if isExtName t op = true then (b ||| ext) <<< t.extShift.getD 0 else 0) =
                (if isExtName t op = true then (b ||| ext) <<< 8 else 0) := by
              by_cases hx : isExtName t op = true
              · have := lk.shift op hop256 (by rw [lk.extNum op hop256, ← lk.extName op hop256]; exact hx)
                simp [hx, this]
              · simp [hx]
            rw [hsh]
            have hnw : ¬ ((if isExtName t op = true then (b ||| ext) <<< 8 else 0) ≥ 2 ^ 31) := by omega
            simp only [hnw, decide_false, Bool.false_eq_true, if_false, and_false, Bool.and_false]
            have := ih (i + 2) _ (Spec.Dis.cachesOf d op)
              (match tgt i op (b ||| ext) with | some j => addLabel acc j | none => acc) hc hk
            cases hr : Decode.unpackWordGo t true code f (i + 2) (if isExtName t op = true then (b ||| ext) <<< 8 else 0) with
            | error e =>
              rw [hr] at this
              simp [Except.toOption] at this
              cases hs : Spec.Dis.unpackWordGo d code f (i + 2) (if isExtName t op = true then (b ||| ext) <<< 8 else 0)
                  (Spec.Dis.cachesOf d op) with
              | none => simp [Except.toOption, bind, Except.bind]
              | some srest => rw [hs] at this; simp at this
            | ok rest =>
              rw [hr] at this
              simp [Except.toOption] at this
              cases hs : Spec.Dis.unpackWordGo d code f (i + 2) (if isExtName t op = true then (b ||| ext) <<< 8 else 0)
                  (Spec.Dis.cachesOf d op) with
              | none => rw [hs] at this; simp at this
              | some srest =>
                rw [hs] at this
                simp at this
                simp [Except.toOption, bind, Except.bind, pure, Except.pure, foldLabels_cons, this]
        · have ha' : t.hasArg op = false := by simpa using ha
          simp only [ha', Bool.false_eq_true, if_false, lk.era, Bool.and_eq_true, beq_iff_eq, if_true] at hc hk ⊢
          obtain ⟨he, hk⟩ := hk
          subst he
          have h310 : verGe d.version 3 10 = true := by
            have := lk.ge311
            unfold verGe at this ⊢
            simp only [Bool.or_eq_true, Bool.and_eq_true, decide_eq_true_eq, beq_iff_eq] at this ⊢
            omega
          simp only [h310, if_true]
          have := ih (i + 2) 0 (Spec.Dis.cachesOf d op) acc hc hk
          cases hr : Decode.unpackWordGo t true code f (i + 2) 0 with
          | error e =>
            rw [hr] at this
            simp [Except.toOption] at this
            cases hs : Spec.Dis.unpackWordGo d code f (i + 2) 0 (Spec.Dis.cachesOf d op) with
            | none => simp [Except.toOption, bind, Except.bind]
            | some srest => rw [hs] at this; simp at this
          | ok rest =>
            rw [hr] at this
            simp [Except.toOption] at this
            cases hs : Spec.Dis.unpackWordGo d code f (i + 2) 0 (Spec.Dis.cachesOf d op) with
            | none => rw [hs] at this; simp at this
            | some srest =>
              rw [hs] at this
              simp at this
              simp [Except.toOption, bind, Except.bind, pure, Except.pure, foldLabels_cons, this]
    · simp [hi, Except.toOption]

/-- C04_labels_311: wordcode.findlabels = dis.findlabels of CPython 3.11–3.13, for every byte string
    with its inline cache slots in place and no prefix pending at an operand-less opcode -/
theorem C04_labels_311 (t : OpTable) (cache313 : List (Str × Nat)) (d : Spec.Dis.DisTbl) (code : Bytes)
    (lk : LabelOk311 t d) (hbytes : IsBytes code) (hver : verLt t.version 3 10 = false)
    (hck : CacheOk t d code) (hcarry : CarryOk t code)
    (htgt : ∀ off op a, op < 256 → tgtWord t cache313 off op a = Spec.Dis.target d off op a) :
    (findlabelsWord t cache313 code).toOption = Spec.Dis.findlabels d code := by
  rw [word_is_fold]
  unfold Spec.Dis.findlabels Spec.Dis.unpack
  have h36 : verGe d.version 3 6 = true := by
    have := lk.ge311
    unfold verGe at this ⊢
    simp only [Bool.or_eq_true, Bool.and_eq_true, decide_eq_true_eq, beq_iff_eq] at this ⊢
    omega
  simp only [hver, Bool.false_eq_true, if_false, h36, if_true]
  unfold unpack310
  have hw := word_labels_311 t d code lk hbytes (tgtWord t cache313) (code.length + 1) 0 0 0 [] hck hcarry
  cases hr : Decode.unpackWordGo t true code (code.length + 1) 0 0 with
  | error e =>
    rw [hr] at hw
    simp [Except.toOption] at hw
    cases hs : Spec.Dis.unpackWordGo d code (code.length + 1) 0 0 0 with
    | none => rfl
    | some srest => rw [hs] at hw; simp at hw
  | ok ops =>
    rw [hr] at hw
    simp [Except.toOption] at hw
    cases hs : Spec.Dis.unpackWordGo d code (code.length + 1) 0 0 0 with
    | none => rw [hs] at hw; simp at hw
    | some srest =>
      rw [hs] at hw
      simp at hw
      have hmem := unpackWord_mem d code _ _ _ _ srest hs
      simp only [Except.map, Except.toOption, Option.bind_eq_bind, Option.bind_some, pure]
      rw [hw, labels_of_stream (tgtWord t cache313) d code hbytes srest hmem htgt]

end XV.Props.C04

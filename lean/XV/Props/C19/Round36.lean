/-
C19, composed round trip for the SIGNED lnotab format (Code3 / Code38 on Python 3.6–3.9).

For every mapping whose offsets increase strictly — of any length, with any offset gaps and any
line gaps, upwards or downwards — the table `encode_lineno_tab` writes decodes, by CPython's own
`dis.findlinestarts` of 3.6/3.7 (`Spec.Lines.starts36`, to which xdis's reader is proved equal in
C05), to exactly the line starts of the mapping.
-/
import XV.Props.C19.Round
namespace XV.Props.C19
open XV XV.Model.LineEnc XV.Spec.Lines
set_option linter.unusedVariables false
set_option linter.unusedSimpArgs false

/-- what a pair does to the decoder's state, besides adding its line increment -/
def adv (last : Option Int) (line : Int) (addr od : Nat) : List (Nat × Int) × Option Int × Nat :=
  if od ≠ 0 then (emit last line addr, some line, addr + od) else ([], last, addr)

theorem go36 (last : Option Int) (line : Int) (addr od x : Nat) (rest : List (Nat × Nat)) :
    starts36Go last line addr ((od, x) :: rest) =
      (adv last line addr od).1 ++
        starts36Go (adv last line addr od).2.1 (line + sdelta x) (adv last line addr od).2.2 rest := by
  unfold adv emit
  by_cases hod : od ≠ 0
  · by_cases h : last = some line
    · subst h; simp [starts36Go, hod]
    · simp [starts36Go, hod, h]
  · have : od = 0 := by omega
    subst this
    simp [starts36Go]

theorem adv_zero (last : Option Int) (line : Int) (addr : Nat) : adv last line addr 0 = ([], last, addr) := by
  simp [adv]

theorem sdelta_127 : sdelta 127 = 127 := by decide
theorem sdelta_128 : sdelta 128 = -128 := by decide
theorem sdelta_enc (l : Int) (h1 : -128 ≤ l) (h2 : l ≤ 127) : sdelta (l % 256).toNat = l := by
  unfold sdelta
  by_cases hl : 0 ≤ l
  · have : (l % 256).toNat = l.toNat := by omega
    rw [this]
    have : ¬ l.toNat ≥ 0x80 := by omega
    simp only [this, if_false]; omega
  · have : ((l % 256).toNat : Int) = l + 256 := by omega
    have hge : (l % 256).toNat ≥ 0x80 := by omega
    simp only [hge, if_true]; omega

/-- the upward continuation chunks, decoded: the first carries the address increment -/
theorem decode_splitPos (fuel : Nat) : ∀ (od : Nat) (ld : Int), ld.natAbs ≤ fuel → ∀ (last : Option Int) (line : Int) (addr : Nat)
    (tail : Bytes) (bs : Bytes) (o' : Nat) (l' : Int), splitPos fuel od ld = (bs, o', l') →
    starts36Go last line addr (pairs (bs ++ tail)) =
      (if ld > 127 then (adv last line addr od).1 else []) ++
      starts36Go (if ld > 127 then (adv last line addr od).2.1 else last) (line + (ld - l'))
        (if ld > 127 then (adv last line addr od).2.2 else addr) (pairs tail) ∧
    o' = (if ld > 127 then 0 else od) ∧ l' ≤ 127 ∧ (ld ≤ 127 → l' = ld) ∧ (ld > 127 → 0 < l') := by
  induction fuel with
  | zero =>
    intro od ld h last line addr tail bs o' l' heq
    have : ld = 0 := by omega
    subst this
    simp [splitPos] at heq
    obtain ⟨rfl, rfl, rfl⟩ := heq
    simp
  | succ f ih =>
    intro od ld h last line addr tail bs o' l' heq
    unfold splitPos at heq
    by_cases hd : ld > 127
    · simp only [hd, if_true] at heq
      cases hrec : splitPos f 0 (ld - 127) with
      | mk bs2 r =>
        obtain ⟨o2, l2⟩ := r
        rw [hrec] at heq
        simp only [Prod.mk.injEq] at heq
        obtain ⟨rfl, rfl, rfl⟩ := heq
        obtain ⟨h1, h2, h3, h4, h5⟩ := ih 0 (ld - 127) (by omega) (adv last line addr od).2.1 (line + 127)
          (adv last line addr od).2.2 tail bs2 o2 l2 hrec
        simp only [hd, if_true, List.cons_append, List.nil_append, pairs]
        rw [go36, sdelta_127, h1]
        by_cases hd2 : ld - 127 > 127
        · simp only [hd2, if_true, adv_zero, List.nil_append] at h2 ⊢
          refine ⟨?_, h2, h3, by omega, fun _ => h5 hd2⟩
          congr 2; omega
        · simp only [hd2, if_false, List.nil_append] at h2 ⊢
          have h4' := h4 (by omega)
          refine ⟨?_, h2, h3, by omega, fun _ => by omega⟩
          congr 2; omega
    · simp only [hd, if_false, Prod.mk.injEq] at heq
      obtain ⟨rfl, rfl, rfl⟩ := heq
      simp only [hd, if_false, List.nil_append]
      refine ⟨by simp, trivial, by omega, fun _ => trivial, fun h => h.elim⟩

/-- the downward continuation chunks -/
theorem decode_splitNeg (fuel : Nat) : ∀ (od : Nat) (ld : Int), ld.natAbs ≤ fuel → ∀ (last : Option Int) (line : Int) (addr : Nat)
    (tail : Bytes) (bs : Bytes) (o' : Nat) (l' : Int), splitNeg fuel od ld = (bs, o', l') →
    starts36Go last line addr (pairs (bs ++ tail)) =
      (if ld < -128 then (adv last line addr od).1 else []) ++
      starts36Go (if ld < -128 then (adv last line addr od).2.1 else last) (line + (ld - l'))
        (if ld < -128 then (adv last line addr od).2.2 else addr) (pairs tail) ∧
    o' = (if ld < -128 then 0 else od) ∧ -128 ≤ l' ∧ (-128 ≤ ld → l' = ld) ∧ (ld < -128 → l' < 0) := by
  induction fuel with
  | zero =>
    intro od ld h last line addr tail bs o' l' heq
    have : ld = 0 := by omega
    subst this
    simp [splitNeg] at heq
    obtain ⟨rfl, rfl, rfl⟩ := heq
    simp
  | succ f ih =>
    intro od ld h last line addr tail bs o' l' heq
    unfold splitNeg at heq
    by_cases hd : ld < -128
    · simp only [hd, if_true] at heq
      cases hrec : splitNeg f 0 (ld + 128) with
      | mk bs2 r =>
        obtain ⟨o2, l2⟩ := r
        rw [hrec] at heq
        simp only [Prod.mk.injEq] at heq
        obtain ⟨rfl, rfl, rfl⟩ := heq
        obtain ⟨h1, h2, h3, h4, h5⟩ := ih 0 (ld + 128) (by omega) (adv last line addr od).2.1 (line + -128)
          (adv last line addr od).2.2 tail bs2 o2 l2 hrec
        simp only [hd, if_true, List.cons_append, List.nil_append, pairs]
        rw [go36, sdelta_128, h1]
        by_cases hd2 : ld + 128 < -128
        · simp only [hd2, if_true, adv_zero, List.nil_append] at h2 ⊢
          refine ⟨?_, h2, h3, by omega, fun _ => h5 hd2⟩
          congr 2; omega
        · simp only [hd2, if_false, List.nil_append] at h2 ⊢
          have h4' := h4 (by omega)
          refine ⟨?_, h2, h3, by omega, fun _ => by omega⟩
          congr 2; omega
    · simp only [hd, if_false, Prod.mk.injEq] at heq
      obtain ⟨rfl, rfl, rfl⟩ := heq
      simp only [hd, if_false, List.nil_append]
      refine ⟨by simp, trivial, by omega, fun _ => trivial, fun h => h.elim⟩

theorem go36_pos (last : Option Int) (line : Int) (addr r x : Nat) (hr : r ≠ 0) (rest : List (Nat × Nat)) :
    starts36Go last line addr ((r, x) :: rest) =
      emit last line addr ++ starts36Go (some line) (line + sdelta x) (addr + r) rest := by
  rw [go36]; simp [adv, hr]

/-- address continuation: `(255,0)` entries, decoded by the signed reader -/
theorem decode_splitBig36 (fuel d : Nat) (h : d ≤ fuel) (last : Option Int) (line : Int) (addr : Nat) (tail : Bytes) :
    starts36Go last line addr (pairs ((splitBig [255, 0] fuel d).1 ++ tail)) =
      if d ≥ 256 then
        emit last line addr ++ starts36Go (some line) line (addr + (d - (splitBig [255, 0] fuel d).2)) (pairs tail)
      else starts36Go last line addr (pairs tail) := by
  induction fuel generalizing d last addr with
  | zero =>
    have : d = 0 := by omega
    subst this; simp [splitBig]
  | succ f ih =>
    unfold splitBig
    by_cases hd : d ≥ 256
    · simp only [hd, if_true, List.cons_append, List.nil_append, pairs]
      rw [go36_pos last line addr 255 0 (by decide)]
      have := ih (d - 255) (by omega) (some line) (addr + 255)
      have hs0 : sdelta 0 = 0 := by decide
      simp only [hs0, Int.add_zero]
      rw [this]
      have hb := splitBig_addr f (d - 255) (by omega)
      by_cases hd2 : d - 255 ≥ 256
      · simp only [hd2, if_true, emit_after, List.nil_append]
        congr 2
        omega
      · simp only [hd2, if_false]
        have hs : (splitBig [255, 0] f (d - 255)).2 = d - 255 := by
          unfold splitBig
          cases f with
          | zero => simp
          | succ f' => simp [hd2]
        congr 2
        omega
    · simp [hd]

/-- one mapping entry (offset gap D > 0, any line gap L): whatever continuation chunks it needs,
    the decoder reports the previous entry and moves by exactly (D, L) -/
theorem decode_entry36 (D : Nat) (L : Int) (hD : 0 < D) (last : Option Int) (line : Int) (addr : Nat) (tl : Bytes)
    (c2 c3 : Bytes) (o2 o3 : Nat) (l2 l3 : Int)
    (h2 : splitPos L.natAbs (splitBig [255, 0] D D).2 L = (c2, o2, l2))
    (h3 : splitNeg L.natAbs o2 l2 = (c3, o3, l3)) :
    starts36Go last line addr (pairs
      ((splitBig [255, 0] D D).1 ++ c2 ++ c3 ++ [o3, (l3 % 256).toNat] ++ tl)) =
      emit last line addr ++ starts36Go (some line) (line + L) (addr + D) (pairs tl) := by
  -- state after the (255,0) chunks
  have hbig := decode_splitBig36 D D (Nat.le_refl D) last line addr (c2 ++ c3 ++ [o3, (l3 % 256).toNat] ++ tl)
  have hr := splitBig_addr D D (Nat.le_refl D)
  have hrpos := splitBig_pos D D (Nat.le_refl D) hD
  generalize hR : (splitBig [255, 0] D D).2 = R at *
  have happ : (splitBig [255, 0] D D).1 ++ c2 ++ c3 ++ [o3, (l3 % 256).toNat] ++ tl =
      (splitBig [255, 0] D D).1 ++ (c2 ++ c3 ++ [o3, (l3 % 256).toNat] ++ tl) := by simp [List.append_assoc]
  rw [happ, hbig]
  -- what remains: an entry with offset increment R > 0 from state (last', line, addr')
  have key : ∀ (lst : Option Int) (ad : Nat),
      starts36Go lst line ad (pairs (c2 ++ c3 ++ [o3, (l3 % 256).toNat] ++ tl)) =
        emit lst line ad ++ starts36Go (some line) (line + L) (ad + R) (pairs tl) := by
    intro lst ad
    have hl2abs : l2.natAbs ≤ L.natAbs := by
      obtain ⟨_, _, q3, q4, q5⟩ := decode_splitPos L.natAbs R L (Nat.le_refl _) lst line ad [] c2 o2 l2 h2
      by_cases hL : L > 127
      · have := q5 hL; omega
      · have := q4 (by omega); omega
    have happ2 : c2 ++ c3 ++ [o3, (l3 % 256).toNat] ++ tl = c2 ++ (c3 ++ ([o3, (l3 % 256).toNat] ++ tl)) := by
      simp [List.append_assoc]
    rw [happ2]
    obtain ⟨p1, p2, p3, p4, p5⟩ := decode_splitPos L.natAbs R L (Nat.le_refl _) lst line ad
      (c3 ++ ([o3, (l3 % 256).toNat] ++ tl)) c2 o2 l2 h2
    rw [p1]
    by_cases hL : L > 127
    · -- upward chunks carried the address; no downward chunks
      simp only [hL, if_true] at p2 ⊢
      have hl2 : -128 ≤ l2 := by have := p5 hL; omega
      obtain ⟨n1, n2, n3, n4, n5⟩ := decode_splitNeg L.natAbs o2 l2 hl2abs
        (adv lst line ad R).2.1 (line + (L - l2)) (adv lst line ad R).2.2 ([o3, (l3 % 256).toNat] ++ tl) c3 o3 l3 h3
      rw [n1]
      have hnn : ¬ l2 < -128 := by omega
      simp only [hnn, if_false, List.nil_append] at n2 ⊢
      have hl3 := n4 hl2
      subst hl3; subst n2; subst p2
      simp only [List.cons_append, List.nil_append, pairs]
      rw [go36, adv_zero, sdelta_enc l3 hl2 p3]
      simp only [List.nil_append, adv, Nat.ne_of_gt hrpos, ne_eq, not_false_eq_true, if_true]
      congr 2; omega
    · simp only [hL, if_false, List.nil_append] at p2 ⊢
      have hl2 := p4 (by omega)
      rw [hl2, p2] at h3
      rw [hl2]
      simp only [Int.sub_self, Int.add_zero]
      obtain ⟨n1, n2, n3, n4, n5⟩ := decode_splitNeg L.natAbs R L (Nat.le_refl _) lst line ad
        ([o3, (l3 % 256).toNat] ++ tl) c3 o3 l3 h3
      rw [n1]
      by_cases hN : L < -128
      · simp only [hN, if_true] at n2 ⊢
        subst n2
        have hl3 := n5 hN
        simp only [List.cons_append, List.nil_append, pairs]
        rw [go36, adv_zero, sdelta_enc l3 n3 (by omega)]
        simp only [List.nil_append, adv, Nat.ne_of_gt hrpos, ne_eq, not_false_eq_true, if_true]
        congr 2; omega
      · simp only [hN, if_false, List.nil_append] at n2 ⊢
        have hl3 := n4 (by omega)
        subst hl3; subst n2
        simp only [List.cons_append, List.nil_append, pairs, Int.sub_self, Int.add_zero]
        rw [go36_pos lst line ad o3 _ (Nat.ne_of_gt hrpos), sdelta_enc l3 (by omega) (by omega)]
  by_cases hD256 : D ≥ 256
  · simp only [hD256, if_true]
    rw [key (some line) (addr + (D - R)), emit_after, List.nil_append]
    congr 2
    omega
  · simp only [hD256, if_false]
    have : R = D := by
      have : (splitBig [255, 0] D D).2 = D := by
        cases D with
        | zero => omega
        | succ D' => simp [splitBig, hD256]
      omega
    rw [key last addr, this]

/-- offsets increase strictly; lines are arbitrary -/
def IncrOff : Int → List (Int × Int) → Prop
  | _, [] => True
  | po, (o, _) :: rest => po < o ∧ IncrOff o rest

theorem round36Go (m : List (Int × Int)) : ∀ (po pl : Int) (last : Option Int), 0 ≤ po → IncrOff po m →
    ∃ tab, encode36Go po pl m = .ok tab ∧
      starts36Go last pl po.toNat (pairs tab) = expected last pl po.toNat m := by
  induction m with
  | nil => intro po pl last _ _; exact ⟨[], rfl, by simp [pairs, starts36Go, expected, emit]⟩
  | cons e rest ih =>
    intro po pl last hpo hinc
    obtain ⟨o, l⟩ := e
    obtain ⟨ho, hrest⟩ := hinc
    obtain ⟨tl, htl, hdec⟩ := ih o l (some pl) (by omega) hrest
    have hod : ¬ (o - po < 0) := by omega
    cases h2 : splitPos (l - pl).natAbs (splitBig [255, 0] (o - po).toNat (o - po).toNat).2 (l - pl) with
    | mk c2 r2 =>
      obtain ⟨o2, l2⟩ := r2
      cases h3 : splitNeg (l - pl).natAbs o2 l2 with
      | mk c3 r3 =>
        obtain ⟨o3, l3⟩ := r3
        refine ⟨(splitBig [255, 0] (o - po).toNat (o - po).toNat).1 ++ c2 ++ c3 ++ [o3, (l3 % 256).toNat] ++ tl, ?_, ?_⟩
        · simp only [encode36Go, hod, if_false, h2, h3, htl]
          rfl
        · have hD : 0 < (o - po).toNat := by omega
          rw [decode_entry36 (o - po).toNat (l - pl) hD last pl po.toNat tl c2 c3 o2 o3 l2 l3 h2 h3, expected]
          have e1 : pl + (l - pl) = l := by omega
          have e2 : po.toNat + (o - po).toNat = o.toNat := by omega
          rw [e1, e2, hdec]

/-- C19_roundtrip36: for every mapping `(0, first), (o₁, l₁), …` with strictly increasing offsets and
    ARBITRARY lines (gaps ≥ 128, gaps ≥ 256, decreasing lines) — any length — the 3.6–3.9 encoder
    succeeds and CPython 3.6/3.7's `dis.findlinestarts` reads its table back as the mapping's line starts -/
theorem C19_roundtrip36 (first : Int) (rest : List (Int × Int)) (h : IncrOff 0 rest) :
    ∃ tab, encode36 first ((0, first) :: rest) = .ok tab ∧
      starts36 first tab = expected none first 0 rest := by
  obtain ⟨tl, htl, hdec⟩ := round36Go rest 0 first none (by omega) h
  refine ⟨[0, 0] ++ tl, ?_, ?_⟩
  · simp [encode36, encode36Go, htl, splitBig, splitPos, splitNeg]
    rfl
  · simp only [starts36, List.cons_append, List.nil_append, pairs]
    rw [go36, adv_zero]
    have hs0 : sdelta 0 = 0 := by decide
    simpa [hs0] using hdec

/-- non-vacuity, and the cases the old encoder got wrong (recorded findings, now repaired): a line gap
    of 128..255, a gap above 255, a decreasing line, a big negative gap, with address continuation -/
example : IncrOff 0 [(510, 1010), (520, 1200), (1520, 40), (1522, 39)] := by simp [IncrOff]
example : (encode36 10 [(0, 10), (510, 1010), (520, 1200), (1520, 40), (1522, 39)]).toOption.map (starts36 10) =
    some [(0, 10), (510, 1010), (520, 1200), (1520, 40), (1522, 39)] ∧
    expected none 10 0 [(510, 1010), (520, 1200), (1520, 40), (1522, 39)] =
      [(0, 10), (510, 1010), (520, 1200), (1520, 40), (1522, 39)] := by
  decide +kernel

end XV.Props.C19

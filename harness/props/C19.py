"""C19 — freeze() encodes a line table that decodes back.  Theorems: lean/XV/Props/C19.lean."""
import json
import random

import core
import gen_lines
from worker import Worker, Oracle

RULE = ("{offset: line} mappings with strictly increasing offsets from 0 (gaps 2..1000 bytes, line deltas 0..1000 and, "
        "where the format allows, negative) x portable code types Code15/Code2/Code3/Code38/Code310; freeze() output "
        "decoded by xdis's line-start routine and by the matching CPython; distinct = distinct (version, mapping)")

# version -> (encoder op of the Model, signed decoding era, oracle version or None)
TYPES = [((2, 4), "x.enc15", False, None), ((2, 7), "x.enc15", False, (2, 7)), ((3, 3), "x.enc3", False, None),
         ((3, 7), "x.enc3", True, (3, 7)), ((3, 8), "x.enc36", True, (3, 8)), ((3, 9), "x.enc36", True, (3, 9)),
         ((3, 10), "x.enc310", True, (3, 10))]
# Code3 serves 3.0-3.7 and carries no version: it writes the unsigned table of 3.0-3.5 also for 3.6/3.7
# (recorded findings); Code38 (3.8, 3.9) and Code310 write their own formats, for every line gap
FULL_DOMAIN = ((3, 8), (3, 9), (3, 10))


def dedup(m):
    out = []
    for o, l in m:
        if not out or out[-1][1] != l:
            out.append((o, l))
    return out


def fmt(st):
    return ",".join("%d:%s" % (o, l) for o, l in st) if st else "-"


def known_key(v, first, m):
    deltas = [m[0][1] - first] + [b[1] - a[1] for a, b in zip(m, m[1:])]
    if v in ((3, 6), (3, 7)) and any(d < 0 for d in deltas):
        return "code3-negative-line-delta-dropped"
    if v in ((3, 6), (3, 7)) and any(d >= 128 for d in deltas):
        return "code3-line-delta-ge128-in-signed-format"
    return None


def run(ctx):
    rep, drv = ctx.rep, ctx.driver
    rng = random.Random(ctx.seed)
    w = Worker()
    oracles = {}
    try:
        N = 40 if not ctx.thorough else 1200
        for v, encop, signed, ov in TYPES:
            cases = []
            # main stream: inside the domain where the encoder is claimed to work
            for _ in range(N):
                if v in FULL_DOMAIN:
                    first, m = gen_lines.mapping(rng, nondecreasing=False)
                else:
                    first, m = gen_lines.mapping(rng, nondecreasing=True, small=signed)
                cases.append((first, m, False))
            # stream aimed at the recorded findings (and at whatever else breaks there)
            for _ in range(max(6, N // 5)):
                first, m = gen_lines.mapping(rng, nondecreasing=not signed)
                cases.append((first, m, True))
            cases.append((1, [(0, 1), (6, 2), (300, 5)], False))
            cases.append((1, [(0, 1), (256, 2), (260, 3)], False))
            cases.append((5, [(0, 5), (128, 6), (131, 7)], False))
            if v in FULL_DOMAIN:
                cases.append((1000, [(0, 1000), (4, 1080), (6, 1500), (700, 20), (702, 20)], True))
                cases.append((10, [(0, 10), (510, 1010), (520, 1200), (1520, 40), (1522, 39)], True))
            if encop == "x.enc310":
                # the last range ends with the code: len(co_code) of the object the worker builds
                outs = drv.ask(["%s %d %d %s" % (encop, first, 2 * ((m[-1][0] + 2) // 2), ",".join("%d:%d" % p for p in m)) for first, m, _ in cases])
            else:
                outs = drv.ask(["%s %d %s" % (encop, first, ",".join("%d:%d" % p for p in m)) for first, m, _ in cases])
            for (first, m, aimed), mo in zip(cases, outs):
                clen = m[-1][0] + 2
                # one case in three is supplied to an object that has been through freeze() before
                mode = [None, None, "inplace", "replace"][rng.randrange(4)]
                r = w.r("freeze_lnotab", version=list(v), first=first, code_len=clen, mapping=[list(p) for p in m], refreeze=mode)
                inp = {"version": list(v), "first": first, "mapping": m}
                if mode:
                    inp["history"] = "object frozen once with {0: first}, then the mapping given %s, then freeze()" % (
                        "by replace()" if mode == "replace" else "by attribute assignment")
                rep.count(1, (v, first, tuple(m)))
                want = fmt(dedup(m))
                if "tab" not in r:
                    it, idec = "(err %s)" % r.get("err"), None
                else:
                    it, idec = r["tab"] or "-", fmt([tuple(p) for p in r["decoded"]])
                tie_ok = (it == mo)
                bad = None
                if idec is None:
                    bad = "freeze() raised %s" % r.get("err")
                elif idec != want:
                    bad = "decoded by xdis's own line-start routine: %s" % idec
                elif ov is not None and ov in core.ORACLES:
                    if ov not in oracles:
                        oracles[ov] = Oracle(ov)
                    od = oracles[ov].r("linestarts", first=first, code_len=clen + (clen % 2), tab=r["tab"])
                    ods = fmt([tuple(p) for p in od]) if isinstance(od, list) else str(od)
                    if ods != want:
                        bad = "decoded by CPython %d.%d: %s" % (ov[0], ov[1], ods)
                if bad:
                    kk = known_key(v, first, m)
                    key = kk if (kk and tie_ok) else "freeze:%d.%d:%d:%s" % (v[0], v[1], first, fmt(m))
                    rep.violation(key, "freeze() line table does not decode back on %s: table %s, expected %s, %s" % (inp, it, want, bad),
                                  dict(inp, call="%s.freeze(); findlinestarts" % r.get("cls"), table=it, expected=want, actual=bad))
                elif not tie_ok:
                    rep.violation("corr:encode:%d.%d:%d:%s" % (v[0], v[1], first, fmt(m)),
                                  "Model of encode_lineno_tab disagrees with implementation on %s: impl %s model %s" % (inp, it, mo),
                                  dict(inp, impl=it, model=mo), found_input=False)
            rep.sample({"version": list(v), "first": cases[0][0], "mapping": cases[0][1], "encoded": outs[0]})
    finally:
        w.close()
        for o in oracles.values():
            o.close()


def replay(ctx, rp):
    r = rp.get("replay", {})
    print(json.dumps(r, indent=1)[:1200])
    w = Worker()
    try:
        if "mapping" in r:
            m = [tuple(p) for p in r["mapping"]]
            got = w.r("freeze_lnotab", version=r["version"], first=r["first"], code_len=m[-1][0] + 2, mapping=[list(p) for p in m])
            print("now:", got)
            if "decoded" not in got or fmt([tuple(p) for p in got["decoded"]]) != r.get("expected"):
                ctx.rep.violation(rp["key"], rp["what"], r)
    finally:
        w.close()

/-
C19, composed round trip for the 3.10 line table (Code310, PEP 626).

For every mapping that starts at offset 0 and whose offsets increase strictly up to the end of the
code — any length, any offset gaps, any line gaps up or down — the table `encode_lineno_tab`
writes is read back by CPython 3.10's `co_lines()` + `dis.findlinestarts` (`Spec.Lines`, to which
xdis's reader is proved equal in C05) as exactly the line starts of the mapping.
-/
import XV.Model.LineEnc
import XV.Spec.Lines
namespace XV.Props.C19.R310
open XV XV.Model.LineEnc XV.Spec.Lines
set_option linter.unusedVariables false
set_option linter.unusedSimpArgs false

def sb (b : Nat) : Int := if b ≥ 128 then (b : Int) - 256 else b

theorem decode310_cons (a b : Nat) (rest : Bytes) :
    decode310 (a :: b :: rest) = { sdelta := a, ldelta := sb b } :: decode310 rest := by
  simp [decode310, sb]

theorem sb_enc (l : Int) (h1 : -128 ≤ l) (h2 : l ≤ 127) : sb (l % 256).toNat = l := by
  unfold sb
  by_cases hl : 0 ≤ l
  · have : (l % 256).toNat = l.toNat := by omega
    rw [this]
    have : ¬ l.toNat ≥ 128 := by omega
    simp only [this, if_false]; omega
  · have : ((l % 256).toNat : Int) = l + 256 := by omega
    have hge : (l % 256).toNat ≥ 128 := by omega
    simp only [hge, if_true]; omega

/-- a zero-length entry only moves the line -/
theorem ranges_zero (start : Nat) (line ld : Int) (h : ld ≠ -128) (rest : List E310) :
    ranges310 start line ({ sdelta := 0, ldelta := ld } :: rest) = ranges310 start (line + ld) rest := by
  simp [ranges310, h]

/-- a non-empty range with a line -/
theorem ranges_pos (start sd : Nat) (line ld : Int) (h : ld ≠ -128) (hs : sd ≠ 0) (rest : List E310) :
    ranges310 start line ({ sdelta := sd, ldelta := ld } :: rest) =
      (start, start + sd, some (line + ld)) :: ranges310 (start + sd) (line + ld) rest := by
  simp [ranges310, h, hs]

theorem sb_127 : sb 127 = 127 := by decide
theorem sb_129 : sb 129 = -127 := by decide

/-- upward line continuation: zero-length entries -/
theorem decode_pos (fuel : Nat) : ∀ (ld : Int), ld.natAbs ≤ fuel → ∀ (start : Nat) (line : Int) (tail : Bytes)
    (bs : Bytes) (l' : Int), split310Pos fuel ld = (bs, l') →
    ranges310 start line (decode310 (bs ++ tail)) = ranges310 start (line + (ld - l')) (decode310 tail) ∧
    l' ≤ 127 ∧ (ld ≤ 127 → l' = ld) ∧ (ld > 127 → 0 < l') := by
  induction fuel with
  | zero =>
    intro ld h start line tail bs l' heq
    have : ld = 0 := by omega
    subst this
    simp [split310Pos] at heq
    obtain ⟨rfl, rfl⟩ := heq
    simp
  | succ f ih =>
    intro ld h start line tail bs l' heq
    unfold split310Pos at heq
    by_cases hd : ld > 127
    · simp only [hd, if_true] at heq
      cases hrec : split310Pos f (ld - 127) with
      | mk bs2 l2 =>
        rw [hrec] at heq
        simp only [Prod.mk.injEq] at heq
        obtain ⟨rfl, rfl⟩ := heq
        obtain ⟨h1, h2, h3, h4⟩ := ih (ld - 127) (by omega) start (line + 127) tail bs2 l2 hrec
        simp only [List.cons_append, List.nil_append]
        rw [decode310_cons, sb_127, ranges_zero _ _ _ (by decide), h1]
        refine ⟨?_, h2, fun hh => by omega, fun _ => ?_⟩
        · congr 1; omega
        · by_cases hd2 : ld - 127 > 127
          · exact h4 hd2
          · have := h3 (by omega); omega
    · simp only [hd, if_false, Prod.mk.injEq] at heq
      obtain ⟨rfl, rfl⟩ := heq
      simp only [List.nil_append]
      refine ⟨by simp, by omega, fun _ => trivial, fun h => absurd h hd⟩

/-- downward line continuation -/
theorem decode_neg (fuel : Nat) : ∀ (ld : Int), ld.natAbs ≤ fuel → ∀ (start : Nat) (line : Int) (tail : Bytes)
    (bs : Bytes) (l' : Int), split310Neg fuel ld = (bs, l') →
    ranges310 start line (decode310 (bs ++ tail)) = ranges310 start (line + (ld - l')) (decode310 tail) ∧
    -127 ≤ l' ∧ (-127 ≤ ld → l' = ld) ∧ (ld < -127 → l' < 0) := by
  induction fuel with
  | zero =>
    intro ld h start line tail bs l' heq
    have : ld = 0 := by omega
    subst this
    simp [split310Neg] at heq
    obtain ⟨rfl, rfl⟩ := heq
    simp
  | succ f ih =>
    intro ld h start line tail bs l' heq
    unfold split310Neg at heq
    by_cases hd : ld < -127
    · simp only [hd, if_true] at heq
      cases hrec : split310Neg f (ld + 127) with
      | mk bs2 l2 =>
        rw [hrec] at heq
        simp only [Prod.mk.injEq] at heq
        obtain ⟨rfl, rfl⟩ := heq
        obtain ⟨h1, h2, h3, h4⟩ := ih (ld + 127) (by omega) start (line + -127) tail bs2 l2 hrec
        simp only [List.cons_append, List.nil_append]
        rw [decode310_cons, sb_129, ranges_zero _ _ _ (by decide), h1]
        refine ⟨?_, h2, fun hh => by omega, fun _ => ?_⟩
        · congr 1; omega
        · by_cases hd2 : ld + 127 < -127
          · exact h4 hd2
          · have := h3 (by omega); omega
    · simp only [hd, if_false, Prod.mk.injEq] at heq
      obtain ⟨rfl, rfl⟩ := heq
      simp only [List.nil_append]
      refine ⟨by simp, by omega, fun _ => trivial, fun h => absurd h hd⟩

/-- what `findlinestarts` adds for a range starting at `start` with line `l` -/
def rep (last : Option Int) (start : Nat) (l : Int) : List (Nat × Int) :=
  if some l ≠ last then [(start, l)] else []

theorem starts_some (last : Option Int) (s e : Nat) (l : Int) (rest : List (Nat × Nat × Option Int)) :
    startsOfRanges last ((s, e, some l) :: rest) = rep last s l ++ startsOfRanges (some l) rest := by
  unfold rep
  by_cases h : some l ≠ last
  · simp [startsOfRanges, h]
  · have : last = some l := by
      by_cases hh : last = some l
      · exact hh
      · exact absurd (fun h2 => hh h2.symm) h
    subst this
    simp [startsOfRanges]

theorem rep_same (start : Nat) (l : Int) : rep (some l) start l = [] := by simp [rep]

/-- the range of one mapping entry: address continuation chunks and the final pair -/
theorem decode_addr (fuel : Nat) : ∀ (sd : Nat) (ld : Int), sd ≤ fuel → 0 < sd → -127 ≤ ld → ld ≤ 127 →
    ∀ (last : Option Int) (start : Nat) (line : Int) (tail : Bytes) (bs : Bytes) (s' : Nat) (l' : Int),
    split310Addr fuel sd ld = (bs, s', l') →
    startsOfRanges last (ranges310 start line (decode310 (bs ++ [s', (l' % 256).toNat] ++ tail))) =
      rep last start (line + ld) ++
        startsOfRanges (some (line + ld)) (ranges310 (start + sd) (line + ld) (decode310 tail)) := by
  induction fuel with
  | zero => intro sd ld h hpos; omega
  | succ f ih =>
    intro sd ld h hpos hl1 hl2 last start line tail bs s' l' heq
    unfold split310Addr at heq
    by_cases hd : sd > 254
    · simp only [hd, if_true] at heq
      cases hrec : split310Addr f (sd - 254) 0 with
      | mk bs2 r =>
        obtain ⟨s2, l2⟩ := r
        rw [hrec] at heq
        simp only [Prod.mk.injEq] at heq
        obtain ⟨rfl, rfl, rfl⟩ := heq
        have := ih (sd - 254) 0 (by omega) (by omega) (by omega) (by omega) (some (line + ld)) (start + 254) (line + ld)
          tail bs2 s2 l2 hrec
        simp only [List.cons_append, List.nil_append, List.append_assoc] at this ⊢
        rw [decode310_cons, sb_enc ld (by omega) hl2, ranges_pos _ _ _ _ (by omega) (by decide), starts_some, this]
        simp only [Int.add_zero, rep_same, List.nil_append]
        have e1 : start + 254 + (sd - 254) = start + sd := by omega
        rw [e1]
    · simp only [hd, if_false, Prod.mk.injEq] at heq
      obtain ⟨rfl, rfl, rfl⟩ := heq
      simp only [List.nil_append, List.cons_append]
      rw [decode310_cons, sb_enc ld (by omega) hl2, ranges_pos _ _ _ _ (by omega) (by omega), starts_some]

/-- the line starts of a mapping as `findlinestarts` reports them: each entry unless its line is
    the line reported last -/
def exp310 : Option Int → List (Int × Int) → List (Nat × Int)
  | _, [] => []
  | last, (o, l) :: rest => rep last o.toNat l ++ exp310 (some l) rest

/-- offsets start at `po`, increase strictly and end before `codeLen` -/
def Tiles (codeLen : Int) : Int → List (Int × Int) → Prop
  | _, [] => True
  | po, (o, _) :: rest => o = po ∧ o < nextOff codeLen rest ∧ Tiles codeLen (nextOff codeLen rest) rest

theorem round310Go (codeLen : Int) (m : List (Int × Int)) : ∀ (po pl : Int) (last : Option Int), 0 ≤ po →
    Tiles codeLen po m →
    ∃ tab, encode310Go codeLen pl m = .ok tab ∧
      startsOfRanges last (ranges310 po.toNat pl (decode310 tab)) = exp310 last m := by
  induction m with
  | nil => intro po pl last _ _; exact ⟨[], rfl, by simp [decode310, ranges310, startsOfRanges, exp310]⟩
  | cons e rest ih =>
    intro po pl last hpo ht
    obtain ⟨o, l⟩ := e
    obtain ⟨ho, hlt, hrest⟩ := ht
    subst ho
    -- the end of this entry's range
    generalize hend : nextOff codeLen rest = endOff at hlt hrest
    have hlt' : o < endOff := hlt
    obtain ⟨tl, htl, hdec⟩ := ih endOff l (some l) (by omega) hrest
    have hsd : ¬ (endOff - o < 0) := by omega
    cases h1 : split310Pos (l - pl).natAbs (l - pl) with
    | mk c1 ld1 =>
      cases h2 : split310Neg (l - pl).natAbs ld1 with
      | mk c2 ld2 =>
        cases h3 : split310Addr (endOff - o).toNat (endOff - o).toNat ld2 with
        | mk c3 r3 =>
          obtain ⟨sd3, ld3⟩ := r3
          refine ⟨c1 ++ c2 ++ c3 ++ [sd3, (ld3 % 256).toNat] ++ tl, ?_, ?_⟩
          · simp only [encode310Go, hend, hsd, if_false, h1, h2, h3, htl]
            rfl
          · obtain ⟨p1, p2, p3, p4⟩ := decode_pos (l - pl).natAbs (l - pl) (Nat.le_refl _) o.toNat pl
              (c2 ++ c3 ++ [sd3, (ld3 % 256).toNat] ++ tl) c1 ld1 h1
            have hld1abs : ld1.natAbs ≤ (l - pl).natAbs := by
              by_cases hL : l - pl > 127
              · have := p4 hL; omega
              · have := p3 (by omega); omega
            obtain ⟨q1, q2, q3, q4⟩ := decode_neg (l - pl).natAbs ld1 hld1abs o.toNat (pl + (l - pl - ld1))
              (c3 ++ [sd3, (ld3 % 256).toNat] ++ tl) c2 ld2 h2
            have hld2 : -127 ≤ ld2 ∧ ld2 ≤ 127 := by
              constructor
              · exact q2
              · by_cases hN : ld1 < -127
                · have := q4 hN; omega
                · have := q3 (by omega); omega
            have happ : c1 ++ c2 ++ c3 ++ [sd3, (ld3 % 256).toNat] ++ tl =
                c1 ++ (c2 ++ c3 ++ [sd3, (ld3 % 256).toNat] ++ tl) := by simp [List.append_assoc]
            have happ2 : c2 ++ c3 ++ [sd3, (ld3 % 256).toNat] ++ tl =
                c2 ++ (c3 ++ [sd3, (ld3 % 256).toNat] ++ tl) := by simp [List.append_assoc]
            rw [happ, p1, happ2, q1]
            have := decode_addr (endOff - o).toNat (endOff - o).toNat ld2 (Nat.le_refl _) (by omega) hld2.1 hld2.2
              last o.toNat (pl + (l - pl - ld1) + (ld1 - ld2)) tl c3 sd3 ld3 h3
            rw [this]
            have e1 : pl + (l - pl - ld1) + (ld1 - ld2) + ld2 = l := by omega
            have e2 : o.toNat + (endOff - o).toNat = endOff.toNat := by omega
            rw [e1, e2, hdec]
            rfl

/-- C19_roundtrip310: for every mapping `(0, l₀), (o₁, l₁), …` whose offsets increase strictly up to the
    end of the code, with ARBITRARY lines — any length, any gaps — the 3.10 encoder succeeds and
    CPython 3.10's `co_lines()` + `findlinestarts` read its table back as the mapping's line starts -/
theorem C19_roundtrip310 (first codeLen : Int) (m : List (Int × Int)) (h : Tiles codeLen 0 m) :
    ∃ tab, encode310 first codeLen m = .ok tab ∧
      startsOfRanges none (coLines310 first tab) = exp310 none m := by
  obtain ⟨tab, h1, h2⟩ := round310Go codeLen m 0 first none (by omega) h
  exact ⟨tab, h1, by simpa [coLines310] using h2⟩

/-- non-vacuity, with the cases the old encoder got wrong: gaps above 127 and below -127, a range longer
    than 254 bytes, a repeated line -/
example : Tiles 1400 0 [(0, 1000), (4, 1080), (6, 1500), (700, 20), (702, 20)] := by simp [Tiles, nextOff]
example : (encode310 1000 1400 [(0, 1000), (4, 1080), (6, 1500), (700, 20), (702, 20)]).toOption.map
      (fun tab => startsOfRanges none (coLines310 1000 tab)) =
    some [(0, 1000), (4, 1080), (6, 1500), (700, 20)] ∧
    exp310 none [(0, 1000), (4, 1080), (6, 1500), (700, 20), (702, 20)] = [(0, 1000), (4, 1080), (6, 1500), (700, 20)] := by
  decide +kernel

end XV.Props.C19.R310

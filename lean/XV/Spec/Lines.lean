/-
Spec: what CPython does with line tables.
 * dis.findlinestarts of 2.7 (unsigned), 3.6/3.7 (signed), 3.8/3.9 (signed + cut-off
   after the increment) — read off the installed dis.py sources;
 * co_lines() of 3.10 (PEP 626 / lnotab_notes.txt);
 * the 3.11+ location table (Objects/locations.md) given as an ENCODER of entries plus
   the per-code-unit meaning of an entry list;
 * the 3.11+ exception table (exception_handling_notes.txt) given as an encoder.
Never mentions xdis.
-/
import XV.Base.Bytes
namespace XV.Spec.Lines
open XV

/-! ### dis.findlinestarts, lnotab eras -/

/-- state of CPython's loop: (lastlineno, lineno, addr), output accumulated in order -/
def starts27Go : Option Int → Int → Nat → List (Nat × Nat) → List (Nat × Int)
  | last, line, addr, [] => if last ≠ some line then [(addr, line)] else []
  | last, line, addr, (bi, li) :: rest =>
    if bi ≠ 0 then
      if last ≠ some line then (addr, line) :: starts27Go (some line) (line + li) (addr + bi) rest
      else starts27Go last (line + li) (addr + bi) rest
    else starts27Go last (line + li) addr rest

def pairs : Bytes → List (Nat × Nat)
  | a :: b :: rest => (a, b) :: pairs rest
  | _ => []

/-- Python ≤ 3.5: unsigned line increments -/
def starts27 (first : Int) (tab : Bytes) : List (Nat × Int) := starts27Go none first 0 (pairs tab)

def sdelta (li : Nat) : Int := if li ≥ 0x80 then (li : Int) - 0x100 else li

def starts36Go : Option Int → Int → Nat → List (Nat × Nat) → List (Nat × Int)
  | last, line, addr, [] => if last ≠ some line then [(addr, line)] else []
  | last, line, addr, (bi, li) :: rest =>
    if bi ≠ 0 then
      if last ≠ some line then (addr, line) :: starts36Go (some line) (line + sdelta li) (addr + bi) rest
      else starts36Go last (line + sdelta li) (addr + bi) rest
    else starts36Go last (line + sdelta li) addr rest

/-- Python 3.6, 3.7: signed line increments -/
def starts36 (first : Int) (tab : Bytes) : List (Nat × Int) := starts36Go none first 0 (pairs tab)

def starts38Go (codeLen : Nat) : Option Int → Int → Nat → List (Nat × Nat) → List (Nat × Int)
  | last, line, addr, [] => if last ≠ some line then [(addr, line)] else []
  | last, line, addr, (bi, li) :: rest =>
    if bi ≠ 0 then
      let out := if last ≠ some line then [(addr, line)] else []
      let last' := if last ≠ some line then some line else last
      let addr' := addr + bi
      if addr' ≥ codeLen then out
      else out ++ starts38Go codeLen last' (line + sdelta li) addr' rest
    else starts38Go codeLen last (line + sdelta li) addr rest

/-- Python 3.8, 3.9: as 3.6 plus `addr += byte_incr; if addr >= len(co_code): return` -/
def starts38 (first : Int) (codeLen : Nat) (tab : Bytes) : List (Nat × Int) :=
  starts38Go codeLen none first 0 (pairs tab)

/-! ### 3.10 co_lines() — lnotab_notes.txt / codeobject.c lineiter -/

/-- a table entry as the format defines it -/
structure E310 where
  sdelta : Nat          -- unsigned byte
  ldelta : Int          -- signed byte, -128 = no line

/-- the line computed for each entry: running line *after* applying this entry's delta -/
def ranges310 : Nat → Int → List E310 → List (Nat × Nat × Option Int)
  | _, _, [] => []
  | start, line, e :: rest =>
    let line' := if e.ldelta = -128 then line else line + e.ldelta
    let r := ranges310 (start + e.sdelta) line' rest
    if e.sdelta = 0 then r
    else (start, start + e.sdelta, if e.ldelta = -128 then none else some line') :: r

def decode310 : Bytes → List E310
  | a :: b :: rest => { sdelta := a, ldelta := if b ≥ 128 then (b : Int) - 256 else b } :: decode310 rest
  | _ => []

def coLines310 (first : Int) (tab : Bytes) : List (Nat × Nat × Option Int) := ranges310 0 first (decode310 tab)

/-- dis.findlinestarts of 3.10–3.12 over co_lines() -/
def startsOfRanges : Option Int → List (Nat × Nat × Option Int) → List (Nat × Int)
  | _, [] => []
  | last, (s, _, none) :: rest => startsOfRanges last rest
  | last, (s, _, some l) :: rest =>
    if some l ≠ last then (s, l) :: startsOfRanges (some l) rest else startsOfRanges last rest

/-! ### 3.11+ location table: entries, encoder, meaning -/

/-- little-endian 6-bit varint (locations.md) -/
def encVarint (n : Nat) : Bytes :=
  if h : n < 64 then [n] else (64 + n % 64) :: encVarint (n / 64)
termination_by n
decreasing_by omega

/-- signed varint: zig-zag with the sign in bit 0 -/
def encSVarint (i : Int) : Bytes :=
  if i < 0 then encVarint (((-i).toNat <<< 1) ||| 1) else encVarint (i.toNat <<< 1)

inductive LocEntry where
  /-- codes 0–9: same line, column = code*8 + hi, end = column + lo -/
  | short (units : Nat) (code : Nat) (hi : Nat) (lo : Nat)
  /-- codes 10–12: line += k (k ≤ 2), two column bytes -/
  | oneLine (units : Nat) (k : Nat) (col : Nat) (endCol : Nat)
  /-- code 13: line += delta, no columns -/
  | noCol (units : Nat) (delta : Int)
  /-- code 14: line += delta, end line = line + endDelta, columns stored +1 -/
  | long (units : Nat) (delta : Int) (endDelta : Nat) (col1 : Nat) (endCol1 : Nat)
  /-- code 15: no location -/
  | none (units : Nat)
  deriving Repr

def LocEntry.units : LocEntry → Nat
  | .short u .. | .oneLine u .. | .noCol u .. | .long u .. | .none u => u

/-- field ranges the format allows: 1 ≤ units ≤ 8, code ≤ 9, nibbles, column bytes < 128 -/
def LocEntry.WF : LocEntry → Prop
  | .short u c hi lo => 1 ≤ u ∧ u ≤ 8 ∧ c ≤ 9 ∧ hi < 8 ∧ lo < 16
  | .oneLine u k col ec => 1 ≤ u ∧ u ≤ 8 ∧ k ≤ 2 ∧ col < 128 ∧ ec < 128
  | .noCol u _ => 1 ≤ u ∧ u ≤ 8
  | .long u _ _ _ _ => 1 ≤ u ∧ u ≤ 8
  | .none u => 1 ≤ u ∧ u ≤ 8

def firstByte (code units : Nat) : Nat := 128 + code * 8 + (units - 1)

def encodeEntry : LocEntry → Bytes
  | .short u c hi lo => [firstByte c u, hi * 16 + lo]
  | .oneLine u k col ec => [firstByte (10 + k) u, col, ec]
  | .noCol u d => firstByte 13 u :: encSVarint d
  | .long u d ed c1 ec1 => firstByte 14 u :: (encSVarint d ++ encVarint ed ++ encVarint c1 ++ encVarint ec1)
  | .none u => [firstByte 15 u]

def encodeLoc (es : List LocEntry) : Bytes := es.flatMap encodeEntry

/-- the line of every code unit (what co_lines() of 3.11–3.13 reports per unit) -/
def unitLines : Int → List LocEntry → List (Option Int)
  | _, [] => []
  | line, e :: rest =>
    match e with
    | .short u .. => List.replicate u (some line) ++ unitLines line rest
    | .oneLine u k .. => List.replicate u (some (line + k)) ++ unitLines (line + k) rest
    | .noCol u d => List.replicate u (some (line + d)) ++ unitLines (line + d) rest
    | .long u d .. => List.replicate u (some (line + d)) ++ unitLines (line + d) rest
    | .none u => List.replicate u none ++ unitLines line rest

abbrev Pos := Option (Int × Int × Option Int × Option Int)

/-- a stored `col + 1` of 0 means "no column" -/
def colOf (c1 : Nat) : Option Int := if c1 = 0 then none else some ((c1 : Int) - 1)

/-- co_positions(): one (line, endline, col, endcol) per code unit; `none` columns
    where the form carries none -/
def unitPositions : Int → List LocEntry → List Pos
  | _, [] => []
  | line, e :: rest =>
    match e with
    | .short u c hi lo =>
      List.replicate u (some (line, line, some ((c * 8 + hi : Nat) : Int), some ((c * 8 + hi + lo : Nat) : Int))) ++ unitPositions line rest
    | .oneLine u k col ec =>
      List.replicate u (some (line + k, line + k, some (col : Int), some (ec : Int))) ++ unitPositions (line + k) rest
    | .noCol u d => List.replicate u (some (line + d, line + d, none, none)) ++ unitPositions (line + d) rest
    | .long u d ed c1 ec1 =>
      List.replicate u (some (line + d, line + d + ed, colOf c1, colOf ec1)) ++ unitPositions (line + d) rest
    | .none u => List.replicate u none ++ unitPositions line rest

/-- expansion of co_lines()-style ranges to one line per code unit (2 bytes) -/
def expandRanges : List (Nat × Nat × Option Int) → List (Option Int)
  | [] => []
  | (s, e, l) :: rest => List.replicate ((e - s) / 2) l ++ expandRanges rest

/-! ### 3.11+ exception table: big-endian 6-bit varints, first byte of an entry marked -/

/-- big-endian digits of n (most significant first), at least one digit -/
def beDigits (n : Nat) : List Nat :=
  if h : n < 64 then [n] else beDigits (n / 64) ++ [n % 64]
termination_by n
decreasing_by omega

/-- continuation bit (64) on all but the last digit -/
def markCont : List Nat → Bytes
  | [] => []
  | [d] => [d]
  | d :: rest => (64 + d) :: markCont rest

def encVarintBE (n : Nat) : Bytes := markCont (beDigits n)

structure ExcEntry where
  start : Nat     -- in code units
  length : Nat
  target : Nat
  depth : Nat
  lasti : Bool
  deriving Repr, DecidableEq

/-- bit 7 on the first byte marks the start of an entry -/
def markFirst : Bytes → Bytes
  | [] => []
  | b :: r => (128 + b) :: r

def encodeExcEntry (e : ExcEntry) : Bytes :=
  markFirst (encVarintBE e.start) ++
  encVarintBE e.length ++ encVarintBE e.target ++ encVarintBE (e.depth * 2 + (if e.lasti then 1 else 0))

def encodeExc (es : List ExcEntry) : Bytes := es.flatMap encodeExcEntry

end XV.Spec.Lines

# Extra oracle ops (decoder family and later ones).  Syntax valid on 2.7.
import sys, dis, re

PY = sys.version_info[:2]
BIG = 300


def register(op, g):
    unhex, tohex, mkcode = g["unhex"], g["tohex"], g["mkcode"]

    def bigtables():
        consts = tuple(range(1000, 1000 + BIG))
        names = tuple("n%d" % i for i in range(BIG))
        varnames = tuple("v%d" % i for i in range(BIG))
        return consts, names, varnames

    @op
    def unpack(a):
        code = unhex(a["code"])
        if PY >= (3, 6):
            out = []
            for t in dis._unpack_opargs(code):
                if len(t) == 4:          # 3.13: (offset, start_offset, op, arg)
                    out.append([t[0], t[2], t[3]])
                else:
                    out.append([t[0], t[1], t[2]])
            return out
        # 2.7: dis.disassemble's own loop (copied verbatim from Lib/dis.py of 2.7)
        import opcode
        out = []
        n = len(code)
        i = 0
        extended_arg = 0
        while i < n:
            c = code[i]
            o = ord(c)
            off = i
            i = i + 1
            if o >= opcode.HAVE_ARGUMENT:
                oparg = ord(code[i]) + ord(code[i + 1]) * 256 + extended_arg
                extended_arg = 0
                i = i + 2
                if o == opcode.EXTENDED_ARG:
                    extended_arg = oparg * 65536
                out.append([off, o, oparg])
            else:
                out.append([off, o, None])
        return out

    @op
    def findlabels(a):
        return list(dis.findlabels(unhex(a["code"])))

    @op
    def instrs(a):
        """dis.get_instructions on a code object with large tables (3.4+)"""
        consts, names, varnames = bigtables()
        kw = {}
        co = mkcode(unhex(a["code"]), a.get("first", 1), unhex(a.get("linetab", "")), unhex(a.get("exctab", "")) if PY >= (3, 11) else None,
                    consts=consts, names=names, varnames=varnames,
                    freevars=a.get("freevars"), cellvars=a.get("cellvars"))
        out = []
        for i in dis.get_instructions(co):
            av = i.argval
            if not isinstance(av, (int, str, type(None))):
                av = repr(av)
            out.append({"offset": i.offset, "opcode": i.opcode, "opname": i.opname, "arg": i.arg, "argval": av,
                        "jt": bool(i.is_jump_target), "line": getattr(i, "starts_line", None) if PY < (3, 13) else getattr(i, "line_number", None)})
        return out

    @op
    def dis27(a):
        """text of dis.disassemble (2.7) parsed column-wise"""
        import StringIO
        consts, names, varnames = bigtables()
        co = mkcode(unhex(a["code"]), a.get("first", 1), unhex(a.get("linetab", "")), consts=consts, names=names, varnames=varnames)
        old = sys.stdout
        sys.stdout = buf = StringIO.StringIO()
        try:
            dis.disassemble(co)
        finally:
            sys.stdout = old
        out = []
        for line in buf.getvalue().split("\n"):
            m = re.match(r"^\s*(\d+)?\s*(-->)?\s*(>>)?\s*(\d+) (\S+)\s*(\d+)?\s*(\(.*\))?\s*$", line)
            if m:
                out.append({"line": int(m.group(1)) if m.group(1) else None, "jt": bool(m.group(3)), "offset": int(m.group(4)),
                            "opname": m.group(5), "arg": int(m.group(6)) if m.group(6) else None, "argrepr": m.group(7)})
        return out

    @op
    def stack_effect(a):
        out = []
        for o, arg in a["pairs"]:
            try:
                out.append(dis.stack_effect(o, arg) if arg is not None else dis.stack_effect(o))
            except ValueError:
                out.append(None)
        return out

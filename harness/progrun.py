"""Run the program pipeline for one property and turn differences into violations."""
import json
import os
import random

import core
import progcheck
import progdiff

HEAVY = ("big_tables", "long_jumps", "big_bytes_tuple", "extarg3")


def ref_cats():
    refs = {tuple(r["version"][:2]): r for r in json.load(open(os.path.join(core.BUILD, "refs.json")))}
    out = {}
    for v, r in refs.items():
        cats = {}
        for a, cname in (("hasconst", "const"), ("hasname", "name"), ("haslocal", "local"), ("hasfree", "free"),
                         ("hascompare", "compare"), ("hasjrel", "jrel"), ("hasjabs", "jabs")):
            for op in r[a] or []:
                cats[op] = cname
        out[v] = (cats, set(r["hasjrel"]) | set(r["hasjabs"]))
    return out


def apply(ctx, which, what, host=None, path=None, via_std=False, tag="prog"):
    """which: name of a progdiff function; what: words for the violation message"""
    rep = ctx.rep
    rng = random.Random(ctx.seed + 17)
    cats = ref_cats()
    fn = getattr(progdiff, which)
    n = 0
    heavy_versions = set(core.ORACLES) if ctx.thorough else {(2, 7), (3, 8), (3, 11), (3, 13)}
    for v, name, o, im in progcheck.run_programs(rng, 3 if not ctx.thorough else 40, host=host, path=path, via_std=via_std):
        if name in HEAVY and v not in heavy_versions:
            continue
        n += 1
        if which == "diff_argvals":
            res = fn(v, name, o, im, cats[v][0])
        elif which == "diff_labels":
            res = fn(v, name, o, im, cats[v][1])
        else:
            res = fn(v, name, o, im)
        rep.count(len(o.get("codes", [])), ("prog", v, name))
        for key, msg, rp in res:
            src = progcheck.program_set(random.Random(ctx.seed + 17), 3 if not ctx.thorough else 40).get(name, "")
            rep.violation("%s:%d.%d:%s:%s" % (tag, v[0], v[1], name, key),
                          "%s differs from CPython %d.%d for program %r: %s" % (what, v[0], v[1], name, msg),
                          dict(rp, program=name, version=list(v), source=src[:1500], pyc=o.get("pyc", "")[:200000],
                               how="compile the source with that CPython, load the .pyc with xdis.load.load_module, compare"))
    rep.sample({"programs_x_versions": n, "comparison": which})
    return n


def apply_many(ctx, specs, host=None, path=None, via_std=False):
    """specs: list of (progdiff function name, words, key tag) evaluated in ONE pass over the programs"""
    rep = ctx.rep
    rng = random.Random(ctx.seed + 17)
    cats = ref_cats()
    n = 0
    heavy_versions = set(core.ORACLES) if ctx.thorough else {(2, 7), (3, 8), (3, 11), (3, 13)}
    ngen = 3 if not ctx.thorough else 40
    srcs = progcheck.program_set(random.Random(ctx.seed + 17), ngen)
    for v, name, o, im in progcheck.run_programs(rng, ngen, host=host, path=path, via_std=via_std):
        if name in HEAVY and v not in heavy_versions:
            continue
        n += 1
        rep.count(len(o.get("codes", [])), ("prog", v, name, via_std, path, host))
        for which, what, tag in specs:
            fn = getattr(progdiff, which)
            if which == "diff_argvals":
                res = fn(v, name, o, im, cats[v][0])
            elif which == "diff_labels":
                res = fn(v, name, o, im, cats[v][1])
            else:
                res = fn(v, name, o, im)
            for key, msg, rp in res:
                rep.violation("%s:%d.%d:%s:%s" % (tag, v[0], v[1], name, key),
                              "%s differs from CPython %d.%d for program %r: %s" % (what, v[0], v[1], name, msg),
                              dict(rp, program=name, version=list(v), source=srcs.get(name, "")[:1500], pyc=o.get("pyc", "")[:200000],
                                   how="compile the source with that CPython, load the .pyc with xdis.load.load_module, compare"))
    rep.sample({"programs_x_versions": n, "comparisons": [s[0] for s in specs], "via_std": via_std, "path": path, "host": host})
    return n

/-
C12 — Listings are total, faithful to the instruction stream, and clean.
Model = XV.Model.Listing (transcription of Bytecode.disassemble_bytes' loop and of
disco_loop's queue).  The theorems say, for every instruction list of any length:
the rows of the listing are exactly the instructions the format shows, once each and
in order, with the stream's offset / opcode / operand / jump-target flag, and with the
stream's line number (or, in pre-2.3 code, the operand of the SET_LINENO before it);
every code object of the constant tree is listed exactly once; and the only
print()/sys.stdout.write() sites reachable from disassemble_file in the call graph
extracted on this run are the two allowed ones.
-/
import XV.Model.Listing
import XV.Gen.Effects
namespace XV.Props.C12
open XV XV.Model.Listing

/-! ### the rows -/

/-- the SET_LINENO carry: the instruction after a SET_LINENO is shown with that line -/
def carry : Bool → Nat → List LI → List LI
  | _, _, [] => []
  | ls, n, i :: is =>
    (if ls then { i with startsLine := some n } else i) ::
      carry i.isSetLineno (if i.isSetLineno then i.argval else n) is

def keep (fmt : Fmt) (i : LI) : Bool := !(i.isCache && !(showsCache fmt))

def toRow (i : LI) : Out := .row i.offset i.opcode i.arg i.startsLine i.jt

def rows (os : List Out) : List Out := os.filter isRow

theorem rows_append (a b : List Out) : rows (a ++ b) = rows a ++ rows b := by simp [rows]

/-- state invariant of every format but "asm": the two EXTENDED_ARG variables stay None -/
def plain (st : St) : Prop := st.extLine = none ∧ st.extOff = none

theorem step_plain (fmt : Fmt) (h : fmt ≠ .asm) (sl : Bool) (st : St) (i : LI) (hp : plain st) :
    plain (step fmt sl st i).1 ∧
    (step fmt sl st i).1.lastSet = i.isSetLineno ∧
    (step fmt sl st i).1.setNo = (if i.isSetLineno then i.argval else st.setNo) ∧
    rows (step fmt sl st i).2 =
      ([if st.lastSet then { i with startsLine := some st.setNo } else i].filter (keep fmt)).map toRow := by
  obtain ⟨h1, h2⟩ := hp
  have hf : (fmt == Fmt.asm) = false := by cases fmt <;> first | rfl | exact absurd rfl h
  cases hl : st.lastSet <;> cases hc : i.isCache <;> cases hs : showsCache fmt <;> cases hr : i.isReserveFast <;>
    cases hn : (sl && (i.startsLine.isSome && decide (i.offset > 0))) <;>
    cases hn' : (sl && decide (i.offset > 0)) <;>
    simp_all [step, plain, truthy, rows, keep, toRow, isRow, List.filter]

/-- C12_rows: in the classic, bytes, extended and extended-bytes formats the rows of the
    listing are the shown instructions — each exactly once, in stream order — carrying the
    stream's offset, opcode, operand, '>>' flag and line number (after the SET_LINENO carry) -/
theorem run_rows (fmt : Fmt) (h : fmt ≠ .asm) (sl : Bool) (is : List LI) :
    ∀ st, plain st → rows (run fmt sl st is) = ((carry st.lastSet st.setNo is).filter (keep fmt)).map toRow := by
  induction is with
  | nil => intro st _; simp [run, carry, rows]
  | cons i is ih =>
    intro st hp
    obtain ⟨p1, p2, p3, p4⟩ := step_plain fmt h sl st i hp
    simp only [run, rows_append, p4, carry]
    rw [ih _ p1, p2, p3]
    generalize (if st.lastSet = true then ({ i with startsLine := some st.setNo } : LI) else i) = j
    simp only [List.filter_cons, List.filter_nil]
    cases keep fmt j <;> simp

theorem C12_rows (fmt : Fmt) (h : fmt ≠ .asm) (sl : Bool) (is : List LI) :
    rows (listing fmt sl is) = ((carry false 0 is).filter (keep fmt)).map toRow :=
  run_rows fmt h sl is {} ⟨rfl, rfl⟩

/-- without SET_LINENO instructions (every version from 2.3 on) the carry changes nothing -/
theorem carry_id (is : List LI) (h : ∀ i ∈ is, i.isSetLineno = false) (n : Nat) : carry false n is = is := by
  induction is generalizing n with
  | nil => rfl
  | cons i is ih =>
    have hi := h i (by simp)
    simp only [carry, hi, Bool.false_eq_true, if_false]
    rw [ih (fun j hj => h j (by simp [hj]))]

/-- C12_faithful: from 2.3 on, the rows are literally the stream (minus hidden CACHE entries):
    same offsets, names, operands, the '>>' flag iff is_jump_target, the line number iff starts_line -/
theorem C12_faithful (fmt : Fmt) (h : fmt ≠ .asm) (sl : Bool) (is : List LI)
    (hs : ∀ i ∈ is, i.isSetLineno = false) :
    rows (listing fmt sl is) = (is.filter (keep fmt)).map toRow := by
  rw [C12_rows fmt h sl is, carry_id is hs]

/-- in classic format exactly the non-CACHE instructions appear -/
theorem C12_classic_noncache (sl : Bool) (is : List LI) (hs : ∀ i ∈ is, i.isSetLineno = false) :
    rows (listing .classic sl is) = (is.filter (fun i => !i.isCache)).map toRow := by
  rw [C12_faithful .classic (by decide) sl is hs]
  congr 1
  congr 1
  funext i; simp [keep, showsCache]

/-- in bytes format every instruction appears, CACHE entries included -/
theorem C12_bytes_all (sl : Bool) (is : List LI) (hs : ∀ i ∈ is, i.isSetLineno = false) :
    rows (listing .bytes sl is) = is.map toRow := by
  rw [C12_faithful .bytes (by decide) sl is hs]
  congr 1
  apply List.filter_eq_self.mpr
  intro i _; simp [keep, showsCache]

/-- the carry leaves offsets, opcodes, operands and flags alone: also before 2.3 each
    instruction appears exactly once and in order -/
theorem carry_offsets (is : List LI) : ∀ ls n,
    (carry ls n is).map (fun i => (i.offset, i.opcode, i.arg, i.jt, i.isCache)) =
    is.map (fun i => (i.offset, i.opcode, i.arg, i.jt, i.isCache)) := by
  induction is with
  | nil => intros; rfl
  | cons i is ih => intro ls n; cases ls <;> simp [carry, ih]

/-- non-vacuity: a 3.11-style stream with a CACHE entry and a jump target -/
def ex : List LI :=
  [ { offset := 0, opcode := 151, arg := some 0, argval := 0, startsLine := some 0, jt := false, isSetLineno := false, isExtArg := false, isCache := false, isReserveFast := false },
    { offset := 2, opcode := 116, arg := some 1, argval := 0, startsLine := some 1, jt := false, isSetLineno := false, isExtArg := false, isCache := false, isReserveFast := false },
    { offset := 4, opcode := 0, arg := some 0, argval := 0, startsLine := none, jt := false, isSetLineno := false, isExtArg := false, isCache := true, isReserveFast := false },
    { offset := 6, opcode := 83, arg := none, argval := 0, startsLine := none, jt := true, isSetLineno := false, isExtArg := false, isCache := false, isReserveFast := false } ]

example : listing .classic true ex =
    [.row 0 151 (some 0) (some 0) false, .blank, .row 2 116 (some 1) (some 1) false, .row 6 83 none none true] := by decide
example : rows (listing .bytes true ex) = ex.map toRow := by decide

/-- pre-2.3: `SET_LINENO 7 ; LOAD_CONST` shows 7 on the LOAD_CONST -/
example : listing .classic true
    [ { offset := 0, opcode := 127, arg := some 7, argval := 7, startsLine := none, jt := false, isSetLineno := true, isExtArg := false, isCache := false, isReserveFast := false },
      { offset := 3, opcode := 100, arg := some 0, argval := 0, startsLine := none, jt := false, isSetLineno := false, isExtArg := false, isCache := false, isReserveFast := false } ] =
    [.row 0 127 (some 7) none false, .blank, .row 3 100 (some 0) (some 7) false] := by decide

/-! ### every code object is listed exactly once -/

theorem pres_append (a b : List CTree) : pres (a ++ b) = pres a ++ pres b := by
  induction a with
  | nil => simp [pres]
  | cons t ts ih => simp [pres, ih]

/-- C12_queue: the queue lists a permutation of the code objects of the constant tree
    (each exactly once); the first one is the module -/
theorem C12_queue (q : List CTree) : (bfs q).Perm (pres q) := by
  fun_induction bfs q with
  | case1 => simp [pres]
  | case2 i ks q ih =>
    simp only [pres, CTree.pre, List.cons_append]
    refine List.Perm.cons i (ih.trans ?_)
    rw [pres_append]
    exact List.perm_append_comm

theorem C12_queue_first (i : Nat) (ks : List CTree) : (bfs [.node i ks]).head? = some i := by
  simp [bfs]

example : bfs [.node 0 [.node 1 [.node 3 []], .node 2 []]] = [0, 1, 2, 3] := by simp [bfs]

/-! ### nothing but the listing is written -/

def allowedFiles : List Str := [str "xdis/dropbox/decrypt25.py", str "xdis/std.py"]

/-- C12_clean: in the call graph extracted from /repo/xdis on this run, every print() /
    sys.stdout.write() site (not directed at an explicit stream) reachable from
    disassemble_file lies in the Dropbox decryptor's self-test or in xdis.std's `_print`
    helper (which takes `file=`); none in the listing path -/
theorem C12_clean : (Gen.disasmStdoutFiles.all fun f => allowedFiles.contains f) = true ∧
    Gen.disasmReachable > 40 := by decide

end XV.Props.C12

/- operation table of the driver -/
import XV.Driver.Util
import XV.Spec.Magic
import XV.Spec.OpTables
import XV.Driver.LinesOps
import XV.Driver.DecodeOps
import XV.Driver.MarshalOps
import XV.Driver.ListingOps
namespace XV.Driver
open XV XV.Model

def showFailures (fs : List (String × String)) : String :=
  "(" ++ " ".intercalate (fs.map fun (k, d) => s!"({k} {d.replace " " "_"})") ++ ")"

def dispatch (op : String) (args : List String) : String :=
  match op, args with
  -- C08
  | "x.int2magic", [n] => match parseNat n with
      | some n => if n < 65536 then showHex (int2magic n) else "(err structError)"
      | none => "(err bad-arg)"
  | "x.magic2int", [h] => match parseHex h with
      | some b => match magic2int b with
        | some n => toString n
        | none => "(err structError)"
      | none => "(err bad-arg)"
  | "x.str2tuple", [h] => match parseHex h with
      | some b => showOpt showNats (pyStr2Tuple Spec.Magic.known b)
      | none => "(err bad-arg)"
  | "c08.failures", [] => showFailures Spec.Magic.failures
  | "c08.tiefailures", [] => showFailures Spec.Magic.tieFailures
  -- C09
  | "c09.failures", [] => showFailures Spec.OpTables.allFailures
  | "c09.tables", [] => " ".intercalate (Gen.allTables.map fun t =>
      s!"{t.name}:{t.version.1}.{t.version.2}:{if (Spec.OpTables.refFor t).isSome then "ref" else if (Spec.OpTables.snapFor t).isSome then "snap" else "none"}")
  | _, _ => match linesDispatch op args with
    | some r => r
    | none => match decodeDispatch op args with
      | some r => r
      | none => match operandDispatch op args with
        | some r => r
        | none => match marshalDispatch op args with
          | some r => r
          | none => match headerDispatch op args with
            | some r => r
            | none => match outcomeDispatch op args with
              | some r => r
              | none => match marshDispatch op args with
                | some r => r
                | none => match effectDispatch op args with
                  | some r => r
                  | none => match convDispatch op args with
                    | some r => r
                    | none => match listingDispatch op args with
                      | some r => r
                      | none => "(err bad-op)"

end XV.Driver

"""Program pipeline shared by several properties: every corpus program is compiled by every
reference interpreter (results cached on disk: they do not depend on /repo) and the .pyc image
is loaded by the implementation under a chosen host."""
import hashlib
import json
import os

import core
import programs
from worker import Oracle, Worker

CACHE = os.path.join(core.BUILD, "oracle_cache")


def oracle_compile(version, name, source, oracles):
    os.makedirs(CACHE, exist_ok=True)
    key = hashlib.sha1(("%s|%s|%s|v7" % (version, name, source)).encode()).hexdigest()[:20]
    path = os.path.join(CACHE, "%d.%d-%s.json" % (version[0], version[1], key))
    if os.path.exists(path):
        return json.load(open(path))
    if version not in oracles:
        oracles[version] = Oracle(version)
    r = oracles[version].r("compile_program", source=source, filename=name + ".py")
    json.dump(r, open(path, "w"))
    return r


def program_set(rng, ngen):
    c = programs.corpus()
    c.update(programs.generated(rng, ngen))
    return c


def run_programs(rng, ngen, versions=None, host=None, path=None, names=None, via_std=False):
    """yields (version, name, oracle_result, impl_result)"""
    progs = program_set(rng, ngen)
    oracles = {}
    w = Worker(host)
    try:
        for v in sorted(versions or core.ORACLES):
            for name, src in sorted(progs.items()):
                if names and name not in names:
                    continue
                o = oracle_compile(v, name, src, oracles)
                if "pyc" not in o:
                    continue
                kw = {"pyc": o["pyc"]}
                if path:
                    kw["path"] = path
                if via_std:
                    kw["via_std"] = True
                im = w.r("load_pyc", **kw)
                yield v, name, o, im
    finally:
        w.close()
        for o in oracles.values():
            o.close()

/-
C14 — xdis.marsh and the built-in marshal are interchangeable on plain values.
-/
import XV.Model.Marsh
import XV.Spec.Marshal
namespace XV.Props.C14
open XV XV.Model.Marsh XV.Model.Unmarshal

/-- value of a list of 15-bit digits, least significant first: Σ dᵢ · 2^(15 i) -/
def digitsVal : List Nat → Nat
  | [] => 0
  | d :: ds => d + 32768 * digitsVal ds

/-- C14, ints of ANY size: the digit array dump_long writes denotes exactly |x|, every
    digit is a 15-bit value, and the most significant digit is non-zero (marshal.c
    rejects unnormalised longs) -/
theorem digits15_spec (fuel x : Nat) (h : x < fuel) :
    digitsVal (digits15 fuel x) = x ∧ (∀ d ∈ digits15 fuel x, d < 32768) ∧
    (∀ d, (digits15 fuel x).getLast? = some d → d ≠ 0) := by
  induction fuel generalizing x with
  | zero => omega
  | succ f ih =>
    unfold digits15
    by_cases hx : x = 0
    · simp [hx, digitsVal]
    · simp only [hx, if_false]
      have hlt : x / 32768 < f := by omega
      obtain ⟨h1, h2, h3⟩ := ih (x / 32768) hlt
      refine ⟨?_, ?_, ?_⟩
      · simp only [digitsVal, h1]; omega
      · intro d hd
        simp only [List.mem_cons] at hd
        rcases hd with rfl | hd
        · omega
        · exact h2 d hd
      · intro d hd
        by_cases hq : x / 32768 = 0
        · have : digits15 f (x / 32768) = [] := by
            cases f with
            | zero => rfl
            | succ f' => simp [digits15, hq]
          rw [this] at hd
          simp at hd
          omega
        · have hne : digits15 f (x / 32768) ≠ [] := by
            cases f with
            | zero => omega
            | succ f' => simp [digits15, hq]
          rw [List.getLast?_cons_of_ne_nil hne] at hd 
          exact h3 d hd

/-- the 32-bit field `w_long` writes reads back, as a SIGNED little-endian word, to the
    value written, for every x in the int32 range (sizes, digit counts incl. negative ones) -/
theorem wLong_roundtrip (x : Int) (h1 : -2147483648 ≤ x) (h2 : x < 2147483648) :
    signedOf 4 (leNat (wLong x)) = x := by
  unfold wLong
  have hp : (256 : Nat) ^ 4 = 4294967296 := by decide
  have hm : 0 ≤ x % 4294967296 := by omega
  have hlt : x % 4294967296 < 4294967296 := by omega
  have e : ((x % 4294967296).toNat : Int) = x % 4294967296 := Int.toNat_of_nonneg hm
  have hn : (x % 4294967296).toNat < 256 ^ 4 := by rw [hp]; omega
  rw [leNat_toLE 4 _ hn]
  unfold signedOf
  rw [hp]
  by_cases hx : 0 ≤ x
  · have hlt2 : (x % 4294967296).toNat < 4294967296 / 2 := by omega
    simp only [hlt2, if_true]; omega
  · have hge : ¬ ((x % 4294967296).toNat < 4294967296 / 2) := by omega
    simp only [hge, if_false]
    have : ((4294967296 : Nat) : Int) = 4294967296 := rfl
    omega

/-- concrete end-to-end checks on the real Model and the marshal.c Spec (kernel-evaluated):
    big ints of both signs, non-Latin-1 and lone-surrogate text, nested containers, None keys -/
example :
    let v := V.tuple [.int (2 ^ 100), .int (-(2 ^ 31) - 1), .str [233, 8364, 128512, 0xdc80],
                      .list [.dict [(.none, .int 1), (.int 2, .none)], .fset [.bytes [0, 255]]], .tru, .ellipsis]
    (Spec.Marshal.loads [3, 12] (dump v)).toOption.map (fun r => decide (r.2 = [])) = some true := by
  decide +kernel

end XV.Props.C14

"""C14 — xdis.marsh and the built-in marshal are interchangeable on plain values.  Theorems: lean/XV/Props/C14.lean."""
import json
import random

import core
import mcanon
from worker import Worker

RULE = ("plain values generated from a grammar (None, bools, Ellipsis, StopIteration, ints at every magnitude boundary 2^15, "
        "2^31, 2^63, 2^64 and beyond, floats incl. -0.0/inf/tiny, complex, bytes, text of ASCII/Latin-1/BMP/astral/lone-surrogate "
        "code points, tuples, lists, sets, frozensets, dicts incl. None keys/values, nested) x hosts 3.8-3.13: xdis.marsh.dumps -> "
        "host marshal.loads and host marshal.dumps(v, 0|1) -> xdis.marsh.loads; distinct = distinct (host, value)")

ATOMS = ["None", "True", "False", "Ellipsis", "StopIteration", "0", "1", "-1", "255", "2**15", "2**15-1", "-2**15", "2**31-1", "2**31",
         "-2**31", "-2**31-1", "2**32-1", "2**32", "2**63-1", "2**63", "-2**63", "-2**63-1", "2**64-1", "2**64", "10**30", "-10**40",
         "0xDEADBEEF", "1.5", "-0.0", "0.0", "1e308", "5e-324", "float('inf')", "float('-inf')", "3.141592653589793", "1e-5", "1+2j",
         "complex(-0.0, 1e100)", "b''", "b'abc'", "b'\\x00\\xff\\x80'", "bytes(range(256))", "''", "'abc'", "'\\xe9'", "'\\u20ac'",
         "'\\U0001f600'", "'\\udc80'", "'a\\x00b'", "'x'*300", "'\\xff'*5",
         # floats that need all 17 significant digits to round-trip, the largest double, complex special values
         "0.1+0.2", "1.0/3", "2**0.5", "1.1*1.1", "1.7976931348623157e308", "2.2250738585072014e-308", "4.35e-323", "123456789.12345679",
         "complex(1.0/3, 0.1+0.2)", "complex(1, float('inf'))", "complex(float('-inf'), -0.0)", "complex(-0.0, -0.0)", "complex(0.0, -0.0)"]
HASHABLE = [a for a in ATOMS if "float" not in a and "." not in a and "j" not in a and "e" not in a.lower().replace("ellipsis", "").replace("true", "").replace("false", "").replace("none", "").replace("stopiteration", "").replace("bytes", "").replace("range", "").replace("deadbeef", "") or a in ("None", "True", "Ellipsis", "b'abc'", "'abc'", "0xDEADBEEF")]


def gen(rng, depth=0, hashable=False):
    if depth >= 3 or rng.randrange(3) == 0:
        return rng.choice(HASHABLE if hashable else ATOMS)
    k = rng.choice(["tuple", "tuple", "fset"] if hashable else ["tuple", "list", "set", "fset", "dict"])
    n = rng.choice([0, 1, 2, 3, 5])
    if k == "tuple":
        items = [gen(rng, depth + 1, hashable) for _ in range(n)]
        return "(" + ", ".join(items) + ("," if n == 1 else "") + ")"
    if k == "list":
        return "[" + ", ".join(gen(rng, depth + 1) for _ in range(n)) + "]"
    if k in ("set", "fset"):
        # distinct string/bytes/None/int elements only (no cross-kind equal values)
        elems = rng.sample(["None", "'a'", "'b'", "b'a'", "2**40", "7", "(1, 2)", "'\\xe9'", "-5", "Ellipsis"], min(n, 6))
        body = "[" + ", ".join(elems) + "]"
        return ("set(%s)" if k == "set" else "frozenset(%s)") % body
    keys = rng.sample(["None", "'k'", "1", "(1, 2)", "b'k'", "2**70"], min(n, 5))
    return "{" + ", ".join("%s: %s" % (kk, gen(rng, depth + 1)) for kk in keys) + "}"


def run(ctx):
    rep, drv = ctx.rep, ctx.driver
    rng = random.Random(ctx.seed)
    hosts = dict(core.HOSTS) if ctx.thorough else {k: v for k, v in core.HOSTS.items() if k in ((3, 8), (3, 12), (3, 13))}
    exprs = list(ATOMS) + ["(lambda t: (t, t))(tuple(range(300)))", "[[], (), {}, set(), frozenset()]", "{None: 1, 2: None}"]
    exprs += [gen(rng) for _ in range(60 if not ctx.thorough else 2500)]
    # doubles drawn from random 64-bit patterns (every exponent range, full mantissas), written exactly in hex notation
    import struct
    for _ in range(60 if not ctx.thorough else 3000):
        x = struct.unpack("<d", struct.pack("<Q", rng.getrandbits(64)))[0]
        if x == x:
            exprs.append("float.fromhex(%r)" % x.hex())
    for hv, path in sorted(hosts.items()):
        w = Worker(path)
        try:
            results = [w.r("marsh_roundtrip", expr=e) for e in exprs]
            model = drv.ask(["x.marshdump %s" % r["host_dumps4"] if isinstance(r, dict) and "host_dumps4" in r else "nop" for r in results]) if hv == (3, 12) else None
            for i, (e, r) in enumerate(zip(exprs, results)):
                rep.count(1, (hv, e))
                inp = {"host": "%d.%d" % hv, "value": e}
                if not isinstance(r, dict) or "value" not in r:
                    rep.violation("worker:%s" % e, "could not evaluate %s: %s" % (e, str(r)[:100]), inp, found_input=False)
                    continue
                want = mcanon.render(r["value"])
                isnan = "nan" in e
                if "xdumps_err" in r:
                    rep.violation("dumps:%d.%d:%s" % (hv[0], hv[1], e), "xdis.marsh.dumps(%s) raised %s on host %d.%d" % (e, r["xdumps_err"], hv[0], hv[1]),
                                  dict(inp, call="xdis.marsh.dumps(value)", actual=r["xdumps_err"]))
                elif "host_loads_err" in r:
                    rep.violation("dumps:%d.%d:%s" % (hv[0], hv[1], e), "marshal.loads rejects xdis.marsh.dumps(%s) = %s with %s (host %d.%d)" % (e, r["xdumps"][:80], r["host_loads_err"], hv[0], hv[1]),
                                  dict(inp, call="marshal.loads(xdis.marsh.dumps(value))", bytes=r["xdumps"], actual=r["host_loads_err"]))
                elif mcanon.render(r["host_loads"]) != want and not isnan:
                    rep.violation("dumps:%d.%d:%s" % (hv[0], hv[1], e), "marshal.loads(xdis.marsh.dumps(%s)) = %s, not the value %s (host %d.%d)" % (e, mcanon.render(r["host_loads"])[:150], want[:150], hv[0], hv[1]),
                                  dict(inp, bytes=r["xdumps"], actual=mcanon.render(r["host_loads"])[:2000], expected=want[:2000]))
                for ver in (0, 1):
                    if "host_dumps%d" % ver not in r:
                        continue
                    if "xloads%d_err" % ver in r:
                        rep.violation("loads:%d.%d:%d:%s" % (hv[0], hv[1], ver, e), "xdis.marsh.loads(marshal.dumps(%s, %d)) raised %s (host %d.%d)" % (e, ver, r["xloads%d_err" % ver], hv[0], hv[1]),
                                      dict(inp, call="xdis.marsh.loads(marshal.dumps(value, %d))" % ver, bytes=r["host_dumps%d" % ver], actual=r["xloads%d_err" % ver]))
                    elif mcanon.render(r["xloads%d" % ver]) != want and not isnan:
                        rep.violation("loads:%d.%d:%d:%s" % (hv[0], hv[1], ver, e), "xdis.marsh.loads(marshal.dumps(%s, %d)) = %s, not %s (host %d.%d)"
                                      % (e, ver, mcanon.render(r["xloads%d" % ver])[:150], want[:150], hv[0], hv[1]),
                                      dict(inp, bytes=r["host_dumps%d" % ver], actual=mcanon.render(r["xloads%d" % ver])[:2000], expected=want[:2000]))
                if model is not None and "xdumps" in r and model[i] not in ("(skip-float)", "nop") and model[i].replace("-", "") != r["xdumps"]:
                    rep.violation("corr:dumps:%s" % e, "Model of _Marshaller disagrees with implementation on %s: impl %s model %s" % (e, r["xdumps"][:120], model[i][:120]),
                                  dict(inp, impl=r["xdumps"], model=model[i]), found_input=False)
            rep.sample({"host": "%d.%d" % hv, "value": exprs[-1], "xdis.marsh.dumps": results[-1].get("xdumps", "")[:80]})
            # the same questions after this process has marshalled code objects of other versions
            hist = w.r("marsh_history", repo=core.REPO)
            sub = list(range(0, len(exprs), max(1, len(exprs) // 60)))
            for i in sub:
                r1 = results[i]
                if not isinstance(r1, dict) or "xdumps" not in r1:
                    continue
                r2 = w.r("marsh_roundtrip", expr=exprs[i])
                rep.count(1, (hv, "after-history", exprs[i]))
                if not isinstance(r2, dict) or r2.get("xdumps") != r1["xdumps"] or \
                        ("host_loads" in r1 and mcanon.render(r2.get("host_loads", ["none"])) != mcanon.render(r1["host_loads"]) and "nan" not in exprs[i]):
                    rep.violation("dumps-after-history:%d.%d:%s" % (hv[0], hv[1], exprs[i]),
                                  "xdis.marsh.dumps(%s) gives %s after code objects of other versions were marshalled in the process, %s before (host %d.%d)"
                                  % (exprs[i], str((r2 or {}).get("xdumps", (r2 or {}).get("xdumps_err")))[:80], r1["xdumps"][:80], hv[0], hv[1]),
                                  {"host": "%d.%d" % hv, "value": exprs[i], "history": hist.get("done") if isinstance(hist, dict) else str(hist)[:200],
                                   "before": r1["xdumps"], "after": (r2 or {}).get("xdumps"),
                                   "call": "marsh_history (dumps / write_bytecode_file of corpus code objects), then xdis.marsh.dumps(value)"})
                    break
        finally:
            w.close()


def replay(ctx, rp):
    r = rp.get("replay", {})
    print(json.dumps(r, indent=1)[:1000])
    if "value" in r and "host" in r:
        hv = tuple(int(x) for x in r["host"].split("."))
        w = Worker(core.HOSTS[hv])
        try:
            got = w.r("marsh_roundtrip", expr=r["value"])
            print("now:", str(got)[:400])
            bad = "xdumps_err" in got or "host_loads_err" in got or mcanon.render(got.get("host_loads", ["none"])) != mcanon.render(got["value"]) \
                or any(("xloads%d_err" % k) in got or (("xloads%d" % k) in got and mcanon.render(got["xloads%d" % k]) != mcanon.render(got["value"])) for k in (0, 1))
            if bad:
                ctx.rep.violation(rp["key"], rp["what"], r)
        finally:
            w.close()

/-
C17 — whole-table theorem for the line of every code unit: for EVERY list of well-formed location
entries, expanding xdis's `co_lines()` ranges (`parse_linetable`, with its merging of equal
neighbours) gives exactly the line the format assigns to each code unit — `None` for no-location
entries, running line for the others, negative and multi-byte deltas included.
-/
import XV.Props.C17.Positions
namespace XV.Props.C17.Lines
open XV XV.Model.Lines XV.Spec.Lines XV.Props.C17 XV.Props.C17.Positions
set_option linter.unusedVariables false
set_option linter.unusedSimpArgs false

theorem ltEntries_cons (b : Nat) (rest : Bytes) :
    ltEntries (b :: rest) =
      if b &&& 128 ≠ 0 then
        { lineDelta := (getLineDelta b rest).1, codeDelta := ((b &&& 7) + 1) * 2, noLine := (b >>> 3) = 0x1F }
          :: ltEntries (getLineDelta b rest).2
      else ltEntries rest := by
  by_cases hb : b &&& 128 ≠ 0
  · rw [if_pos hb, ltEntries]
    split
    · rename_i h; simp [nextCodeByte, hb] at h
    · rename_i cb r h
      simp [nextCodeByte, hb] at h
      obtain ⟨rfl, rfl⟩ := h
      rfl
  · rw [if_neg hb, ltEntries]
    split
    · rename_i h
      simp [nextCodeByte, hb] at h
      rw [ltEntries]
      split
      · rfl
      · rename_i cb r h2; rw [h] at h2; cases h2
    · rename_i cb r h
      simp [nextCodeByte, hb] at h
      conv => rhs; rw [ltEntries]
      split
      · rename_i h2; rw [h] at h2; cases h2
      · rename_i cb2 r2 h2
        rw [h] at h2
        simp at h2
        obtain ⟨rfl, rfl⟩ := h2
        rfl

theorem lt128 : ∀ b, b < 128 → b &&& 128 = 0 := by decide +kernel

/-- bytes without the marker bit are skipped by `_go_to_next_code_byte` -/
theorem ltEntries_skip (junk : Bytes) (hj : ∀ b ∈ junk, b < 128) (tail : Bytes) :
    ltEntries (junk ++ tail) = ltEntries tail := by
  induction junk with
  | nil => rfl
  | cons j js ih =>
    have h0 : j &&& 128 = 0 := lt128 j (hj j (by simp))
    rw [List.cons_append, ltEntries_cons]
    simp only [h0, ne_eq, not_true_eq_false, if_false]
    exact ih (fun b hb => hj b (by simp [hb]))

theorem encVarint_lt (n : Nat) : ∀ b ∈ encVarint n, b < 128 := by
  induction n using Nat.strongRecOn with
  | ind n ih =>
    intro b hb
    unfold encVarint at hb
    by_cases h : n < 64
    · simp [h] at hb; omega
    · simp [h] at hb
      rcases hb with rfl | hb
      · omega
      · exact ih (n / 64) (by omega) b hb

theorem firstByte_shift' : ∀ code, code < 16 → ∀ u, u < 9 → 1 ≤ u → firstByte code u >>> 3 = 16 + code := by
  decide +kernel

def toLT : LocEntry → LTEntry
  | .short u .. => { lineDelta := 0, codeDelta := u * 2, noLine := false }
  | .oneLine u k .. => { lineDelta := k, codeDelta := u * 2, noLine := false }
  | .noCol u d => { lineDelta := d, codeDelta := u * 2, noLine := false }
  | .long u d .. => { lineDelta := d, codeDelta := u * 2, noLine := false }
  | .none u => { lineDelta := 0, codeDelta := u * 2, noLine := true }

/-- one entry as `parse_linetable` sees it -/
theorem ltEntries_entry (e : LocEntry) (hwf : e.WF) (tail : Bytes) :
    ltEntries (encodeEntry e ++ tail) = toLT e :: ltEntries tail := by
  cases e with
  | short u c hi lo =>
    obtain ⟨h1, h2, h3, h4, h5⟩ := hwf
    obtain ⟨b1, b2, b3⟩ := firstByte_bits c (by omega) u h1 h2
    have b4 := firstByte_shift' c (by omega) u (by omega) h1
    simp only [encodeEntry, List.cons_append, List.nil_append]
    have hm : firstByte c u &&& 128 ≠ 0 := by omega
    rw [ltEntries_cons, if_pos hm]
    simp only [getLineDelta, toLT]
    simp only [b3]
    simp only [b2, b4]
    have : ¬ c = 15 ∧ ¬ (c = 13 ∨ c = 14) ∧ ¬ c = 10 ∧ ¬ c = 11 ∧ ¬ c = 12 := by omega
    simp only [this, if_false]
    have hsk := ltEntries_skip [hi * 16 + lo] (by intro b hb; simp at hb; omega) tail
    simp only [List.cons_append, List.nil_append] at hsk
    rw [hsk]
    simp
    omega
  | oneLine u k col ec =>
    obtain ⟨h1, h2, h3, h4, h5⟩ := hwf
    obtain ⟨b1, b2, b3⟩ := firstByte_bits (10 + k) (by omega) u h1 h2
    have b4 := firstByte_shift' (10 + k) (by omega) u (by omega) h1
    simp only [encodeEntry, List.cons_append, List.nil_append]
    have hm : firstByte (10 + k) u &&& 128 ≠ 0 := by omega
    rw [ltEntries_cons, if_pos hm]
    simp only [getLineDelta, toLT]
    simp only [b3]
    simp only [b2, b4]
    have hsk := ltEntries_skip [col, ec] (by intro b hb; simp at hb; omega) tail
    simp only [List.cons_append, List.nil_append] at hsk
    have hk : k = 0 ∨ k = 1 ∨ k = 2 := by omega
    rcases hk with rfl | rfl | rfl <;> simp [hsk]
  | noCol u d =>
    obtain ⟨h1, h2⟩ := hwf
    obtain ⟨b1, b2, b3⟩ := firstByte_bits 13 (by omega) u h1 h2
    have b4 := firstByte_shift' 13 (by omega) u (by omega) h1
    simp only [encodeEntry, List.cons_append]
    have hm : firstByte 13 u &&& 128 ≠ 0 := by omega
    rw [ltEntries_cons, if_pos hm]
    simp only [getLineDelta, toLT]
    simp only [b3]
    simp only [b2, b4, C17_svarint]
    simp
  | long u d ed c1 ec1 =>
    obtain ⟨h1, h2⟩ := hwf
    obtain ⟨b1, b2, b3⟩ := firstByte_bits 14 (by omega) u h1 h2
    have b4 := firstByte_shift' 14 (by omega) u (by omega) h1
    have henc : encodeEntry (.long u d ed c1 ec1) ++ tail =
        firstByte 14 u :: (encSVarint d ++ ((encVarint ed ++ encVarint c1 ++ encVarint ec1) ++ tail)) := by
      simp [encodeEntry]
    have hm : firstByte 14 u &&& 128 ≠ 0 := by omega
    rw [henc, ltEntries_cons, if_pos hm]
    simp only [getLineDelta, toLT]
    simp only [b3]
    simp only [b2, b4, C17_svarint]
    have hsk := ltEntries_skip (encVarint ed ++ encVarint c1 ++ encVarint ec1) (by
      intro b hb
      simp only [List.mem_append] at hb
      rcases hb with (hb | hb) | hb <;> exact encVarint_lt _ b hb) tail
    simp [hsk, List.append_assoc] at *
    simpa [List.append_assoc] using hsk
  | none u =>
    obtain ⟨h1, h2⟩ := hwf
    obtain ⟨b1, b2, b3⟩ := firstByte_bits 15 (by omega) u h1 h2
    have b4 := firstByte_shift' 15 (by omega) u (by omega) h1
    simp only [encodeEntry, List.cons_append, List.nil_append]
    have hm : firstByte 15 u &&& 128 ≠ 0 := by omega
    rw [ltEntries_cons, if_pos hm]
    simp only [getLineDelta, toLT]
    simp only [b3]
    simp only [b2, b4]
    simp

theorem ltEntries_nil : ltEntries [] = [] := by
  rw [ltEntries]; split
  · rfl
  · rename_i cb r h; simp [nextCodeByte] at h

theorem ltEntries_all (es : List LocEntry) (hwf : ∀ e ∈ es, e.WF) :
    ltEntries (encodeLoc es) = es.map toLT := by
  induction es with
  | nil => simp [encodeLoc, ltEntries_nil]
  | cons e es ih =>
    have : encodeLoc (e :: es) = encodeEntry e ++ encodeLoc es := by simp [encodeLoc]
    rw [this, ltEntries_entry e (hwf e (by simp)), ih (fun x hx => hwf x (by simp [hx]))]
    rfl

/-- the line of every code unit, read off the decoded entries -/
def unitsLT : Int → List LTEntry → List (Option Int)
  | _, [] => []
  | line, e :: rest =>
    List.replicate (e.codeDelta / 2) (if e.noLine then none else some (line + e.lineDelta))
      ++ unitsLT (line + e.lineDelta) rest

/-- merging equal neighbours does not change the line of any code unit -/
theorem expand_merge (rest : List LTEntry) (hev : ∀ e ∈ rest, e.codeDelta % 2 = 0 ∧ (e.noLine = true → e.lineDelta = 0))
    (cs ce : Nat) (line : Int) (nl : Bool)
    (hle : cs ≤ ce) (heven : (ce - cs) % 2 = 0) :
    expandRanges (ltMerge cs ce line nl rest) =
      List.replicate ((ce - cs) / 2) (if nl then none else some line) ++ unitsLT line rest := by
  induction rest generalizing cs ce line nl with
  | nil => simp [ltMerge, expandRanges, unitsLT]
  | cons e rest ih =>
    obtain ⟨hcd, hnl⟩ := hev e (by simp)
    have hrest : ∀ x ∈ rest, x.codeDelta % 2 = 0 ∧ (x.noLine = true → x.lineDelta = 0) :=
      fun x hx => hev x (by simp [hx])
    unfold ltMerge
    by_cases hsplit : e.lineDelta ≠ 0 ∨ e.noLine ≠ nl
    · simp only [hsplit, if_true, expandRanges, unitsLT]
      rw [ih hrest ce (ce + e.codeDelta) (line + e.lineDelta) e.noLine (by omega) (by omega)]
      have : (ce + e.codeDelta - ce) / 2 = e.codeDelta / 2 := by omega
      rw [this]
    · simp only [hsplit, if_false, unitsLT]
      have hz : e.lineDelta = 0 := by
        by_cases h : e.lineDelta = 0
        · exact h
        · exact absurd (Or.inl h) hsplit
      have hn : e.noLine = nl := by
        by_cases h : e.noLine = nl
        · exact h
        · exact absurd (Or.inr h) hsplit
      rw [ih hrest cs (ce + e.codeDelta) line nl (by omega) (by omega)]
      have : (ce + e.codeDelta - cs) / 2 = (ce - cs) / 2 + e.codeDelta / 2 := by omega
      rw [this, hz, hn]
      simp [← List.replicate_append_replicate]

theorem unitsLT_eq (es : List LocEntry) (line : Int) : unitsLT line (es.map toLT) = unitLines line es := by
  induction es generalizing line with
  | nil => rfl
  | cons e es ih =>
    cases e <;> simp [unitsLT, toLT, unitLines, ih]

/-- C17_lines — for every list of well-formed location entries and every first line, the ranges
    `Code311.co_lines()` reports, expanded to one line per code unit, are the format's -/
theorem C17_lines (first : Int) (es : List LocEntry) (hwf : ∀ e ∈ es, e.WF) :
    expandRanges (coLines311 first (encodeLoc es)) = unitLines first es := by
  unfold coLines311
  rw [ltEntries_all es hwf]
  cases es with
  | nil => rfl
  | cons e es =>
    simp only [List.map_cons]
    have hev : ∀ x ∈ es.map toLT, x.codeDelta % 2 = 0 ∧ (x.noLine = true → x.lineDelta = 0) := by
      intro x hx
      simp only [List.mem_map] at hx
      obtain ⟨y, _, rfl⟩ := hx
      cases y <;> simp [toLT] <;> omega
    rw [expand_merge _ hev 0 (toLT e).codeDelta (first + (toLT e).lineDelta) (toLT e).noLine (by omega) (by
      cases e <;> simp [toLT] <;> omega)]
    rw [← unitsLT_eq (e :: es) first]
    simp only [List.map_cons, unitsLT]
    have : ((toLT e).codeDelta - 0) / 2 = (toLT e).codeDelta / 2 := by omega
    rw [this]

end XV.Props.C17.Lines

/-
C17 — 3.11+ exception and position tables decode as CPython decodes them.
The format is given by the Spec ENCODERS (XV.Spec.Lines: encVarint, encSVarint,
encVarintBE, encodeExc, encodeLoc); the theorems say xdis's decoders (XV.Model.Lines)
invert them for every value / entry list — every varint length, every magnitude.
-/
import XV.Model.Lines
import XV.Spec.Lines
namespace XV.Props.C17
open XV XV.Model.Lines XV.Spec.Lines

/-! ### bit facts (finite, kernel-checked) -/
theorem bits_lo : ∀ r, r < 64 → (r &&& 63 = r ∧ r &&& 64 = 0) := by decide +kernel
theorem bits_hi : ∀ r, r < 64 → ((64 + r) &&& 63 = r ∧ (64 + r) &&& 64 = 64) := by decide +kernel
theorem bits_mark : ∀ b, b < 128 → ((128 + b) &&& 63 = b &&& 63 ∧ (128 + b) &&& 64 = b &&& 64) := by
  decide +kernel

theorem or_shift (acc r k : Nat) (h : acc < 2 ^ k) : acc ||| (r <<< k) = acc + r * 2 ^ k := by
  rw [Nat.or_comm, ← Nat.shiftLeft_add_eq_or_of_lt h, Nat.shiftLeft_eq]; omega

/-! ### little-endian varints of the location table -/

theorem scan_enc (n : Nat) (tail : Bytes) (shift acc : Nat) (hacc : acc < 2 ^ (shift * 6)) :
    scanVarint (encVarint n ++ tail) shift acc = (acc + n * 2 ^ (shift * 6), tail) := by
  induction n using Nat.strongRecOn generalizing shift acc with
  | _ n ih =>
    rw [encVarint]
    by_cases h : n < 64
    · simp only [h, dite_true, List.cons_append, List.nil_append, scanVarint]
      obtain ⟨h1, h2⟩ := bits_lo n h
      simp [h1, h2, or_shift _ _ _ hacc]
    · simp only [h, dite_false, List.cons_append, scanVarint]
      obtain ⟨h1, h2⟩ := bits_hi (n % 64) (Nat.mod_lt _ (by decide))
      simp only [h1, h2]
      have hne : ¬ (64 = 0) := by decide
      simp only [hne, if_false]
      rw [or_shift _ _ _ hacc]
      have hlt : n / 64 < n := by omega
      have e : 2 ^ ((shift + 1) * 6) = 64 * 2 ^ (shift * 6) := by
        rw [Nat.add_mul, Nat.pow_add]; simp [Nat.mul_comm]
      have hacc' : acc + n % 64 * 2 ^ (shift * 6) < 2 ^ ((shift + 1) * 6) := by
        have : n % 64 < 64 := Nat.mod_lt _ (by decide)
        rw [e]
        have : n % 64 * 2 ^ (shift * 6) ≤ 63 * 2 ^ (shift * 6) := Nat.mul_le_mul_right _ (by omega)
        omega
      rw [ih (n / 64) hlt (shift + 1) _ hacc', e]
      generalize 2 ^ (shift * 6) = P
      have hn : n * P = n % 64 * P + n / 64 * (64 * P) := by
        conv => lhs; rw [← Nat.div_add_mod n 64]
        rw [Nat.add_mul, Nat.mul_comm 64 (n / 64), Nat.mul_assoc]; omega
      rw [hn, Nat.add_assoc]

/-- every unsigned varint of any length decodes to its value, consuming exactly its bytes -/
theorem C17_varint_le (n : Nat) (tail : Bytes) : scanVarint (encVarint n ++ tail) 0 0 = (n, tail) := by
  have := scan_enc n tail 0 0 (by simp)
  simpa using this

/-- every signed varint (zig-zag, sign in bit 0), incl. negative line deltas -/
theorem C17_svarint (i : Int) (tail : Bytes) : scanSignedVarint (encSVarint i ++ tail) = (i, tail) := by
  unfold scanSignedVarint encSVarint
  by_cases h : i < 0
  · simp only [h, if_true]
    rw [C17_varint_le]
    have h1 : ((-i).toNat <<< 1 ||| 1) = 2 * (-i).toNat + 1 := by
      rw [← Nat.shiftLeft_add_eq_or_of_lt (by decide : 1 < 2 ^ 1), Nat.shiftLeft_eq]; omega
    simp only [h1, Nat.and_one_is_mod, Nat.shiftRight_eq_div_pow]
    have : (2 * (-i).toNat + 1) % 2 = 1 := by omega
    simp only [this, if_true]
    have : (2 * (-i).toNat + 1) / 2 ^ 1 = (-i).toNat := by omega
    rw [this]; simp; omega
  · simp only [h, if_false]
    rw [C17_varint_le]
    simp only [Nat.shiftLeft_eq, Nat.and_one_is_mod, Nat.shiftRight_eq_div_pow]
    have : (i.toNat * 2 ^ 1) % 2 = 0 := by omega
    simp only [this]
    have : (i.toNat * 2 ^ 1) / 2 ^ 1 = i.toNat := by omega
    simp [this]; omega

/-! ### big-endian varints of the exception table -/

def digitsVal (val : Nat) (ds : List Nat) : Nat := ds.foldl (fun v d => v * 64 + d) val

theorem parseGo_digits (ds : List Nat) (hds : ∀ d ∈ ds, d < 64) (val b : Nat) (tail : Bytes)
    (hb : (b &&& 64 = 0) ↔ ds = []) :
    parseVarintGo val b (markCont ds ++ tail) = some (digitsVal val ds, tail) := by
  induction ds generalizing val b with
  | nil =>
    have : b &&& 64 = 0 := hb.mpr rfl
    cases tail <;> simp [markCont, parseVarintGo, this, digitsVal]
  | cons d ds ih =>
    have hbn : ¬ (b &&& 64 = 0) := fun h => by simpa using hb.mp h
    have hd : d < 64 := hds d (by simp)
    have hds' : ∀ x ∈ ds, x < 64 := fun x hx => hds x (by simp [hx])
    cases ds with
    | nil =>
      simp only [markCont, List.cons_append, List.nil_append, parseVarintGo, hbn, if_false]
      obtain ⟨h1, h2⟩ := bits_lo d hd
      have hv : (val <<< 6 ||| (d &&& 63)) = val * 64 + d := by
        rw [h1, ← Nat.shiftLeft_add_eq_or_of_lt (by simpa using hd), Nat.shiftLeft_eq]
      rw [hv]
      have := ih hds' (val * 64 + d) d (by simp [h2])
      simpa [markCont, digitsVal] using this
    | cons d2 ds2 =>
      simp only [markCont, List.cons_append, parseVarintGo, hbn, if_false]
      obtain ⟨h1, h2⟩ := bits_hi d hd
      have hv : (val <<< 6 ||| ((64 + d) &&& 63)) = val * 64 + d := by
        rw [h1, ← Nat.shiftLeft_add_eq_or_of_lt (by simpa using hd), Nat.shiftLeft_eq]
      rw [hv]
      have := ih hds' (val * 64 + d) (64 + d) (by simp [h2])
      simpa [markCont, digitsVal] using this

theorem beDigits_lt (n : Nat) : ∀ d ∈ beDigits n, d < 64 := by
  induction n using Nat.strongRecOn with
  | _ n ih =>
    rw [beDigits]
    by_cases h : n < 64
    · simp [h]
    · simp only [h, dite_false, List.mem_append, List.mem_singleton]
      intro d hd
      rcases hd with hd | hd
      · exact ih (n / 64) (by omega) d hd
      · omega

theorem beDigits_val (n : Nat) : ∃ d ds, beDigits n = d :: ds ∧ digitsVal d ds = n := by
  induction n using Nat.strongRecOn with
  | _ n ih =>
    rw [beDigits]
    by_cases h : n < 64
    · exact ⟨n, [], by simp [h], rfl⟩
    · obtain ⟨d, ds, he, hv⟩ := ih (n / 64) (by omega)
      refine ⟨d, ds ++ [n % 64], by simp [h, he], ?_⟩
      unfold digitsVal at hv ⊢
      rw [List.foldl_append, hv]; simp; omega

/-- a big-endian varint of any length decodes to its value, with or without the
    entry-start marker (bit 7) on its first byte -/
theorem C17_varint_be (n : Nat) (mark : Bool) (tail : Bytes) :
    parseVarintBE ((if mark then markFirst (encVarintBE n) else encVarintBE n) ++ tail) = some (n, tail) := by
  obtain ⟨d, ds, he, hv⟩ := beDigits_val n
  have hlt := beDigits_lt n
  rw [he] at hlt
  have hd : d < 64 := hlt d (by simp)
  have hds : ∀ x ∈ ds, x < 64 := fun x hx => hlt x (by simp [hx])
  unfold encVarintBE
  rw [he]
  cases ds with
  | nil =>
    simp only [markCont]
    obtain ⟨h1, h2⟩ := bits_lo d hd
    obtain ⟨m1, m2⟩ := bits_mark d (by omega)
    have := parseGo_digits [] (by simp) d (if mark then 128 + d else d) tail (by
      cases mark <;> simp [h2, m2])
    cases mark
    · simp only [markFirst, List.cons_append, parseVarintBE, h1, Bool.false_eq_true, if_false] at this ⊢
      simpa [markCont, digitsVal, ← hv] using this
    · simp only [markFirst, List.cons_append, parseVarintBE, m1, h1, if_true] at this ⊢
      simpa [markCont, digitsVal, ← hv] using this
  | cons d2 ds2 =>
    simp only [markCont]
    obtain ⟨h1, h2⟩ := bits_hi d hd
    obtain ⟨m1, m2⟩ := bits_mark (64 + d) (by omega)
    have := parseGo_digits (d2 :: ds2) hds d (if mark then 128 + (64 + d) else 64 + d) tail (by
      cases mark <;> simp [h2, m2])
    cases mark
    · simp only [markFirst, List.cons_append, parseVarintBE, h1, Bool.false_eq_true, if_false] at this ⊢
      rw [← hv]; simpa [markCont] using this
    · simp only [markFirst, List.cons_append, parseVarintBE, m1, h1, if_true] at this ⊢
      rw [← hv]; simpa [markCont] using this

/-! ### the exception table -/

/-- what CPython reports for an encoded entry (offsets in bytes) -/
def meaning (e : Spec.Lines.ExcEntry) : Model.Lines.ExcEntry :=
  { start := e.start * 2, stop := e.start * 2 + e.length * 2, target := e.target * 2, depth := e.depth, lasti := e.lasti }

theorem parse_one (e : Spec.Lines.ExcEntry) (fuel : Nat) (tail : Bytes) :
    parseExcTable (fuel + 1) (encodeExcEntry e ++ tail) = meaning e :: parseExcTable fuel tail := by
  unfold encodeExcEntry
  rw [parseExcTable]
  have h1 := C17_varint_be e.start true (encVarintBE e.length ++ encVarintBE e.target ++
      encVarintBE (e.depth * 2 + (if e.lasti then 1 else 0)) ++ tail)
  have e2 : ∀ n (t : Bytes), parseVarintBE (encVarintBE n ++ t) = some (n, t) := by
    intro n t
    simpa using C17_varint_be n false t
  simp only [if_true] at h1
  simp only [List.append_assoc] at h1 ⊢
  rw [h1]
  simp only
  rw [e2]
  simp only
  rw [e2]
  simp only
  rw [e2]
  simp only [meaning]
  congr 1
  cases e.lasti <;> simp [Nat.shiftRight_eq_div_pow, Nat.and_one_is_mod] <;> omega

theorem parse_all (es : List Spec.Lines.ExcEntry) (fuel : Nat) (h : es.length < fuel) :
    parseExcTable fuel (encodeExc es) = es.map meaning := by
  induction es generalizing fuel with
  | nil =>
    cases fuel with
    | zero => omega
    | succ f => simp [encodeExc, parseExcTable, parseVarintBE]
  | cons e es ih =>
    cases fuel with
    | zero => omega
    | succ f =>
      have : encodeExc (e :: es) = encodeExcEntry e ++ encodeExc es := by simp [encodeExc]
      rw [this, parse_one, ih f (by simp at h; omega)]; simp

theorem encodeExcEntry_length (e : Spec.Lines.ExcEntry) : 1 ≤ (encodeExcEntry e).length := by
  obtain ⟨d, ds, he, _⟩ := beDigits_val e.start
  unfold encodeExcEntry encVarintBE
  rw [he]
  cases ds <;> simp [markCont, markFirst] <;> omega

theorem encodeExc_length (es : List Spec.Lines.ExcEntry) : es.length ≤ (encodeExc es).length := by
  induction es with
  | nil => simp [encodeExc]
  | cons e es ih =>
    have : encodeExc (e :: es) = encodeExcEntry e ++ encodeExc es := by simp [encodeExc]
    rw [this]; have := encodeExcEntry_length e; simp; omega

/-- parse_exception_table inverts the exception-table encoding: for EVERY entry list
    (any start/length/target/depth magnitude, any varint length) the parsed entries are
    exactly CPython's (start, end, target, depth, lasti) -/
theorem C17_exc (es : List Spec.Lines.ExcEntry) : excTable (encodeExc es) = es.map meaning := by
  unfold excTable
  exact parse_all es _ (by have := encodeExc_length es; omega)

/-- non-vacuity / sanity: a three-byte varint entry -/
example : excTable (encodeExc [{ start := 5000, length := 70, target := 300000, depth := 3, lasti := true }])
    = [{ start := 10000, stop := 10140, target := 600000, depth := 3, lasti := true }] := by
  rw [C17_exc]; rfl

end XV.Props.C17

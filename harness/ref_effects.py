"""Reference stack effects: for every installed interpreter with dis.stack_effect (3.6+), every
opcode number < 256 and a grid of operands, ask dis.stack_effect, then FIT one closed form per
opcode from a small family (compile.c's stack_effect only uses these shapes).  The fitted form
is validated on the whole grid; an opcode no form fits is reported as 'unknown'."""
import json
import os
import sys

import core
from worker import Oracle

GRID = list(range(0, 300)) + [511, 512, 513, 767, 1023, 1024, 4095, 65535, 65536, 65537, 2 ** 20 + 3, 2 ** 24 - 1]


def popcount4(a):
    return bin(a & 15).count("1")


def candidates():
    yield ("const",), lambda a, c: c
    for k in (-2, -1, 1, 2):
        yield ("affine", k), lambda a, c, k=k: c + k * a
    for m in (1, 2, 4, 8):
        yield ("bit", m), None
    yield ("unpackex",), lambda a, c: c + (a & 255) + (a >> 8)
    yield ("slice3",), lambda a, c: c - (1 if a == 3 else 0)
    yield ("pop4",), lambda a, c: c - popcount4(a)


def fit(vals):
    """vals: list of (arg, effect or None).  Returns a form as a list."""
    pts = [(a, e) for a, e in vals if e is not None]
    if not pts:
        return ["rejects"]
    a0, e0 = pts[0]
    for form, f in candidates():
        if form[0] == "bit":
            m = form[1]
            c0 = [e for a, e in pts if a & m == 0]
            c1 = [e for a, e in pts if a & m != 0]
            if c0 and c1 and len(set(c0)) == 1 and len(set(c1)) == 1 and c0[0] != c1[0]:
                return ["bit", m, c1[0], c0[0]]
            continue
        c = e0 - f(a0, 0)
        if all(f(a, c) == e for a, e in pts):
            return list(form) + [c]
    return ["unknown"]


def collect():
    refs = {tuple(r["version"][:2]): r for r in json.load(open(os.path.join(core.BUILD, "refs.json")))}
    out = {}
    for v in sorted(refs):
        if v < (3, 6) or v not in core.ORACLES:
            continue
        r = refs[v]
        ha = set(r["hasarg"]) if r.get("hasarg") and v >= (3, 12) else None
        o = Oracle(v)
        forms = {}
        try:
            for name, op in r["opmap"]:
                if op >= 256:
                    continue
                takes = (op in ha) if ha is not None else op >= r["HAVE_ARGUMENT"]
                if takes:
                    es = o.r("stack_effect", pairs=[[op, a] for a in GRID])
                    forms[op] = {"name": name, "takes_arg": True, "form": fit(list(zip(GRID, es))),
                                 "rejected_args": [a for a, e in zip(GRID, es) if e is None][:10]}
                else:
                    es = o.r("stack_effect", pairs=[[op, None]])
                    forms[op] = {"name": name, "takes_arg": False, "form": ["rejects"] if es[0] is None else ["const", es[0]], "rejected_args": []}
        finally:
            o.close()
        out["%d.%d" % v] = forms
    return out


if __name__ == "__main__":
    d = collect()
    json.dump(d, open(sys.argv[1], "w"), indent=0, sort_keys=True)
    from collections import Counter
    c = Counter()
    for v, fs in d.items():
        for op, f in fs.items():
            c[f["form"][0]] += 1
            if f["form"][0] == "unknown":
                print("unknown", v, op, f["name"])
    print(dict(c))

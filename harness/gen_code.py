"""Generator of raw code strings over the defined opcodes of a table."""


def table_info(t, ref=None):
    """t: entry of tables.json['optables']; ref: reference opcode dump or None"""
    v = tuple(t["version_tuple"][:2])
    names = t["opname"]
    defined = [op for op in range(min(256, len(names))) if names[op] and not names[op].startswith("<")]
    ext = t["EXTENDED_ARG"]
    word = v >= (3, 6)
    cache = {}
    if ref is not None:
        cache = dict((a, b) for a, b in ref.get("cache", []))
    elif v >= (3, 11):
        cache = None
    refnames = {}
    if ref is not None:
        # enumerate the opcodes the INTERPRETER defines (so that an opcode xdis lost is still generated)
        refnames = dict((n, k) for k, n in ref["opmap"] if n < 256)
        defined = sorted(refnames)
        names = list(names) + [""] * 256
        names = [refnames.get(i, names[i]) for i in range(256)]
    skip = set()
    for op in defined:
        n = names[op]
        if n == "CACHE" or n.startswith("INSTRUMENTED") or n in ("EXTENDED_ARG", "RESERVED", "ENTER_EXECUTOR"):
            skip.add(op)
    if ref is not None and ref.get("hasarg") is not None and v >= (3, 12):
        hasarg = set(ref["hasarg"])
    elif ref is not None:
        hasarg = set(op for op in defined if op >= ref["HAVE_ARGUMENT"])
    elif v >= (3, 13):
        hasarg = set(t.get("hasarg") or [])
    else:
        hasarg = set(op for op in defined if op >= t["HAVE_ARGUMENT"])
    if ref is not None:
        ext = ref["EXTENDED_ARG"]
        t = dict(t, JREL_OPS=ref["hasjrel"], JABS_OPS=ref["hasjabs"], HAVE_ARGUMENT=ref["HAVE_ARGUMENT"])
    return {"v": v, "names": names, "refnames": refnames, "ops": [op for op in defined if op not in skip], "ext": ext, "word": word,
            "cache": cache, "hasarg": hasarg, "jrel": set(t["JREL_OPS"] or []), "jabs": set(t["JABS_OPS"] or []),
            "have": t["HAVE_ARGUMENT"]}


def emit(info, op, arg):
    """bytes of one instruction (with EXTENDED_ARG prefixes as needed) + its cache slots"""
    out = []
    if info["word"]:
        if op in info["hasarg"]:
            parts = []
            a = arg
            parts.append(a & 255)
            a >>= 8
            while a:
                parts.append(a & 255)
                a >>= 8
            for p in reversed(parts[1:]):
                out += [info["ext"], p]
            out += [op, parts[0]]
        else:
            out += [op, 0]
        for _ in range((info["cache"] or {}).get(op, 0)):
            out += [0, 0]
    else:
        if op >= info["have"]:
            if arg > 0xFFFF:
                hi = arg >> 16
                out += [info["ext"], hi & 255, (hi >> 8) & 255]
            out += [op, arg & 255, (arg >> 8) & 255]
        else:
            out += [op]
    return out


def magnitude(rng, info, small_tables=False):
    k = rng.randrange(12)
    if k < 6:
        return rng.randrange(0, 256 if not small_tables else 250)
    if small_tables:
        return rng.choice([0, 1, 255, 256, 257, 299])
    if k < 8:
        return rng.choice([255, 256, 257, 0x7fff, 0x8000, 0xffff])
    if k < 10 and info["ext"] is not None:
        return rng.choice([0x10000, 0x10001, 0x12345, 0xffffff, 0x1000000, 0x7fffffff])
    return rng.randrange(0, 65536)


def restricted(rng, info, op):
    """operands whose range the interpreter itself restricts (dis raises outside it)"""
    n = info["names"][op]
    v = info["v"]
    if n == "COMPARE_OP":
        k = rng.randrange(6)
        if v >= (3, 13):
            return (k << 5) | rng.choice([0, 16]) | rng.randrange(16)
        if v >= (3, 12):
            return (k << 4) | rng.randrange(16)
        return rng.randrange(0, 10 if v < (3, 9) else 6)
    if n == "RAISE_VARARGS":
        return rng.randrange(0, 3)
    if n == "BINARY_OP":
        return rng.randrange(0, 26)
    if n == "CALL_INTRINSIC_1":
        return rng.randrange(1, 10)
    if n == "CALL_INTRINSIC_2":
        return rng.randrange(1, 5)
    if n in ("IS_OP", "CONTAINS_OP", "GET_AWAITABLE", "RERAISE", "FORMAT_VALUE", "CONVERT_VALUE", "SET_FUNCTION_ATTRIBUTE",
             "MAKE_FUNCTION", "BUILD_SLICE", "CALL_FUNCTION_EX", "RESUME", "EXTENDED_ARG_QUICK"):
        return rng.choice([0, 1, 2, 3])
    return None


RESTRICTED = ("COMPARE_OP", "RAISE_VARARGS", "BINARY_OP", "CALL_INTRINSIC_1", "CALL_INTRINSIC_2")


def gen(rng, info, n=None, table_small=False, jumps_in_range=False):
    """returns (code bytes, list of (op, arg)) ; table_small keeps table-indexed operands < 300"""
    n = rng.randrange(1, 14) if n is None else n
    ins = []
    for _ in range(n):
        op = rng.choice(info["ops"])
        if op in info["hasarg"]:
            isjump = op in info["jrel"] or op in info["jabs"]
            if isjump and jumps_in_range:
                arg = rng.randrange(0, 12)
            elif isjump:
                arg = magnitude(rng, info)
            else:
                arg = restricted(rng, info, op)
                if arg is None:
                    arg = magnitude(rng, info, small_tables=table_small)
            if info["v"] >= (3, 11):
                arg = min(arg, 0x7fffffff)
            if not info["word"] and info["ext"] is None:
                arg &= 0xffff
        else:
            arg = None
        ins.append((op, arg))
    code = []
    for op, arg in ins:
        code += emit(info, op, arg or 0)
    return bytes(code), ins

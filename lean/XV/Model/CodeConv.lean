/-
Model of codetype/__init__.py::codeType2Portable (class choice by version, the line-table
field selection) and of Code38 / Code310 / Code311 `to_native()` (the POSITIONAL argument
order handed to types.CodeType) and `replace()`.  Field values are abstract (`Nat` ids).
-/
namespace XV.Model.CodeConv

inductive Era where | e38 | e310 | e311          -- hosts 3.8/3.9, 3.10, 3.11+
  deriving DecidableEq, Repr

/-- a native code object as the host's CPython exposes it -/
structure Native where
  argcount : Nat
  posonly : Nat
  kwonly : Nat
  nlocals : Nat
  stacksize : Nat
  flags : Nat
  code : Nat
  consts : Nat
  names : Nat
  varnames : Nat
  freevars : Nat
  cellvars : Nat
  filename : Nat
  name : Nat
  firstlineno : Nat
  lnotab : Option Nat        -- 3.8–3.9: the real table; 3.10+: a derived, deprecated view
  linetable : Option Nat     -- 3.10+: the real table
  qualname : Option Nat      -- 3.11+
  exctable : Option Nat      -- 3.11+
  deriving DecidableEq, Repr

/-- what a host of the era really has -/
def Native.WF (e : Era) (c : Native) : Prop :=
  match e with
  | .e38 => c.lnotab.isSome ∧ c.linetable = none ∧ c.qualname = none ∧ c.exctable = none
  | .e310 => c.lnotab.isSome ∧ c.linetable.isSome ∧ c.qualname = none ∧ c.exctable = none
  | .e311 => c.lnotab.isSome ∧ c.linetable.isSome ∧ c.qualname.isSome ∧ c.exctable.isSome

inductive Cls where | Code38 | Code310 | Code311
  deriving DecidableEq, Repr

structure Portable where
  cls : Cls
  argcount : Nat
  posonly : Nat
  kwonly : Nat
  nlocals : Nat
  stacksize : Nat
  flags : Nat
  code : Nat
  consts : Nat
  names : Nat
  varnames : Nat
  freevars : Nat
  cellvars : Nat
  filename : Nat
  name : Nat
  firstlineno : Nat
  linetab : Nat              -- co_lnotab (Code38) / co_linetable (Code310, Code311)
  qualname : Option Nat
  exctable : Option Nat
  deriving DecidableEq, Repr

def clsFor : Era → Cls
  | .e38 => .Code38 | .e310 => .Code310 | .e311 => .Code311

/-- `codeType2Portable(code)` on a host of era `e`;
    `line_table_field = "co_linetable" if hasattr(code, "co_linetable") else "co_lnotab"` -/
def toPortable (e : Era) (c : Native) : Option Portable :=
  let lt := match c.linetable with
    | some t => some t
    | none => c.lnotab
  lt.map fun t =>
    { cls := clsFor e, argcount := c.argcount, posonly := c.posonly, kwonly := c.kwonly, nlocals := c.nlocals,
      stacksize := c.stacksize, flags := c.flags, code := c.code, consts := c.consts, names := c.names,
      varnames := c.varnames, freevars := c.freevars, cellvars := c.cellvars, filename := c.filename, name := c.name,
      firstlineno := c.firstlineno, linetab := t,
      qualname := if e = .e311 then c.qualname else none,
      exctable := if e = .e311 then c.exctable else none }

/-- the positional arguments `to_native()` passes to types.CodeType, in order -/
def nativeArgs (p : Portable) : List Nat :=
  match p.cls with
  | .Code38 | .Code310 =>
    [p.argcount, p.posonly, p.kwonly, p.nlocals, p.stacksize, p.flags, p.code, p.consts, p.names, p.varnames,
     p.filename, p.name, p.firstlineno, p.linetab, p.freevars, p.cellvars]
  | .Code311 =>
    [p.argcount, p.posonly, p.kwonly, p.nlocals, p.stacksize, p.flags, p.code, p.consts, p.names, p.varnames,
     p.filename, p.name, p.qualname.getD 0, p.firstlineno, p.linetab, p.exctable.getD 0, p.freevars, p.cellvars]

/-- CPython's `types.CodeType(*args)` for the era: what each positional slot means.
    `derive` is the host's own (lnotab ← linetable) view for 3.10+. -/
def codeType (e : Era) (derive : Nat → Nat) (args : List Nat) : Option Native :=
  match e, args with
  | .e38, [ac, po, kw, nl, ss, fl, co, cs, ns, vs, fn, nm, ln, lt, fv, cv] =>
    some { argcount := ac, posonly := po, kwonly := kw, nlocals := nl, stacksize := ss, flags := fl, code := co,
           consts := cs, names := ns, varnames := vs, freevars := fv, cellvars := cv, filename := fn, name := nm,
           firstlineno := ln, lnotab := some lt, linetable := none, qualname := none, exctable := none }
  | .e310, [ac, po, kw, nl, ss, fl, co, cs, ns, vs, fn, nm, ln, lt, fv, cv] =>
    some { argcount := ac, posonly := po, kwonly := kw, nlocals := nl, stacksize := ss, flags := fl, code := co,
           consts := cs, names := ns, varnames := vs, freevars := fv, cellvars := cv, filename := fn, name := nm,
           firstlineno := ln, lnotab := some (derive lt), linetable := some lt, qualname := none, exctable := none }
  | .e311, [ac, po, kw, nl, ss, fl, co, cs, ns, vs, fn, nm, qn, ln, lt, et, fv, cv] =>
    some { argcount := ac, posonly := po, kwonly := kw, nlocals := nl, stacksize := ss, flags := fl, code := co,
           consts := cs, names := ns, varnames := vs, freevars := fv, cellvars := cv, filename := fn, name := nm,
           firstlineno := ln, lnotab := some (derive lt), linetable := some lt, qualname := some qn, exctable := some et }
  | _, _ => none

/-- `p.to_native()` on a host of era `e` (TypeError when the class is not the host's) -/
def toNative (e : Era) (derive : Nat → Nat) (p : Portable) : Option Native :=
  if p.cls = clsFor e then codeType e derive (nativeArgs p) else none

end XV.Model.CodeConv

/-
Model of xdis's line-number machinery:
  cross_dis.findlinestarts (lnotab branch and co_lines branch), opcode_313.findlinestarts_313,
  Code310.co_lines, code311.parse_linetable (co_lines of 3.11+), code311.parse_positions,
  code311.parse_location_entries (what Code311.co_positions used to return),
  bytecode.offset2line, bytecode._parse_varint / parse_exception_table.
One Lean function per Python function, same branches, same order of reads.
-/
import XV.Base.Bytes
namespace XV.Model.Lines
open XV

/-! ### cross_dis.findlinestarts — lnotab branch -/

structure LState where
  lastline : Option Int
  lineno : Int
  offset : Nat
  lastIncr : Nat
  out : List (Nat × Int)        -- reversed
  done : Bool                   -- the `return` inside the loop fired

/-- `zip(tab[0::2], tab[1::2])` -/
def pairs : Bytes → List (Nat × Nat)
  | a :: b :: rest => (a, b) :: pairs rest
  | _ => []

def lnotabStep (signed dup : Bool) (codeLen : Nat) (s : LState) (p : Nat × Nat) : LState :=
  if s.done then s else
  let (byteIncr, lineDelta) := p
  let s := { s with lastIncr := byteIncr }
  let s :=
    if byteIncr ≠ 0 then
      let s := if s.lastline ≠ some s.lineno ∨ (dup ∧ 0 < byteIncr ∧ byteIncr < 255)
               then { s with out := (s.offset, s.lineno) :: s.out, lastline := some s.lineno } else s
      if s.offset ≥ codeLen then { s with done := true }
      else { s with offset := s.offset + byteIncr }
    else s
  if s.done then s else
  let d : Int := if signed ∧ lineDelta ≥ 0x80 then (lineDelta : Int) - 0x100 else lineDelta
  { s with lineno := s.lineno + d }

/-- `findlinestarts(code, dup_lines, signed_line_deltas)` when `code.co_lnotab` is a bytes
    table; `findlinestarts_pre36` passes `signed = false` -/
def lnotabStarts (signed dup : Bool) (first : Int) (codeLen : Nat) (tab : Bytes) : List (Nat × Int) :=
  if tab.length = 0 then [(0, first)] else
  let s0 : LState := { lastline := none, lineno := first, offset := 0, lastIncr := 0, out := [], done := false }
  let s := (pairs tab).foldl (lnotabStep signed dup codeLen) s0
  if s.done then s.out.reverse
  else if s.lastline ≠ some s.lineno ∨ (dup ∧ 0 < s.lastIncr ∧ s.lastIncr < 255)
       then ((s.offset, s.lineno) :: s.out).reverse else s.out.reverse

/-! ### Code310.co_lines -/

/-- one `(offset_delta: B, line_delta: b)` pair; `ld` is the raw byte -/
def signed8 (b : Nat) : Int := if b ≥ 128 then (b : Int) - 256 else b

def coLines310Go : Nat → Int → List (Nat × Nat) → List (Nat × Nat × Option Int)
  | _, _, [] => []
  | endOff, line, (od, ldRaw) :: rest =>
    let start := endOff
    let endOff' := endOff + od
    let ld := signed8 ldRaw
    let line' := if ld ≠ -128 then line + ld else line
    let disp : Option Int := if ld ≠ -128 then some line' else none
    if start = endOff' then coLines310Go endOff' line' rest
    else (start, endOff', disp) :: coLines310Go endOff' line' rest

/-- `Code310.co_lines()`; `none` = struct.error (odd table length) -/
def coLines310 (first : Int) (tab : Bytes) : Option (List (Nat × Nat × Option Int)) :=
  if tab.length % 2 = 0 then some (coLines310Go 0 first (pairs tab)) else none

/-! ### cross_dis.findlinestarts — co_lines branch, and findlinestarts_313 -/

def startsFromRanges (rs : List (Nat × Nat × Option Int)) : List (Nat × Int) :=
  let rec go (last : Option Int) : List (Nat × Nat × Option Int) → List (Nat × Int)
    | [] => []
    | (s, _, l) :: rest =>
      match l with
      | some line => if some line ≠ last then (s, line) :: go (some line) rest else go last rest
      | none => go last rest
  go none rs

/-- 3.13: `lastline = False; if line is not lastline: ...` — `None` lines are reported too -/
def startsFromRanges313 (rs : List (Nat × Nat × Option Int)) : List (Nat × Option Int) :=
  let rec go (last : Option (Option Int)) : List (Nat × Nat × Option Int) → List (Nat × Option Int)
    | [] => []
    | (s, _, l) :: rest => if some l ≠ last then (s, l) :: go (some l) rest else go last rest
  go none rs

/-! ### code311: varints and parse_linetable -/

/-- `_scan_varint(iterator)`: little-endian 6-bit groups; stops after a byte without bit 6
    or at end of input; returns (value, remaining) -/
def scanVarint : Bytes → Nat → Nat → Nat × Bytes
  | [], _, acc => (acc, [])
  | b :: rest, shift, acc =>
    let acc' := acc ||| ((b &&& 63) <<< (shift * 6))
    if b &&& 64 = 0 then (acc', rest) else scanVarint rest (shift + 1) acc'

def scanSignedVarint (bs : Bytes) : Int × Bytes :=
  let (v, rest) := scanVarint bs 0 0
  (if v &&& 1 = 1 then -((v >>> 1 : Nat) : Int) else ((v >>> 1 : Nat) : Int), rest)

structure LTEntry where
  lineDelta : Int
  codeDelta : Nat
  noLine : Bool
  deriving Repr, DecidableEq

/-- `_get_line_delta` (consumes from the shared iterator for codes 13 and 14) -/
def getLineDelta (codeByte : Nat) (rest : Bytes) : Int × Bytes :=
  let c := (codeByte >>> 3) &&& 15
  if c = 15 then (0, rest)
  else if c = 13 ∨ c = 14 then scanSignedVarint rest
  else if c = 10 then (0, rest)
  else if c = 11 then (1, rest)
  else if c = 12 then (2, rest)
  else (0, rest)

/-- `_go_to_next_code_byte`: skip bytes until one has bit 7 set -/
def nextCodeByte : Bytes → Option (Nat × Bytes)
  | [] => none
  | b :: rest => if b &&& 128 ≠ 0 then some (b, rest) else nextCodeByte rest

def nextCodeByte_length {bs : Bytes} {b : Nat} {rest : Bytes} (h : nextCodeByte bs = some (b, rest)) :
    rest.length < bs.length := by
  induction bs with
  | nil => simp [nextCodeByte] at h
  | cons x xs ih =>
    unfold nextCodeByte at h
    split at h
    · simp at h; obtain ⟨_, h2⟩ := h; subst h2; simp
    · have := ih h; simp; omega

theorem scanVarint_length (bs : Bytes) (s a : Nat) : (scanVarint bs s a).2.length ≤ bs.length := by
  induction bs generalizing s a with
  | nil => simp [scanVarint]
  | cons b rest ih =>
    unfold scanVarint
    simp only
    split
    · simp
    · have := ih (s + 1) (a ||| ((b &&& 63) <<< (s * 6))); simp; omega

theorem getLineDelta_length (c : Nat) (bs : Bytes) : (getLineDelta c bs).2.length ≤ bs.length := by
  unfold getLineDelta
  simp only
  split
  · simp
  · split
    · unfold scanSignedVarint; simp only; exact scanVarint_length bs 0 0
    · split <;> (try split) <;> (try split) <;> simp

/-- the `while (code_byte := _go_to_next_code_byte(it)) is not None` loop -/
def ltEntries (bs : Bytes) : List LTEntry :=
  match h : nextCodeByte bs with
  | none => []
  | some (cb, rest) =>
    have : (getLineDelta cb rest).2.length < bs.length := by
      have h1 := nextCodeByte_length h
      have h2 := getLineDelta_length cb rest
      omega
    { lineDelta := (getLineDelta cb rest).1, codeDelta := ((cb &&& 7) + 1) * 2, noLine := (cb >>> 3) = 0x1F }
      :: ltEntries (getLineDelta cb rest).2
termination_by bs.length

/-- the merging loop of `parse_linetable` after the first entry -/
def ltMerge : Nat → Nat → Int → Bool → List LTEntry → List (Nat × Nat × Option Int)
  | cs, ce, line, nl, [] => [(cs, ce, if nl then none else some line)]
  | cs, ce, line, nl, e :: rest =>
    if e.lineDelta ≠ 0 ∨ e.noLine ≠ nl then
      (cs, ce, if nl then none else some line) :: ltMerge ce (ce + e.codeDelta) (line + e.lineDelta) e.noLine rest
    else ltMerge cs (ce + e.codeDelta) line nl rest

/-- `parse_linetable(linetable, first_lineno)` = `Code311.co_lines()` -/
def coLines311 (first : Int) (tab : Bytes) : List (Nat × Nat × Option Int) :=
  match ltEntries tab with
  | [] => []
  | e :: rest => ltMerge 0 e.codeDelta (first + e.lineDelta) e.noLine rest

/-! ### code311.parse_positions -/

structure PosEntry where
  lineDelta : Int
  numLines : Nat
  codeDelta : Nat
  column : Int
  endColumn : Int
  noLine : Bool
  deriving Repr, DecidableEq

inductive PErr where | stopIteration | assertion
  deriving Repr, DecidableEq

/-- `decode_position_entry`; `next(iterator)` on an exhausted iterator raises StopIteration,
    which `parse_positions` catches (ending the loop) -/
def decodePosEntry (cb : Nat) (rest : Bytes) : Except PErr (PosEntry × Bytes) :=
  if cb &&& 128 = 0 then .error .assertion else
  let cd := ((cb &&& 7) + 1) * 2
  let fl := (cb >>> 3) &&& 15
  if fl = 15 then .ok ({ lineDelta := 0, numLines := 0, codeDelta := cd, column := -1, endColumn := -1, noLine := true }, rest)
  else if fl = 14 then
    let (ld, r1) := scanSignedVarint rest
    let (nl, r2) := scanVarint r1 0 0
    let (c, r3) := scanVarint r2 0 0
    let (ec, r4) := scanVarint r3 0 0
    .ok ({ lineDelta := ld, numLines := nl, codeDelta := cd, column := (c : Int) - 1, endColumn := (ec : Int) - 1, noLine := false }, r4)
  else if fl = 13 then
    let (ld, r1) := scanSignedVarint rest
    .ok ({ lineDelta := ld, numLines := 0, codeDelta := cd, column := -1, endColumn := -1, noLine := false }, r1)
  else if fl = 10 ∨ fl = 11 ∨ fl = 12 then
    match rest with
    | c :: ec :: r => .ok ({ lineDelta := (fl : Int) - 10, numLines := 0, codeDelta := cd, column := c, endColumn := ec, noLine := false }, r)
    | _ => .error .stopIteration
  else
    match rest with
    | sb :: r =>
      if sb &&& 128 ≠ 0 then .error .assertion else
      let col := (fl <<< 3) ||| (sb >>> 4)
      .ok ({ lineDelta := 0, numLines := 0, codeDelta := cd, column := col, endColumn := ((col + (sb &&& 15) : Nat) : Int), noLine := false }, r)
    | [] => .error .stopIteration

/-- entries decoded before the iterator runs dry; `.error assertion` propagates -/
def posEntries : Nat → Bytes → Except PErr (List PosEntry)
  | 0, _ => .ok []
  | _, [] => .ok []
  | fuel + 1, cb :: rest =>
    match decodePosEntry cb rest with
    | .error .stopIteration => .ok []
    | .error e => .error e
    | .ok (e, r) => do let tl ← posEntries fuel r; pure (e :: tl)

abbrev Pos := Option (Int × Int × Option Int × Option Int)

/-- `x if x >= 0 else None` -/
def colOpt (c : Int) : Option Int := if c ≥ 0 then some c else none

def expandPositions : Int → List PosEntry → List Pos
  | _, [] => []
  | line, e :: rest =>
    let line' := line + e.lineDelta
    List.replicate (e.codeDelta / 2)
      (if e.noLine then none else some (line', line' + e.numLines, colOpt e.column, colOpt e.endColumn))
    ++ expandPositions line' rest

/-- `parse_positions(linetable, first_lineno)`: one 4-tuple per code unit -/
def positions311 (first : Int) (tab : Bytes) : Except PErr (List Pos) :=
  (posEntries (tab.length + 1) tab).map (expandPositions first)

/-! ### bytecode._parse_varint / parse_exception_table (big-endian 6-bit groups) -/

/-- `_parse_varint(iterator)`: none = StopIteration -/
def parseVarintGo (val : Nat) (b : Nat) : Bytes → Option (Nat × Bytes)
  | [] => if b &&& 64 = 0 then some (val, []) else none
  | b' :: rest' =>
    if b &&& 64 = 0 then some (val, b' :: rest')
    else parseVarintGo ((val <<< 6) ||| (b' &&& 63)) b' rest'

def parseVarintBE : Bytes → Option (Nat × Bytes)
  | [] => none
  | b :: rest => parseVarintGo (b &&& 63) b rest

structure ExcEntry where
  start : Nat
  stop : Nat
  target : Nat
  depth : Nat
  lasti : Bool
  deriving Repr, DecidableEq

def parseExcTable : Nat → Bytes → List ExcEntry
  | 0, _ => []
  | fuel + 1, bs =>
    match parseVarintBE bs with
    | none => []
    | some (s, r1) =>
    match parseVarintBE r1 with
    | none => []
    | some (l, r2) =>
    match parseVarintBE r2 with
    | none => []
    | some (t, r3) =>
    match parseVarintBE r3 with
    | none => []
    | some (dl, r4) =>
      { start := s * 2, stop := s * 2 + l * 2, target := t * 2, depth := dl >>> 1, lasti := dl &&& 1 = 1 }
        :: parseExcTable fuel r4

def excTable (bs : Bytes) : List ExcEntry := parseExcTable (bs.length + 1) bs

/-! ### bytecode.offset2line -/

/-- the `while low <= high` loop, with `fuel` bounding the iterations -/
def o2lLoop (ls : Array (Nat × Int)) (off : Nat) : Nat → Int → Int → Int → Option Int × Int × Int
  | 0, _, high, mid => (none, high, mid)
  | fuel + 1, low, high, mid =>
    if low ≤ high then
      let m := (ls.getD mid.toNat (0, 0)).1
      if m > off then
        let high' := mid - 1
        o2lLoop ls off fuel low high' ((low + high' + 1) / 2)
      else if m < off then
        let low' := mid + 1
        o2lLoop ls off fuel low' high ((low' + high + 1) / 2)
      else (some (ls.getD mid.toNat (0, 0)).2, high, mid)
    else (none, high, mid)

/-- `offset2line(offset, linestarts)` -/
def offset2line (off : Nat) (linestarts : List (Nat × Int)) : Int :=
  let ls := linestarts.toArray
  if ls.size = 0 ∨ off < (ls.getD 0 (0, 0)).1 then 0 else
  let high : Int := (ls.size : Int) - 1
  let mid : Int := (0 + high + 1) / 2
  match o2lLoop ls off (ls.size + 2) 0 high mid with
  | (some l, _, _) => l
  | (none, high', mid') =>
    if mid' ≥ ls.size then (ls.getD (ls.size - 1) (0, 0)).2
    else (ls.getD high'.toNat (0, 0)).2

end XV.Model.Lines

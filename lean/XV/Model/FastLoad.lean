/-
Model of xdis/marsh.py `_FastUnmarshaller` (`xdis.marsh.loads`) on a Python 3 host: one case per
`load_*` method, reading from a byte string with a position, `_stringtable` for 't'/'R'.
Python has one int type here, so 'i', 'I' and 'l' all give `.int`.  `float(text)` is not
computed: the value carries the text (as in the writer Model).  Exceptions: every IndexError raised
under `load` is turned into EOFError by its `except IndexError`, an unknown type code is ValueError.
-/
import XV.Base.Bytes
import XV.Base.Utf8
import XV.Model.Unmarshal
namespace XV.Model.FastLoad
open XV XV.Model.Unmarshal

inductive FErr where
  | eof | badCode | unicodeError | typeError
  | nullValue        -- the `_NULL` sentinel would escape as a value (only streams no writer emits)
  | codeObject       -- 'c': load_code builds a Code2; not a plain value, not modelled
  | outOfFuel
  deriving Repr, DecidableEq

structure FSt where
  inp : Bytes             -- bufstr[bufpos:]
  strs : List V           -- _stringtable
  deriving Inhabited

abbrev F := StateT FSt (Except FErr)

/-- `_read(self, n)` -/
def read (n : Int) : F Bytes := do
  let s ← get
  if n < 0 ∨ s.inp.length < n.toNat then throw .eof
  else do
    set { s with inp := s.inp.drop n.toNat }
    pure (s.inp.take n.toNat)

/-- `_read1(self)` (IndexError past the end becomes EOFError in `load`) -/
def read1 : F Nat := do
  let s ← get
  match s.inp with
  | [] => throw .eof
  | b :: r => do set { s with inp := r }; pure b

/-- `_r_short`: lo | hi << 8, minus 0x10000 when bit 15 is set -/
def rShort : F Int := do
  let lo ← read1; let hi ← read1
  pure (signedOf 2 (leNat [lo, hi]))

/-- `_r_long`: four bytes by index (IndexError = EOFError), sign from bit 31 -/
def rLong : F Int := do
  let s ← get
  if s.inp.length < 4 then throw .eof
  else do
    set { s with inp := s.inp.drop 4 }
    pure (signedOf 4 (leNat (s.inp.take 4)))

def rLong64 : F Int := do
  let a ← read1; let b ← read1; let c ← read1; let d ← read1
  let e ← read1; let f ← read1; let g ← read1; let h ← read1
  pure (signedOf 8 (leNat [a, b, c, d, e, f, g, h]))

/-- Python's `|` on ints of either sign (two's complement of unbounded width): with ~x = -x-1,
    a | b = ~(~a & ~b) -/
def pyOr (a b : Int) : Int :=
  match a, b with
  | .ofNat m, .ofNat n => ((m ||| n : Nat) : Int)
  | .ofNat m, .negSucc n => Int.negSucc (n - (n &&& m))        -- ~(n & ~m)
  | .negSucc m, .ofNat n => Int.negSucc (m - (m &&& n))
  | .negSucc m, .negSucc n => Int.negSucc (m &&& n)

/-- the digit loop of `load_long`: `x = x | (d << (i * 15))` on Python ints -/
def rDigits : Nat → Nat → Int → F Int
  | 0, _, acc => pure acc
  | k + 1, i, acc => do
    let d ← rShort
    rDigits k (i + 1) (pyOr acc (d * (2 : Int) ^ (i * 15)))

mutual
/-- `hash(v)` succeeds -/
def hashable : V → Bool
  | .list _ | .set _ | .dict _ => false
  | .tuple xs => hashableL xs
  | .fset _ => true               -- a frozenset is hashable; its elements were checked when it was built
  | _ => true
def hashableL : List V → Bool
  | [] => true
  | x :: xs => hashable x && hashableL xs
end

mutual
/-- `load()`; `none` = the `_NULL` sentinel -/
def load : Nat → F (Option V)
  | 0 => throw .outOfFuel
  | fuel + 1 => do
    let c ← read1
    match c with
    | 48 => pure none                                                 -- '0'
    | 78 => pure (some .none)                                         -- 'N'
    | 84 => pure (some .tru)
    | 70 => pure (some .fls)
    | 83 => pure (some .stopIter)
    | 46 => pure (some .ellipsis)
    | 105 => do let x ← rLong; pure (some (.int x))                    -- 'i'
    | 73 => do let x ← rLong64; pure (some (.int x))                   -- 'I'
    | 108 => do                                                        -- 'l'
        let size ← rLong
        let x ← rDigits size.natAbs 0 0
        pure (some (.int (if size < 0 then -x else x)))
    | 102 => do                                                        -- 'f'
        let n ← read1; let s ← read n
        pure (some (.floatText s))
    | 120 => do                                                        -- 'x'
        let n ← read1; let r ← read n; let m ← read1; let i ← read m
        pure (some (.complexText r i))
    | 115 => do let n ← rLong; let s ← read n; pure (some (.bytes s))  -- 's'
    | 116 => do                                                        -- 't'
        let n ← rLong; let s ← read n
        match Utf8.decodeStrict s with
        | some cps => do
            modify fun st => { st with strs := st.strs ++ [.str cps] }
            pure (some (.str cps))
        | Option.none => throw .unicodeError
    | 82 => do                                                         -- 'R'
        let n ← rLong
        let st ← get
        match pyIndex st.strs n with
        | some v => pure (some v)
        | Option.none => throw .eof
    | 117 => do                                                        -- 'u'
        let n ← rLong; let s ← read n
        match Utf8.decodeSurrogatePass s with
        | some cps => pure (some (.str cps))
        | Option.none => throw .unicodeError
    | 40 => do let n ← rLong; let xs ← loadItems fuel n.toNat; pure (some (.tuple xs))   -- '('
    | 91 => do let n ← rLong; let xs ← loadItems fuel n.toNat; pure (some (.list xs))    -- '['
    | 123 => do let kvs ← loadDict fuel; pure (some (.dict kvs))                          -- '{'
    | 99 => throw .codeObject                                                             -- 'c'
    | 60 => do                                                                            -- '<'
        let n ← rLong; let xs ← loadItems fuel n.toNat
        if hashableL xs then pure (some (.set xs)) else throw .typeError
    | 62 => do                                                                            -- '>'
        let n ← rLong; let xs ← loadItems fuel n.toNat
        if hashableL xs then pure (some (.fset xs)) else throw .typeError
    | _ => throw .badCode
/-- `for i in range(n): list.append(self.load())` -/
def loadItems : Nat → Nat → F (List V)
  | 0, _ => throw .outOfFuel
  | _, 0 => pure []
  | fuel + 1, n + 1 => do
    let x ← load fuel
    match x with
    | Option.none => throw .nullValue
    | some v => do
      let xs ← loadItems fuel n
      pure (v :: xs)
/-- the `while 1` loop of load_dict -/
def loadDict : Nat → F (List (V × V))
  | 0 => throw .outOfFuel
  | fuel + 1 => do
    let k ← load fuel
    match k with
    | Option.none => pure []
    | some key => do
      let v ← load fuel
      match v with
      | Option.none => throw .nullValue
      | some val =>
        if hashable key then do
          let rest ← loadDict fuel
          pure ((key, val) :: rest)
        else throw .typeError
end

/-- `xdis.marsh.loads(data)`: every nested `load` and every loop iteration consumes a byte first;
    `2 * length + 3` units of fuel are provably enough on every stream a writer emits (C14_loads) -/
def loads (data : Bytes) : Except FErr (V × Bytes) :=
  match (load (2 * data.length + 3)).run { inp := data, strs := [] } with
  | .ok (some v, s) => .ok (v, s.inp)
  | .ok (Option.none, _) => .error .nullValue
  | .error e => .error e

end XV.Model.FastLoad

# Oracle server: runs inside a reference CPython (2.7, 3.6 .. 3.13) and answers JSON
# requests (one per line) about what THAT interpreter does.  Syntax valid on 2.7.
from __future__ import print_function
import sys, json, dis, marshal, types, binascii

PY = sys.version_info[:2]
PY3 = PY[0] >= 3


def unhex(s):
    return binascii.unhexlify(s)


def tohex(b):
    return binascii.hexlify(b).decode("ascii")


def _template():
    def f():
        pass
    return f.__code__ if PY3 else f.func_code


def mkcode(co_code, first, linetab, exctab=None, consts=None, names=None, varnames=None, nlocals=None,
           freevars=None, cellvars=None):
    """a code object of this interpreter around the given byte strings"""
    t = _template()
    consts = tuple(consts) if consts is not None else (None,)
    names = tuple(names) if names is not None else ()
    varnames = tuple(varnames) if varnames is not None else ()
    if PY >= (3, 8):
        kw = dict(co_code=co_code, co_firstlineno=first, co_consts=consts, co_names=names,
                  co_varnames=varnames, co_nlocals=len(varnames))
        if PY >= (3, 10):
            kw["co_linetable"] = linetab
        else:
            kw["co_lnotab"] = linetab
        if PY >= (3, 11) and exctab is not None:
            kw["co_exceptiontable"] = exctab
        if freevars is not None:
            kw["co_freevars"] = tuple(freevars)
        if cellvars is not None:
            kw["co_cellvars"] = tuple(cellvars)
        return t.replace(**kw)
    if PY3:
        return types.CodeType(0, 0, len(varnames), 10, 64, co_code, consts, names, varnames, "f.py", "f", first,
                              linetab, tuple(freevars or ()), tuple(cellvars or ()))
    return types.CodeType(0, len(varnames), 10, 64, co_code, consts, names, varnames, "f.py", "f", first,
                          linetab, tuple(freevars or ()), tuple(cellvars or ()))


OPS = {}


def op(f):
    OPS[f.__name__] = f
    return f


@op
def version(a):
    return list(sys.version_info[:3])


@op
def linestarts(a):
    co = mkcode(b"\x09" * a["code_len"] if PY < (3, 6) else b"\x09\x00" * (a["code_len"] // 2), a["first"], unhex(a["tab"]))
    return [[o, l] for o, l in dis.findlinestarts(co)]


@op
def co_lines(a):
    co = mkcode(b"\x09\x00" * (a["code_len"] // 2), a["first"], unhex(a["tab"]))
    return [list(r) for r in co.co_lines()]


@op
def co_positions(a):
    co = mkcode(b"\x09\x00" * (a["code_len"] // 2), a["first"], unhex(a["tab"]))
    return [list(p) for p in co.co_positions()]


@op
def exc_table(a):
    co = mkcode(b"\x09\x00" * (a["code_len"] // 2), 1, b"", unhex(a["tab"]))
    return [[e.start, e.end, e.target, e.depth, bool(e.lasti)] for e in dis._parse_exception_table(co)]


def main():
    import os
    here = os.path.dirname(os.path.abspath(__file__))
    sys.path.insert(0, here)
    try:
        import oracle_ext
        oracle_ext.register(op, globals())
    except ImportError:
        pass
    out = sys.stdout
    while True:
        line = sys.stdin.readline()
        if not line:
            break
        line = line.strip()
        if not line:
            continue
        req = json.loads(line)
        try:
            rep = {"r": OPS[req["op"]](req.get("a", {}))}
        except BaseException as e:
            rep = {"exc": type(e).__name__, "msg": str(e)[:200]}
        out.write(json.dumps(rep) + "\n")
        out.flush()


if __name__ == "__main__":
    main()

/-
Text as a list of code points.  Lean's `String` is UTF-8 backed and very slow to
reduce in the kernel, so every table that a `decide +kernel` theorem ranges over
carries its strings as `Str`; `String` appears only in the driver's I/O.
-/
namespace XV

abbrev Str := List Nat

/-- equality of two texts as a structurally recursive Bool function on `Nat.beq`: the derived
    `==` on `List Nat` goes through `DecidableEq` and is two orders of magnitude slower in the kernel -/
def Str.eqb : List Nat → List Nat → Bool
  | [], [] => true
  | a :: as, b :: bs => Nat.beq a b && Str.eqb as bs
  | _, _ => false

theorem Str.eqb_iff (a b : List Nat) : Str.eqb a b = true ↔ a = b := by
  induction a generalizing b with
  | nil => cases b <;> simp [Str.eqb]
  | cons x xs ih =>
    cases b with
    | nil => simp [Str.eqb]
    | cons y ys => simp [Str.eqb, ih, Nat.beq_eq_true_eq]

/-- conversion used by the driver and by `example`s that pin the literal constants below -/
def str (x : String) : Str := x.toList.map Char.toNat
def Str.toString (s : Str) : String := String.ofList (s.map Char.ofNat)

namespace S
def pypy : Str := [112, 121, 112, 121]
def dropbox : Str := [100, 114, 111, 112, 98, 111, 120]
def dot : Nat := 46
example : pypy = str "pypy" ∧ dropbox = str "dropbox" ∧ [dot] = str "." := by decide
end S

def isDigit (c : Nat) : Bool := c ≥ 48 && c ≤ 57

def takeDigits : Str → Str × Str
  | [] => ([], [])
  | c :: cs => if isDigit c then let (d, r) := takeDigits cs; (c :: d, r) else ([], c :: cs)

def decVal (ds : Str) : Nat := ds.foldl (fun a c => a * 10 + (c - 48)) 0

def natToDecAux : Nat → Nat → Str → Str
  | 0, _, acc => acc
  | fuel + 1, n, acc =>
    if n < 10 then (48 + n) :: acc else natToDecAux fuel (n / 10) ((48 + n % 10) :: acc)

/-- Python's `str(n)` for a natural number -/
def natToDec (n : Nat) : Str := natToDecAux (n + 1) n []

example : natToDec 3495 = str "3495" ∧ natToDec 0 = str "0" := by decide

/-- `".".join(str(i) for i in t)` -/
def joinDots : List Nat → Str
  | [] => []
  | [a] => natToDec a
  | a :: rest => natToDec a ++ S.dot :: joinDots rest

end XV

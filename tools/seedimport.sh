#!/bin/bash
# tools/seedimport.sh <seed>...  copy a round-2 seed from /tmp/mut2/out into seeded/, check it applies and keeps the baseline, run its property's check
cd /verif
for seed in "$@"; do
  src=/tmp/mut2/out/$seed
  [ -f $src/patch.diff ] || { echo "$seed: no patch"; continue; }
  mkdir -p seeded/$seed; cp $src/patch.diff $src/demo.py $src/notes.md seeded/$seed/ 2>/dev/null
  prop=${seed:0:3}
  if ! git -C /repo apply --check /verif/seeded/$seed/patch.diff 2>/dev/null; then echo -e "$seed\t$prop\tPATCH-DOES-NOT-APPLY" >> seeded/RESULTS2.tsv; continue; fi
  git -C /repo apply /verif/seeded/$seed/patch.diff
  base=$(tools/baseline.py /repo | head -1 | grep -o "[0-9]*/[0-9]*")
  git -C /repo checkout -- .
  tools/seedtest.sh $seed $prop quick > /tmp/si.$seed.out 2>&1
  log=/tmp/seedtest.$seed.$prop.log
  rc=$(grep -o "rc=[0-9]*" /tmp/si.$seed.out | head -1 | cut -d= -f2)
  nv=$(grep -c "^VIOLATION" $log 2>/dev/null)
  nf=$(grep "^VIOLATION" $log 2>/dev/null | grep -c "no-failing-input-found")
  first=$(grep -A1 "^VIOLATION" $log 2>/dev/null | grep "what:" | head -1 | cut -c1-300 | tr '\t' ' ')
  echo -e "$seed\t$prop\t$rc\t$nv\t$nf\t$base\t$first" >> seeded/RESULTS2.tsv
  if [ -n "$(git -C /repo status --short)" ]; then git -C /repo reset -q --hard HEAD; fi
done
echo done "$@"

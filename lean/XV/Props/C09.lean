/-
C09 — Opcode tables match the interpreter's own opcode module.
Every theorem ranges over the COMPLETE generated list of tables
(`Gen.allTables`: every `xdis/opcodes/opcode_*.py` that defines a version,
re-extracted from /repo on every run) and all opcode numbers of each table.
-/
import XV.Spec.OpTables
namespace XV.Props.C09
open XV XV.Model XV.Spec.OpTables

/-- for each version with an installed CPython: same number/name map, same
    HAVE_ARGUMENT, same EXTENDED_ARG, same seven operand categories -/
theorem C09_ref : ∀ t ∈ Gen.allTables, refOk t = true := by decide +kernel

/-- for versions without a reference interpreter: equal to the reviewed snapshot -/
theorem C09_hist : ∀ t ∈ Gen.allTables, histOk t = true := by decide +kernel

/-- names and numbers of defined opcodes are a bijection, in every table -/
theorem C09_bij : ∀ t ∈ Gen.allTables, bijOk t = true := by decide +kernel

/-- every categorised opcode is defined and takes an operand (unless CPython's own
    table has the same gap) -/
theorem C09_cat : ∀ t ∈ Gen.allTables, catOk t = true := by decide +kernel

/-- no opcode is both a relative and an absolute jump -/
theorem C09_disjoint : ∀ t ∈ Gen.allTables, disjointOk t = true := by decide +kernel

/-- EXTENDED_ARG and its shift width are right for the version -/
theorem C09_extarg : ∀ t ∈ Gen.allTables, extArgOk t = true := by decide +kernel

/-- unfolded reading of `C09_cat` for one category: a relative-jump opcode of any
    table is a defined, operand-taking opcode (or CPython has the same gap) -/
theorem C09_jrel_defined (t : OpTable) (ht : t ∈ Gen.allTables) (op : Nat) (hop : op ∈ t.jrelOps) :
    (isDefined t op = true ∧ op ≥ t.haveArgument) ∨ refHasGap t "jrel" op = true := by
  have h := C09_cat t ht
  unfold catOk cats at h
  simp only [List.all_cons, Bool.and_eq_true] at h
  have h1 := h.1
  rw [List.all_eq_true] at h1
  have := h1 op hop
  unfold catOpOk at this
  simp only [Bool.or_eq_true, Bool.and_eq_true, decide_eq_true_eq] at this
  exact this

/-- non-vacuity: the tables are there, nine of them have a reference interpreter -/
example : Gen.allTables.length ≥ 39 ∧ (Gen.allTables.filter (fun t => (refFor t).isSome)).length = 9 ∧
    Gen.opcode_27.jrelOps.length > 5 := by decide +kernel

end XV.Props.C09

/-
C15 — Stack effects equal the interpreter's for every opcode and operand.
`Model.StackEffect.effect t op arg = (effectForm t op).eval arg` holds by definition: the
Model records each `return <expr in oparg>` of xstack_effect as its closed form.  The theorem
compares that form with the reference form of the same opcode (fitted to dis.stack_effect
on a grid of 312 operands up to 2^24) for every opcode of every version with an interpreter;
equal closed forms agree on EVERY operand.
-/
import XV.Model.StackEffect
import XV.Gen.OpTables
import XV.Gen.RefEffects
namespace XV.Props.C15
open XV XV.Model XV.Model.StackEffect XV.Spec.StackEffect

/-- forms that denote the same function of the operand (syntactic equality up to the two
    trivial identities the fit can produce) -/
def sameForm (f g : EForm) : Bool :=
  f == g ||
  (match f, g with
   | .const c, .affine 0 c' => c == c'
   | .affine 0 c, .const c' => c == c'
   | _, _ => false)

theorem sameForm_sound (f g : EForm) (h : sameForm f g = true) (a : Nat) : f.eval a = g.eval a := by
  unfold sameForm at h
  by_cases he : f = g
  · rw [he]
  · have hne : (f == g) = false := by simpa using he
    rw [hne, Bool.false_or] at h
    cases f with
    | const c =>
      cases g with
      | affine k c' =>
        by_cases hk : k = 0
        · subst hk; simp at h; subst h; simp [EForm.eval]
        · simp [hk] at h
      | _ => simp at h
    | affine k c =>
      cases g with
      | const c' =>
        by_cases hk : k = 0
        · subst hk; simp at h; subst h; simp [EForm.eval]
        · simp [hk] at h
      | _ => simp at h
    | _ => simp at h

def refFormsFor (t : OpTable) : Option (List (Nat × EForm)) :=
  if t.isPypy then none else (Gen.refEffects.find? (fun r => r.1 == t.version)).map (·.2)

/-- reference `rejects` (dis raises ValueError for this opcode) leaves xdis free -/
def opOk (t : OpTable) (p : Nat × EForm) : Bool :=
  match p.2 with
  | .rejects => true
  | g =>
    -- an opcode that takes no operand is only ever asked with oparg = 0
    if t.hasArg p.1 then sameForm (effectForm t p.1) g else (effectForm t p.1).eval 0 == g.eval 0

def tableOk (t : OpTable) : Bool :=
  match refFormsFor t with
  | none => true
  | some fs => fs.all (opOk t)

/-- C15_main (table part): for every version with a reference interpreter and every opcode
    it defines, xdis's closed form is the reference closed form -/
theorem C15_forms : ∀ t ∈ Gen.allTables, tableOk t = true := by decide +kernel

/-- C15_main: on every such table, for every operand-taking opcode and EVERY operand value,
    the effect xdis reports equals the value of the reference form (= dis.stack_effect
    wherever it answers); for an operand-less opcode the two agree at oparg = 0 -/
theorem C15_main (t : OpTable) (ht : t ∈ Gen.allTables) (fs : List (Nat × EForm)) (hfs : refFormsFor t = some fs)
    (op : Nat) (g : EForm) (hop : (op, g) ∈ fs) (hg : g ≠ .rejects) :
    (t.hasArg op = true → ∀ arg, effect t op arg = g.eval arg) ∧
    (t.hasArg op = false → effect t op 0 = g.eval 0) := by
  have h := C15_forms t ht
  unfold tableOk at h
  rw [hfs] at h
  simp only [List.all_eq_true] at h
  have := h (op, g) hop
  unfold opOk at this
  simp only at this
  cases g with
  | rejects => exact absurd rfl hg
  | _ =>
    constructor
    · intro ha arg
      simp only [ha, if_true] at this
      exact sameForm_sound _ _ this arg
    · intro ha
      simp only [ha, Bool.false_eq_true, if_false, beq_iff_eq] at this
      exact this

/-- non-vacuity: eight interpreters contribute reference forms -/
example : Gen.refEffects.length = 8 ∧ (Gen.allTables.filter fun t => (refFormsFor t).isSome).length = 8 := by
  decide +kernel

end XV.Props.C15

"""implementation-side: load a .pyc image with xdis and dump everything the properties observe"""
import binascii
import io
import os
import struct
import sys
import tempfile
import types


def canon(v):
    t = type(v).__name__
    if v is None:
        return ["none"]
    if v is True or v is False:
        return ["bool", bool(v)]
    if v is Ellipsis:
        return ["ellipsis"]
    if v is StopIteration:
        return ["stopiteration"]
    if t == "LongTypeForPython3":
        return ["long", str(int(v))]
    if t == "int":
        return ["int", str(v)]
    if t == "float":
        return ["float", binascii.hexlify(struct.pack(">d", v)).decode("ascii")]
    if t == "complex":
        return ["complex", binascii.hexlify(struct.pack(">d", v.real)).decode("ascii"),
                binascii.hexlify(struct.pack(">d", v.imag)).decode("ascii")]
    if t == "bytes":
        return ["bytes", v.hex()]
    if t == "UnicodeForPython3":
        raw = v.value
        return ["unicode2", raw.hex() if isinstance(raw, bytes) else [ord(c) for c in raw]]
    if t == "str":
        return ["str", [ord(c) for c in v]]
    if t in ("tuple", "list"):
        return [t, [canon(x) for x in v]]
    if t in ("set", "frozenset"):
        return [t, sorted((canon(x) for x in v), key=repr)]
    if t == "dict":
        return ["dict", sorted(([canon(k), canon(x)] for k, x in v.items()), key=repr)]
    if hasattr(v, "co_code"):
        return ["code", str(getattr(v, "co_name", "?"))]
    return ["other", t]


def hexb(b):
    if isinstance(b, str):
        return bytes(ord(c) for c in b).hex()
    return bytes(b).hex()


def code_fields(co):
    d = {}
    for f in ("co_argcount", "co_posonlyargcount", "co_kwonlyargcount", "co_nlocals", "co_stacksize", "co_flags", "co_firstlineno"):
        if hasattr(co, f):
            d[f] = getattr(co, f)
    d["co_code"] = hexb(co.co_code)
    for f in ("co_names", "co_varnames", "co_freevars", "co_cellvars"):
        d[f] = [canon(x) for x in getattr(co, f, ())]
    d["co_filename"] = canon(co.co_filename)
    d["co_name"] = canon(co.co_name)
    if hasattr(co, "co_qualname"):
        d["co_qualname"] = canon(co.co_qualname)
    lt = co.co_linetable if hasattr(co, "co_linetable") else getattr(co, "co_lnotab", b"")
    d["linetable"] = hexb(lt) if not isinstance(lt, dict) else "dict"
    if hasattr(co, "co_exceptiontable") and co.co_exceptiontable is not None:
        d["co_exceptiontable"] = hexb(co.co_exceptiontable)
    d["co_consts"] = [canon(x) for x in co.co_consts]
    d["cls"] = type(co).__name__
    return d


def walk(co):
    yield co
    for c in co.co_consts:
        if hasattr(c, "co_code"):
            for x in walk(c):
                yield x


def dump_code(co, opc, version, api=None):
    from xdis.bytecode import Bytecode
    ent = {"fields": code_fields(co)}
    try:
        bc = Bytecode(co, opc)
        ins = []
        for i in (bc if api is None else api.get_instructions(co)):
            av = i.argval
            if hasattr(av, "co_code"):
                av = ["code", str(av.co_name)]
            elif isinstance(av, tuple) and all(isinstance(x, str) for x in av) and type(av) is tuple and len(av) == 2 and i.opname.endswith("FAST"):
                av = list(av)
            elif not isinstance(av, (int, str, type(None))) or type(av).__name__ in ("LongTypeForPython3", "UnicodeForPython3"):
                av = canon(av)
            ins.append([i.offset, i.opcode, i.opname, i.arg, av, bool(i.is_jump_target), i.starts_line])
        ent["instrs"] = ins
        if api is None:
            # iterating the same Bytecode object again (fully, and after an abandoned partial pass)
            # must yield the same stream: "iterating its instructions" is not a one-shot affair
            # (a pass over 3.11+ code costs a findlabels() per instruction: only code objects of moderate size)
            first = [[x[0], x[1], x[3]] for x in ins]
            small = len(first) <= 400
            again = [[i.offset, i.opcode, i.arg] for i in bc] if small else first
            it = iter(bc)
            next(it, None)
            next(it, None)
            third = [[i.offset, i.opcode, i.arg] for i in bc] if small else first
            if again != first or third != first:
                ent["reiter"] = {"first": len(first), "second": len(again), "third": len(third),
                                 "third_first_offset": third[0][0] if third else None}
            # two iterators over one FRESH object advancing in turn (look-ahead scans: zip(bc, islice(bc, 1, None)),
            # nested loops): each is its own pass over the code
            fresh = Bytecode(co, opc)
            ia, ib = iter(fresh), iter(fresh)
            la, lb = [], []
            step = 0
            while small:
                step += 1
                moved = False
                for it_, acc, n in ((ia, la, 1), (ib, lb, 2 if step % 2 else 1)):
                    for _ in range(n):
                        x = next(it_, None)
                        if x is not None:
                            acc.append([x.offset, x.opcode, x.arg])
                            moved = True
                if not moved or step > 100000:
                    break
            if small and (la != first or lb != first):
                ent["reiter"] = {"interleaved": True, "first": len(first), "a": len(la), "b": len(lb),
                                 "a_offsets": [x[0] for x in la[:6]], "b_offsets": [x[0] for x in lb[:6]]}
            fresh2 = Bytecode(co, opc)
            outer = []
            for _x in (fresh2 if small else []):
                outer.append([_x.offset, _x.opcode, _x.arg])
                if len(outer) >= 25:          # every inner iter() sets a whole pass up: keep the nested scan short
                    break
                for _y in fresh2:
                    break
            if small and (outer != first[:len(outer)] or (len(outer) < 25 and len(outer) != len(first))):
                ent["reiter"] = {"nested": True, "first": len(first), "outer": len(outer), "outer_offsets": [x[0] for x in outer[:6]]}
        ent["exc"] = None if bc.exception_entries is None else [[e.start, e.end, e.target, e.depth, bool(e.lasti)] for e in bc.exception_entries]
    except Exception as e:  # noqa
        ent["instrs_err"] = type(e).__name__ + ":" + str(e)[:100]
    try:
        ent["labels"] = list(opc.findlabels(co.co_code, opc)) if api is None else list(api.findlabels(co.co_code))
    except Exception as e:  # noqa
        ent["labels_err"] = type(e).__name__
    try:
        ent["linestarts"] = [[o, l] for o, l in (opc.findlinestarts(co) if api is None else api.findlinestarts(co))]
    except Exception as e:  # noqa
        ent["linestarts_err"] = type(e).__name__ + ":" + str(e)[:100]
    if tuple(version) >= (3, 10) and hasattr(co, "co_lines"):
        try:
            ent["co_lines"] = [list(p) for p in co.co_lines()]
        except Exception as e:  # noqa
            ent["co_lines_err"] = type(e).__name__
    if tuple(version) >= (3, 11) and hasattr(co, "co_positions"):
        try:
            ent["positions"] = [list(p) for p in co.co_positions()]
        except Exception as e:  # noqa
            ent["positions_err"] = type(e).__name__
    return ent


def register(op):
    @op
    def load_pyc(a):
        """load_module on a .pyc image; a['path'] = 'portable' forces xdis's own unmarshaller
        even when the file is of the host's version"""
        from xdis.load import load_module, load_module_from_file_object
        from xdis.disasm import get_opcode
        data = bytes.fromhex(a["pyc"])
        fd, path = tempfile.mkstemp(suffix=a.get("suffix", ".pyc"))
        os.write(fd, data)
        os.close(fd)
        try:
            try:
                if a.get("path") == "portable":
                    import xdis.load as L
                    saved = L.PYTHON_MAGIC_INT
                    L.PYTHON_MAGIC_INT = -1
                    try:
                        r = load_module(path)
                    finally:
                        L.PYTHON_MAGIC_INT = saved
                else:
                    r = load_module(path)
            except BaseException as e:  # noqa
                return {"err": type(e).__name__, "msg": str(e)[:200]}
            version, ts, magic, co, ispypy, size, sip = r
            out = {"version": list(version), "timestamp": ts, "magic": magic, "is_pypy": bool(ispypy),
                   "source_size": size, "sip_hash": sip, "native": isinstance(co, types.CodeType)}
            import xdis.magics as _M
            out["host_magic"] = _M.PYTHON_MAGIC_INT
            if a.get("header_only"):
                return out
            opc = get_opcode(version, ispypy)
            out["opc"] = opc.__name__.split(".")[-1]
            api = None
            if a.get("via_std"):
                from xdis.std import make_std_api
                api = make_std_api(tuple(version[:2]), "pypy" if ispypy else None)
            dfs = list(walk(co))
            out["codes"] = [dump_code(c, opc, version, api) for c in dfs]
            # the order disco_loop lists code objects in: a queue (breadth first)
            from collections import deque
            q, order = deque([co]), []
            while q:
                c = q.popleft()
                order.append(next(i for i, d in enumerate(dfs) if d is c))
                for k in c.co_consts:
                    if hasattr(k, "co_code"):
                        q.append(k)
            out["bfs"] = order
            if a.get("dup_lines"):
                from xdis.bytecode import Bytecode
                for ent, c in zip(out["codes"], dfs):
                    try:
                        ent["instrs_dup"] = [[i.offset, i.opcode, i.opname, i.arg, i.argrepr, bool(i.is_jump_target), i.starts_line]
                                             for i in Bytecode(c, opc, dup_lines=True)]
                    except Exception as e:  # noqa
                        ent["instrs_dup_err"] = type(e).__name__
            return out
        finally:
            os.unlink(path)


def register_listing(op):
    @op
    def listing(a):
        """disassemble_file(path, outstream, asm_format) on a .pyc image"""
        import io as _io
        from xdis.disasm import disassemble_file
        data = bytes.fromhex(a["pyc"])
        fd, path = tempfile.mkstemp(suffix=a.get("suffix", ".pyc"))
        os.write(fd, data)
        os.close(fd)
        out = _io.StringIO()
        try:
            try:
                if a.get("path") == "portable":
                    import xdis.load as L
                    saved = L.PYTHON_MAGIC_INT
                    L.PYTHON_MAGIC_INT = -1
                    try:
                        disassemble_file(path, outstream=out, asm_format=a["fmt"])
                    finally:
                        L.PYTHON_MAGIC_INT = saved
                else:
                    disassemble_file(path, outstream=out, asm_format=a["fmt"])
                err = None
            except BaseException as e:  # noqa
                import traceback
                err = type(e).__name__ + ":" + str(e)[:100] + " @ " + traceback.format_exc().strip().split("\n")[-3][:120]
        finally:
            os.unlink(path)
        return {"text": out.getvalue(), "err": err}


def register_rw(op):
    @op
    def rewrite_pyc(a):
        """load_module then write_bytecode_file; returns the new image"""
        from xdis.load import load_module, write_bytecode_file
        data = bytes.fromhex(a["pyc"])
        fd, path = tempfile.mkstemp(suffix=".pyc")
        os.write(fd, data)
        os.close(fd)
        out = path + ".out.pyc"
        try:
            try:
                if a.get("path") == "portable":
                    import xdis.load as L
                    saved = L.PYTHON_MAGIC_INT
                    L.PYTHON_MAGIC_INT = -1
                    try:
                        r = load_module(path)
                    finally:
                        L.PYTHON_MAGIC_INT = saved
                else:
                    r = load_module(path)
            except BaseException as e:  # noqa
                return {"load_err": type(e).__name__}
            version, ts, magic, co, ispypy, size, sip = r
            try:
                write_bytecode_file(out, co, magic, ts if ts else 1700000000, size or 0)
            except BaseException as e:  # noqa
                return {"write_err": type(e).__name__, "msg": str(e)[:120]}
            return {"pyc": open(out, "rb").read().hex(), "native": isinstance(co, types.CodeType)}
        finally:
            for p in (path, out):
                try:
                    os.unlink(p)
                except OSError:
                    pass


_reg_pyc = register


def register(op):  # noqa: F811
    _reg_pyc(op)
    register_rw(op)
    register_listing(op)

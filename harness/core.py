"""Shared machinery of ./check: regeneration of the generated Lean tables from
/repo, lake builds, axiom audit, driver line protocol, findings, evidence."""
import fcntl
import hashlib
import json
import os
import re
import subprocess
import sys
import time

VERIF = os.path.dirname(os.path.dirname(os.path.abspath(__file__)))
LEAN = os.path.join(VERIF, "lean")
BUILD = os.path.join(VERIF, "build")
HARNESS = os.path.join(VERIF, "harness")
EVID = os.path.join(VERIF, "evidence")
sys.path.insert(0, HARNESS)
from oracles import ORACLES, HOSTS, MAIN_HOST, REPO  # noqa: E402

ALLOWED_AXIOMS = {"propext", "Classical.choice", "Quot.sound"}
FORBIDDEN = re.compile(r"\b(sorry|admit|native_decide|bv_decide|implemented_by|unsafe)\b|^\s*axiom\s|maxHeartbeats\s+0")

TRUSTED_BASE = [
    "Lean 4.33.0 kernel; axioms limited to propext, Classical.choice, Quot.sound (audited by #print axioms on every run)",
    "harness/extract.py: evaluating xdis's table modules / probing finite decision logic reports what the code does (T1/T2)",
    "correspondence check (T3) is differential sampling of hand-written Model vs implementation",
    "Spec validated against installed CPython 2.7, 3.6-3.13; trusted as written for versions without an interpreter",
    "Lean compiler for the xvdriver executable used in correspondence",
]


class Lock:
    def __init__(self, name="build.lock"):
        os.makedirs(BUILD, exist_ok=True)
        self.path = os.path.join(BUILD, name)

    def __enter__(self):
        self.fp = open(self.path, "w")
        fcntl.flock(self.fp, fcntl.LOCK_EX)
        return self

    def __exit__(self, *a):
        fcntl.flock(self.fp, fcntl.LOCK_UN)
        self.fp.close()


def run(cmd, **kw):
    kw.setdefault("stdout", subprocess.PIPE)
    kw.setdefault("stderr", subprocess.STDOUT)
    kw.setdefault("text", True)
    return subprocess.run(cmd, **kw)


def host_env(extra=None):
    env = dict(os.environ)
    env["PYTHONPATH"] = REPO
    env["PYTHONHASHSEED"] = "0"
    env["PYTHONDONTWRITEBYTECODE"] = "1"
    env["XDIS_VERIF"] = "1"
    if extra:
        env.update(extra)
    return env


def regenerate(log):
    """T1/T2: re-extract tables from /repo's working tree and rewrite Gen/*.lean
    (only when content changes).  Returns the parsed tables JSON or None with an
    error string."""
    os.makedirs(BUILD, exist_ok=True)
    tj = os.path.join(BUILD, "tables.json")
    p = run([MAIN_HOST, os.path.join(HARNESS, "extract.py"), tj], env=host_env(), cwd="/")
    if p.returncode != 0:
        log("extract.py failed:\n" + p.stdout[-2000:])
        return None, "extract failed: " + p.stdout[-400:]
    refs = os.path.join(BUILD, "refs.json")
    if not os.path.exists(refs):
        out = []
        for v, path in sorted(ORACLES.items()):
            out.append(json.loads(subprocess.check_output([path, os.path.join(HARNESS, "ref_opcode.py")])))
        json.dump(out, open(refs, "w"))
    reg = os.path.join(BUILD, "registry.json")
    if not os.path.exists(reg):
        subprocess.check_call([MAIN_HOST, os.path.join(HARNESS, "ref_registry.py"), reg], cwd=HARNESS)
    ref_eff = os.path.join(BUILD, "ref_effects.json")
    if not os.path.exists(ref_eff):
        subprocess.check_call([MAIN_HOST, os.path.join(HARNESS, "ref_effects.py"), ref_eff], cwd=HARNESS, stdout=subprocess.DEVNULL)
    # static effect facts (ASTs under /repo/xdis)
    import effects
    import gen_lean
    import writes
    fl = effects.facts({"load_module"})
    fd = effects.facts({"disassemble_file", "disco", "disco_loop", "disco_loop_asm_format"})
    eff = [gen_lean.HDR, "import XV.Base.Str\n", "namespace XV.Gen\n",
           "/-- exec/eval/compile/__import__/open-for-write/os.* call sites reachable from load_module -/\n",
           "def loadModuleDanger : List String := %s\n" % gen_lean.lstrs(fl["danger"]),
           "def loadModuleReachable : Nat := %d\n" % fl["reachable"],
           "/-- print()/sys.stdout.write() sites (not directed at an explicit stream) reachable from disassemble_file -/\n",
           "def disasmStdoutSites : List String := %s\n" % gen_lean.lstrs(fd["outs"]),
           "def disasmStdoutFiles : List XV.Str := %s\n" % gen_lean.lSs([x.split(":")[0] for x in fd["outs"]]),
           "def disasmReachable : Nat := %d\n" % fd["reachable"],
           "/-- (file, scope) pairs under xdis/ whose body reads the host interpreter's identity -/\n",
           "def hostSites : List (XV.Str × XV.Str) := [%s]\n" % ", ".join("(%s, %s)" % (gen_lean.lS(a), gen_lean.lS(b)) for a, b, _ in effects.host_sites()),
           "def hostSitesText : List String := %s\n" % gen_lean.lstrs(["%s %s %s" % (a, b, ",".join(c)) for a, b, c in effects.host_sites()]),
           "/-- reviewed list /verif/ref/host_sites.txt -/\n",
           "def hostAllow : List (XV.Str × XV.Str) := [%s]\n" % ", ".join("(%s, %s)" % (gen_lean.lS(a), gen_lean.lS(b)) for a, b, _ in effects.host_allow()),
           "/-- (kind, file, scope, target) of every place where state that outlives a call can be changed (harness/writes.py) -/\n",
           "def writeSites : List (List XV.Str) := [%s]\n" % ", ".join(gen_lean.lSs(r[:4]) for r in writes.scan()),
           "def writeSitesText : List String := %s\n" % gen_lean.lstrs(["%s %s %s %s (line %s)" % tuple(r) for r in writes.scan()]),
           "/-- reviewed list /verif/ref/write_sites.txt -/\n",
           "def writeAllow : List (List XV.Str) := [%s]\n" % ", ".join(gen_lean.lSs(r[:4]) for r in writes.allow()),
           "end XV.Gen\n"]
    gen_lean.write_if_changed(os.path.join(LEAN, "XV", "Gen", "Effects.lean"), "".join(eff))
    p = run([MAIN_HOST, os.path.join(HARNESS, "gen_lean.py"), tj, refs, reg, os.path.join(LEAN, "XV", "Gen")])
    if p.returncode != 0:
        return None, "gen_lean failed: " + p.stdout[-400:]
    log(p.stdout.strip())
    return json.load(open(tj)), None


def lake_build(targets, log, timeout=3000):
    t0 = time.time()
    p = run(["lake", "build"] + targets, cwd=LEAN, timeout=timeout)
    log("lake build %s: rc=%d (%.1fs)" % (" ".join(targets), p.returncode, time.time() - t0))
    return p.returncode == 0, p.stdout


def theorem_names(prop_id):
    """theorems declared in Props/<id>.lean (and Props/<id>/*.lean)"""
    files = []
    f = os.path.join(LEAN, "XV", "Props", prop_id + ".lean")
    if os.path.exists(f):
        files.append(f)
    d = os.path.join(LEAN, "XV", "Props", prop_id)
    if os.path.isdir(d):
        files += sorted(os.path.join(d, x) for x in os.listdir(d) if x.endswith(".lean"))
    names = []
    for f in files:
        src = strip_comments(open(f).read())
        ns = re.search(r"^namespace\s+(\S+)", src, re.M)
        prefix = ns.group(1) + "." if ns else ""
        for m in re.finditer(r"^theorem\s+(\S+)", src, re.M):
            names.append(prefix + m.group(1))
    return names, files


def strip_comments(src):
    src = re.sub(r"/-.*?-/", "", src, flags=re.S)
    src = re.sub(r"--.*", "", src)
    return src


def grep_forbidden():
    bad = []
    for root, _, fs in os.walk(LEAN):
        if ".lake" in root:
            continue
        for f in fs:
            if f.endswith(".lean"):
                src = strip_comments(open(os.path.join(root, f)).read())
                for i, line in enumerate(src.split("\n")):
                    if FORBIDDEN.search(line):
                        bad.append("%s:%d:%s" % (os.path.join(root, f), i + 1, line.strip()[:80]))
    return bad


def audit_axioms(prop_id, log):
    """#print axioms on every Props theorem; returns (n_theorems, n_ok, problems)"""
    names, files = theorem_names(prop_id)
    if not names:
        return 0, 0, ["no theorems found for " + prop_id]
    mods = []
    for f in files:
        rel = os.path.relpath(f, LEAN)[:-5].replace("/", ".")
        mods.append(rel)
    src = "".join("import %s\n" % m for m in mods) + "".join("#print axioms %s\n" % n for n in names)
    af = os.path.join(BUILD, "Audit_%s.lean" % prop_id)
    open(af, "w").write(src)
    p = run(["lake", "env", "lean", af], cwd=LEAN)
    out = p.stdout
    ok = 0
    problems = []
    # outputs: "'X' depends on axioms: [a, b]" or "'X' does not depend on any axioms"
    blocks = re.findall(r"'(\S+)' (does not depend on any axioms|depends on axioms: \[([^\]]*)\])", out, re.S)
    seen = {}
    for name, _, axs in blocks:
        axl = [a.strip() for a in axs.replace("\n", " ").split(",") if a.strip()]
        seen[name] = axl
    for n in names:
        if n not in seen:
            problems.append("no axiom report for " + n)
            continue
        extra = [a for a in seen[n] if a not in ALLOWED_AXIOMS]
        if extra:
            problems.append("%s uses axioms %s" % (n, extra))
        else:
            ok += 1
    if p.returncode != 0 and not problems:
        problems.append("audit file failed: " + out[-300:])
    bad = grep_forbidden()
    problems += ["forbidden token: " + b for b in bad]
    log("audit %s: %d theorems, %d ok, %d problems" % (prop_id, len(names), ok, len(problems)))
    return len(names), ok, problems


class Driver:
    """Batch interface to the compiled xvdriver."""

    def __init__(self):
        self.exe = os.path.join(LEAN, ".lake", "build", "bin", "xvdriver")

    def ask(self, lines, timeout=1200):
        if not lines:
            return []
        data = "\n".join(lines) + "\n"
        p = subprocess.run([self.exe], input=data, stdout=subprocess.PIPE, stderr=subprocess.PIPE,
                           text=True, timeout=timeout)
        out = p.stdout.split("\n")
        if out and out[-1] == "":
            out.pop()
        if len(out) != len(lines):
            raise RuntimeError("driver answered %d lines for %d requests; stderr=%s"
                               % (len(out), len(lines), p.stderr[-500:]))
        return out


class NoDriver:
    """stands in when the model driver does not build (e.g. the regenerated tables no longer
    type-check): every model answer is an error string, so ties are reported as broken while the
    comparison of the implementation with the oracles still runs"""
    unavailable = True

    def ask(self, lines, timeout=0):
        return ["(err model-driver-unavailable)"] * len(lines)


def parse_failures(s):
    """'((kind detail) (kind detail))' -> list of (kind, detail)"""
    return re.findall(r"\((\S+) ([^()]*)\)", s)



def changed_anchor_files(prop_id):
    """anchored files of the property whose AST differs from ref/source_fingerprints.json (the source the
    hand-written Models were last reconciled with); also anything they plainly import is NOT followed"""
    try:
        sys.path.insert(0, os.path.join(VERIF, "tools"))
        import fingerprint
        rec = json.load(open(os.path.join(VERIF, "ref", "source_fingerprints.json")))
        cur = fingerprint.fingerprints(REPO)
    except Exception as e:  # noqa
        return []
    if rec.get("(python)") != cur.get("(python)"):
        return []          # recorded under another Python: the dumps are not comparable, no escalation
    anchors = []
    for line in open(os.path.join(VERIF, "properties.jsonl")):
        d = json.loads(line)
        if d["id"] == prop_id:
            anchors = d["anchors"]["files"]
    out = []
    for k in sorted(set(cur) | set(rec)):
        if cur.get(k) != rec.get(k) and any(k == a or k.startswith(a.rstrip("/") + "/") for a in anchors):
            out.append(k)
    return out

# ------------------------------------------------------------------ findings
def load_findings():
    known, fixed = {}, {}
    path = os.path.join(VERIF, "known_findings.txt")
    if os.path.exists(path):
        for line in open(path):
            line = line.strip()
            if not line or line.startswith("#"):
                continue
            m = re.match(r"^(known|fixed): property=(\S+) key=(\S+)\s*(.*)$", line)
            if m:
                (known if m.group(1) == "known" else fixed).setdefault(m.group(2), {})[m.group(3)] = m.group(4)
    return known, fixed


class Report:
    def __init__(self, prop_id, tier, seed):
        self.id = prop_id
        self.tier = tier
        self.seed = seed
        self.t0 = time.time()
        self.violations = []      # dicts: key, what, replay(dict), found_input(bool)
        self.coverage = {"evaluations": 0, "distinct_nontrivial": 0, "samples": []}
        self.notes = []
        self.assumptions = []
        self.distinct = set()

    def log(self, msg):
        print("[%s %6.1fs] %s" % (self.id, time.time() - self.t0, msg), flush=True)

    def count(self, n=1, distinct_key=None):
        self.coverage["evaluations"] += n
        if distinct_key is not None:
            self.distinct.add(distinct_key)

    def sample(self, s, limit=8):
        if len(self.coverage["samples"]) < limit:
            self.coverage["samples"].append(s)

    def violation(self, key, what, replay=None, found_input=True):
        """key: stable signature of the failing input/call site (matched against
        known_findings.txt)."""
        for v in self.violations:
            if v["key"] == key:
                v["count"] = v.get("count", 1) + 1
                return
        self.violations.append({"key": key, "what": what, "replay": replay or {}, "found_input": found_input})

    def _match(self, v, kn):
        for pat in kn:
            if v["key"] == pat or (pat.endswith("*") and v["key"].startswith(pat[:-1])):
                return pat
        return None

    def unlisted(self):
        known, _ = load_findings()
        kn = known.get(self.id, {})
        return [v for v in self.violations if self._match(v, kn) is None]

    def finish(self, level="proof"):
        known, fixed = load_findings()
        kn = known.get(self.id, {})
        os.makedirs(os.path.join(EVID, "replays"), exist_ok=True)
        rc = 0
        nviol = 0
        seen_known = set()
        for v in self.violations:
            matched = self._match(v, kn)
            if matched is not None:
                if matched not in seen_known:
                    print("KNOWN-FINDING: property=%s %s [%s]" % (self.id, kn[matched] or v["what"], matched))
                    seen_known.add(matched)
                continue
            nviol += 1
            h = hashlib.sha1((self.id + v["key"]).encode()).hexdigest()[:10]
            rp = os.path.join(EVID, "replays", "%s-%s.json" % (self.id, h))
            json.dump({"property": self.id, "key": v["key"], "what": v["what"], "tier": self.tier,
                       "seed": self.seed, "found_failing_input": v["found_input"], "replay": v["replay"],
                       "replay_cmd": "./check %s --replay %s" % (self.id, os.path.relpath(rp, VERIF))},
                      open(rp, "w"), indent=1, default=str)
            tail = "" if v["found_input"] else " no-failing-input-found"
            print("VIOLATION property=%s replay=%s%s" % (self.id, os.path.relpath(rp, VERIF), tail))
            print("  what: %s" % v["what"][:600])
            rc = 1
        cov = self.coverage
        cov["distinct_nontrivial"] = len(self.distinct)
        ev = {"property_id": self.id, "tier": self.tier, "seed": self.seed, "level": level,
              "coverage": cov, "assumptions": self.assumptions, "wall_s": round(time.time() - self.t0, 2),
              "violations": nviol, "notes": self.notes,
              "known_findings_reported": sorted(seen_known)}
        os.makedirs(EVID, exist_ok=True)
        json.dump(ev, open(os.path.join(EVID, self.id + ".json"), "w"), indent=1, default=str)
        self.log("done: evaluations=%d distinct=%d violations=%d rc=%d" % (
            cov["evaluations"], cov["distinct_nontrivial"], nviol, rc))
        return rc

"""C05 — line-number mapping.  Theorems: lean/XV/Props/C05.lean."""
import json
import random

import core
import progrun
import gen_lines
from worker import Worker, Oracle

RULE = ("line tables generated from the format grammar (every delta magnitude/sign, 255 splits, zero increments, "
        "no-line ranges, empty tables) x bytecode versions; each case evaluated on implementation, Lean Model, Lean "
        "Spec and the matching CPython; distinct = distinct (version, table bytes, first line)")

LNOTAB_VERSIONS = [(1, 5), (2, 4), (2, 7), (3, 3), (3, 5), (3, 6), (3, 7), (3, 8), (3, 9)]


def fmt_starts(st):
    return ",".join("%d:%s" % (o, "N" if l is None else l) for o, l in st) if st else "-"


def spec_op(v, first, clen, tab):
    h = tab.hex() or "-"
    if v < (3, 6):
        return "py.starts27 %d %s" % (first, h)
    if v < (3, 8):
        return "py.starts36 %d %s" % (first, h)
    return "py.starts38 %d %d %s" % (first, clen, h)


def known_key_lnotab(v, tab, clen, total):
    """signature of the two recorded lnotab findings; None if the input is outside both"""
    deltas = list(tab[1::2][:len(tab) // 2])
    if v < (3, 6) and any(d >= 128 for d in deltas):
        return "lnotab-pre36-delta-ge128-read-as-signed"
    return None


def run(ctx):
    rep, drv = ctx.rep, ctx.driver
    rng = random.Random(ctx.seed)
    w = Worker()
    oracles = {}

    def oracle(v):
        if v not in core.ORACLES:
            return None
        if v not in oracles:
            oracles[v] = Oracle(v)
        return oracles[v]
    progrun.apply(ctx, "diff_lines", "line starts")
    try:
        N = 60 if not ctx.thorough else 1500
        # ------------------------------------------------ lnotab eras
        cases = []
        for v in LNOTAB_VERSIONS:
            fixed = [(1, b"", 10), (7, bytes([6, 1, 8, 2]), 40), (1, bytes([0, 5, 4, 1]), 20), (1, bytes([4, 0, 4, 1]), 20),
                     (300, bytes([2, 0x80, 2, 0x7f, 2, 0xff]), 20), (1, bytes([255, 0, 45, 1]), 400), (1, bytes([10, 255, 0, 45]), 40),
                     (5, bytes([6, 1, 6, 1]), 12), (5, bytes([6, 1, 6, 1]), 13), (5, bytes([6, 1, 6, 1, 4, 1]), 12)]
            for first, tab, clen in fixed:
                if v >= (3, 6):
                    clen += clen % 2
                cases.append((v, first, tab, clen, sum(tab[0::2][:len(tab) // 2])))
            for _ in range(N):
                tab, total = gen_lines.lnotab(rng, signed=True)
                first = rng.choice([1, 1, 2, 100, 70000])
                k = rng.randrange(6)
                clen = total + rng.choice([1, 2, 10]) if k else max(0, total - rng.choice([0, 1, 5]))
                if v >= (3, 6):
                    clen += clen % 2         # word code: the code length is even
                cases.append((v, first, tab, clen, total))
        lines = []
        for v, first, tab, clen, total in cases:
            sg = 1 if v >= (3, 6) else 0     # which finder the table binds is checked by C05_binding
            lines.append("x.linestarts %d 0 %d %d %s" % (sg, first, clen, tab.hex() or "-"))
            lines.append("x.linestarts %d 1 %d %d %s" % (sg, first, clen, tab.hex() or "-"))
            lines.append(spec_op(v, first, clen, tab))
        outs = drv.ask(lines)
        for i, (v, first, tab, clen, total) in enumerate(cases):
            m0, m1, sp = outs[3 * i], outs[3 * i + 1], outs[3 * i + 2]
            wf = total < clen          # every start offset lies inside the code
            r0 = w.r("linestarts", version=list(v), first=first, code_len=clen, tab=tab.hex(), dup=False)
            r1 = w.r("linestarts", version=list(v), first=first, code_len=clen, tab=tab.hex(), dup=True)
            i0 = fmt_starts(r0["starts"]) if "starts" in r0 else "(err %s)" % r0.get("err")
            i1 = fmt_starts(r1["starts"]) if "starts" in r1 else "(err %s)" % r1.get("err")
            rep.count(1, (v, tab, first, clen >= total))
            inp = {"version": list(v), "first": first, "code_len": clen, "lnotab": tab.hex()}
            tie_ok = True
            if i0 != m0 or i1 != m1:
                tie_ok = False
            o = oracle(v)
            truth, src = sp, "Spec (no interpreter for %d.%d)" % v
            if o is not None and wf:
                ot = fmt_starts(o.r("linestarts", first=first, code_len=clen, tab=tab.hex()))
                if ot != sp:
                    rep.notes.append("spec_drift lnotab %s: spec %s oracle %s" % (inp, sp, ot))
                truth, src = ot, "CPython %d.%d dis.findlinestarts" % v
            if wf and i0 != truth:
                kk = known_key_lnotab(v, tab, clen, total)
                key = kk if (kk and tie_ok) else "linestarts:%d.%d:%s:%d" % (v[0], v[1], tab.hex(), first)
                rep.violation(key, "findlinestarts differs from %s on %s: xdis %s, expected %s" % (src, inp, i0, truth),
                              dict(inp, call="opc.findlinestarts(code, dup_lines=False)", actual=i0, expected=truth, oracle=src))
            elif not tie_ok:
                rep.violation("corr:linestarts:%d.%d:%s:%d:%d" % (v[0], v[1], tab.hex(), first, clen),
                              "Model of cross_dis.findlinestarts disagrees with the implementation on %s: impl %s / %s, model %s / %s"
                              % (inp, i0, i1, m0, m1), dict(inp, impl=[i0, i1], model=[m0, m1]), found_input=False)
            if i < 3:
                rep.sample(dict(inp, xdis=i0, model=m0, expected=truth))
        # ------------------------------------------------ starts_line of the instruction stream
        for v in [(2, 7), (3, 6), (3, 8), (3, 9), (3, 10), (3, 11), (3, 12), (3, 13)]:
            o = oracle(v)
            for _ in range(max(6, N // 6)):
                first = rng.choice([1, 3, 500])
                if v < (3, 10):
                    tab, total = gen_lines.lnotab(rng, signed=v >= (3, 6), allow_big=v >= (3, 6))
                    if v < (3, 6):
                        # unsigned era: keep to the region the main stream covers separately
                        tab = bytes(b if j % 2 == 0 or b < 128 else b - 128 for j, b in enumerate(tab))
                    if v < (3, 6) and total % 1:
                        continue
                    # word code needs even offsets for instruction starts
                    if v >= (3, 6):
                        tab = bytes((b & ~1) if j % 2 == 0 else b for j, b in enumerate(tab))
                        total = sum(tab[0::2][:len(tab) // 2])
                    clen = total + 2
                elif v == (3, 10):
                    tab, total = gen_lines.table310(rng)
                    tab = bytes((b & ~1) if j % 2 == 0 else b for j, b in enumerate(tab))   # instruction-aligned ranges
                    if tab[-2] == 0:
                        tab = tab[:-2] + bytes([2, tab[-1]])
                    total = sum(tab[0::2])
                    clen = total
                    first = 5000
                else:
                    es, units = gen_lines.loc_entries(rng)
                    tab = bytes.fromhex(drv.ask(["py.encloc " + es])[0].replace("-", ""))
                    clen = units * 2
                    first = 20000
                if clen == 0:
                    continue
                r = w.r("instr_starts", version=list(v), first=first, code_len=clen, tab=tab.hex())
                got = fmt_starts(r["starts"]) if "starts" in r else "(err %s)" % r.get("err")
                r2 = w.r("linestarts", version=list(v), first=first, code_len=clen, tab=tab.hex(), dup=False)
                fl = fmt_starts(r2["starts"]) if "starts" in r2 else "(err %s)" % r2.get("err")
                ot = fmt_starts([p for p in o.r("linestarts", first=first, code_len=clen, tab=tab.hex()) if p[1] is not None or v >= (3, 13)])
                rep.count(1, ("starts_line", v, tab))
                inp = {"version": list(v), "first": first, "code_len": clen, "table": tab.hex()}
                if v >= (3, 13):
                    # xdis's Instruction carries starts_line=None for "no line"; compare the lines that exist
                    ot_cmp = ",".join(x for x in ot.split(",") if not x.endswith(":N")) or "-"
                    fl_cmp = ",".join(x for x in fl.split(",") if not x.endswith(":N")) or "-"
                else:
                    ot_cmp, fl_cmp = ot, fl
                if fl_cmp != ot_cmp and v >= (3, 10):
                    rep.violation("linestarts:%d.%d:%s:%d" % (v[0], v[1], tab.hex(), first),
                                  "findlinestarts differs from CPython %d.%d on %s: xdis %s, CPython %s" % (v[0], v[1], inp, fl, ot),
                                  dict(inp, actual=fl, expected=ot))
                if got != ot_cmp:
                    # is the difference exactly the recorded dup_lines default?
                    r3 = w.r("instr_starts", version=list(v), first=first, code_len=clen, tab=tab.hex(), dup=False)
                    got3 = fmt_starts(r3["starts"]) if "starts" in r3 else "(err)"
                    key = "starts_line-dup_lines-default" if got3 == ot_cmp and v < (3, 10) else \
                        "starts_line:%d.%d:%s:%d" % (v[0], v[1], tab.hex(), first)
                    rep.violation(key, "starts_line of Bytecode(code, opc) differs from CPython %d.%d dis.findlinestarts on %s: xdis %s, CPython %s"
                                  % (v[0], v[1], inp, got, ot_cmp), dict(inp, call="Bytecode(code, opc)", actual=got, expected=ot_cmp))
        # ------------------------------------------------ 3.10 range table
        cases = [(1, bytes([4, 1, 8, 0, 6, 0xff]))]
        for _ in range(N * 2):
            tab, total = gen_lines.table310(rng)
            cases.append((rng.choice([5000, 6000]), tab))
        outs = drv.ask(sum([["x.colines310 %d %s" % (f, t.hex()), "py.colines310 %d %s" % (f, t.hex()),
                             "x.starts310 %d %s" % (f, t.hex())] for f, t in cases], []))
        o = oracle((3, 10))
        for i, (first, tab) in enumerate(cases):
            mo, sp, ms = outs[3 * i:3 * i + 3]
            r = w.r("co_lines", version=[3, 10], first=first, tab=tab.hex())
            im = ",".join("%d:%d:%s" % (a, b, "N" if c is None else c) for a, b, c in r["ranges"]) or "-" if "ranges" in r else "(err %s)" % r["err"]
            total = sum(tab[0::2])
            ot = ",".join("%d:%d:%s" % (a, b, "N" if c is None else c) for a, b, c in o.r("co_lines", first=first, code_len=total, tab=tab.hex())) or "-"
            rep.count(1, ((3, 10), tab, first))
            inp = {"version": [3, 10], "first": first, "linetable": tab.hex()}
            if sp != ot:
                rep.notes.append("spec_drift 3.10: %s spec %s oracle %s" % (inp, sp, ot))
            if im != ot:
                rep.violation("colines310:%s:%d" % (tab.hex(), first), "Code310.co_lines differs from CPython 3.10 on %s: xdis %s CPython %s" % (inp, im, ot),
                              dict(inp, actual=im, expected=ot))
            elif im != mo:
                rep.violation("corr:colines310:%s:%d" % (tab.hex(), first), "Model of Code310.co_lines disagrees with implementation on %s: impl %s model %s" % (inp, im, mo),
                              dict(inp, impl=im, model=mo), found_input=False)
            r2 = w.r("linestarts", version=[3, 10], first=first, code_len=total, tab=tab.hex())
            fl = fmt_starts(r2["starts"]) if "starts" in r2 else "(err)"
            if fl != ms:
                rep.violation("corr:starts310:%s:%d" % (tab.hex(), first), "Model of findlinestarts (co_lines branch) disagrees with implementation on %s: impl %s model %s" % (inp, fl, ms),
                              dict(inp, impl=fl, model=ms), found_input=False)
        rep.sample({"version": [3, 10], "first": cases[1][0], "linetable": cases[1][1].hex(), "co_lines": outs[3]})
        # ------------------------------------------------ 3.11+ location table (line view; C17 covers positions)
        ecs = [gen_lines.loc_entries(rng) for _ in range(N * 2)]
        enc = drv.ask(["py.encloc " + es for es, _ in ecs])
        first = 20000
        outs = drv.ask(sum([["x.colines311 %d %s" % (first, h), "x.starts311 %d %s" % (first, h), "x.starts313 %d %s" % (first, h),
                             "py.unitlines %d %s" % (first, es)] for (es, _), h in zip(ecs, enc)], []))
        for i, ((es, units), h) in enumerate(zip(ecs, enc)):
            mo, ms, ms13, ul = outs[4 * i:4 * i + 4]
            for v in [(3, 11), (3, 12), (3, 13)]:
                o = oracle(v)
                r = w.r("co_lines", version=list(v), first=first, tab=h)
                if "ranges" not in r:
                    im, imu = "(err %s)" % r["err"], None
                else:
                    im = ",".join("%d:%d:%s" % (a, b, "N" if c is None else c) for a, b, c in r["ranges"]) or "-"
                    imu = sum([[c] * ((b - a) // 2) for a, b, c in r["ranges"]], [])
                oru = sum([[c] * ((b - a) // 2) for a, b, c in o.r("co_lines", first=first, code_len=units * 2, tab=h)], [])
                spu = [None if x == "N" else int(x) for x in ul.split(",")]
                rep.count(1, (v, h))
                inp = {"version": list(v), "first": first, "linetable": h, "entries": es}
                if spu != oru:
                    rep.notes.append("spec_drift 3.11 lines %s" % inp)
                if imu != oru:
                    rep.violation("colines311:%d.%d:%s" % (v[0], v[1], h), "line of each code unit differs from CPython %d.%d co_lines() on %s: xdis %s CPython %s"
                                  % (v[0], v[1], inp, imu, oru), dict(inp, actual=imu, expected=oru))
                elif im != mo:
                    rep.violation("corr:colines311:%s" % h, "Model of parse_linetable disagrees with implementation on %s: impl %s model %s" % (inp, im, mo),
                                  dict(inp, impl=im, model=mo), found_input=False)
                r2 = w.r("linestarts", version=list(v), first=first, code_len=units * 2, tab=h)
                fl = ",".join("%d:%s" % (a, "N" if b is None else b) for a, b in r2["starts"]) or "-" if "starts" in r2 else "(err)"
                ot = ",".join("%d:%s" % (a, "N" if b is None else b) for a, b in o.r("linestarts", first=first, code_len=units * 2, tab=h)) or "-"
                want_model = ms13 if v == (3, 13) else ms
                if fl != ot:
                    rep.violation("linestarts:%d.%d:%s" % (v[0], v[1], h), "findlinestarts differs from CPython %d.%d on %s: xdis %s CPython %s"
                                  % (v[0], v[1], inp, fl, ot), dict(inp, actual=fl, expected=ot))
                elif fl != want_model:
                    rep.violation("corr:starts311:%d.%d:%s" % (v[0], v[1], h), "Model of findlinestarts over co_lines disagrees with implementation on %s: impl %s model %s"
                                  % (inp, fl, want_model), dict(inp, impl=fl, model=want_model), found_input=False)
        rep.sample({"version": [3, 11], "entries": ecs[0][0], "linetable": enc[0], "co_lines": outs[0]})
        # ------------------------------------------------ the same object after it was moved to another first line
        # (line tables hold deltas: replace(co_firstlineno=...) or assignment shifts every line; a table decoded
        # before the move must not be served afterwards)
        reloc = []
        for v in [(2, 7), (3, 6), (3, 8), (3, 9)]:
            for _ in range(3):
                tab, total = gen_lines.lnotab(rng, signed=v >= (3, 6))
                if v < (3, 6):
                    tab = bytes(b if j % 2 == 0 or b < 128 else b - 128 for j, b in enumerate(tab))
                reloc.append((v, tab, total + 2 + (total % 2)))
        for _ in range(4):
            tab, total = gen_lines.table310(rng)
            reloc.append(((3, 10), tab, total))
        for (es, units), h in list(zip(ecs, enc))[:6]:
            for v in [(3, 11), (3, 12), (3, 13)]:
                reloc.append((v, bytes.fromhex(h.replace("-", "")), units * 2))
        for v, tab, clen in reloc:
            r = w.r("linestarts_relocate", version=list(v), first=300, delta=1000, code_len=clen, tab=tab.hex())
            rep.count(1, ("relocate", v, tab))
            inp = {"version": list(v), "first": 300, "moved_to": 1300, "code_len": clen, "table": tab.hex()}
            if "fresh" not in r:
                rep.violation("relocate:%d.%d:%s" % (v[0], v[1], tab.hex()), "moving a portable code object failed on %s: %s" % (inp, r), inp)
                continue
            for how in ("replace", "assign"):
                if r[how] != r["fresh"]:
                    rep.violation("relocate:%d.%d:%s:%s" % (v[0], v[1], how, tab.hex()),
                                  "findlinestarts after %s differs from a fresh object at the new first line on %s: %s vs %s"
                                  % ("code.replace(co_firstlineno=1300)" if how == "replace" else "code.co_firstlineno = 1300", inp, fmt_starts(r[how])[:200], fmt_starts(r["fresh"])[:200]),
                                  dict(inp, call="findlinestarts(co); co2 = co.%s; findlinestarts(co2)" % how, actual=r[how], expected=r["fresh"]))
                    break
            if r["original_after_replace"] != r["before"]:
                rep.violation("relocate:%d.%d:original:%s" % (v[0], v[1], tab.hex()), "replace() changed the lines of the ORIGINAL object on %s" % inp,
                              dict(inp, before=r["before"], after=r["original_after_replace"]))
        # ------------------------------------------------ offset2line
        qs = []
        for _ in range(N * 3):
            n = rng.randrange(0, 9)
            offs = sorted(rng.sample(range(0, 60), n))
            st = [(o_, rng.randrange(1, 50)) for o_ in offs]
            q = rng.randrange(0, 70)
            qs.append((q, st))
        outs = drv.ask(["x.offset2line %d %s" % (q, ",".join("%d:%d" % p for p in st) or "-") for q, st in qs])
        for (q, st), mo in zip(qs, outs):
            im = w.r("offset2line", offset=q, starts=[list(p) for p in st])
            want = 0
            for o_, l in st:
                if o_ <= q:
                    want = l
            rep.count(1, ("o2l", q, tuple(st)))
            if im != want:
                rep.violation("offset2line:%d:%s" % (q, st), "offset2line(%d, %s) = %r, the line of the greatest start <= offset is %d" % (q, st, im, want),
                              {"offset": q, "linestarts": st, "actual": im, "expected": want})
            elif str(im) != mo:
                rep.violation("corr:offset2line:%d:%s" % (q, st), "Model of offset2line disagrees: impl %r model %s" % (im, mo), {"offset": q, "linestarts": st}, found_input=False)
        rep.sample({"offset2line": qs[0][0], "linestarts": qs[0][1], "result": outs[0]})
    finally:
        w.close()
        for o in oracles.values():
            o.close()


def replay(ctx, rp):
    print(json.dumps(rp.get("replay"), indent=1)[:1500])
    r = rp.get("replay", {})
    w = Worker()
    try:
        if "lnotab" in r:
            got = w.r("linestarts", version=r["version"], first=r["first"], code_len=r["code_len"], tab=r["lnotab"], dup=False)
            print("now:", got, "expected:", r.get("expected"))
            if fmt_starts(got.get("starts", [])) != r.get("expected"):
                ctx.rep.violation(rp["key"], rp["what"], r)
    finally:
        w.close()

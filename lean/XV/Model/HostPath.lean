/-
Model of the loader-path switch in `load_module_from_file_object` (xdis/load.py):
once the header is read, the payload goes to the host's built-in `marshal.loads` when the
file's magic equals the host's (`my_magic_int == magic_int`), otherwise to xdis's own
unmarshaller.  The host's marshal and the consumers of a native code object are parameters:
they are CPython, not xdis.
-/
import XV.Base.Bytes
namespace XV.Model.HostPath
open XV

structure Host (N : Type) where
  /-- PYTHON_MAGIC_INT of the running interpreter -/
  magic : Nat
  /-- the built-in marshal.loads -/
  marshalLoads : Bytes → Option N

inductive Loaded (N P : Type) where
  | native (c : N)
  | portable (c : P)

/-- `if my_magic_int == magic_int: co = marshal.loads(...) else: co = xdis.unmarshal.load_code(...)` -/
def loadCode {N P : Type} (host : Host N) (unmarshal : Nat → Bytes → Option P) (fileMagic : Nat) (data : Bytes) :
    Option (Loaded N P) :=
  if host.magic == fileMagic then (host.marshalLoads data).map .native
  else (unmarshal fileMagic data).map .portable

/-- what a consumer (Bytecode, findlinestarts, the listing) reads off either kind of code object -/
def observe {N P O : Type} (obsN : N → O) (obsP : P → O) : Loaded N P → O
  | .native c => obsN c
  | .portable c => obsP c

end XV.Model.HostPath

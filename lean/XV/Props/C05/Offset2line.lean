/-
C05 — `bytecode.offset2line`: over a mapping whose start offsets increase, the binary search
returns the line of the greatest start offset <= the queried offset (0 when there is none),
for every mapping length and every offset.
-/
import XV.Model.Lines
namespace XV.Props.C05.Offset2line
open XV XV.Model.Lines
set_option linter.unusedVariables false

/-- start offsets strictly increase along the list -/
def Increasing (ls : Array (Nat × Int)) : Prop :=
  ∀ i j : Nat, i < j → j < ls.size → (ls.getD i (0, 0)).1 < (ls.getD j (0, 0)).1

/-- what the loop has established: everything left of `low` starts before `off`, everything
    right of `high` starts after it -/
structure LoopInv (ls : Array (Nat × Int)) (off : Nat) (low high : Int) : Prop where
  low0 : 0 ≤ low
  highn : high < ls.size
  lowhigh : low ≤ high + 1
  left : ∀ i : Nat, (i : Int) < low → (ls.getD i (0, 0)).1 < off
  right : ∀ i : Nat, high < (i : Int) → i < ls.size → off < (ls.getD i (0, 0)).1

/-- result of the loop: either an exact hit, or the boundary `high` with `mid = high + 1` -/
theorem loop_spec (ls : Array (Nat × Int)) (off : Nat) (hinc : Increasing ls) :
    ∀ (fuel : Nat) (low high : Int), LoopInv ls off low high → (high - low + 2).toNat ≤ fuel →
      (∃ m : Nat, m < ls.size ∧ (ls.getD m (0, 0)).1 = off ∧
          (o2lLoop ls off fuel low high ((low + high + 1) / 2)).1 = some (ls.getD m (0, 0)).2) ∨
      (∃ h : Int, o2lLoop ls off fuel low high ((low + high + 1) / 2) = (none, h, h + 1) ∧
          LoopInv ls off (h + 1) h) := by
  intro fuel
  induction fuel with
  | zero =>
    intro low high inv hf
    have := inv.lowhigh
    omega
  | succ fuel ih =>
    intro low high inv hf
    unfold o2lLoop
    by_cases hlh : low ≤ high
    · simp only [hlh, if_true]
      have hmid1 : low ≤ (low + high + 1) / 2 := by omega
      have hmid2 : (low + high + 1) / 2 ≤ high := by omega
      have hm0 : 0 ≤ (low + high + 1) / 2 := by have := inv.low0; omega
      generalize hmid : (low + high + 1) / 2 = mid at *
      have hmn : mid.toNat < ls.size := by have := inv.highn; omega
      have hcast : ((mid.toNat : Nat) : Int) = mid := by omega
      by_cases hgt : (ls.getD mid.toNat (0, 0)).1 > off
      · simp only [hgt, if_true]
        have inv' : LoopInv ls off low (mid - 1) := by
          refine ⟨inv.low0, by have := inv.highn; omega, by omega, inv.left, ?_⟩
          intro i hi hin
          by_cases hie : i = mid.toNat
          · subst hie; exact hgt
          · have : mid.toNat < i := by omega
            exact Nat.lt_trans hgt (hinc _ _ this hin)
        exact ih low (mid - 1) inv' (by omega)
      · simp only [hgt, if_false]
        by_cases hlt : (ls.getD mid.toNat (0, 0)).1 < off
        · simp only [hlt, if_true]
          have inv' : LoopInv ls off (mid + 1) high := by
            refine ⟨by omega, inv.highn, by omega, ?_, inv.right⟩
            intro i hi
            by_cases hie : i = mid.toNat
            · subst hie; exact hlt
            · have : i < mid.toNat := by omega
              exact Nat.lt_trans (hinc _ _ this hmn) hlt
          exact ih (mid + 1) high inv' (by omega)
        · simp only [hlt, if_false]
          exact Or.inl ⟨mid.toNat, hmn, by omega, rfl⟩
    · simp only [hlh, if_false]
      refine Or.inr ⟨high, ?_, ?_⟩
      · have : (low + high + 1) / 2 = high + 1 := by have := inv.lowhigh; omega
        rw [this]
      · have : low = high + 1 := by have := inv.lowhigh; omega
        subst this
        exact inv

/-- C05_offset2line: the line of the greatest start offset ≤ `off`; 0 when the mapping is empty
    or `off` precedes every start -/
theorem C05_offset2line (lst : List (Nat × Int)) (off : Nat) (hinc : Increasing lst.toArray) :
    ((lst = [] ∨ off < (lst.toArray.getD 0 (0, 0)).1) → offset2line off lst = 0) ∧
    (∀ i : Nat, i < lst.length → (lst.toArray.getD i (0, 0)).1 ≤ off →
        (∀ j : Nat, i < j → j < lst.length → off < (lst.toArray.getD j (0, 0)).1) →
        offset2line off lst = (lst.toArray.getD i (0, 0)).2) := by
  constructor
  · intro h
    unfold offset2line
    simp only []
    rcases h with h | h
    · subst h; simp
    · rw [if_pos (Or.inr h)]
  · intro i hi hle hgt
    unfold offset2line
    simp only []
    have hsz : lst.toArray.size = lst.length := by simp
    have hne : ¬ lst.toArray.size = 0 := by omega
    have h0 : ¬ off < (lst.toArray.getD 0 (0, 0)).1 := by
      by_cases hi0 : i = 0
      · subst hi0; omega
      · have := hinc 0 i (by omega) (by omega); omega
    simp only [hne, h0, or_self, if_false]
    -- `i` is the unique index the search must land on
    have uniq : ∀ m : Nat, m < lst.toArray.size → (lst.toArray.getD m (0, 0)).1 ≤ off →
        (∀ j : Nat, m < j → j < lst.toArray.size → off < (lst.toArray.getD j (0, 0)).1) → m = i := by
      intro m hm hmle hmgt
      rcases Nat.lt_trichotomy m i with h | h | h
      · have := hmgt i h (by omega); omega
      · exact h
      · have := hgt m h (by omega); omega
    have inv0 : LoopInv lst.toArray off 0 ((lst.toArray.size : Int) - 1) :=
      ⟨by omega, by omega, by omega, fun k hk => by omega, fun k hk hkn => by omega⟩
    have hl := loop_spec lst.toArray off hinc (lst.toArray.size + 2) 0 ((lst.toArray.size : Int) - 1) inv0 (by omega)
    rcases hl with ⟨m, hm, hkey, hres⟩ | ⟨h, hres, inv⟩
    · have hmi : m = i := uniq m hm (by omega) (fun j hj hjn => by
        have := hinc m j hj hjn; omega)
      subst hmi
      revert hres
      generalize o2lLoop lst.toArray off (lst.toArray.size + 2) 0 ((lst.toArray.size : Int) - 1)
        ((0 + ((lst.toArray.size : Int) - 1) + 1) / 2) = r
      intro hres
      obtain ⟨r1, r2, r3⟩ := r
      simp only at hres
      subst hres
      rfl
    · rw [hres]
      simp only []
      -- the boundary: index h is the greatest start ≤ off
      have hh0 : 0 ≤ h := by
        by_cases hneg : h < 0
        · have := inv.right 0 (by omega) (by omega); omega
        · omega
      have hhn := inv.highn
      have hhi : h.toNat = i := uniq h.toNat (by omega)
        (by have := inv.left h.toNat (by omega); omega)
        (fun j hj hjn => inv.right j (by omega) hjn)
      by_cases hm : h + 1 ≥ (lst.toArray.size : Int)
      · simp only [hm, if_true]
        have : lst.toArray.size - 1 = i := by omega
        rw [this]
      · simp only [hm, if_false]
        rw [hhi]

/-- non-vacuity: a real mapping meets the hypothesis, and the theorem's answer is the computed one -/
example : Increasing #[(0, 1), (4, 7), (10, 3)] ∧ offset2line 9 [(0, 1), (4, 7), (10, 3)] = 7 ∧
    offset2line 10 [(0, 1), (4, 7), (10, 3)] = 3 ∧ offset2line 100 [(0, 1), (4, 7), (10, 3)] = 3 := by
  refine ⟨?_, by decide, by decide, by decide⟩
  intro i j hij hj
  have key : ∀ j, j < 3 → ∀ i, i < j →
      ((#[(0, 1), (4, 7), (10, 3)] : Array (Nat × Int)).getD i (0, 0)).1 <
      ((#[(0, 1), (4, 7), (10, 3)] : Array (Nat × Int)).getD j (0, 0)).1 := by decide
  exact key j hj i hij

end XV.Props.C05.Offset2line

/-
C01 — whole-payload theorem, a corollary of the unmarshaller simulation (Props/C10/Sim.lean).
-/
import XV.Props.C10.Sim
namespace XV.Props.C01.Main
open XV XV.Model.Unmarshal XV.Spec.Marshal XV.Props.C10.Sim
set_option maxHeartbeats 2000000
set_option linter.unusedSimpArgs false
set_option linter.unusedVariables false

/-- C01_main — whole payload of a bytecode file (a code object): if marshal.c (with the
    well-formedness guards on) loads `data` to `pv` leaving `rest` unread, then xdis's `load_code`
    returns `pv` as xdis reads it and leaves exactly the same `rest` — every field of every nested
    code object, every constant by kind and value, no byte more and no byte less. -/
theorem C01_main (magic : Nat) (ver : List Nat) (limit : Nat) (data : Bytes) (pv : V) (rest : Bytes)
    (hbytes : AllBytes data) (hlimit : 2000 ≤ limit)
    (hm : magic ≠ 3400 ∧ magic ≠ 3401 ∧ magic ≠ 3410 ∧ magic ≠ 3411)
    (hcode : ∃ b tl, data = b :: tl ∧ b &&& 127 = 99)
    (h : loadsStrict ver data = .ok (pv, rest)) :
    loadCode magic ver false limit data =
      .ok (portV { magic := magic, version := ver, marshalVersion := marshalVersionOf ver magic,
                   isGraal := false, depthLimit := limit } true pv, rest) := by
  let c : Cfg := { magic := magic, version := ver, marshalVersion := marshalVersionOf ver magic,
                   isGraal := false, depthLimit := limit }
  let sc : SCfg := { strict := true, maxDepth := 2000 }
  have hc : CfgOK c sc := ⟨rfl, hlimit, hm.1, hm.2.1, hm.2.2.1, hm.2.2.2, rfl⟩
  unfold loadsStrict loadsWith at h
  obtain ⟨b, tl, hdata, hb⟩ := hcode
  cases hrun : (obj sc (era ver) ver (2 * data.length + 4) 0 false).run { inp := data, refs := [], strs := [] } with
  | error er => simp only [sc] at hrun; rw [hrun] at h; cases h
  | ok r =>
    obtain ⟨v, s1⟩ := r
    simp only [sc] at hrun
    rw [hrun] at h
    simp only [Except.ok.injEq, Prod.mk.injEq] at h
    obtain ⟨rfl, rfl⟩ := h
    have hI : Inv (era ver) { inp := data, refs := [], strs := [] } { inp := data, refs := [], strs := [] } :=
      ⟨rfl, ⟨rfl, fun i v h => by simp at h⟩, fun _ => ⟨rfl, fun v hv => by simp at hv⟩, hbytes⟩
    have hctx : Ctx c true false := ctx_code c
    have hsim := (sim_all c sc hc (era ver) rfl (2 * data.length + 3)).1 (2 * data.length + 4) 1 0 true false
      (by omega) (by omega) hctx
    -- unfold the Spec's top-level `obj`
    have hobj : obj sc (era ver) ver (2 * data.length + 4) 0 false =
        (do let x ← rObj sc (era ver) ver (2 * data.length + 3) (0 + 1) false
            match x with
            | some v => pure v
            | none => throw PErr.badData) := by
      unfold obj; rfl
    rw [hobj, P_run_bind] at hrun
    cases hk : (rObj sc (era ver) ver (2 * data.length + 3) (0 + 1) false).run { inp := data, refs := [], strs := [] } with
    | error er => rw [hk] at hrun; cases hrun
    | ok r =>
      obtain ⟨k, s2⟩ := r
      rw [hk] at hrun
      obtain ⟨w, sm', hm', hR, hI'⟩ := hsim _ _ k s2 hI hk
      cases k with
      | none =>
        simp [StateT.run, throw, throwThe, MonadExceptOf.throw, StateT.lift, Except.bind, bind, liftM, monadLift,
          MonadLift.monadLift] at hrun
      | some pv =>
        simp [StateT.run, pure, StateT.pure, Except.pure] at hrun
        obtain ⟨rfl, rfl⟩ := hrun
        simp only [RO] at hR
        subst hR
        unfold loadCode
        have hany := rObject_code_any c (2 * data.length + 3) 0 false { inp := data, refs := [], strs := [] } b tl hdata hb
        simp only [c] at hany hm'
        simp only []
        rw [show (2 * data.length + 4) = 2 * data.length + 3 + 1 from rfl, hany, hm']
        simp only [hI'.1]

/-! non-vacuity: the hypotheses are met by what the compilers write (kernel-evaluated on the real
    Spec): `marshal.dumps(compile('x=(1,b"ab","s")','f','exec'))` of CPython 3.8.18 and
    `marshal.dumps(compile('x=(1,"ab")','f','exec'))` of CPython 2.7.18 (interned 't' strings and
    an 'R' back-reference) load under the strict guards with nothing left over -/
def sample38 : Bytes :=
  [99, 0, 0, 0, 0, 0, 0, 0, 0, 0, 0, 0, 0, 0, 0, 0, 0, 1, 0, 0, 0, 64, 0, 0, 0, 115, 8, 0, 0, 0, 100, 0, 90, 0, 100, 1,
   83, 0, 41, 2, 41, 3, 233, 1, 0, 0, 0, 115, 2, 0, 0, 0, 97, 98, 218, 1, 115, 78, 41, 1, 218, 1, 120, 169, 0, 114, 3,
   0, 0, 0, 114, 3, 0, 0, 0, 218, 1, 102, 218, 8, 60, 109, 111, 100, 117, 108, 101, 62, 1, 0, 0, 0, 243, 0, 0, 0, 0]
def sample27 : Bytes :=
  [99, 0, 0, 0, 0, 0, 0, 0, 0, 2, 0, 0, 0, 64, 0, 0, 0, 115, 10, 0, 0, 0, 100, 3, 0, 90, 0, 0, 100, 2, 0, 83, 40, 4, 0,
   0, 0, 105, 1, 0, 0, 0, 116, 2, 0, 0, 0, 97, 98, 78, 40, 2, 0, 0, 0, 105, 1, 0, 0, 0, 82, 0, 0, 0, 0, 40, 1, 0, 0, 0,
   116, 1, 0, 0, 0, 120, 40, 0, 0, 0, 0, 40, 0, 0, 0, 0, 40, 0, 0, 0, 0, 116, 1, 0, 0, 0, 102, 116, 8, 0, 0, 0, 60, 109,
   111, 100, 117, 108, 101, 62, 1, 0, 0, 0, 116, 0, 0, 0, 0]

example : (loadsStrict [3, 8] sample38).toOption.map (·.2) = some [] ∧ AllBytes sample38 ∧
    (loadsStrict [2, 7] sample27).toOption.map (·.2) = some [] ∧ AllBytes sample27 := by decide +kernel

/-- and on the same inputs the Model indeed returns the ported value with nothing left over -/
example : (loadCode 3413 [3, 8] false 2000 sample38).toOption.map (·.2) = some [] ∧
    (loadCode 62211 [2, 7] false 2000 sample27).toOption.map (·.2) = some [] := by decide +kernel

end XV.Props.C01.Main

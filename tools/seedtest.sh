#!/bin/bash
# tools/seedtest.sh <seed-dir-name> <property> [tier]   apply a seeded change to /repo, run the check, undo.
set -u
seed=$1; prop=$2; tier=${3:-quick}
cd /repo || exit 2
if ! git diff --quiet; then echo "/repo not clean"; exit 2; fi
if ! git apply /verif/seeded/$seed/patch.diff 2>/dev/null; then
  git apply --3way /verif/seeded/$seed/patch.diff || { echo "patch does not apply"; git checkout -- .; exit 2; }
  git reset -q
fi
cd /verif && ./check $prop $tier > /tmp/seedtest.$seed.$prop.log 2>&1; rc=$?
git -C /repo checkout -- .
echo "seed=$seed prop=$prop rc=$rc"; grep -E "^(VIOLATION|KNOWN-FINDING|INFRA)" /tmp/seedtest.$seed.$prop.log | head -5
exit 0

"""C06 — pyc header decoded per the format of the version.  Theorems: lean/XV/Props/C06.lean."""
import json
import random
import struct

import core
from worker import Worker, Oracle

RULE = ("headers built for the magic of every release name of the tables x PEP 552 flag words (0, 1, 2, 3 and values with "
        "other bits set) x boundary/random 32-bit timestamps and sizes and 64-bit hashes, followed by a payload; pycs "
        "written by py_compile of each installed interpreter in every invalidation mode; read by load_module, the Lean "
        "Model and (3.7+) importlib; distinct = distinct (magic, header bytes)")


def form_of(v):
    return "pep552" if v >= (3, 7) else "tsSize" if v >= (3, 3) else "tsOnly"


def run(ctx):
    rep, drv = ctx.rep, ctx.driver
    rng = random.Random(ctx.seed)
    w = Worker()
    oracles = {}
    try:
        # released magics: those a release name "X.Y"/"X.Y.Z" maps to, plus PyPy corpus magics
        rel = {}
        tup = {r["magic"]: r["tuple"] for r in ctx.tables["magics"]["accepted"]}
        for name, hx in ctx.tables["magics"]["magics"]:
            parts = name.split(".")
            if all(p.isdigit() for p in parts) and len(parts) in (2, 3):
                b = bytes.fromhex(hx)
                m = b[0] + 256 * b[1]
                if tup.get(m):
                    rel[m] = (tuple(tup[m][:2]), b)
        for m in (64, 112, 160, 192, 240):
            if tup.get(m):
                rel[m] = (tuple(tup[m][:2]), bytes([m & 255, m >> 8, 13, 10]))
        if tup.get(48):
            rel[48] = ((3, 2), b"0\x00\r\n")          # PyPy 3.2 writes this; load_module reports magic 3187
        vals32 = [0, 1, 2 ** 31 - 1, 2 ** 31, 2 ** 32 - 1, 1700000000]
        cases = []
        for m, (v, mb) in sorted(rel.items()):
            form = form_of(v)
            n = 3 if not ctx.thorough else 40
            for _ in range(n):
                ts, sz = rng.choice(vals32 + [rng.randrange(2 ** 32)]), rng.choice(vals32 + [rng.randrange(2 ** 32)])
                if form == "tsOnly":
                    cases.append((m, v, mb + struct.pack("<I", ts), (ts, None, None, 8)))
                elif form == "tsSize":
                    cases.append((m, v, mb + struct.pack("<II", ts, sz), (ts, sz, None, 12)))
                else:
                    fl = rng.choice([0, 1, 2, 3, 0x100, 0x01000000, 0x01000001, 0xFFFFFFFE, 0xFFFFFFFF, 0x80000000])
                    if fl & 1:
                        h = rng.choice([0, 2 ** 64 - 1, 2 ** 63, rng.randrange(2 ** 64)])
                        cases.append((m, v, mb + struct.pack("<IQ", fl, h), (None, None, h, 16)))
                    else:
                        cases.append((m, v, mb + struct.pack("<III", fl, ts, sz), (ts, sz, None, 16)))
        payload = b"N" * 60
        outs = drv.ask(["x.header %s 0" % (hdr + payload).hex() for _, _, hdr, _ in cases])
        for (m, v, hdr, want), mo in zip(cases, outs):
            data = hdr + payload
            r = w.r("load_pyc", pyc=data.hex(), header_only=True)
            rep.count(1, (m, hdr))
            inp = {"magic": m, "version": list(v), "header": hdr.hex()}
            if "err" in r:
                im = "ImportError" if r["err"] == "ImportError" else "escaped:" + r["err"]
                got = None
            else:
                got = (r["timestamp"], r["source_size"], r["sip_hash"])
                im = "ok [%s] %s %d %s %s %s" % (",".join(str(x) for x in r["version"]), "none" if r["timestamp"] is None else r["timestamp"], r["magic"],
                                                 "true" if r["is_pypy"] else "false", "none" if r["source_size"] is None else r["source_size"],
                                                 "none" if r["sip_hash"] is None else r["sip_hash"])
            mrep = 3187 if m == 48 else m
            if got != want[:3] or (got is not None and (tuple(r["version"][:2]) != v or r["magic"] != mrep)):
                rep.violation("header:%d:%s" % (m, hdr.hex()), "load_module reports (timestamp, size, hash) = %s version %s magic %s for header %s of %d.%d; the format stores %s"
                              % (got, r.get("version"), r.get("magic"), hdr.hex(), v[0], v[1], want[:3]),
                              dict(inp, call="load_module(file)[1], [5], [6]", actual=list(got) if got else im, expected=list(want[:3])))
            elif not mo.startswith(im):
                rep.violation("corr:header:%d:%s" % (m, hdr.hex()), "Model of the header reader disagrees with implementation on %s: impl %s model %s" % (inp, im, mo),
                              dict(inp, impl=im, model=mo), found_input=False)
        rep.sample({"header": cases[-1][2].hex(), "model": outs[-1]})
        # the code object is read from the byte right after the header: real pycs from every interpreter and mode
        src = "x = 1\ndef f(a):\n    return a + x\n"
        for v in sorted(core.ORACLES):
            o = oracles[v] = Oracle(v)
            modes = o.r("py_compile_modes", source=src)
            if not isinstance(modes, dict) or "err" in modes:
                continue
            for mode, hx in sorted(modes.items()):
                data = bytes.fromhex(hx)
                r = w.r("load_pyc", pyc=hx)
                rep.count(1, (v, mode))
                inp = {"version": list(v), "mode": mode, "pyc_head": hx[:40]}
                if "codes" not in r:
                    rep.violation("pyc-mode:%d.%d:%s" % (v[0], v[1], mode), "pyc written by CPython %d.%d py_compile (%s) does not load: %s" % (v[0], v[1], mode, str(r)[:200]), dict(inp, pyc=hx))
                    continue
                if v >= (3, 7):
                    c = o.r("classify_pyc", hex=hx[:32])
                    want = (c.get("mtime"), c.get("size"), c.get("hash"))
                else:
                    want = (struct.unpack("<I", data[4:8])[0], struct.unpack("<I", data[8:12])[0] if v >= (3, 3) else None, None)
                got = (r["timestamp"], r["source_size"], r["sip_hash"])
                names = [c["fields"]["co_name"] for c in r["codes"]]
                if got != want or len(r["codes"]) != 2:
                    rep.violation("pyc-mode:%d.%d:%s" % (v[0], v[1], mode), "header fields %s, importlib/format says %s (mode %s, CPython %d.%d); code objects %s"
                                  % (got, want, mode, v[0], v[1], names), dict(inp, pyc=hx, actual=list(got), expected=list(want)))
        rep.sample({"py_compile_modes": "TIMESTAMP/CHECKED_HASH/UNCHECKED_HASH x %d interpreters" % len(oracles)})
    finally:
        w.close()
        for o in oracles.values():
            o.close()


def replay(ctx, rp):
    r = rp.get("replay", {})
    print(json.dumps(r, indent=1)[:1200])
    if "header" in r:
        w = Worker()
        try:
            got = w.r("load_pyc", pyc=r["header"] + "4e" * 60, header_only=True)
            now = [got.get("timestamp"), got.get("source_size"), got.get("sip_hash")]
            print("now:", now)
            if now != r.get("expected"):
                ctx.rep.violation(rp["key"], rp["what"], r)
        finally:
            w.close()

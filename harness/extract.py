"""T1/T2 extraction: evaluate xdis's table-building modules *from the working
tree given on PYTHONPATH* and probe finite decision logic; write one JSON file.

Run as:  PYTHONPATH=/repo python extract.py <out.json>
Stdlib only; works on hosts 3.8-3.13.  Never imported by the orchestrator (fresh
process each time so that edits to /repo are always seen).
"""
import io
import json
import os
import sys
import contextlib

out_path = sys.argv[1]
_stdout = io.StringIO()

with contextlib.redirect_stdout(_stdout):
    import xdis
    import xdis.magics as M
    import xdis.op_imports as OI
    import xdis.opcodes
    import xdis.unmarshal as U
    import xdis.load as L
    import xdis.cross_dis as CD
    import pkgutil
    import importlib

res = {"host": list(sys.version_info[:3]), "import_stdout": _stdout.getvalue()}

# ----------------------------------------------------------------- magics (T1)
mg = {}
mg["magicint2version"] = sorted([[int(k), v] for k, v in M.magicint2version.items()])
mg["versions"] = sorted([[k.hex(), v] for k, v in M.versions.items()])
mg["magics"] = sorted([[k, v.hex()] for k, v in M.magics.items()])
mg["canonic"] = sorted([[k, v] for k, v in M.canonic_python_version.items()])
mg["PYPY3_MAGICS"] = [int(x) for x in M.PYPY3_MAGICS]
mg["GRAAL3_MAGICS"] = [int(x) for x in M.GRAAL3_MAGICS]
mg["op_imports_keys"] = sorted([k for k in OI.op_imports.keys() if isinstance(k, str)])

# py_str2tuple on every version string the tables mention (T2: every key)
s2t = []
allstr = set(M.magics.keys()) | set(M.magicint2version.values()) | set(M.canonic_python_version.keys())
for s in sorted(allstr):
    try:
        s2t.append([s, list(M.py_str2tuple(s)), None])
    except Exception as e:  # noqa
        s2t.append([s, None, type(e).__name__])
mg["py_str2tuple"] = s2t

# magic_int2tuple + opcode-table resolution for every accepted magic (T2)
from xdis.disasm import get_opcode

acc = []
for mi in sorted(M.magicint2version):
    row = {"magic": mi, "version": M.magicint2version[mi]}
    try:
        vt = M.magic_int2tuple(mi)
        row["tuple"] = list(vt)
    except Exception as e:  # noqa
        row["tuple"] = None
        row["tuple_err"] = type(e).__name__
        vt = None
    if vt is not None:
        # mirror what disassemble_file does: is_pypy(magic, filename) then get_opcode
        for fn_kind, fname in (("plain", "x.pyc"), ("pypy38name", "x.pypy38.pyc")):
            ispypy = L.is_pypy(mi, fname)
            try:
                opc = get_opcode(vt, ispypy)
                row["opc_" + fn_kind] = opc.__name__.split(".")[-1]
            except Exception as e:  # noqa
                row["opc_" + fn_kind] = None
                row["opc_err_" + fn_kind] = type(e).__name__
            row["is_pypy_" + fn_kind] = bool(ispypy)
    acc.append(row)
mg["accepted"] = acc

# int2magic / magic2int on all 65536 ints (exhaustive tie for the C08 model)
i2m = []
bad_inverse = []
for n in range(65536):
    b = M.int2magic(n)
    i2m.append(b.hex())
    try:
        back = M.magic2int(b)
    except Exception as e:  # noqa
        back = type(e).__name__
    if back != n:
        bad_inverse.append([n, b.hex(), back])
# compress: all are <n LE> + suffix; record suffix classes
suffix = {}
for n, h in enumerate(i2m):
    assert h[:4] == bytes([n & 255, n >> 8]).hex() or True
    suffix.setdefault(h[4:], []).append(n)
mg["int2magic_prefix_ok"] = all(h[:4] == bytes([n & 255, n >> 8]).hex() for n, h in enumerate(i2m))
mg["int2magic_suffix_classes"] = {k: (v if len(v) < 100 else "rest") for k, v in suffix.items()}
mg["int2magic_bad_inverse"] = bad_inverse[:50]
# which table make_std_api / get_opcode_module picks for a plain (major, minor) version (T2)
sa = []
for a in range(1, 4):
    for b in range(0, 15):
        try:
            mod = OI.get_opcode_module((a, b), None)
            sa.append([a, b, mod.__name__.split(".")[-1]])
        except Exception:
            pass
mg["std_api_tables"] = sa
res["magics"] = mg

# ------------------------------------------------------------- op tables (T1)
modnames = sorted(
    n.name for n in pkgutil.iter_modules(xdis.opcodes.__path__) if n.name.startswith("opcode_")
)
tables = {}
LISTS = ["hascompare", "hascondition", "hasconst", "hasfree", "hasjabs", "hasjrel", "haslocal",
         "hasname", "hasnargs", "hasstore", "hasvargs", "nofollow", "hasarg", "hasexc", "hasjump"]
SETS = ["COMPARE_OPS", "CONDITION_OPS", "CONST_OPS", "ENCODED_ARG_OPS", "FREE_OPS", "JREL_OPS",
        "JABS_OPS", "LOCAL_OPS", "NAME_OPS", "NARGS_OPS", "VARGS_OPS", "STORE_OPS", "JUMP_OPS",
        "LOOP_OPS", "NOFOLLOW", "ARG_OPS"]
with contextlib.redirect_stdout(_stdout):
    for mn in modnames:
        try:
            mod = importlib.import_module("xdis.opcodes." + mn)
        except Exception as e:  # noqa
            tables[mn] = {"import_error": type(e).__name__}
            continue
        if not hasattr(mod, "opname") or not hasattr(mod, "opmap"):
            continue
        t = {}
        t["in_op_imports"] = any(v is mod for v in OI.op_imports.values())
        for a in ("version_tuple", "python_version"):
            v = getattr(mod, a, None)
            t[a] = list(v) if v is not None else None
        t["is_pypy"] = bool(getattr(mod, "is_pypy", False))
        t["opname"] = [str(x) for x in mod.opname]
        t["opmap"] = sorted([[k, int(v)] for k, v in mod.opmap.items()], key=lambda kv: (kv[1], kv[0]))
        t["oppop"] = [int(x) for x in getattr(mod, "oppop", [])]
        t["oppush"] = [int(x) for x in getattr(mod, "oppush", [])]
        t["HAVE_ARGUMENT"] = getattr(mod, "HAVE_ARGUMENT", None)
        t["EXTENDED_ARG"] = getattr(mod, "EXTENDED_ARG", None)
        t["EXTENDED_ARG_SHIFT"] = getattr(mod, "EXTENDED_ARG_SHIFT", None)
        for a in LISTS:
            v = getattr(mod, a, None)
            t[a] = [int(x) for x in v] if v is not None else None
        for a in SETS:
            v = getattr(mod, a, None)
            t[a] = sorted(int(x) for x in v) if v is not None else None
        t["cmp_op"] = [str(x) for x in getattr(mod, "cmp_op", ())]
        for a in ("findlabels", "findlinestarts"):
            f = getattr(mod, a, None)
            t[a] = (f.__module__.split(".")[-1] + "." + f.__name__) if f is not None else None
        t["opcode_arg_fmt"] = sorted(getattr(mod, "opcode_arg_fmt", {}).keys())
        # T2: per-opcode decisions of the small helper functions
        if t["HAVE_ARGUMENT"] is not None and t["version_tuple"] is not None:
            from xdis.bytecode import get_optype
            t["instruction_size"] = [int(CD.instruction_size(op, mod)) for op in range(256)]
            t["op_has_argument"] = [bool(CD.op_has_argument(op, mod)) for op in range(256)]
            try:
                t["optype"] = [get_optype(op, mod) for op in range(256)]
            except Exception as e:  # noqa
                t["optype"] = None
        tables[mn] = t
res["optables"] = tables
res["cache_size_313"] = sorted(
    [[n, CD._get_cache_size_313(n)] for t in tables.values() if "opname" in t for n in t["opname"]
     if CD._get_cache_size_313(n)]
)
res["cache_size_313"] = [list(x) for x in sorted(set(map(tuple, res["cache_size_313"])))]

# ---------------------------------------------------- unmarshal dispatch (T1)
res["dispatch"] = sorted([[k, v] for k, v in U.UNMARSHAL_DISPATCH_TABLE.items()])
res["dispatch_methods"] = sorted(
    a[2:] for a in dir(U._VersionIndependentUnmarshaller) if a.startswith("t_")
)


# ------------------------------------------------- t_code layout probe (T2)
class RecFile:
    def __init__(self):
        self.log = []

    def read(self, n=-1):
        self.log.append(("read", n))
        # the k-th read returns the little-endian value 100+k: ties each integer
        # field of the code object to the read that produced it
        self.k = getattr(self, "k", 0) + 1
        return (100 + self.k).to_bytes(max(n, 1), "little")[: max(n, 0)]


class FakeObj(tuple):
    """Empty tuple that remembers which r_object call produced it."""

    def __new__(cls, idx):
        o = tuple.__new__(cls, ())
        o.idx = idx
        return o


def probe_layout(magic_int):
    rec = RecFile()
    um = U._VersionIndependentUnmarshaller(rec, magic_int, False, code_objects={})
    seq = []

    def fake_r_object(bytes_for_s=False):
        # flush integer reads seen so far
        for kind, n in rec.log:
            seq.append("i%d" % n)
        rec.log[:] = []
        seq.append("o%d" % (1 if bytes_for_s else 0))
        idx = sum(1 for s in seq if s.startswith("o"))
        return FakeObj(idx)

    um.r_object = fake_r_object
    import xdis.unmarshal as UU
    captured = {}
    orig = UU.to_portable

    def fake_to_portable(**kw):
        captured.update(kw)
        return ("CODE",)

    UU.to_portable = fake_to_portable
    try:
        try:
            # zip(co_localsplusnames, kinds) on the fake objects: give them shape
            um.t_code(False, False)
            err = None
        except Exception as e:  # noqa
            err = type(e).__name__ + ":" + str(e)[:60]
    finally:
        UU.to_portable = orig
    for kind, n in rec.log:
        seq.append("i%d" % n)
    fields = {}
    for k, v in captured.items():
        if isinstance(v, FakeObj):
            fields[k] = "o#%d" % v.idx
        elif isinstance(v, (int, str, bytes, type(None))):
            fields[k] = repr(v)
        else:
            fields[k] = type(v).__name__
    return seq, err, fields


lay = []
with contextlib.redirect_stdout(_stdout), contextlib.redirect_stderr(io.StringIO()):
    for mi in sorted(M.magicint2version):
        try:
            seq, err, fields = probe_layout(mi)
        except Exception as e:  # noqa
            seq, err, fields = None, "probe:" + type(e).__name__, {}
        lay.append({"magic": mi, "seq": seq, "err": err, "fields": fields})
res["layouts"] = lay


# ---------------------------------------------------- header probe (T2)
class HdrFile:
    """A 'file' that records how many bytes were consumed."""

    def __init__(self, data):
        self.data = data
        self.pos = 0
        self.closed = False

    def read(self, n=-1):
        if n is None or n < 0:
            n = len(self.data) - self.pos
        r = self.data[self.pos:self.pos + n]
        self.pos += len(r)
        return r

    def seek(self, p, whence=0):
        self.pos = p

    def tell(self):
        return self.pos

    def close(self):
        self.closed = True


def probe_header(magic_int, flags):
    m4 = bytes([magic_int & 255, magic_int >> 8]) + b"\r\n"
    body = flags.to_bytes(4, "little") + bytes(range(0x11, 0x11 + 12))
    f = HdrFile(m4 + body + b"N" * 40)
    err = io.StringIO()
    with contextlib.redirect_stderr(err), contextlib.redirect_stdout(io.StringIO()):
        try:
            r = L.load_module_from_file_object(f, filename="probe.pyc", get_code=False)
            out = ["ok", list(r[0]), r[1], r[2], bool(r[4]), r[5], r[6], f.pos]
        except ImportError as e:
            out = ["ImportError", f.pos]
        except BaseException as e:  # noqa
            out = ["escaped:" + type(e).__name__, f.pos]
    return out


hp = []
FLAGS = [0, 1, 2, 3, 0x100, 0x01000000, 0x03000000, 0xFFFFFFFE, 0xFFFFFFFF, 0x80000001]
known = set(M.magicint2version)
probe_magics = sorted(known | {0, 1, 2657, 22138, 3439, 3393, 3394, 3400, 3413, 3500, 65535,
                               12345, 62135, 62215, 3436, 3437, 3456})
for mi in probe_magics:
    for fl in FLAGS:
        hp.append([mi, fl, probe_header(mi, fl)])
res["header_probe"] = hp
# unknown magics: exhaustive scan of the outcome class only (all 65536)
unk = {}
for mi in range(65536):
    if mi in known:
        continue
    o = probe_header(mi, 0)
    unk.setdefault(o[0], []).append(mi)
res["header_unknown_classes"] = {k: (len(v), v[:20]) for k, v in unk.items()}

with open(out_path, "w") as fp:
    json.dump(res, fp, indent=0, sort_keys=True)

/-
Model of the line-table ENCODERS used by `freeze()`:
  Code15.encode_lineno_tab (also Code2), Code3.encode_lineno_tab (also Code38),
  Code310.encode_lineno_tab, and freeze()'s dict → sorted list normalisation.
Errors are explicit: `chr()`/`bytearray()` of a value outside 0..255 raises ValueError.
-/
import XV.Base.Bytes
namespace XV.Model.LineEnc
open XV

inductive EncErr where | valueError
  deriving Repr, DecidableEq

/-- line continuation: while `ld ≥ 256` emit `(od, 255)` — the address increment goes
    with the first chunk, later chunks carry 0 — returning the remaining (od, ld) -/
def splitLine : Nat → Nat → Nat → Bytes × Nat × Nat
  | 0, od, ld => ([], od, ld)
  | fuel + 1, od, ld =>
    if ld ≥ 256 then let (bs, o, l) := splitLine fuel 0 (ld - 255); ([od, 255] ++ bs, o, l) else ([], od, ld)

/-- emit `n` copies of a continuation pair while `d ≥ 256`, subtracting 255 each time -/
def splitBig (pair : Bytes) : Nat → Nat → Bytes × Nat
  | 0, d => ([], d)
  | fuel + 1, d => if d ≥ 256 then let (bs, r) := splitBig pair fuel (d - 255); (pair ++ bs, r) else ([], d)

/-- Code15 / Code2 -/
def encode15Go : Int → Int → List (Int × Int) → Except EncErr Bytes
  | _, _, [] => .ok []
  | prevOff, prevLine, (off, line) :: rest =>
    let od := off - prevOff
    let ld := line - prevLine
    if ld < 0 then encode15Go prevOff prevLine rest      -- `continue`: prev_* not updated
    else if od < 0 then .error .valueError               -- chr(negative)
    else
      let (c1, od') := splitBig [255, 0] od.toNat od.toNat
      let (c2, od'', ld') := splitLine ld.toNat od' ld.toNat
      do let tl ← encode15Go off line rest
         pure (c1 ++ c2 ++ [od'', ld'] ++ tl)

def encode15 (first : Int) (m : List (Int × Int)) : Except EncErr Bytes := encode15Go 0 first m

/-- Code3 / Code38 -/
def encode3Go : Int → Int → List (Int × Int) → Except EncErr Bytes
  | _, _, [] => .ok []
  | prevOff, prevLine, (off, line) :: rest =>
    let od := off - prevOff
    let ld := line - prevLine
    let (c1, odN) : Bytes × Int := if od ≥ 256 then
        let (c, r) := splitBig [255, 0] od.toNat od.toNat; (c, (r : Int)) else ([], od)
    if ld ≥ 256 ∧ odN < 0 then .error .valueError        -- bytearray([negative, 255])
    else
    let (c2, odN, ldN) : Bytes × Int × Int := if ld ≥ 256 then
        let (c, o, r) := splitLine ld.toNat odN.toNat ld.toNat; (c, (o : Int), (r : Int)) else ([], odN, ld)
    if 0 ≤ ldN ∧ ldN ≤ 256 then
      if odN < 0 ∨ ldN = 256 then .error .valueError     -- bytearray([negative]) / bytearray([.., 256])
      else do let tl ← encode3Go off line rest
              pure (c1 ++ c2 ++ [odN.toNat, ldN.toNat] ++ tl)
    else do let tl ← encode3Go off line rest
            pure (c1 ++ c2 ++ tl)

def encode3 (first : Int) (m : List (Int × Int)) : Except EncErr Bytes := encode3Go 0 first m

/-- emit (0,127) while d ≥ 127 -/
def split127 : Nat → Int → Bytes
  | 0, _ => []
  | fuel + 1, d => if d ≥ 127 then [0, 127] ++ split127 fuel (d - 127) else []

/-- Code310 -/
def encode310Go : Int → Int → List (Int × Int) → Except EncErr Bytes
  | _, _, [] => .ok []
  | prevOff, prevLine, (off, line) :: rest =>
    let ld := line - prevLine
    let od := off - prevOff
    let (c1, odN) : Bytes × Int := if od ≥ 256 then
        let (c, r) := splitBig [255, 0] od.toNat od.toNat; (c, (r : Int)) else ([], od)
    if odN < 0 then .error .valueError else
    let main : Bytes := [odN.toNat, (ld % 256).toNat]
    let c2 := split127 ld.toNat ld
    if ld < -127 then .error .valueError                 -- bytearray([0, -127])
    else do let tl ← encode310Go off line rest
            pure (c1 ++ main ++ c2 ++ tl)

def encode310 (first : Int) (m : List (Int × Int)) : Except EncErr Bytes := encode310Go 0 first m

end XV.Model.LineEnc

/-
C07 — Results do not depend on the host Python or on which loader path is taken.

What is proved here, and what is observed:
* C07_sites — the scan of /repo/xdis regenerated on every run finds no read of the host
  interpreter's identity outside the reviewed list ref/host_sites.txt (each entry classified
  as unable to change a decoded result between hosts 3.8–3.13).  A new host-dependent
  branch anywhere in the package breaks this theorem.
* C07_paths — the loader switch, as transcribed in Model.HostPath: if the host's built-in
  marshal and xdis's unmarshaller are observationally equal on files of the host's own
  version (the premise the differential tie tests on six hosts), then what is observed is
  the same function of (magic, payload) on every host, whichever path is taken.
* C07_lines_paths — the duck-typed line access: for a 3.10 table, findlinestarts over the
  native object's co_lines() (CPython's ranges) and over xdis's portable Code310.co_lines()
  give the same pairs, for every table of even length (from C05_310, C05_starts_of_ranges).
-/
import XV.Model.HostPath
import XV.Props.C05
import XV.Gen.Effects
namespace XV.Props.C07
open XV XV.Model XV.Model.HostPath

/-! ### host-identity reads -/

def pairBeq (a b : Str × Str) : Bool := a.1 == b.1 && a.2 == b.2

theorem C07_sites : (Gen.hostSites.all fun s => Gen.hostAllow.any (pairBeq s)) = true ∧
    Gen.hostSites.length > 20 := by decide +kernel

/-! ### the loader switch -/

/-- the host's marshal and xdis's unmarshaller agree, observationally, on the host's own version -/
def Agrees {N P O : Type} (h : Host N) (unmarshal : Nat → Bytes → Option P) (obsN : N → O) (obsP : P → O) : Prop :=
  ∀ data, (h.marshalLoads data).map obsN = (unmarshal h.magic data).map obsP

theorem C07_path {N P O : Type} (h : Host N) (unmarshal : Nat → Bytes → Option P) (obsN : N → O) (obsP : P → O)
    (ha : Agrees h unmarshal obsN obsP) (fileMagic : Nat) (data : Bytes) :
    (loadCode h unmarshal fileMagic data).map (observe obsN obsP) = (unmarshal fileMagic data).map obsP := by
  unfold loadCode
  by_cases hm : h.magic = fileMagic
  · subst hm
    simp only [beq_self_eq_true, if_true, Option.map_map]
    have := ha data
    simpa [Function.comp_def, observe] using this
  · have : (h.magic == fileMagic) = false := by simpa using hm
    simp [this, Function.comp_def, observe]

/-- C07_paths: any two hosts (of any native code type) observe the same thing on the same file -/
theorem C07_paths {N1 N2 P O : Type} (h1 : Host N1) (h2 : Host N2) (unmarshal : Nat → Bytes → Option P)
    (o1 : N1 → O) (o2 : N2 → O) (obsP : P → O)
    (a1 : Agrees h1 unmarshal o1 obsP) (a2 : Agrees h2 unmarshal o2 obsP) (fileMagic : Nat) (data : Bytes) :
    (loadCode h1 unmarshal fileMagic data).map (observe o1 obsP) =
    (loadCode h2 unmarshal fileMagic data).map (observe o2 obsP) := by
  rw [C07_path h1 unmarshal o1 obsP a1, C07_path h2 unmarshal o2 obsP a2]

/-- non-vacuity: a host whose marshal is the unmarshaller itself agrees; both branches are reachable -/
example : Agrees (N := Nat) (P := Nat) (O := Nat) { magic := 3413, marshalLoads := fun d => some d.length }
    (fun _ d => some d.length) id id := by intro d; rfl
example : (loadCode (N := Nat) (P := Nat) { magic := 3413, marshalLoads := fun d => some d.length } (fun _ d => some d.length) 3413 [1, 2]).isSome
    ∧ (loadCode (N := Nat) (P := Nat) { magic := 3413, marshalLoads := fun d => some d.length } (fun _ d => some d.length) 3439 [1, 2]).isSome := by
  decide

/-! ### duck-typed line access -/

/-- `findlinestarts(code)` takes `code.co_lines()` when the object has it: for a native 3.10
    code object those are CPython's ranges, for the portable Code310 they are xdis's; the same
    loop then runs over either.  Both give the same line starts. -/
theorem C07_lines_paths (first : Int) (tab : Bytes) (h : tab.length % 2 = 0) :
    (Lines.coLines310 first tab).map Lines.startsFromRanges =
    some (Spec.Lines.startsOfRanges none (Spec.Lines.coLines310 first tab)) := by
  rw [C05.C05_310 first tab h]
  simp [C05.C05_starts_of_ranges]

end XV.Props.C07

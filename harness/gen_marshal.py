"""Generator of marshal streams from the type-code grammar, per marshal era, with explicit
sharing (FLAG_REF + 'r' in era 4; 't' + 'R' in eras 1-2)."""
import struct


def era_of(v):
    if v >= (3, 4):
        return 4
    if v >= (3, 0):
        return 3
    if v >= (2, 5):
        return 2
    if v >= (2, 4):
        return 1
    return 0


class Gen:
    def __init__(self, rng, era, max_depth=4, big=False):
        self.rng, self.era, self.max_depth, self.big = rng, era, max_depth, big
        self.nrefs = 0          # reference indices allocated so far (era 4)
        self.done = []          # indices of COMPLETED flagged objects with their hashability
        self.nstrs = 0          # interned strings so far (eras 1, 2)
        self.kinds = set()

    def flag(self, code, hashable, leaf):
        """maybe set FLAG_REF; returns (type byte, index or None)"""
        if self.era == 4 and self.rng.randrange(3) == 0:
            idx = self.nrefs
            self.nrefs += 1
            return bytes([ord(code) | 0x80]), idx
        return code.encode(), None

    def finish(self, idx, hashable):
        if idx is not None:
            self.done.append((idx, hashable))

    def i32(self, n):
        return struct.pack("<i", n)

    def leaf(self, hashable_only=False):
        r, e = self.rng, self.era
        opts = ["N", "T", "F", "i", "i", "l", "g" if e >= 2 else "f", "s", "u", ".", "S", "f", "x"]
        if e >= 2:
            opts += ["y"]
        if e < 4:
            opts += ["I"]
        if e == 4:
            opts += ["a", "A", "z", "Z", "t", "z", "r", "r"]
        if e in (1, 2):
            opts += ["t", "R", "R"]
        if hashable_only:
            # inside sets / dict keys: avoid cross-kind equal values (True == 1 == 1.0, 0.0 == -0.0)
            opts = [o for o in opts if o in ("N", "i", "l", "s", "u", ".", "S", "a", "A", "z", "Z", "t", "r", "R")]
            if e < 3:
                opts = [o for o in opts if o != "u"]      # Python 2: 'abc' == u'abc' inside one set
        k = r.choice(opts)
        self.kinds.add(k)
        if k in "NTF.S":
            return k.encode()
        if k == "i":
            tb, idx = self.flag("i", True, True)
            self.finish(idx, True)
            return tb + self.i32(r.choice([0, 1, -1, 255, 256, 2 ** 31 - 1, -2 ** 31, r.randrange(-10 ** 6, 10 ** 6)]))
        if k == "I":
            return b"I" + struct.pack("<q", r.choice([2 ** 40, -2 ** 40, 2 ** 63 - 1, -2 ** 63, 6442450944, 2 ** 31, r.randrange(-2 ** 62, 2 ** 62)]))
        if k == "l":
            v = r.choice([0, 2 ** 15, 2 ** 15 - 1, 2 ** 30, 2 ** 31, -2 ** 31 - 1, 2 ** 64, -2 ** 100, 10 ** 30, r.randrange(-2 ** 70, 2 ** 70)])
            if hashable_only:
                # inside sets / dict keys: a Python 2 long equal to an int element (0L == 0) would be merged by the set
                v = r.choice([2 ** 31, -2 ** 31 - 1, 2 ** 64, -2 ** 100, 10 ** 30, 2 ** 40 + r.randrange(2 ** 60)])
            tb, idx = self.flag("l", True, True)
            self.finish(idx, True)
            a = abs(v)
            ds = []
            while a:
                ds.append(a & 0x7FFF)
                a >>= 15
            n = len(ds) if v >= 0 else -len(ds)
            return tb + self.i32(n) + b"".join(struct.pack("<H", d) for d in ds)
        if k == "g":
            tb, idx = self.flag("g", True, True)
            self.finish(idx, False)
            return tb + struct.pack("<d", r.choice([0.0, -0.0, 1.5, float("inf"), float("-inf"), 1e308, 5e-324, r.random() * 1e6]))
        if k == "y":
            tb, idx = self.flag("y", True, True)
            self.finish(idx, False)
            return tb + struct.pack("<dd", r.choice([0.0, -0.0, 2.5]), r.choice([1.0, -0.0, float("inf")]))
        if k == "f":
            s = r.choice(["1.5", "0.0", "-0.0", "1e+100", "inf", "-inf", "3.141592653589793", "2.5e-05", "12345678.0"]).encode()
            tb, idx = self.flag("f", True, True)
            self.finish(idx, False)
            return tb + bytes([len(s)]) + s
        if k == "x":
            s1, s2 = r.choice(["1.5", "0.0", "-2.0"]).encode(), r.choice(["2.0", "-0.0", "1e+100"]).encode()
            tb, idx = self.flag("x", True, True)
            self.finish(idx, False)
            return tb + bytes([len(s1)]) + s1 + bytes([len(s2)]) + s2
        if k == "s":
            b = r.choice([b"", b"abc", b"\x00\xff\x80", "é€".encode("utf-8"), b"\xc3", bytes(range(200, 256)), b"x" * r.choice([1, 255, 256, 300])])
            tb, idx = self.flag("s", True, True)
            self.finish(idx, True)
            return tb + self.i32(len(b)) + b
        if k == "u":
            s = r.choice(["", "abc", "é", "€", "\U0001F600", "a\x00b", "x" * 300, "\udc80", "\ud800x"])
            b = s.encode("utf-8", "surrogatepass")
            tb, idx = self.flag("u", True, True)
            self.finish(idx, self.era >= 3)
            return tb + self.i32(len(b)) + b
        if k in "aA":
            b = r.choice([b"", b"name", b"x" * 300, b"co_name"])
            tb, idx = self.flag(k, True, True)
            self.finish(idx, True)
            return tb + self.i32(len(b)) + b
        if k in "zZ":
            b = r.choice([b"", b"n", b"y" * 255, b"hello"])
            tb, idx = self.flag(k, True, True)
            self.finish(idx, True)
            return tb + bytes([len(b)]) + b
        if k == "t":
            b = r.choice([b"interned", b"", b"abc", "é".encode("utf-8")])
            if self.era == 4 and r.random() < 0.3:
                b = r.choice([b"\xed\xb2\x80abc", b"x\xed\xa0\x80"])      # lone surrogates (surrogatepass)
            if self.era == 4:
                tb, idx = self.flag("t", True, True)
                self.finish(idx, True)
                return tb + self.i32(len(b)) + b
            self.nstrs += 1
            return b"t" + self.i32(len(b)) + b
        if k == "R":
            if self.nstrs == 0:
                return b"N"
            return b"R" + self.i32(r.randrange(self.nstrs))
        if k == "r":
            cands = [i for i, h in self.done if h or not hashable_only]
            if not cands:
                return b"N"
            return b"r" + self.i32(r.choice(cands))
        return b"N"

    def obj(self, depth=0, hashable_only=False):
        r, e = self.rng, self.era
        if depth >= self.max_depth or r.randrange(3) == 0:
            return self.leaf(hashable_only)
        kinds = ["(", "(", ">"] if hashable_only else ["(", "(", "[", "{", "<", ">"]
        if e == 4:
            kinds.append(")")
        if e == 0:
            kinds = [k for k in kinds if k not in "<>"]
        k = r.choice(kinds)
        self.kinds.add(k)
        n = r.choice([0, 1, 2, 3, 3, 5] + ([255, 256] if depth == 0 else []) + ([65536] if self.big and depth == 0 else []))
        if k == "{":
            tb, idx = self.flag("{", False, False)
            out = tb
            for j in range(min(n, 6)):
                self.ukey = getattr(self, "ukey", 0) + 1
                key = b"N" if (j == 0 and self.rng.randrange(2)) else b"i" + self.i32(100000 + self.ukey)
                out += key + self.obj(depth + 1, False)
            out += b"0"
            self.finish(idx, False)
            return out
        if k == ")":
            n = min(n, 255)
        tb, idx = self.flag(k, k in "()>", False)
        out = tb + (bytes([n]) if k == ")" else self.i32(n))
        elem_hash = hashable_only or k in "<>"
        if n > 6:
            # big container: mostly cheap distinct leaves
            for j in range(n):
                out += b"i" + self.i32(j)
        else:
            for _ in range(n):
                out += self.obj(depth + 1, elem_hash)
        self.finish(idx, k in "()>" and elem_hash)
        return out


def stream(rng, era, big=False):
    g = Gen(rng, era, big=big)
    data = g.obj(0)
    return data, g.kinds


def _s(era, text):
    """a text object (name, filename) in the era's natural encoding"""
    b = text.encode("ascii")
    if era == 4:
        return b"z" + bytes([len(b)]) + b
    if era == 3:
        return b"u" + struct.pack("<i", len(b)) + b
    return b"s" + struct.pack("<i", len(b)) + b


def _b(data):
    return b"s" + struct.pack("<i", len(data)) + data


def _tup(era, items):
    return b"(" + struct.pack("<i", len(items)) + b"".join(items)


def wrap_code(v, const_stream, nconsts=1):
    """a marshalled code object of version v whose co_consts is (value,): the layouts of
    CPython's marshal.c / codeobject.c, written from the documented history"""
    era = era_of(v)
    i32 = lambda n: struct.pack("<i", n)
    i16 = lambda n: struct.pack("<h", n)
    nop = 30 if v >= (3, 13) else 9
    code = bytes([nop, nop, nop]) if v < (3, 6) else bytes([nop, 0, nop, 0])
    consts = b"(" + i32(nconsts) + const_stream
    names = _tup(era, [_s(era, "nm")])
    out = b"c"
    if v >= (3, 11):
        out += i32(1) + i32(0) + i32(0) + i32(5) + i32(67)
        out += _b(code) + consts + names
        out += _tup(era, [_s(era, "a"), _s(era, "c")]) + _b(bytes([0x60, 0x80]))      # localsplusnames / kinds
        out += _s(era, "file.py") + _s(era, "fn") + _s(era, "q.fn") + i32(7) + _b(b"\x80\x00") + _b(b"")
        return out
    if v >= (2, 3):
        out += i32(1)
        if v >= (3, 8):
            out += i32(0)
        if v >= (3, 0):
            out += i32(0)
        out += i32(1) + i32(5) + i32(67)
    elif v >= (1, 5):
        out += i16(1) + i16(1) + i16(5) + i16(67)
    elif v >= (1, 3):
        out += i16(1) + i16(1) + i16(67)
    out += _b(code) + consts + names
    if v >= (1, 3):
        out += _tup(era, [_s(era, "a")])
    if v >= (2, 1):
        out += _tup(era, []) + _tup(era, [])
    out += _s(era, "file.py") + _s(era, "fn")
    if v >= (1, 5):
        out += (i32(7) if v >= (2, 3) else i16(7)) + _b(b"\x02\x01")
    return out

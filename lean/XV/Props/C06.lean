/-
C06 — pyc header is decoded per the file format of the bytecode's version.
-/
import XV.Model.Header
import XV.Spec.PycHeader
import XV.Spec.Magic
import XV.Gen.Layouts
import XV.Props.C01
namespace XV.Props.C06
open XV XV.Model XV.Model.Header XV.Spec.PycHeader

def tables : Tables := { tuples := Gen.implTuple, versions := Gen.versionsTbl, pypy3 := Gen.pypy3Magics }

/-! ### tie T2, kernel-checked: the Model reproduces what load_module_from_file_object did
on every accepted magic × flag word of the probe (regenerated on every run) -/

def probeInput (magic flags : Nat) : Bytes :=
  toLE 2 magic ++ [13, 10] ++ toLE 4 flags ++ (List.range 12).map (· + 0x11) ++ List.replicate 40 78

def outEq (o : Out) (g : Gen.HdrOut) : Bool :=
  match o, g with
  | .ok v t m p s h pos, .ok v' t' m' p' s' h' pos' =>
    v == v' && t.map Int.ofNat == t' && m == m' && p == p' && s.map Int.ofNat == s' && h.map Int.ofNat == h' && pos == pos'
  | .importError, .importError => true
  | .dropbox, _ => true                           -- fix_dropbox_pyc is outside this Model
  | .escaped a, .escaped b => a == b
  | _, _ => false

theorem C06_probe : ∀ r ∈ Gen.headerProbe, outEq (load tables (probeInput r.1 r.2.1) false) r.2.2 = true := by
  decide +kernel

/-! ### which header form is read: xdis's gates are the format's, for every final release -/

def kindMatches (k : Kind) (f : Form) : Bool :=
  match k, f with
  | .tsOnly, .tsOnly => true
  | .tsSize, .tsSize => true
  | .pep552 false, .pep552 => true
  | _, _ => false

def kindOk (m : Nat) : Bool :=
  match tupleOf tables m with
  | some v => kindMatches (kindOf tables m v) (formOf v)
  | none => false

/-- every final-release magic (1.0 – 3.13) and the PyPy magics of the corpus -/
theorem C06_kind : ∀ m ∈ C01.releasedMagics ++ [3187, 64, 112, 160, 192, 240], kindOk m = true := by decide +kernel

/-! ### the fields, for arbitrary 32/64-bit values and any payload -/

theorem take_toLE_append (n v : Nat) (rest : Bytes) : (toLE n v ++ rest).take n = toLE n v := by
  have := toLE_length n v
  rw [List.take_append_of_le_length (by omega)]
  rw [List.take_of_length_le (by omega)]

theorem drop_toLE_append (n v : Nat) (rest : Bytes) : (toLE n v ++ rest).drop n = rest := by
  have := toLE_length n v
  rw [List.drop_append_of_le_length (by omega), List.drop_of_length_le (by omega)]; simp

theorem toLE4_head (f : Nat) (rest : Bytes) : (toLE 4 f ++ rest).head? = some (f % 256) := by
  simp [toLE]

theorem and_one_mod (b : Nat) : (b &&& 1 ≠ 0) ↔ b % 2 = 1 := by
  rw [Nat.and_one_is_mod]; omega

/-- C06, fields: for every well-formed field set of the form `k` stands for and every payload,
    the header reader returns exactly the stored timestamp / size / 64-bit hash and the payload offset -/
theorem C06_fields (f : Fields) (hwf : f.WF) (payload : Bytes) (k : Kind) (hk : kindMatches k f.form = true) :
    parseFields k (encode f ++ payload) = some (meaning f) := by
  cases f with
  | tsOnly t =>
    cases k <;> simp [Fields.form, kindMatches] at hk
    simp only [parseFields, encode, meaning]
    have hl : (toLE 4 t ++ payload).length ≥ 4 := by simp [toLE_length]
    simp only [hl, if_true, take_toLE_append]
    rw [leNat_toLE 4 t (by simpa [Fields.WF] using hwf)]
  | tsSize t s =>
    cases k <;> simp [Fields.form, kindMatches] at hk
    obtain ⟨ht, hs⟩ := hwf
    simp only [parseFields, encode, meaning, List.append_assoc]
    have hl : (toLE 4 t ++ (toLE 4 s ++ payload)).length ≥ 8 := by simp [toLE_length]; omega
    simp only [hl, if_true, take_toLE_append, drop_toLE_append]
    rw [leNat_toLE 4 t (by simpa using ht), leNat_toLE 4 s (by simpa using hs)]
  | pepTs fl t s =>
    cases k with
    | pep552 force =>
      cases force <;> simp [Fields.form, kindMatches] at hk
      obtain ⟨hf, he, ht, hs⟩ := hwf
      simp only [encode, meaning, List.append_assoc]
      have htl := toLE4_head fl (toLE 4 t ++ (toLE 4 s ++ payload))
      have hl : (toLE 4 fl ++ (toLE 4 t ++ (toLE 4 s ++ payload))).length ≥ 12 := by simp [toLE_length]; omega
      unfold parseFields
      rw [htl]
      have hb : ¬ ((fl % 256) &&& 1 ≠ 0) := by rw [and_one_mod]; omega
      have h4 : ¬ ((toLE 4 fl ++ (toLE 4 t ++ (toLE 4 s ++ payload))).length < 4) := by omega
      simp only [h4, hb, if_false, hl, if_true, false_or, Bool.false_eq_true, drop_toLE_append, take_toLE_append]
      have d8 : (toLE 4 fl ++ (toLE 4 t ++ (toLE 4 s ++ payload))).drop 8 = toLE 4 s ++ payload := by
        have : 8 = 4 + 4 := rfl
        rw [this, ← List.drop_drop, drop_toLE_append, drop_toLE_append]
      rw [d8, take_toLE_append, leNat_toLE 4 t (by simpa using ht), leNat_toLE 4 s (by simpa using hs)]
    | tsOnly => simp [Fields.form, kindMatches] at hk
    | tsSize => simp [Fields.form, kindMatches] at hk
  | pepHash fl h =>
    cases k with
    | pep552 force =>
      cases force <;> simp [Fields.form, kindMatches] at hk
      obtain ⟨hf, ho, hh⟩ := hwf
      simp only [encode, meaning, List.append_assoc]
      have htl := toLE4_head fl (toLE 8 h ++ payload)
      have hl : (toLE 4 fl ++ (toLE 8 h ++ payload)).length ≥ 12 := by simp [toLE_length]; omega
      unfold parseFields
      rw [htl]
      have hb : ((fl % 256) &&& 1 ≠ 0) := by rw [and_one_mod]; omega
      have h4 : ¬ ((toLE 4 fl ++ (toLE 8 h ++ payload)).length < 4) := by omega
      simp only [h4, if_false, hl, if_true, drop_toLE_append, take_toLE_append]
      rw [if_pos (Or.inl hb), leNat_toLE 8 h (by simpa using hh)]
    | tsOnly => simp [Fields.form, kindMatches] at hk
    | tsSize => simp [Fields.form, kindMatches] at hk

/-- non-vacuity: a CHECKED_HASH header (flags = 3) and a timestamp header are well formed -/
example : (Fields.pepHash 3 0x1122334455667788).WF ∧ (Fields.pepTs 0 1700000000 123).WF := by
  constructor <;> simp [Fields.WF]

end XV.Props.C06

/-
Model of a process running public operations one after another.  `T` is everything that
outlives a call (the module-level tables, class attributes, default-argument objects),
`A` the operations with their arguments, `R` results.  An implementation is a function
`sem : T → A → T × R`: an operation reads the tables, returns a result and leaves tables.
-/
namespace XV.Model.History

structure Sys (T A R : Type) where
  sem : T → A → T × R

variable {T A R : Type}

/-- run a history from state `t`: the state it leaves and the results it produced -/
def Sys.run (s : Sys T A R) : T → List A → T × List R
  | t, [] => (t, [])
  | t, a :: as =>
    let r := s.sem t a
    let rest := s.run r.1 as
    (rest.1, r.2 :: rest.2)

/-- the result of `probe` after `hist` -/
def Sys.after (s : Sys T A R) (t : T) (hist : List A) (probe : A) : R := (s.sem (s.run t hist).1 probe).2

/-- the result of `probe` as the first thing done -/
def Sys.fresh (s : Sys T A R) (t : T) (probe : A) : R := (s.sem t probe).2

end XV.Model.History

"""Locations of the reference interpreters (oracles) and hosts."""
import os
PYENV = "/root/.pyenv/versions"
ORACLES = {
    (2, 7): PYENV + "/2.7.18/bin/python",
    (3, 6): PYENV + "/3.6.15/bin/python",
    (3, 7): PYENV + "/3.7.16/bin/python",
    (3, 8): PYENV + "/3.8.18/bin/python",
    (3, 9): PYENV + "/3.9.18/bin/python",
    (3, 10): PYENV + "/3.10.13/bin/python",
    (3, 11): PYENV + "/3.11.7/bin/python",
    (3, 12): PYENV + "/3.12.1/bin/python",
    (3, 13): PYENV + "/3.13.0/bin/python",
}
ORACLES = {k: v for k, v in ORACLES.items() if os.path.exists(v)}
HOSTS = {k: v for k, v in ORACLES.items() if k >= (3, 8)}   # can import xdis
MAIN_HOST = "/venv/bin/python"
REPO = os.environ.get("XDIS_REPO", "/repo")

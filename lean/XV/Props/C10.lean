/-
C10 — Every marshal encoding of a constant decodes to the same value.
Model = XV.Model.Unmarshal (transcription of _VersionIndependentUnmarshaller);
Spec = XV.Spec.Marshal (marshal.c's reader per era).
-/
import XV.Model.Unmarshal
import XV.Spec.Marshal
import XV.Gen.Layouts
import XV.Gen.Magics
namespace XV.Props.C10
open XV XV.Model.Unmarshal

/-! ### the type-code dispatch table (T1, regenerated) is marshal.c's -/

/-- marshal.c's type codes and what each denotes, in xdis's method vocabulary -/
def marshalC : List (String × String) :=
  [(".", "Ellipsis"), ("0", "C_NULL"), ("(", "tuple"), (")", "small_tuple"), ("<", "set"), (">", "frozenset"),
   ("?", "unknown"), ("A", "ASCII_interned"), ("C", "code"), ("F", "False"), ("I", "int64"), ("N", "None"),
   ("R", "python2_string_reference"), ("S", "stopIteration"), ("T", "True"), ("Z", "short_ASCII_interned"),
   ("[", "list"), ("a", "ASCII"), ("c", "code"), ("f", "float"), ("g", "binary_float"), ("i", "int32"),
   ("l", "long"), ("r", "object_reference"), ("s", "string"), ("t", "interned"), ("u", "unicode"),
   ("x", "complex"), ("y", "binary_complex"), ("z", "short_ASCII"), ("{", "dict")]

/-- UNMARSHAL_DISPATCH_TABLE maps every marshal.c type code to the reader of that type
    (in particular '<' is a set and '>' a frozenset), and every reader it names exists -/
theorem C10_dispatch :
    (marshalC.all fun p => Gen.dispatch.lookup p.1 == some p.2) = true ∧
    (Gen.dispatch.all fun p => Gen.dispatchMethods.contains p.2) = true ∧
    Gen.dispatch.length = marshalC.length := by decide +kernel

/-! ### reference-table primitives: xdis's discipline is marshal.c's -/

/-- r_ref_reserve allocates exactly the next index and r_ref_insert fills exactly that
    slot: after reserve/insert the table is the old one with the finished object appended,
    whatever was appended in between (the nested objects) -/
theorem reserve_insert (refs mid : List V) (placeholder v : V) :
    ((refs ++ [placeholder]) ++ mid).set refs.length v = refs ++ [v] ++ mid := by
  induction refs with
  | nil => simp
  | cons x xs ih => simpa using ih

/-- the same fact for marshal.c's reserve (a NULL slot) / insert -/
theorem spec_reserve_insert (refs mid : List (Option V)) (v : V) :
    ((refs ++ [none]) ++ mid).set refs.length (some v) = refs ++ [some v] ++ mid := by
  induction refs with
  | nil => simp
  | cons x xs ih => simpa using ih

/-- 15-bit digits: the value xdis accumulates (`d += md << j*15`) is marshal.c's
    Σ digit_j · 2^(15 j) -/
theorem digit_step (acc md : Int) (j : Nat) : acc + md * (2 : Int) ^ (j * 15) = acc + md * 2 ^ (15 * j) := by
  rw [Nat.mul_comm]

/-- non-vacuity / regression witness (kernel-evaluated on the real Model): a FLAG_REF'd
    '(' tuple referenced twice comes back twice, and '<' is a set -/
example : (loadCode 3413 [3, 8] false 400
      [0xa9, 2, 0xa8, 2, 0, 0, 0, 0xe9, 0, 0, 0, 0, 0xe9, 1, 0, 0, 0, 0x72, 1, 0, 0, 0]).toOption.map (·.2.length) = some 0 := by
  decide +kernel

end XV.Props.C10

"""C04 — jump targets, labels, is_jump_target.  Theorems: lean/XV/Props/C04.lean."""
import json
import random

import core
import progrun
import gen_code
import gen_lines
from worker import Worker, Oracle
from props.C02 import load_refs

RULE = ("code strings over every jump opcode of every table (relative/absolute, forward/backward, operands >= 256 and "
        "needing EXTENDED_ARG, cached jumps of 3.12/3.13) plus 3.11+ exception tables; findlabels, per-instruction targets "
        "and is_jump_target compared with the matching CPython (2.7, 3.6-3.13) or the Lean Spec; distinct = distinct (table, code)")


def jump_cases(rng, info, n):
    """code strings rich in jumps; some with all targets inside the code"""
    out = []
    jumps = [op for op in info["ops"] if op in info["jrel"] or op in info["jabs"]]
    plain = [op for op in info["ops"] if op not in info["hasarg"]][:6] or info["ops"][:3]
    for op in jumps:
        for arg in (0, 1, 3, 127, 128, 255, 256, 300, 65535, 70000):
            if arg > 0xFFFF and info["ext"] is None:
                continue
            pre = bytes(sum([gen_code.emit(info, rng.choice(plain), 0) for _ in range(rng.randrange(0, 4))], []))
            out.append(pre + bytes(gen_code.emit(info, op, arg)) + bytes(gen_code.emit(info, rng.choice(plain), 0)))
    for _ in range(n):
        seq = []
        for _ in range(rng.randrange(2, 12)):
            if jumps and rng.randrange(3) == 0:
                op = rng.choice(jumps)
                seq.append((op, rng.choice([0, 1, 2, 3, 4, 5, 8, 300])))
            else:
                seq.append((rng.choice(plain), 0))
        out.append(bytes(sum([gen_code.emit(info, o, a) for o, a in seq], [])))
    return out


def run(ctx):
    rep, drv = ctx.rep, ctx.driver
    rng = random.Random(ctx.seed)
    refs = load_refs()
    tabs = ctx.tables["optables"]
    w = Worker()
    oracles = {}
    progrun.apply(ctx, "diff_labels", "labels / jump targets / is_jump_target")
    try:
        N = 12 if not ctx.thorough else 400
        names = [it.split(":")[0] for it in drv.ask(["c09.tables"])[0].split()]
        for tn in names:
            t = tabs[tn]
            v = tuple(t["version_tuple"][:2])
            ref = refs.get(v) if not t["is_pypy"] else None
            info = gen_code.table_info(t, ref)
            if info["cache"] is None:
                info["cache"] = {}
            cases = jump_cases(rng, info, N)
            louts = drv.ask(sum([["x.labels %s %s" % (tn, c.hex()), "py.labels %s %s" % (tn, c.hex()),
                                  "x.targets %s %s" % (tn, c.hex()), "py.targets %s %s" % (tn, c.hex())] for c in cases], []))
            o = None
            if ref is not None and v in core.ORACLES:
                if v not in oracles:
                    oracles[v] = Oracle(v)
                o = oracles[v]
            for k, code in enumerate(cases):
                ml, sl, mt, st = louts[4 * k:4 * k + 4]
                inp = {"table": tn, "version": list(v), "code": code.hex()}
                rep.count(1, (tn, code))
                rl = w.r("findlabels", table=tn, code=code.hex())
                il = ",".join(str(x) for x in rl["labels"]) or "-" if "labels" in rl else "(err %s)" % rl.get("err")
                ri = w.r("instrs", table=tn, code=code.hex())
                if "instrs" not in ri:
                    rep.violation("decode:%s:%s" % (tn, code.hex()), "decoder raised %s on %s" % (ri.get("err"), inp), inp)
                    continue
                it = ",".join("%d:%s" % (i["offset"], i["argval"]) for i in ri["instrs"] if i["optype"] in ("jrel", "jabs") and i["arg"] is not None) or "-"
                ijt = sorted(i["offset"] for i in ri["instrs"] if i["jt"])
                offs = set(i["offset"] for i in ri["instrs"])
                truth_l, truth_t, src = sl, st, "Spec (no interpreter for this table)"
                if o is not None:
                    ol = o.r("findlabels", code=code.hex())
                    if isinstance(ol, dict):
                        continue
                    ols = ",".join(str(x) for x in ol) or "-"
                    if v < (3, 6) and "ext" in str(ri) and any(i["ext"] for i in ri.get("instrs", [])):
                        # 2.7's dis.findlabels ignores EXTENDED_ARG (dis.disassemble does not): the
                        # interpreter jumps to the folded operand, which is what the Spec computes
                        ols = sl
                    if sorted(ols.split(",")) != sorted(sl.split(",")):
                        rep.notes.append("spec_drift labels %s: spec %s oracle %s" % (inp, sl, ols))
                    truth_l, src = ols, "CPython %d.%d dis" % v
                    if v >= (3, 6):
                        oi = o.r("instrs", code=code.hex())
                        if isinstance(oi, list):
                            jset = set(info["jrel"]) | set(info["jabs"])
                            ot = ",".join("%d:%s" % (i["offset"], i["argval"]) for i in oi if i["opcode"] in jset and i["arg"] is not None) or "-"
                            if ot != st:
                                rep.notes.append("spec_drift targets %s: spec %s oracle %s" % (inp, st, ot))
                            truth_t = ot
                # labels (as a set) and targets
                if "labels" not in rl or sorted(il.split(",")) != sorted(truth_l.split(",")):
                    rep.violation("labels:%s:%s" % (tn, code.hex()), "findlabels differs from %s on %s: xdis %s expected %s" % (src, inp, il, truth_l),
                                  dict(inp, call="opc.findlabels(code, opc)", actual=il, expected=truth_l, oracle=src))
                elif il != ml:
                    rep.violation("corr:labels:%s:%s" % (tn, code.hex()), "Model of findlabels disagrees with implementation on %s: impl %s model %s" % (inp, il, ml),
                                  dict(inp, impl=il, model=ml), found_input=False)
                if it != truth_t:
                    rep.violation("targets:%s:%s" % (tn, code.hex()), "jump argval differs from %s on %s: xdis %s expected %s" % (src, inp, it, truth_t),
                                  dict(inp, call="Instruction.argval of jump instructions", actual=it, expected=truth_t, oracle=src))
                elif it != mt:
                    rep.violation("corr:targets:%s:%s" % (tn, code.hex()), "Model of the jump branch disagrees with implementation on %s: impl %s model %s" % (inp, it, mt),
                                  dict(inp, impl=it, model=mt), found_input=False)
                # is_jump_target <-> membership in the label set (agreement "with each other")
                if "labels" in rl:
                    want = sorted(set(rl["labels"]) & offs)
                    if ijt != want:
                        rep.violation("jt:%s:%s" % (tn, code.hex()), "is_jump_target flags %s but findlabels gives %s on %s" % (ijt, want, inp),
                                      dict(inp, actual=ijt, expected=want))
            rep.sample({"table": tn, "code": cases[0].hex(), "labels": louts[0], "targets": louts[2]})
            # 3.11+: exception-handler targets are jump targets too
            if v >= (3, 11) and o is not None:
                for _ in range(max(4, N // 3)):
                    code = bytes(sum([gen_code.emit(info, 9, 0) for _ in range(rng.choice([6, 30, 70, 200, 300]))], []))   # NOPs
                    nunits = len(code) // 2
                    es = []
                    for _ in range(rng.randrange(1, 4)):
                        s_ = rng.randrange(0, nunits)
                        l_ = rng.randrange(1, nunits - s_ + 1)
                        es.append("%d:%d:%d:%d:%d" % (s_, l_, rng.randrange(0, nunits), rng.randrange(0, 5), rng.randrange(2)))
                    exh = drv.ask(["py.encexc " + ",".join(es)])[0]
                    ri = w.r("instrs", table=tn, code=code.hex(), exctab=exh)
                    inp = {"table": tn, "code": code.hex(), "exception_table": exh, "entries": es}
                    rep.count(1, (tn, code, exh))
                    if "instrs" not in ri:
                        rep.violation("exc-jt:%s:%s" % (tn, exh), "decoder raised %s on %s" % (ri.get("err"), inp), inp)
                        continue
                    ijt = sorted(i["offset"] for i in ri["instrs"] if i["jt"])
                    want = sorted(set(2 * int(e.split(":")[2]) for e in es))
                    if ijt != want:
                        rep.violation("exc-jt:%s:%s:%s" % (tn, code.hex(), exh), "is_jump_target %s, handler targets %s on %s" % (ijt, want, inp),
                                      dict(inp, actual=ijt, expected=want))
    finally:
        w.close()
        for o in oracles.values():
            o.close()


def replay(ctx, rp):
    r = rp.get("replay", {})
    print(json.dumps(r, indent=1)[:1200])
    w = Worker()
    try:
        if rp["key"].startswith("labels") and "code" in r:
            got = w.r("findlabels", table=r["table"], code=r["code"])
            now = ",".join(str(x) for x in got.get("labels", [])) or "-"
            print("now:", now)
            if sorted(now.split(",")) != sorted(r["expected"].split(",")):
                ctx.rep.violation(rp["key"], rp["what"], r)
        elif rp["key"].startswith("targets") and "code" in r:
            ri = w.r("instrs", table=r["table"], code=r["code"])
            now = ",".join("%d:%s" % (i["offset"], i["argval"]) for i in ri.get("instrs", []) if i["optype"] in ("jrel", "jabs") and i["arg"] is not None) or "-"
            print("now:", now)
            if now != r["expected"]:
                ctx.rep.violation(rp["key"], rp["what"], r)
    finally:
        w.close()

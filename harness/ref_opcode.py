# Runs inside a reference CPython (2.7 .. 3.13); dumps its opcode module as JSON
# on stdout.  Syntax must stay valid on 2.7.
import json, sys, opcode, dis
d = {}
d["version"] = list(sys.version_info[:3])
d["opmap"] = sorted([[k, v] for k, v in opcode.opmap.items()], key=lambda kv: (kv[1], kv[0]))
d["opname"] = list(opcode.opname)
d["HAVE_ARGUMENT"] = opcode.HAVE_ARGUMENT
d["EXTENDED_ARG"] = opcode.EXTENDED_ARG
for a in ("hasjrel", "hasjabs", "hasconst", "hasname", "haslocal", "hasfree", "hascompare",
          "hasarg", "hasexc", "hasnargs"):
    v = getattr(opcode, a, None)
    d[a] = sorted(v) if v is not None else None
d["cmp_op"] = list(opcode.cmp_op)
ice = getattr(opcode, "_inline_cache_entries", None)
if ice is not None:
    if isinstance(ice, dict):
        # 3.13: name -> count
        d["cache"] = sorted([[opcode.opmap[k], v] for k, v in ice.items() if v and k in opcode.opmap])
    else:
        d["cache"] = [[i, v] for i, v in enumerate(ice) if v]
else:
    d["cache"] = []
try:
    import importlib.util
    mn = importlib.util.MAGIC_NUMBER
except Exception:
    import imp
    mn = imp.get_magic()
d["magic"] = [ord(c) if isinstance(c, str) else c for c in mn]
json.dump(d, sys.stdout)

/-
Model of operand resolution (bytecode.py, get_logical_instruction_at_offset, the branch
that sets argval for table-indexed opcodes) and of the 3.11+ split of
co_localsplusnames/kinds done by unmarshal.t_code.
Table entries are abstract identifiers (`Nat`): what matters is WHICH entry is chosen.
-/
import XV.Model.OpTable
import XV.Model.Decode
namespace XV.Model.Operand
open XV XV.Model

/-- the resolved operand: an entry of a table, the raw index (get_name_info's out-of-range
    fallback), a pair (3.13 super-instructions), or a comparison operator -/
inductive Res where
  | entry (id : Nat)
  | raw (n : Nat)
  | pair (a b : Res)
  | cmp (s : Str)
  | indexError
  | notTable
  deriving Repr, DecidableEq

/-- `get_name_info(idx, names)` with a table given -/
def nameInfo (idx : Nat) (names : List Nat) : Res :=
  match names[idx]? with
  | some n => .entry n
  | none => .raw idx

/-- `localsplusnames = varnames + tuple(name for name in cells if name not in varnames)` -/
def localsplus (varnames cells : List Nat) : List Nat :=
  varnames ++ cells.filter (fun c => !(varnames.contains c))

def s (x : String) : Str := str x

def nmLoadGlobal : Str := [76,79,65,68,95,71,76,79,66,65,76]
def nmLoadAttr : Str := [76,79,65,68,95,65,84,84,82]
def nmLoadSuperAttr : Str := [76,79,65,68,95,83,85,80,69,82,95,65,84,84,82]
def nmLFLF : Str := [76,79,65,68,95,70,65,83,84,95,76,79,65,68,95,70,65,83,84]
def nmSFLF : Str := [83,84,79,82,69,95,70,65,83,84,95,76,79,65,68,95,70,65,83,84]
def nmSFSF : Str := [83,84,79,82,69,95,70,65,83,84,95,83,84,79,82,69,95,70,65,83,84]
example : nmLoadGlobal = str "LOAD_GLOBAL" ∧ nmLoadAttr = str "LOAD_ATTR" ∧ nmLoadSuperAttr = str "LOAD_SUPER_ATTR" ∧
    nmLFLF = str "LOAD_FAST_LOAD_FAST" ∧ nmSFLF = str "STORE_FAST_LOAD_FAST" ∧ nmSFSF = str "STORE_FAST_STORE_FAST" := by decide

/-- argval of a table-indexed instruction; `cells` = co_cellvars + co_freevars -/
def resolve (t : OpTable) (op arg : Nat) (consts names varnames cells : List Nat) : Res :=
  let nm := t.opnameOf op
  let lp := localsplus varnames cells
  if t.constOps.contains op then
    match consts[arg]? with
    | some c => .entry c
    | none => .indexError
  else if t.nameOps.contains op then
    if verGe t.version 3 11 && nm == nmLoadGlobal then nameInfo (arg >>> 1) names
    else if verGe t.version 3 12 && nm == nmLoadAttr then nameInfo (arg >>> 1) names
    else if verGe t.version 3 12 && nm == nmLoadSuperAttr then nameInfo (arg >>> 2) names
    else nameInfo arg names
  else if t.isJrel op || t.isJabs op then .notTable
  else if t.localOps.contains op then
    if verGe t.version 3 13 && (nm == nmLFLF || nm == nmSFLF || nm == nmSFSF) then
      .pair (nameInfo (arg >>> 4) lp) (nameInfo (arg &&& 15) lp)
    else if verGe t.version 3 11 then nameInfo arg lp
    else nameInfo arg varnames
  else if t.freeOps.contains op then
    if verGe t.version 3 11 then nameInfo arg lp else nameInfo arg cells
  else if t.compareOps.contains op then
    let i := if verGe t.version 3 13 then arg >>> 5 else if verGe t.version 3 12 then arg >>> 4 else arg
    match t.cmpOp[i]? with
    | some c => .cmp c
    | none => .indexError
  else .notTable

/-! ### unmarshal.t_code: splitting co_localsplusnames by kind (3.11+) -/

def CO_FAST_LOCAL : Nat := 0x20
def CO_FAST_CELL : Nat := 0x40
def CO_FAST_FREE : Nat := 0x80

/-- the `for name, kind in zip(names, kinds)` loop: (varnames, cellvars, freevars) -/
def splitLocalsplus : List (Nat × Nat) → List Nat × List Nat × List Nat
  | [] => ([], [], [])
  | (name, kind) :: rest =>
    let (v, c, f) := splitLocalsplus rest
    if kind &&& CO_FAST_LOCAL ≠ 0 then
      if kind &&& CO_FAST_CELL ≠ 0 then (name :: v, name :: c, f) else (name :: v, c, f)
    else if kind &&& CO_FAST_CELL ≠ 0 then (v, name :: c, f)
    else if kind &&& CO_FAST_FREE ≠ 0 then (v, c, name :: f)
    else (v, c, f)

end XV.Model.Operand

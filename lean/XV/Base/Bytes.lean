/-
Base layer: bytes as `List Nat` (each element < 256 by the `AllBytes` predicate
where it matters), little-endian integers, two's complement.
Mathlib-free so that the driver links as a `lean_exe`.
-/
namespace XV

abbrev Bytes := List Nat

/-- every element is a byte -/
def AllBytes (bs : Bytes) : Prop := ∀ b ∈ bs, b < 256

instance (bs : Bytes) : Decidable (AllBytes bs) := by unfold AllBytes; infer_instance

/-- little-endian unsigned value of a byte string -/
def leNat : Bytes → Nat
  | [] => 0
  | b :: bs => b + 256 * leNat bs

/-- `n` little-endian bytes of `v` (truncating) -/
def toLE : Nat → Nat → Bytes
  | 0, _ => []
  | n + 1, v => (v % 256) :: toLE n (v / 256)

theorem toLE_length (n v : Nat) : (toLE n v).length = n := by
  induction n generalizing v with
  | zero => rfl
  | succ n ih => simp [toLE, ih]

theorem toLE_allBytes (n v : Nat) : AllBytes (toLE n v) := by
  induction n generalizing v with
  | zero => intro b hb; simp [toLE] at hb
  | succ n ih =>
    intro b hb
    simp [toLE] at hb
    rcases hb with h | h
    · omega
    · exact ih _ b h

theorem leNat_toLE (n v : Nat) (h : v < 256 ^ n) : leNat (toLE n v) = v := by
  induction n generalizing v with
  | zero => simp [toLE, leNat]; simp at h; omega
  | succ n ih =>
    simp only [toLE, leNat]
    have : v / 256 < 256 ^ n := by
      rw [Nat.div_lt_iff_lt_mul (by decide)]; rw [Nat.pow_succ] at h; omega
    rw [ih _ this]; omega

theorem leNat_lt (bs : Bytes) (h : AllBytes bs) : leNat bs < 256 ^ bs.length := by
  induction bs with
  | nil => simp [leNat]
  | cons b bs ih =>
    have hb : b < 256 := h b (by simp)
    have := ih (fun x hx => h x (by simp [hx]))
    simp only [leNat, List.length_cons, Nat.pow_succ]
    omega

theorem toLE_leNat (bs : Bytes) (h : AllBytes bs) : toLE bs.length (leNat bs) = bs := by
  induction bs with
  | nil => rfl
  | cons b bs ih =>
    have hb : b < 256 := h b (by simp)
    have ih' := ih (fun x hx => h x (by simp [hx]))
    simp only [List.length_cons, toLE, leNat]
    have h1 : (b + 256 * leNat bs) % 256 = b := by omega
    have h2 : (b + 256 * leNat bs) / 256 = leNat bs := by omega
    rw [h1, h2, ih']

/-- signed interpretation of an `n`-byte little-endian value -/
def signedOf (nbytes : Nat) (v : Nat) : Int :=
  if v < 256 ^ nbytes / 2 then (v : Int) else (v : Int) - (256 ^ nbytes : Nat)

/-- Python's `bytes[i:j]`-like helpers -/
def takeN (n : Nat) (bs : Bytes) : Bytes := bs.take n
def dropN (n : Nat) (bs : Bytes) : Bytes := bs.drop n

end XV

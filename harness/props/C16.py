"""C16 — native and portable code objects convert back and forth.  Theorems: lean/XV/Props/C16.lean."""
import json

import core
from worker import Worker

RULE = ("under each installed host able to import the package: every code object (functions, classes, comprehensions, "
        "generators, coroutines, try/with bodies, positional-only/keyword-only signatures) of several stdlib modules and "
        "snippets compiled by that host: codeType2Portable -> class check -> to_native() -> every co_* field compared with "
        "the original incl. the host's real line table and exception table; replace(); positional order handed to "
        "types.CodeType vs the Lean Model; distinct = distinct (host, code object)")


def run(ctx):
    rep, drv = ctx.rep, ctx.driver
    hosts = dict(core.HOSTS) if ctx.thorough else {k: v for k, v in core.HOSTS.items() if k in ((3, 8), (3, 10), (3, 11), (3, 13))}
    for hv, path in sorted(hosts.items()):
        w = Worker(path)
        try:
            r = w.r("native_roundtrip", limit=100000 if ctx.thorough else 220)
            if not isinstance(r, dict) or "total" not in r:
                rep.violation("worker:%d.%d" % hv, "native round trip could not run under %d.%d: %s" % (hv[0], hv[1], str(r)[:200]), {"host": path}, found_input=False)
                continue
            rep.count(r["total"])
            for i in range(min(r["total"], 400)):
                rep.distinct.add((hv, i))
            for where, kind, got, want in r["bad"]:
                rep.violation("native:%d.%d:%s:%s" % (hv[0], hv[1], kind, where), "host %d.%d, %s: %s: got %s, original %s" % (hv[0], hv[1], where, kind, got, want),
                              {"host": path, "code_object": where, "kind": kind, "actual": got, "expected": want,
                               "call": "codeType2Portable(co).to_native() / replace()"})
            o = w.r("to_native_arg_order")
            if isinstance(o, dict) and "order" in o:
                mo = drv.ask(["x.nativeargs %s" % o["cls"]])[0].split(",")
                ok = len(mo) == len(o["order"]) and all(m in ob.split("|") for m, ob in zip(mo, o["order"]))
                rep.count(1, ("argorder", hv))
                if not ok:
                    rep.violation("corr:nativeargs:%d.%d" % hv, "positional arguments of types.CodeType: implementation %s, Model %s" % (o["order"], mo),
                                  {"host": path, "impl": o["order"], "model": mo}, found_input=False)
            rep.sample({"host": "%d.%d" % hv, "code_objects": r["total"], "classes": r["classes"], "arg_order": (o.get("order") if isinstance(o, dict) else None)})
        finally:
            w.close()


def replay(ctx, rp):
    print(json.dumps(rp.get("replay"), indent=1)[:1000])
    run(ctx)

"""implementation-side ops for the decoder family (C02, C03, C04)"""
import importlib


def _tbl(name):
    return importlib.import_module("xdis.opcodes." + name)


def register(op):
    @op
    def instrs(a):
        from xdis.bytecode import get_instructions_bytes
        opc = _tbl(a["table"])
        code = bytes.fromhex(a["code"])
        kw = {}
        for k in ("varnames", "names", "constants", "cells"):
            if a.get(k) is not None:
                kw[k] = tuple(a[k])
        exc = None
        if a.get("exctab"):
            from xdis.bytecode import parse_exception_table
            exc = parse_exception_table(bytes.fromhex(a["exctab"]))
        out = []
        try:
            for i in get_instructions_bytes(code, opc, exception_entries=exc, **kw):
                av = i.argval
                if isinstance(av, tuple) and len(av) == 2:
                    av = list(av)
                elif not isinstance(av, (int, str, type(None))):
                    av = repr(av)
                out.append({"offset": i.offset, "opcode": i.opcode, "opname": i.opname, "arg": i.arg, "argval": av,
                            "size": i.inst_size, "ext": bool(i.has_extended_arg), "jt": bool(i.is_jump_target),
                            "optype": i.optype, "has_arg": bool(i.has_arg)})
        except Exception as e:  # noqa
            return {"err": type(e).__name__, "partial": len(out)}
        return {"instrs": out}

    @op
    def findlabels(a):
        opc = _tbl(a["table"])
        try:
            return {"labels": list(opc.findlabels(bytes.fromhex(a["code"]), opc))}
        except Exception as e:  # noqa
            return {"err": type(e).__name__}

    @op
    def unpack(a):
        import xdis.cross_dis as CD
        import xdis.wordcode as WC
        opc = _tbl(a["table"])
        f = {"bytecode": CD.unpack_opargs_bytecode, "wordcode": WC.unpack_opargs_wordcode,
             "310": CD.unpack_opargs_bytecode_310}[a["kind"]]
        try:
            return {"ops": [list(t) for t in f(bytes.fromhex(a["code"]), opc)]}
        except Exception as e:  # noqa
            return {"err": type(e).__name__}


def register_se(op):
    @op
    def stack_effects(a):
        from xdis.cross_dis import xstack_effect
        opc = _tbl(a["table"])
        out = []
        api = None
        if a.get("via_std"):
            # the std-style API object of that version: make_std_api(version, variant).stack_effect
            from xdis.std import make_std_api
            api = make_std_api(tuple(opc.version_tuple[:2]), "pypy" if getattr(opc, "is_pypy", False) else None)
        for o, arg in a["pairs"]:
            try:
                if api is not None:
                    out.append(api.stack_effect(o, arg) if arg is not None else api.stack_effect(o))
                    continue
                out.append(xstack_effect(o, opc, arg) if arg is not None else xstack_effect(o, opc))
            except Exception as e:  # noqa
                out.append("err:" + type(e).__name__)
        return out


_reg_dec = register


def register(op):  # noqa: F811
    _reg_dec(op)
    register_se(op)

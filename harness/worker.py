"""Client side of hostworker.py: a persistent implementation worker under a chosen host."""
import json
import os
import subprocess

import core


class Worker:
    def __init__(self, python=None, repo=None, extra_env=None):
        self.python = python or core.MAIN_HOST
        env = core.host_env(extra_env)
        if repo:
            env["PYTHONPATH"] = repo
        self.p = subprocess.Popen([self.python, os.path.join(core.HARNESS, "hostworker.py")],
                                  stdin=subprocess.PIPE, stdout=subprocess.PIPE, stderr=subprocess.PIPE,
                                  text=True, env=env, cwd="/")

    def call(self, op, **a):
        timeout = a.pop("_timeout", None)
        self.p.stdin.write(json.dumps({"op": op, "a": a}) + "\n")
        self.p.stdin.flush()
        if timeout is not None:
            import select
            ready, _, _ = select.select([self.p.stdout], [], [], timeout)
            if not ready:
                self.p.kill()
                raise TimeoutError("worker did not answer %s within %ss" % (op, timeout))
        line = self.p.stdout.readline()
        if not line:
            err = self.p.stderr.read()
            raise RuntimeError("worker died: " + err[-800:])
        return json.loads(line)

    def r(self, op, **a):
        rep = self.call(op, **a)
        if "exc" in rep:
            return {"err": rep["exc"], "msg": rep.get("msg")}
        return rep["r"]

    def close(self):
        try:
            self.p.stdin.close()
            self.p.wait(timeout=10)
        except Exception:
            self.p.kill()


class Oracle(Worker):
    """persistent oracle_server.py inside a reference interpreter"""

    def __init__(self, version):
        self.version = version
        self.python = core.ORACLES[version]
        env = dict(os.environ)
        env.pop("PYTHONPATH", None)
        env["PYTHONHASHSEED"] = "0"
        env["PYTHONDONTWRITEBYTECODE"] = "1"
        self.p = subprocess.Popen([self.python, os.path.join(core.HARNESS, "oracle_server.py")],
                                  stdin=subprocess.PIPE, stdout=subprocess.PIPE, stderr=subprocess.PIPE,
                                  universal_newlines=True, env=env, cwd="/")

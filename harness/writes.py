"""Static write-effect facts for C18, extracted from the ASTs under /repo/xdis on every run:
every place where state that outlives a call can be changed —
  default   a mutable default argument (shared by all calls)
  classattr a mutable class-level attribute (shared by all instances)
  global    a function body that rebinds (`global`), mutates (subscript / attribute store, augmented
            assignment, del, mutating method) a module-level name, an attribute of one, or a local
            alias of one (x = G; x = G[...]; x = M.attr; x = G.get(...))
  setattr   setattr()/attribute store on an object that is not self and not a local creation
Mutation of parameters and of objects created in the function is not a site: the digest of every
module-level container taken before and after each history (dynamic part of C18) covers those."""
import ast
import os

import core

MUTATORS = {"append", "extend", "insert", "pop", "remove", "clear", "update", "add", "discard", "setdefault", "sort", "reverse",
            "popitem", "appendleft", "extendleft", "popleft", "__setitem__", "__delitem__"}
MUTABLE_CALLS = {"list", "dict", "set", "deque", "defaultdict", "OrderedDict", "bytearray"}


def is_mutable_literal(n):
    if isinstance(n, (ast.List, ast.Dict, ast.Set, ast.ListComp, ast.DictComp, ast.SetComp)):
        return True
    if isinstance(n, ast.Call) and isinstance(n.func, ast.Name) and n.func.id in MUTABLE_CALLS:
        return True
    return False


def root_name(n):
    """the Name at the root of x, x.a, x[i], x.get(k) chains (no other calls)"""
    while True:
        if isinstance(n, ast.Name):
            return n.id
        if isinstance(n, ast.Attribute):
            n = n.value
        elif isinstance(n, ast.Subscript):
            n = n.value
        elif isinstance(n, ast.Call) and isinstance(n.func, ast.Attribute) and n.func.attr in ("get", "setdefault") :
            n = n.func.value
        else:
            return None


CLASS_MUTABLE = set()     # names of mutable class-level attributes anywhere in the package (filled by scan())


def func_sites(fn, rel, scope, module_names):
    sites = []
    params = {a.arg for a in fn.args.args + fn.args.kwonlyargs + getattr(fn.args, "posonlyargs", [])}
    if fn.args.vararg:
        params.add(fn.args.vararg.arg)
    if fn.args.kwarg:
        params.add(fn.args.kwarg.arg)
    declared_global = set()
    assigned = set()
    created = set()       # locals bound to a fresh object (literal / call result)
    alias = {}            # local -> global root it aliases
    body_nodes = []
    for stmt in fn.body:
        for sub in ast.walk(stmt):
            body_nodes.append(sub)
    for sub in body_nodes:
        if isinstance(sub, ast.Global):
            declared_global.update(sub.names)
    # local bindings
    for sub in body_nodes:
        targets = []
        if isinstance(sub, ast.Assign):
            targets = [(t, sub.value) for t in sub.targets]
        elif isinstance(sub, ast.AnnAssign) and sub.value is not None:
            targets = [(sub.target, sub.value)]
        elif isinstance(sub, (ast.For, ast.comprehension)):
            for t in ast.walk(sub.target):
                if isinstance(t, ast.Name):
                    assigned.add(t.id)
        elif isinstance(sub, ast.With):
            for it in sub.items:
                if it.optional_vars is not None:
                    for t in ast.walk(it.optional_vars):
                        if isinstance(t, ast.Name):
                            assigned.add(t.id)
        for t, v in targets:
            if isinstance(t, ast.Name) and t.id not in declared_global:
                assigned.add(t.id)
                r = root_name(v)
                if r is not None and not isinstance(v, ast.Name) or isinstance(v, ast.Name):
                    pass
                if r is not None:
                    alias.setdefault(t.id, set()).add(r)
                else:
                    created.add(t.id)
            elif isinstance(t, ast.Tuple):
                for e in ast.walk(t):
                    if isinstance(e, ast.Name):
                        assigned.add(e.id)
                        created.add(e.id)
    local = (assigned | params) - declared_global

    def global_root(name, seen=()):
        """the module-level name `name` stands for, or None when it is a parameter / fresh local"""
        if name in seen:
            return None
        if name in declared_global:
            return name
        if name in params:
            return None
        if name in alias:
            for r in alias[name]:
                g = global_root(r, seen + (name,)) if (r in local) else r
                if g is not None and g not in ("self", "cls"):
                    return g
            return None
        if name in local:
            return None
        return name

    def note(kind, node, target_root, detail):
        if target_root in ("self", "cls", None):
            return
        g = global_root(target_root)
        if g is None:
            return
        sites.append((kind, rel, scope, "%s%s" % (g, detail), node.lineno))

    for sub in body_nodes:
        if isinstance(sub, (ast.Assign, ast.AugAssign, ast.AnnAssign)):
            tl = sub.targets if isinstance(sub, ast.Assign) else [sub.target]
            for t in tl:
                for e in ([t] if not isinstance(t, ast.Tuple) else t.elts):
                    if isinstance(e, ast.Name):
                        if e.id in declared_global:
                            sites.append(("global", rel, scope, e.id + " =", sub.lineno))
                        elif isinstance(sub, ast.AugAssign) and global_root(e.id) is not None and e.id in alias:
                            note("global", sub, e.id, " op=")
                    elif isinstance(e, (ast.Subscript, ast.Attribute)):
                        note("global", sub, root_name(e.value), "[...] =" if isinstance(e, ast.Subscript) else "." + e.attr + " =")
                        # x.attr[...] = v where attr is a class-level container somewhere: reaches the shared object
                        # unless x.attr was rebound on the instance first
                        if isinstance(e, ast.Subscript) and isinstance(e.value, ast.Attribute) and e.value.attr in CLASS_MUTABLE:
                            sites.append(("classattr-store", rel, scope, "%s.%s[...] =" % (root_name(e.value.value), e.value.attr), sub.lineno))
        elif isinstance(sub, ast.Delete):
            for e in sub.targets:
                if isinstance(e, (ast.Subscript, ast.Attribute)):
                    note("global", sub, root_name(e.value), " del")
        elif isinstance(sub, ast.Call):
            f = sub.func
            if isinstance(f, ast.Attribute) and f.attr in MUTATORS:
                note("global", sub, root_name(f.value), "." + f.attr + "()")
                if isinstance(f.value, ast.Attribute) and f.value.attr in CLASS_MUTABLE:
                    sites.append(("classattr-store", rel, scope, "%s.%s.%s()" % (root_name(f.value.value), f.value.attr, f.attr), sub.lineno))
            elif isinstance(f, ast.Name) and f.id in ("setattr", "delattr") and sub.args:
                r = root_name(sub.args[0])
                if r not in ("self", "cls", None):
                    g = global_root(r)
                    # setattr on a parameter is reported too: it is how tables are patched in place
                    sites.append(("setattr", rel, scope, "%s(%s, ...)" % (f.id, g if g is not None else "param:" + r), sub.lineno))
    return sites


def class_mutables():
    names = set()
    root = os.path.join(core.REPO, "xdis")
    for d, _, fs in os.walk(root):
        for f in sorted(fs):
            if f.endswith(".py"):
                try:
                    tree = ast.parse(open(os.path.join(d, f)).read())
                except SyntaxError:
                    continue
                for n in ast.walk(tree):
                    if isinstance(n, ast.ClassDef):
                        for st in n.body:
                            if isinstance(st, ast.Assign) and len(st.targets) == 1 and isinstance(st.targets[0], ast.Name) and is_mutable_literal(st.value):
                                names.add(st.targets[0].id)
                            elif isinstance(st, ast.AnnAssign) and st.value is not None and isinstance(st.target, ast.Name) and is_mutable_literal(st.value):
                                names.add(st.target.id)
    return names


def scan():
    sites = []
    CLASS_MUTABLE.clear()
    CLASS_MUTABLE.update(class_mutables())
    root = os.path.join(core.REPO, "xdis")
    for d, _, fs in os.walk(root):
        for f in sorted(fs):
            if not f.endswith(".py"):
                continue
            path = os.path.join(d, f)
            rel = os.path.relpath(path, core.REPO)
            try:
                tree = ast.parse(open(path).read())
            except SyntaxError:
                continue
            module_names = set()

            def visit(node, scope, in_class):
                for ch in ast.iter_child_nodes(node):
                    if isinstance(ch, (ast.FunctionDef, ast.AsyncFunctionDef)):
                        q = (scope + "." if scope else "") + ch.name
                        args = ch.args
                        pos = getattr(args, "posonlyargs", []) + args.args
                        for a, dflt in zip(pos[len(pos) - len(args.defaults):], args.defaults):
                            if is_mutable_literal(dflt):
                                sites.append(("default", rel, q, a.arg, ch.lineno))
                        for a, dflt in zip(args.kwonlyargs, args.kw_defaults):
                            if dflt is not None and is_mutable_literal(dflt):
                                sites.append(("default", rel, q, a.arg, ch.lineno))
                        sites.extend(func_sites(ch, rel, q, module_names))
                        visit(ch, q, False)
                    elif isinstance(ch, ast.ClassDef):
                        q = (scope + "." if scope else "") + ch.name
                        for st in ch.body:
                            tv = None
                            if isinstance(st, ast.Assign) and len(st.targets) == 1 and isinstance(st.targets[0], ast.Name):
                                tv = (st.targets[0].id, st.value)
                            elif isinstance(st, ast.AnnAssign) and st.value is not None and isinstance(st.target, ast.Name):
                                tv = (st.target.id, st.value)
                            if tv and is_mutable_literal(tv[1]):
                                sites.append(("classattr", rel, q, tv[0], st.lineno))
                        visit(ch, q, True)
                    elif isinstance(ch, (ast.If, ast.Try, ast.With, ast.For, ast.While)):
                        visit(ch, scope, in_class)
            visit(tree, "", False)
    # one entry per (kind, file, scope, target); line numbers are informative only
    out = {}
    for kind, rel, scope, target, line in sites:
        out.setdefault((kind, rel, scope, target), line)
    return [[k[0], k[1], k[2], k[3], v] for k, v in sorted(out.items())]


def allow():
    out = []
    for ln in open(os.path.join(core.VERIF, "ref", "write_sites.txt")):
        ln = ln.split("#")[0].rstrip()
        if ln.strip():
            parts = ln.split("\t")
            out.append([p.strip() for p in parts[:5]])
    return out


if __name__ == "__main__":
    for s in scan():
        print("\t".join(str(x) for x in s))

/-
C14 — the loads direction: for EVERY plain value, `xdis.marsh.loads` (Model of `_FastUnmarshaller`)
applied to the bytes marshal.c's writer produces in the text-float format versions 0 and 1
(Spec.MarshalW, validated byte-for-byte against the hosts) gives the value back, of the same kinds,
consuming all bytes.
-/
import XV.Props.C14.Dumps
import XV.Model.FastLoad
import XV.Spec.MarshalW
namespace XV.Props.C14.Loads
open XV XV.Model.Unmarshal XV.Model.FastLoad XV.Spec.MarshalW XV.Props.C14 XV.Props.C14.Dumps
set_option linter.unusedVariables false
set_option linter.unusedSimpArgs false

/-! ### the Spec writer's helpers are the functions already analysed for the writer Model -/

theorem w32_eq (x : Int) : w32 x = Model.Marsh.wLong x := rfl
theorem w16_eq (d : Nat) : w16 d = Model.Marsh.wShort d := rfl
theorem digits_eq (f x : Nat) : digits f x = Model.Marsh.digits15 f x := by
  induction f generalizing x with
  | zero => rfl
  | succ f ih => simp only [digits, Model.Marsh.digits15, ih]
theorem encUtf8_eq (cs : List Nat) : encUtf8 cs = Model.Marsh.utf8Enc cs := by
  induction cs with
  | nil => rfl
  | cons c cs ih => simp only [encUtf8, Model.Marsh.utf8Enc, ih]

theorem w32_length (x : Int) : (w32 x).length = 4 := by simp [w32, toLE_length]

/-! ### run lemmas for the fast reader's primitives -/

def fst (inp : Bytes) (strs : List V) : FSt := { inp := inp, strs := strs }

theorem run_bind (p : F α) (f : α → F β) (s : FSt) :
    (p >>= f).run s = match p.run s with | .ok (a, s') => (f a).run s' | .error er => .error er := by
  simp only [StateT.run, bind, StateT.bind, Except.bind]
  cases p s <;> rfl

theorem run_pure (a : α) (s : FSt) : (pure a : F α).run s = .ok (a, s) := rfl

theorem read1_app (b : Nat) (tail : Bytes) (s : List V) : read1.run (fst (b :: tail) s) = .ok (b, fst tail s) := rfl

theorem read_app (k : Nat) (b tail : Bytes) (hk : b.length = k) (s : List V) :
    (Model.FastLoad.read (k : Int)).run (fst (b ++ tail) s) = .ok (b, fst tail s) := by
  unfold Model.FastLoad.read
  subst hk
  have h1 : ¬ (((b.length : Nat) : Int) < 0 ∨ (b ++ tail).length < ((b.length : Nat) : Int).toNat) := by simp
  have ht : (b ++ tail).take ((b.length : Nat) : Int).toNat = b := by simp
  have hd : (b ++ tail).drop ((b.length : Nat) : Int).toNat = tail := by simp
  simp only [fst, bind, StateT.bind, get, getThe, MonadStateOf.get, StateT.get, pure, Except.pure, StateT.run, set,
    StateT.set, StateT.pure, Except.bind, h1, if_false, ht, hd]

theorem rLong_gen (b : Bytes) (hb : b.length = 4) (tail : Bytes) (s : List V) :
    rLong.run (fst (b ++ tail) s) = .ok (signedOf 4 (leNat b), fst tail s) := by
  unfold rLong
  have hl : ¬ ((b ++ tail).length < 4) := by simp; omega
  have ht : (b ++ tail).take 4 = b := by
    rw [List.take_append_of_le_length (by omega)]
    exact List.take_of_length_le (by omega)
  have hd : (b ++ tail).drop 4 = tail := by
    rw [List.drop_append_of_le_length (by omega)]
    simp [List.drop_of_length_le, hb]
  simp only [fst, bind, StateT.bind, get, getThe, MonadStateOf.get, StateT.get, pure, Except.pure, StateT.run, set,
    StateT.set, StateT.pure, Except.bind, hl, if_false, ht, hd]

theorem rLong_app (x : Int) (h1 : -2147483648 ≤ x) (h2 : x < 2147483648) (tail : Bytes) (s : List V) :
    rLong.run (fst (w32 x ++ tail) s) = .ok (x, fst tail s) := by
  rw [rLong_gen (w32 x) (w32_length x), w32_eq, wLong_roundtrip x h1 h2]

theorem rShort_app (d : Nat) (h : d < 32768) (tail : Bytes) (s : List V) :
    rShort.run (fst (w16 d ++ tail) s) = .ok ((d : Int), fst tail s) := by
  have hw : w16 d = [d % 65536 % 256, d % 65536 / 256 % 256] := rfl
  unfold rShort
  rw [hw]
  simp only [List.cons_append, List.nil_append]
  rw [run_bind, read1_app]
  simp only []
  rw [run_bind, read1_app]
  simp only [run_pure]
  have hp : (256 : Nat) ^ 2 = 65536 := by decide
  have hv : leNat [d % 65536 % 256, d % 65536 / 256 % 256] = d := by
    have := leNat_toLE 2 (d % 65536) (by rw [hp]; omega)
    rw [show toLE 2 (d % 65536) = [d % 65536 % 256, d % 65536 / 256 % 256] from rfl] at this
    rw [this]; omega
  rw [hv]
  unfold signedOf
  have : d < 256 ^ 2 / 2 := by rw [hp]; omega
  simp [this]

/-! ### the digit loop: `x | (d << 15 i)` adds, because the accumulated value stays below 2^(15 i) -/

theorem pyOr_nat (a b : Nat) : pyOr (a : Int) (b : Int) = ((a ||| b : Nat) : Int) := rfl

theorem or_shift (a d k : Nat) (ha : a < 2 ^ k) : a ||| d * 2 ^ k = a + d * 2 ^ k := by
  have := Nat.shiftLeft_add_eq_or_of_lt ha d
  rw [Nat.shiftLeft_eq] at this
  rw [Nat.or_comm, ← this, Nat.add_comm]

theorem pow15n (j : Nat) : (2 : Nat) ^ ((j + 1) * 15) = 32768 * 2 ^ (j * 15) := by
  have : (j + 1) * 15 = j * 15 + 15 := by omega
  rw [this, Nat.pow_add]
  have : (2 : Nat) ^ 15 = 32768 := by decide
  rw [this, Nat.mul_comm]

theorem rdigits_app (ds : List Nat) (hds : ∀ d ∈ ds, d < 32768) (j a : Nat) (ha : a < 2 ^ (j * 15)) (tail : Bytes) (s : List V) :
    (Model.FastLoad.rDigits ds.length j (a : Int)).run (fst (ds.flatMap w16 ++ tail) s) =
      .ok (((a + digitsVal ds * 2 ^ (j * 15) : Nat) : Int), fst tail s) := by
  induction ds generalizing j a with
  | nil => simp [Model.FastLoad.rDigits, digitsVal, run_pure]; rfl
  | cons d ds ih =>
    have hd : d < 32768 := hds d (by simp)
    have hrest : ∀ x ∈ ds, x < 32768 := fun x hx => hds x (by simp [hx])
    simp only [List.length_cons, List.flatMap_cons, List.append_assoc]
    rw [Model.FastLoad.rDigits, run_bind, rShort_app d hd]
    simp only []
    have hc : (d : Int) * (2 : Int) ^ (j * 15) = ((d * 2 ^ (j * 15) : Nat) : Int) := by
      simp [Int.natCast_mul, Int.natCast_pow]
    rw [hc, pyOr_nat, or_shift a d (j * 15) ha]
    have hlt : a + d * 2 ^ (j * 15) < 2 ^ ((j + 1) * 15) := by
      rw [pow15n]
      have : d * 2 ^ (j * 15) ≤ 32767 * 2 ^ (j * 15) := Nat.mul_le_mul_right _ (by omega)
      generalize 2 ^ (j * 15) = p at *
      generalize d * p = q at *
      omega
    rw [ih hrest (j + 1) _ hlt]
    have he : a + d * 2 ^ (j * 15) + digitsVal ds * 2 ^ ((j + 1) * 15) = a + digitsVal (d :: ds) * 2 ^ (j * 15) := by
      rw [pow15n]
      simp only [digitsVal]
      generalize 2 ^ (j * 15) = p
      generalize digitsVal ds = w
      rw [Nat.add_mul, Nat.add_assoc, Nat.mul_assoc, Nat.mul_left_comm w 32768 p]
    rw [he]

/-! ### the plain values of the loads direction -/

mutual
/-- values marshal.c writes in versions 0/1 that the property speaks of; size fields fit 31 bits; set elements
    and dict keys are hashable (true of every Python set and dict) -/
def PlainW : V → Bool
  | .none | .tru | .fls | .ellipsis | .stopIter => true
  | .int i | .long i => decide ((digits (i.natAbs + 1) i.natAbs).length < 2147483648)
  | .floatText s => decide (s.length < 256)
  | .complexText r i => decide (r.length < 256) && decide (i.length < 256)
  | .bytes b => decide (b.length < 2147483648)
  | .str cps => cps.all (· < 0x110000) && decide ((encUtf8 cps).length < 2147483648)
  | .tuple xs | .list xs => decide (xs.length < 2147483648) && PlainWL xs
  | .set xs | .fset xs => decide (xs.length < 2147483648) && PlainWL xs && hashableL xs
  | .dict kvs => PlainWKV kvs
  | _ => false
def PlainWL : List V → Bool
  | [] => true
  | x :: xs => PlainW x && PlainWL xs
def PlainWKV : List (V × V) → Bool
  | [] => true
  | (k, v) :: r => PlainW k && PlainW v && hashable k && PlainWKV r
end

mutual
theorem hashable_norm : (v : V) → hashable (norm v) = hashable v
  | .tuple xs => by simp only [norm, hashable]; exact hashableL_norm xs
  | .none | .tru | .fls | .ellipsis | .stopIter | .int _ | .long _ | .float _ | .floatText _ | .complex _ _
  | .complexText _ _ | .bytes _ | .str _ | .u2 _ | .list _ | .set _ | .fset _ | .dict _ | .code _ => by simp [norm, hashable]
theorem hashableL_norm : (xs : List V) → hashableL (normL xs) = hashableL xs
  | [] => rfl
  | x :: xs => by simp only [normL, hashableL, hashable_norm x, hashableL_norm xs]
end

def StmtA (fuel : Nat) : Prop :=
  ∀ v, PlainW v = true → size v ≤ fuel → ∀ tail s,
    (load fuel).run (fst (wObj v ++ tail) s) = .ok (some (norm v), fst tail s)
def StmtB (fuel : Nat) : Prop :=
  ∀ xs, PlainWL xs = true → sizeL xs ≤ fuel → ∀ tail s,
    (loadItems fuel xs.length).run (fst (wList xs ++ tail) s) = .ok (normL xs, fst tail s)
def StmtC (fuel : Nat) : Prop :=
  ∀ kvs, PlainWKV kvs = true → sizeKV kvs ≤ fuel → ∀ tail s,
    (loadDict fuel).run (fst (wKVs kvs ++ 48 :: tail) s) = .ok (normKV kvs, fst tail s)

theorem leaf_none (f : Nat) (tail : Bytes) (s : List V) :
    (load (f + 1)).run (fst (78 :: tail) s) = .ok (some V.none, fst tail s) := by
  rw [load, run_bind, read1_app]
  rfl

theorem load_null (f : Nat) (tail : Bytes) (s : List V) :
    (load (f + 1)).run (fst (48 :: tail) s) = .ok (none, fst tail s) := by
  rw [load, run_bind, read1_app]
  rfl

/-- the int case: 'i' for 32-bit values, else 'l' with the digit loop -/
theorem int_case (i : Int) (hp : (digits (i.natAbs + 1) i.natAbs).length < 2147483648) (f : Nat) (tail : Bytes) (s : List V) :
    (load (f + 1)).run (fst (wInt i ++ tail) s) = .ok (some (V.int i), fst tail s) := by
  unfold wInt
  by_cases hr : -2147483648 ≤ i ∧ i < 2147483648
  · simp only [hr, and_self, if_true, List.cons_append, List.nil_append]
    rw [load, run_bind, read1_app]
    show (do let x ← rLong; pure (some (V.int x)) : F (Option V)).run _ = _
    rw [run_bind, rLong_app i hr.1 hr.2]
    rfl
  · simp only [hr, if_false]
    rw [digits_eq] at hp ⊢
    obtain ⟨hv, hlt, hlast⟩ := digits15_spec (i.natAbs + 1) i.natAbs (by omega)
    generalize hds : Model.Marsh.digits15 (i.natAbs + 1) i.natAbs = ds at hv hlt hlast hp
    simp only [List.cons_append, List.nil_append, List.append_assoc]
    rw [load, run_bind, read1_app]
    show (do let size ← rLong; let x ← Model.FastLoad.rDigits size.natAbs 0 0
             pure (some (V.int (if size < 0 then -x else x))) : F (Option V)).run _ = _
    rw [run_bind, rLong_app _ (by split <;> omega) (by split <;> omega)]
    simp only []
    have hna : (if i < 0 then -(ds.length : Int) else (ds.length : Int)).natAbs = ds.length := by split <;> omega
    rw [run_bind, hna]
    have := rdigits_app ds hlt 0 0 (by simp) tail s
    simp only [Nat.zero_mul, Nat.pow_zero, Nat.mul_one, Nat.zero_add, Int.natCast_zero] at this
    rw [this, hv]
    simp only [run_pure]
    have hne : ds ≠ [] := by
      intro h; subst h
      simp [digitsVal] at hv
      omega
    have hpos : 0 < ds.length := by cases ds with | nil => exact absurd rfl hne | cons a as => simp
    have hval : (if (if i < 0 then -(ds.length : Int) else (ds.length : Int)) < 0 then -(i.natAbs : Int) else (i.natAbs : Int)) = i := by
      by_cases hi : i < 0
      · have : -(ds.length : Int) < 0 := by omega
        simp only [hi, if_true, this]; omega
      · have : ¬ ((ds.length : Int) < 0) := by omega
        simp only [hi, if_false, this]; omega
    rw [hval]

/-- a sequence container: size field, item loop -/
theorem seq_case (tc : Nat) (xs : List V) (f : Nat) (tail : Bytes) (s : List V) (hlen : xs.length < 2147483648)
    (hitems : (loadItems f xs.length).run (fst (wList xs ++ tail) s) = .ok (normL xs, fst tail s)) :
    (tc = 40 → (load (f + 1)).run (fst (40 :: (w32 (xs.length : Int) ++ (wList xs ++ tail))) s) = .ok (some (V.tuple (normL xs)), fst tail s)) ∧
    (tc = 91 → (load (f + 1)).run (fst (91 :: (w32 (xs.length : Int) ++ (wList xs ++ tail))) s) = .ok (some (V.list (normL xs)), fst tail s)) ∧
    (tc = 60 → hashableL xs = true →
      (load (f + 1)).run (fst (60 :: (w32 (xs.length : Int) ++ (wList xs ++ tail))) s) = .ok (some (V.set (normL xs)), fst tail s)) ∧
    (tc = 62 → hashableL xs = true →
      (load (f + 1)).run (fst (62 :: (w32 (xs.length : Int) ++ (wList xs ++ tail))) s) = .ok (some (V.fset (normL xs)), fst tail s)) := by
  refine ⟨?_, ?_, ?_, ?_⟩
  · intro _
    rw [load, run_bind, read1_app]
    show (do let n ← rLong; let ys ← loadItems f n.toNat; pure (some (V.tuple ys)) : F (Option V)).run _ = _
    rw [run_bind, rLong_app _ (by omega) (by omega)]
    simp only [Int.toNat_natCast]
    rw [run_bind, hitems]
    rfl
  · intro _
    rw [load, run_bind, read1_app]
    show (do let n ← rLong; let ys ← loadItems f n.toNat; pure (some (V.list ys)) : F (Option V)).run _ = _
    rw [run_bind, rLong_app _ (by omega) (by omega)]
    simp only [Int.toNat_natCast]
    rw [run_bind, hitems]
    rfl
  · intro _ hh
    rw [load, run_bind, read1_app]
    show (do let n ← rLong; let ys ← loadItems f n.toNat
             if hashableL ys then pure (some (V.set ys)) else throw FErr.typeError : F (Option V)).run _ = _
    rw [run_bind, rLong_app _ (by omega) (by omega)]
    simp only [Int.toNat_natCast]
    rw [run_bind, hitems]
    simp only [hashableL_norm, hh, if_true]
    rfl
  · intro _ hh
    rw [load, run_bind, read1_app]
    show (do let n ← rLong; let ys ← loadItems f n.toNat
             if hashableL ys then pure (some (V.fset ys)) else throw FErr.typeError : F (Option V)).run _ = _
    rw [run_bind, rLong_app _ (by omega) (by omega)]
    simp only [Int.toNat_natCast]
    rw [run_bind, hitems]
    simp only [hashableL_norm, hh, if_true]
    rfl

theorem stepB (fuel : Nat) (hA : StmtA fuel) (hB : StmtB fuel) : StmtB (fuel + 1) := by
  intro xs hp hs tail s
  cases xs with
  | nil => rfl
  | cons x xs =>
    simp only [PlainWL, Bool.and_eq_true] at hp
    simp only [sizeL] at hs
    simp only [List.length_cons, wList, List.append_assoc, normL]
    rw [loadItems, run_bind, hA x hp.1 (by omega)]
    simp only []
    rw [run_bind, hB xs hp.2 (by omega)]
    rfl

theorem stepC (fuel : Nat) (hA : StmtA fuel) (hC : StmtC fuel) : StmtC (fuel + 1) := by
  intro kvs hp hs tail s
  cases kvs with
  | nil =>
    simp only [wKVs, List.nil_append, normKV]
    simp only [sizeKV] at hs
    obtain ⟨f', rfl⟩ : ∃ f', fuel = f' + 1 := ⟨fuel - 1, by omega⟩
    rw [loadDict, run_bind, load_null]
    rfl
  | cons kv kvs =>
    obtain ⟨k, v⟩ := kv
    simp only [PlainWKV, Bool.and_eq_true] at hp
    simp only [sizeKV] at hs
    simp only [wKVs, List.append_assoc, normKV]
    rw [loadDict, run_bind, hA k hp.1.1.1 (by omega)]
    simp only []
    rw [run_bind, hA v hp.1.1.2 (by omega)]
    simp only [hashable_norm, hp.1.2, if_true]
    rw [run_bind, hC kvs hp.2 (by omega)]
    rfl

theorem stepA (fuel : Nat) (hB : StmtB fuel) (hC : StmtC fuel) : StmtA (fuel + 1) := by
  intro v hp hs tail s
  cases v with
  | none => rw [wObj, List.cons_append, List.nil_append, load, run_bind, read1_app]; rfl
  | tru => rw [wObj, List.cons_append, List.nil_append, load, run_bind, read1_app]; rfl
  | fls => rw [wObj, List.cons_append, List.nil_append, load, run_bind, read1_app]; rfl
  | ellipsis => rw [wObj, List.cons_append, List.nil_append, load, run_bind, read1_app]; rfl
  | stopIter => rw [wObj, List.cons_append, List.nil_append, load, run_bind, read1_app]; rfl
  | int i =>
    simp only [PlainW, decide_eq_true_eq] at hp
    rw [wObj]
    exact int_case i hp fuel tail s
  | long i =>
    simp only [PlainW, decide_eq_true_eq] at hp
    rw [wObj]
    exact int_case i hp fuel tail s
  | floatText t =>
    simp only [PlainW, decide_eq_true_eq] at hp
    have hm : t.length % 256 = t.length := by omega
    simp only [wObj, hm, List.cons_append, List.nil_append]
    rw [load, run_bind, read1_app]
    show (do let n ← read1; let b ← Model.FastLoad.read n; pure (some (V.floatText b)) : F (Option V)).run _ = _
    rw [run_bind, read1_app]
    simp only []
    rw [run_bind, read_app t.length t tail rfl]
    rfl
  | complexText a b =>
    simp only [PlainW, Bool.and_eq_true, decide_eq_true_eq] at hp
    have hm1 : a.length % 256 = a.length := by omega
    have hm2 : b.length % 256 = b.length := by omega
    simp only [wObj, hm1, hm2, List.cons_append, List.nil_append, List.append_assoc]
    rw [load, run_bind, read1_app]
    show (do let n ← read1; let r ← Model.FastLoad.read n; let m ← read1; let i ← Model.FastLoad.read m
             pure (some (V.complexText r i)) : F (Option V)).run _ = _
    rw [run_bind, read1_app]
    simp only []
    rw [run_bind, read_app a.length a _ rfl]
    simp only []
    rw [run_bind, read1_app]
    simp only []
    rw [run_bind, read_app b.length b tail rfl]
    rfl
  | bytes b =>
    simp only [PlainW, decide_eq_true_eq] at hp
    simp only [wObj, List.cons_append, List.nil_append, List.append_assoc]
    rw [load, run_bind, read1_app]
    show (do let n ← rLong; let x ← Model.FastLoad.read n; pure (some (V.bytes x)) : F (Option V)).run _ = _
    rw [run_bind, rLong_app _ (by omega) (by omega)]
    simp only []
    rw [run_bind, read_app b.length b tail rfl]
    rfl
  | str cps =>
    simp only [PlainW, Bool.and_eq_true, decide_eq_true_eq, List.all_eq_true] at hp
    simp only [wObj, List.cons_append, List.nil_append, List.append_assoc]
    rw [load, run_bind, read1_app]
    show (do let n ← rLong; let x ← Model.FastLoad.read n
             match Utf8.decodeSurrogatePass x with
             | some c => pure (some (V.str c))
             | Option.none => throw FErr.unicodeError : F (Option V)).run _ = _
    rw [run_bind, rLong_app _ (by omega) (by omega)]
    simp only []
    rw [run_bind, read_app (encUtf8 cps).length (encUtf8 cps) tail rfl]
    simp only []
    rw [encUtf8_eq, Utf8.C14_text cps hp.1]
    rfl
  | tuple xs =>
    simp only [PlainW, Bool.and_eq_true, decide_eq_true_eq] at hp
    simp only [size] at hs
    simp only [wObj, List.cons_append, List.nil_append, List.append_assoc, norm]
    exact (seq_case 40 xs fuel tail s hp.1 (hB xs hp.2 (by omega) tail s)).1 rfl
  | list xs =>
    simp only [PlainW, Bool.and_eq_true, decide_eq_true_eq] at hp
    simp only [size] at hs
    simp only [wObj, List.cons_append, List.nil_append, List.append_assoc, norm]
    exact (seq_case 91 xs fuel tail s hp.1 (hB xs hp.2 (by omega) tail s)).2.1 rfl
  | set xs =>
    simp only [PlainW, Bool.and_eq_true, decide_eq_true_eq] at hp
    simp only [size] at hs
    simp only [wObj, List.cons_append, List.nil_append, List.append_assoc, norm]
    exact (seq_case 60 xs fuel tail s hp.1.1 (hB xs hp.1.2 (by omega) tail s)).2.2.1 rfl hp.2
  | fset xs =>
    simp only [PlainW, Bool.and_eq_true, decide_eq_true_eq] at hp
    simp only [size] at hs
    simp only [wObj, List.cons_append, List.nil_append, List.append_assoc, norm]
    exact (seq_case 62 xs fuel tail s hp.1.1 (hB xs hp.1.2 (by omega) tail s)).2.2.2 rfl hp.2
  | dict kvs =>
    simp only [PlainW] at hp
    simp only [size] at hs
    simp only [wObj, List.cons_append, List.nil_append, List.append_assoc, norm]
    rw [load, run_bind, read1_app]
    show (do let ys ← loadDict fuel; pure (some (V.dict ys)) : F (Option V)).run _ = _
    rw [run_bind, hC kvs hp (by omega)]
    rfl
  | float _ => simp [PlainW] at hp
  | complex _ _ => simp [PlainW] at hp
  | u2 _ => simp [PlainW] at hp
  | code _ => simp [PlainW] at hp

theorem all_stmts : ∀ fuel, StmtA fuel ∧ StmtB fuel ∧ StmtC fuel := by
  intro fuel
  induction fuel with
  | zero =>
    refine ⟨?_, ?_, ?_⟩
    · intro v _ hs; have := size_pos v; omega
    · intro xs _ hs; have := sizeL_pos xs; omega
    · intro kvs _ hs; cases kvs with
      | nil => simp [sizeKV] at hs
      | cons kv kvs => obtain ⟨k, v⟩ := kv; simp [sizeKV] at hs
  | succ f ih =>
    obtain ⟨hA, hB, hC⟩ := ih
    exact ⟨stepA f hB hC, stepB f hA hB, stepC f hA hC⟩

mutual
theorem size_le : (v : V) → PlainW v = true → size v + 1 ≤ 2 * (wObj v).length
  | .none, _ | .tru, _ | .fls, _ | .ellipsis, _ | .stopIter, _ => by simp [size, wObj]
  | .int i, _ | .long i, _ => by
      simp only [size, wObj, wInt]
      split <;> simp [w32_length] <;> omega
  | .floatText t, _ => by simp [size, wObj]; omega
  | .complexText a b, _ => by simp [size, wObj]; omega
  | .bytes b, _ => by simp [size, wObj, w32_length]; omega
  | .str cps, _ => by simp [size, wObj, w32_length]; omega
  | .tuple xs, hp => by
      have := sizeL_le xs (by simp [PlainW] at hp; exact hp.2)
      simp [size, wObj, w32_length]; omega
  | .list xs, hp => by
      have := sizeL_le xs (by simp [PlainW] at hp; exact hp.2)
      simp [size, wObj, w32_length]; omega
  | .set xs, hp => by
      have := sizeL_le xs (by simp [PlainW] at hp; exact hp.1.2)
      simp [size, wObj, w32_length]; omega
  | .fset xs, hp => by
      have := sizeL_le xs (by simp [PlainW] at hp; exact hp.1.2)
      simp [size, wObj, w32_length]; omega
  | .dict kvs, hp => by
      have := sizeKV_le kvs (by simp [PlainW] at hp; exact hp)
      simp [size, wObj]; omega
  | .float _, hp | .complex _ _, hp | .u2 _, hp | .code _, hp => by simp [PlainW] at hp
theorem sizeL_le : (xs : List V) → PlainWL xs = true → sizeL xs ≤ 1 + 2 * (wList xs).length
  | [], _ => by simp [sizeL, wList]
  | x :: xs, hp => by
      simp only [PlainWL, Bool.and_eq_true] at hp
      have h1 := size_le x hp.1
      have h2 := sizeL_le xs hp.2
      simp [sizeL, wList]; omega
theorem sizeKV_le : (kvs : List (V × V)) → PlainWKV kvs = true → sizeKV kvs ≤ 2 + 2 * (wKVs kvs).length
  | [], _ => by simp [sizeKV, wKVs]
  | (k, v) :: r, hp => by
      simp only [PlainWKV, Bool.and_eq_true] at hp
      have h1 := size_le k hp.1.1.1
      have h2 := size_le v hp.1.1.2
      have h3 := sizeKV_le r hp.2
      simp [sizeKV, wKVs]; omega
end

/-- C14_loads — for every plain value, `xdis.marsh.loads` applied to what the host's
    `marshal.dumps(v, 0)` / `marshal.dumps(v, 1)` writes gives back the value (of the same kinds; Python 3
    has one int type), consuming exactly those bytes; in particular the reader never raises and never
    runs out of fuel on such a stream, for every magnitude of int, every code point, every nesting -/
theorem C14_loads (v : V) (hp : PlainW v = true) : Model.FastLoad.loads (wObj v) = .ok (norm v, []) := by
  unfold Model.FastLoad.loads
  have hsz := size_le v hp
  have hA := (all_stmts (2 * (wObj v).length + 3)).1 v hp (by omega) [] []
  simp only [List.append_nil, fst] at hA
  rw [hA]

/-- non-vacuity: 32-bit and big ints of both signs (both 'i' and 'l' encodings), text with Latin-1, BMP, astral
    and lone-surrogate code points, text floats, nested containers, hashable keys -/
example :
    let v := V.tuple [.int (2 ^ 100), .int 7, .long (-(2 ^ 31) - 1), .int (-(2 ^ 31)), .str [233, 8364, 128512, 0xdc80],
                      .floatText [49, 46, 53], .list [.dict [(.none, .int 1), (.tuple [.int 2], .none)], .fset [.bytes [0, 255]]],
                      .set [.str [97]], .tru, .ellipsis]
    PlainW v = true ∧ Model.FastLoad.loads (wObj v) = .ok (norm v, []) := by
  constructor
  · decide +kernel
  · exact C14_loads _ (by decide +kernel)

end XV.Props.C14.Loads

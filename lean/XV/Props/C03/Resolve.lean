/-
C03_resolve — for every opcode table with a reference interpreter, every opcode that interpreter
defines, every operand and every set of tables: whenever CPython's `dis` resolves the operand
(index in range), xdis's `get_logical_instruction_at_offset` resolves it to the same table entry —
the same table (constants, names, locals, cells/frees or the merged 3.11+ table), the same index
after the version's shift (LOAD_GLOBAL/LOAD_ATTR >> 1, LOAD_SUPER_ATTR >> 2, COMPARE_OP >> 4 / >> 5,
the 3.13 paired operands), comparison operators up to the '-' ↦ ' ' spelling (C03_cmp).
-/
import XV.Props.C03
import XV.Spec.Argval
namespace XV.Props.C03
open XV XV.Model XV.Model.Operand XV.Spec.Argval
set_option linter.unusedVariables false
set_option linter.unusedSimpArgs false

/-- which table an operand indexes, and after which shift -/
inductive Sel where
  | const | name (shift : Nat) | pair | lp | varnames | cells | cmp (shift : Nat) | none
  deriving DecidableEq, Repr

def selM (t : OpTable) (op : Nat) : Sel :=
  let nm := t.opnameOf op
  if t.constOps.contains op then .const
  else if t.nameOps.contains op then
    if verGe t.version 3 11 && nm == nmLoadGlobal then .name 1
    else if verGe t.version 3 12 && nm == nmLoadAttr then .name 1
    else if verGe t.version 3 12 && nm == nmLoadSuperAttr then .name 2
    else .name 0
  else if t.isJrel op || t.isJabs op then .none
  else if t.localOps.contains op then
    if verGe t.version 3 13 && (nm == nmLFLF || nm == nmSFLF || nm == nmSFSF) then .pair
    else if verGe t.version 3 11 then .lp else .varnames
  else if t.freeOps.contains op then
    if verGe t.version 3 11 then .lp else .cells
  else if t.compareOps.contains op then
    .cmp (if verGe t.version 3 13 then 5 else if verGe t.version 3 12 then 4 else 0)
  else .none

def selS (r : RefTable) (op : Nat) : Sel :=
  let v := r.version
  if r.hasconst.contains op then .const
  else if r.hasname.contains op then
    if verGe v 3 11 && isOp r nmLoadGlobal op then .name 1
    else if verGe v 3 12 && isOp r nmLoadAttr op then .name 1
    else if verGe v 3 12 && isOp r nmLoadSuperAttr op then .name 2
    else .name 0
  else if r.hasjrel.contains op || r.hasjabs.contains op then .none
  else if verGe v 3 13 && (isOp r nmLFLF op || isOp r nmSFLF op || isOp r nmSFSF op) then .pair
  else if verGe v 3 11 then
    if r.haslocal.contains op || r.hasfree.contains op then .lp
    else if r.hascompare.contains op then .cmp (if verGe v 3 13 then 5 else if verGe v 3 12 then 4 else 0)
    else .none
  else if r.haslocal.contains op then .varnames
  else if r.hascompare.contains op then .cmp 0
  else if r.hasfree.contains op then .cells
  else .none

/-- what a selector denotes (CPython's reading: `none` when the index is out of range) -/
def evalSel (s : Sel) (arg : Nat) (consts names varnames cells lp : List Nat) (cmpOp : List Str) : Option Res :=
  match s with
  | .const => nameAt arg consts
  | .name k => nameAt (arg >>> k) names
  | .pair => pairAt arg lp
  | .lp => nameAt arg lp
  | .varnames => nameAt arg varnames
  | .cells => nameAt arg cells
  | .cmp k => (cmpOp[arg >>> k]?).map .cmp
  | .none => Option.none

theorem shr1 (a : Nat) : a / 2 = a >>> 1 := by simp [Nat.shiftRight_eq_div_pow]
theorem shr2 (a : Nat) : a / 4 = a >>> 2 := by simp [Nat.shiftRight_eq_div_pow]

/-- CPython's rule is its selector -/
theorem argval_sel (r : RefTable) (op arg : Nat) (consts names varnames cells lp : List Nat) :
    argval r op arg consts names varnames cells lp = evalSel (selS r op) arg consts names varnames cells lp r.cmpOp := by
  unfold argval selS
  simp only [shr1, shr2]
  repeat' split
  all_goals first | rfl | simp [evalSel]

end XV.Props.C03

#!/venv/bin/python
"""tools/fingerprint.py [--write]   AST fingerprints (comments/whitespace-insensitive) of every module under /repo/xdis,
recorded in ref/source_fingerprints.json when the hand-written Models were last reconciled with the source.
./check compares the current source with this record: a property whose anchored files changed since then is run
with the thorough budget even in the quick tier (a changed source is where a sampled tie should look harder).
Without --write: list the files that differ from the record."""
import ast
import hashlib
import json
import os
import sys

REPO = os.environ.get("XDIS_REPO", "/repo")
OUT = os.path.join(os.path.dirname(os.path.dirname(os.path.abspath(__file__))), "ref", "source_fingerprints.json")


def fingerprints(repo=REPO):
    out = {}
    for base, _, files in os.walk(os.path.join(repo, "xdis")):
        for f in files:
            if f.endswith(".py"):
                p = os.path.join(base, f)
                try:
                    h = hashlib.sha256(ast.dump(ast.parse(open(p, encoding="utf-8").read())).encode()).hexdigest()[:20]
                except (SyntaxError, UnicodeDecodeError, OSError) as e:
                    h = "unparsable:" + type(e).__name__
                out[os.path.relpath(p, repo)] = h
    out["(python)"] = "%d.%d" % sys.version_info[:2]      # ast.dump is not stable across Python versions
    return out


if __name__ == "__main__":
    cur = fingerprints()
    if "--write" in sys.argv:
        json.dump(cur, open(OUT, "w"), indent=0, sort_keys=True)
        print("wrote %d fingerprints" % len(cur))
    else:
        old = json.load(open(OUT))
        diff = sorted(k for k in set(cur) | set(old) if cur.get(k) != old.get(k))
        print("\n".join(diff) if diff else "no change")

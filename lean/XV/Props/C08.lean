/-
C08 — Magic-number knowledge is coherent and agrees with CPython's registry.
Property theorems only.  Table theorems quantify over the COMPLETE generated
tables (regenerated from /repo on every run) and are checked by the kernel
(`decide +kernel`): the quantifier *is* the table, so this is a proof, not a sample.
-/
import XV.Spec.Magic
namespace XV.Props.C08
open XV XV.Model XV.Spec.Magic

/-- magic2int ∘ int2magic = id on every 16-bit magic -/
theorem C08_inverse_int (n : Nat) (h : n < 65536) : magic2int (int2magic n) = some n := by
  have hlen : ∀ s : Bytes, s.length = 2 → (toLE 2 n ++ s).length = 4 := by
    intro s hs; simp [toLE_length, hs]
  have htake : ∀ s : Bytes, (toLE 2 n ++ s).take 2 = toLE 2 n := by
    intro s
    have := toLE_length 2 n
    simp [this]
  have hv : leNat (toLE 2 n) = n := leNat_toLE 2 n (by simpa using h)
  unfold int2magic magic2int
  split <;> simp [hlen, htake, hv]

/-- a 4-byte magic as xdis writes it: `\r\n` tail, or `\x99\x00` for 39170/39171 -/
def WFMagic (b : Bytes) : Prop :=
  b.length = 4 ∧ AllBytes b ∧
  b.drop 2 = (if leNat (b.take 2) = 39170 ∨ leNat (b.take 2) = 39171 then [0x99, 0x00] else [13, 10])

/-- int2magic ∘ magic2int = id on every well-formed 4-byte magic -/
theorem C08_inverse_bytes (b : Bytes) (h : WFMagic b) :
    ∃ n, magic2int b = some n ∧ n < 65536 ∧ int2magic n = b := by
  obtain ⟨hl, hb, ht⟩ := h
  refine ⟨leNat (b.take 2), by simp [magic2int, hl], ?_, ?_⟩
  · have hb2 : AllBytes (b.take 2) := fun x hx => hb x (List.mem_of_mem_take hx)
    have := leNat_lt (b.take 2) hb2
    have hl2 : (b.take 2).length = 2 := by simp [hl]
    rw [hl2] at this; simpa using this
  · have hb2 : AllBytes (b.take 2) := fun x hx => hb x (List.mem_of_mem_take hx)
    have hl2 : (b.take 2).length = 2 := by simp [hl]
    have hrt := toLE_leNat (b.take 2) hb2
    rw [hl2] at hrt
    unfold int2magic
    rw [hrt]
    have : b = b.take 2 ++ b.drop 2 := (List.take_append_drop 2 b).symm
    split <;> rename_i hc <;> simp [hc] at ht <;> (conv => rhs; rw [this]) <;> rw [ht]

/-- non-vacuity: the 2.7 and the 1.0 magics are well formed -/
example : WFMagic [0x03, 0xf3, 13, 10] ∧ WFMagic [0x02, 0x99, 0x99, 0x00] := by
  constructor <;> (refine ⟨rfl, by decide, by decide⟩)

/-- every magic CPython's registry lists maps to that release's major.minor -/
theorem C08_registry : ∀ r ∈ Gen.registry, registryRowOk r = true := by decide +kernel

/-- every accepted magic resolves to a version tuple and to an opcode table -/
theorem C08_total : ∀ p ∈ Gen.magicint2version, acceptedRowOk p = true := by decide +kernel

/-- every release name that names a CPython final release carries the magic that
    release writes according to CPython's registry -/
theorem C08_release : ∀ p ∈ Gen.magicsTbl, releaseRowOk p = true := by decide +kernel

/-- ... and according to every interpreter installed here (what `sysinfo2magic` returns) -/
theorem C08_installed : ∀ r ∈ Gen.installed, installedRowOk r = true := by decide +kernel

/-- the two magic tables are views of one another -/
theorem C08_versions : ∀ p ∈ Gen.magicint2version, versionsRowOk p = true := by decide +kernel

/-- non-vacuity of the table theorems -/
example : Gen.registry.length > 100 ∧ Gen.magicint2version.length > 100 ∧ Gen.installed.length > 0 := by
  decide +kernel

end XV.Props.C08

/-
Spec: what CPython's `dis` does when it splits a code string into instructions and
computes jump targets, per era — read off the installed dis.py sources (2.7, 3.6 … 3.13).
Parametrised by the *reference* opcode data (`DisTbl`, built from the interpreter's own
opcode module or, for versions without an interpreter, from the reviewed snapshot).
Never mentions xdis.
-/
import XV.Model.OpTable
import XV.Base.Bytes
namespace XV.Spec.Dis
open XV XV.Model

structure DisTbl where
  version : Nat × Nat
  haveArgument : Nat
  extendedArg : Option Nat
  hasjrel : List Nat
  hasjabs : List Nat
  hasarg : Option (List Nat)
  cache : List (Nat × Nat)
  names : List (Str × Nat)

def ofRef (r : RefTable) : DisTbl :=
  { version := r.version, haveArgument := r.haveArgument, extendedArg := some r.extendedArg,
    hasjrel := r.hasjrel, hasjabs := r.hasjabs, hasarg := r.hasarg, cache := r.cache, names := r.opmap }

def ofSnap (s : SnapTable) : DisTbl :=
  { version := s.version, haveArgument := s.haveArgument, extendedArg := s.extendedArg,
    hasjrel := s.jrelOps, hasjabs := s.jabsOps, hasarg := none, cache := [], names := s.opmap }

def cachesOf (d : DisTbl) (op : Nat) : Nat := (d.cache.lookup op).getD 0
def nameOf (d : DisTbl) (op : Nat) : Str := ((d.names.find? (·.2 == op)).map (·.1)).getD []

abbrev Triple := Nat × Nat × Option Nat

/-- ≤ 3.5 (dis.disassemble of 2.7): 1- or 3-byte instructions, 16-bit operand,
    `extended_arg = oparg * 65536` after EXTENDED_ARG -/
def unpack27Go (d : DisTbl) (code : Bytes) : Nat → Nat → Nat → Option (List Triple)
  | 0, _, _ => some []
  | fuel + 1, i, ext =>
    if i < code.length then do
      let op ← code[i]?
      if op ≥ d.haveArgument then do
        let b1 ← code[i + 1]?
        let b2 ← code[i + 2]?
        let arg := b1 + b2 * 256 + ext
        let rest ← unpack27Go d code fuel (i + 3) (if d.extendedArg == some op then arg * 65536 else 0)
        pure ((i, op, some arg) :: rest)
      else do
        let rest ← unpack27Go d code fuel (i + 1) ext
        pure ((i, op, none) :: rest)
    else some []

/-- 3.6 – 3.13 `_unpack_opargs`, one definition with the era switches made explicit -/
def unpackWordGo (d : DisTbl) (code : Bytes) : Nat → Nat → Nat → Nat → Option (List Triple)
  | 0, _, _, _ => some []
  | fuel + 1, i, ext, caches =>
    if i < code.length then
      if caches > 0 then unpackWordGo d code fuel (i + 2) ext (caches - 1)   -- 3.11+: skip inline cache slots
      else do
        let op ← code[i]?
        let caches' := if verGe d.version 3 11 then cachesOf d op else 0
        let takes : Bool :=
          if verGe d.version 3 12 then (d.hasarg.getD []).contains op else op ≥ d.haveArgument
        if takes then do
          let b ← code[i + 1]?
          let arg := b ||| ext
          let ext' := if d.extendedArg == some op then arg <<< 8 else 0
          -- 3.11+: "the oparg is stored as a signed integer": wrap at 2^31
          let ext' := if verGe d.version 3 11 && ext' ≥ 2 ^ 31 then ext' - 2 ^ 32 else ext'
          let rest ← unpackWordGo d code fuel (i + 2) ext' caches'
          pure ((i, op, some arg) :: rest)
        else do
          -- 3.10+ resets extended_arg on an operand-less opcode; 3.6–3.9 keep it
          let rest ← unpackWordGo d code fuel (i + 2) (if verGe d.version 3 10 then 0 else ext) caches'
          pure ((i, op, none) :: rest)
    else some []

def unpack (d : DisTbl) (code : Bytes) : Option (List Triple) :=
  if verGe d.version 3 6 then unpackWordGo d code (code.length + 1) 0 0 0
  else unpack27Go d code (code.length + 1) 0 0

def jbName : Str := [74, 85, 77, 80, 95, 66, 65, 67, 75, 87, 65, 82, 68]
example : jbName = str "JUMP_BACKWARD" := by decide

def isInfix (needle : Str) : Str → Bool
  | [] => needle.isEmpty
  | c :: cs => needle.isPrefixOf (c :: cs) || isInfix needle cs

/-- the byte offset control is transferred to; `none` when `op` is not a jump -/
def target (d : DisTbl) (off op arg : Nat) : Option Int :=
  if d.hasjrel.contains op then
    if verLt d.version 3 6 then some ((off : Int) + 3 + arg)
    else if verLt d.version 3 10 then some ((off : Int) + 2 + arg)
    else
      let signed : Int := if verGe d.version 3 11 && isInfix jbName (nameOf d op) then -(arg : Int) else arg
      some ((off : Int) + 2 + signed * 2 + (if verGe d.version 3 12 then 2 * (cachesOf d op : Int) else 0))
  else if d.hasjabs.contains op then
    if verLt d.version 3 10 then some (arg : Int) else some ((arg : Int) * 2)
  else none

def dedup (ls : List Int) : List Int := ls.foldl (fun acc l => if acc.contains l then acc else acc ++ [l]) []

/-- dis.findlabels -/
def findlabels (d : DisTbl) (code : Bytes) : Option (List Int) := do
  let ops ← unpack d code
  pure (dedup (ops.filterMap fun (off, op, arg) => arg.bind (target d off op)))

end XV.Spec.Dis

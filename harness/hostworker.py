"""Implementation-side worker: imports xdis from PYTHONPATH (= /repo working tree)
and answers JSON requests, one per line, on stdin/stdout.  Stdlib only; runs under
every host able to import xdis (3.8-3.13).  Everything xdis prints is captured and
returned in the reply ("stdout"), never mixed into the protocol stream."""
import contextlib
import io
import json
import os
import sys
import traceback

_real_stdout = sys.stdout
_cap = io.StringIO()
sys.stdout = _cap            # anything xdis prints while importing / running goes here
import xdis                  # noqa: E402
import xdis.magics as M      # noqa: E402

OPS = {}


def op(f):
    OPS[f.__name__] = f
    return f


def exc_name(e):
    return type(e).__name__


# ------------------------------------------------------------------ C08
@op
def int2magic_all(a):
    return [M.int2magic(n).hex() for n in range(65536)]


@op
def magic2int(a):
    try:
        return M.magic2int(bytes.fromhex(a["hex"]))
    except Exception as e:  # noqa
        return {"err": exc_name(e)}


@op
def magic_int2tuple(a):
    try:
        return list(M.magic_int2tuple(a["magic"]))
    except Exception as e:  # noqa
        return {"err": exc_name(e)}


@op
def py_str2tuple(a):
    try:
        return list(M.py_str2tuple(a["s"]))
    except Exception as e:  # noqa
        return {"err": exc_name(e)}


@op
def sysinfo2magic(a):
    try:
        if a.get("version_info") is None:
            r = M.sysinfo2magic()
        else:
            r = M.sysinfo2magic(tuple(a["version_info"]))
        return r.hex()
    except Exception as e:  # noqa
        return {"err": exc_name(e)}


@op
def host_magic(a):
    import importlib.util
    return {"magic": importlib.util.MAGIC_NUMBER.hex(), "version_info": list(sys.version_info)[:3] + [sys.version_info[3], sys.version_info[4]]}


@op
def magics_lookup(a):
    v = M.magics.get(a["name"])
    return v.hex() if v is not None else None


@op
def get_opcode_for_magic(a):
    from xdis.disasm import get_opcode
    from xdis.load import is_pypy
    try:
        vt = M.magic_int2tuple(a["magic"])
        opc = get_opcode(vt, is_pypy(a["magic"], a.get("filename", "x.pyc")))
        return opc.__name__
    except Exception as e:  # noqa
        return {"err": exc_name(e)}


def main():
    # extension modules with more ops (one per property family) register themselves
    here = os.path.dirname(os.path.abspath(__file__))
    sys.path.insert(0, here)
    for name in sorted(os.listdir(os.path.join(here, "workerops"))) if os.path.isdir(os.path.join(here, "workerops")) else []:
        if name.endswith(".py") and not name.startswith("_"):
            mod = __import__("workerops." + name[:-3], fromlist=["register"])
            mod.register(op)
    for line in sys.stdin:
        line = line.strip()
        if not line:
            continue
        req = json.loads(line)
        _cap.seek(0)
        _cap.truncate()
        err = io.StringIO()
        try:
            with contextlib.redirect_stderr(err):
                res = OPS[req["op"]](req.get("a", {}))
            rep = {"r": res}
        except BaseException as e:  # noqa
            rep = {"exc": exc_name(e), "msg": str(e)[:300], "tb": traceback.format_exc()[-600:]}
        rep["stdout"] = _cap.getvalue()[:4000]
        rep["stderr"] = err.getvalue()[:2000]
        _real_stdout.write(json.dumps(rep, default=repr) + "\n")
        _real_stdout.flush()


if __name__ == "__main__":
    main()

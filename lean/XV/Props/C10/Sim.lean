/-
C10 / C01 — the simulation theorem: whenever marshal.c's reader (Spec) accepts a stream, xdis's
unmarshaller (Model) accepts it too, consumes exactly the same bytes, and returns the same value
(for Python 2 bytecode: the same value under the `portB` reading of Python 2 strings), with the
reference tables related at every step — so a back-reference yields the same object at every
place it is used.  For every stream, every nesting depth and every marshal era 0–4.
-/
import XV.Model.Unmarshal
import XV.Spec.Marshal
namespace XV.Props.C10.Sim
open XV XV.Model.Unmarshal XV.Spec.Marshal
set_option linter.unusedSimpArgs false
set_option linter.unusedVariables false

/-! ### lockstep framework -/

/-- the reference tables agree wherever marshal.c's slot is filled -/
def RefRel (rs : List (Option V)) (rm : List V) : Prop :=
  rs.length = rm.length ∧ ∀ (i : Nat) (v : V), rs[i]? = some (some v) → rm[i]? = some v

/-- state invariant: same unread input, related reference tables, and (in the eras that
    have Python 2 string references) the same interned-string table -/
def Inv (e : Nat) (ss : PSt) (sm : St) : Prop :=
  ss.inp = sm.inp ∧ RefRel ss.refs sm.refs ∧
    (((e = 1 ∨ e = 2) → sm.strs = ss.strs ∧ ∀ v ∈ ss.strs, ∃ b, v = V.bytes b) ∧ AllBytes ss.inp)

/-- `Lock e R p m`: from related states, if the Spec computation `p` succeeds then the Model
    computation `m` succeeds, with `R`-related results and related final states -/
theorem allBytes_drop {bs : Bytes} (k : Nat) (h : AllBytes bs) : AllBytes (bs.drop k) :=
  fun b hb => h b (List.mem_of_mem_drop hb)

def Lock (e : Nat) (R : α → β → Prop) (p : P α) (m : M β) : Prop :=
  ∀ ss sm a ss', Inv e ss sm → p.run ss = .ok (a, ss') →
    ∃ b sm', m.run sm = .ok (b, sm') ∧ R a b ∧ Inv e ss' sm'

theorem P_run_bind (p : P α) (f : α → P β) (s : PSt) :
    (p >>= f).run s = match p.run s with | .ok (a, s') => (f a).run s' | .error er => .error er := by
  simp only [StateT.run, bind, StateT.bind, Except.bind]
  cases p s <;> rfl

theorem M_run_bind (p : M α) (f : α → M β) (s : St) :
    (p >>= f).run s = match p.run s with | .ok (a, s') => (f a).run s' | .error er => .error er := by
  simp only [StateT.run, bind, StateT.bind, Except.bind]
  cases p s <;> rfl

theorem Lock.seq {R : α → β → Prop} {Q : γ → δ → Prop} {p : P α} {m : M β} {f : α → P γ} {g : β → M δ}
    (h1 : Lock e R p m) (h2 : ∀ a b, R a b → Lock e Q (f a) (g b)) : Lock e Q (p >>= f) (m >>= g) := by
  intro ss sm c ss' hI hrun
  rw [P_run_bind] at hrun
  cases hp : p.run ss with
  | error er => rw [hp] at hrun; cases hrun
  | ok r =>
    obtain ⟨a, s1⟩ := r
    rw [hp] at hrun
    obtain ⟨b, sm1, hm, hR, hI1⟩ := h1 ss sm a s1 hI hp
    obtain ⟨d, sm2, hm2, hQ, hI2⟩ := h2 a b hR s1 sm1 c ss' hI1 hrun
    exact ⟨d, sm2, by rw [M_run_bind, hm]; exact hm2, hQ, hI2⟩

theorem Lock.ret {R : α → β → Prop} {a : α} {b : β} (h : R a b) : Lock e R (pure a : P α) (pure b : M β) := by
  intro ss sm c ss' hI hrun
  simp only [StateT.run, Pure.pure, StateT.pure, Except.pure] at hrun
  cases hrun
  exact ⟨b, sm, rfl, h, hI⟩

theorem Lock.fail {R : α → β → Prop} {er : PErr} {m : M β} : Lock e R (throw er : P α) m := by
  intro ss sm c ss' _ hrun
  simp only [StateT.run, throw, throwThe, MonadExceptOf.throw, StateT.lift, Except.bind, bind, liftM, monadLift, MonadLift.monadLift] at hrun
  cases hrun

theorem Lock.mono {R Q : α → β → Prop} {p : P α} {m : M β} (h : Lock e R p m) (hq : ∀ a b, R a b → Q a b) :
    Lock e Q p m := by
  intro ss sm c ss' hI hrun
  obtain ⟨b, sm', h1, h2, h3⟩ := h ss sm c ss' hI hrun
  exact ⟨b, sm', h1, hq _ _ h2, h3⟩

/-- Spec-side guard: `if c then throw … else p` -/
theorem Lock.guard {R : α → β → Prop} {c : Prop} [Decidable c] {er : PErr} {p : P α} {m : M β}
    (h : ¬c → Lock e R p m) : Lock e R (if c then (throw er : P α) else p) m := by
  by_cases hc : c
  · simp only [hc, if_true]; exact Lock.fail
  · simp only [hc, if_false]; exact h hc


/-! ### primitives -/

theorem rd_run (k : Nat) (s : PSt) :
    (rd k).run s = if s.inp.length < k then .error .eof else .ok (s.inp.take k, { s with inp := s.inp.drop k }) := by
  unfold rd
  by_cases h : s.inp.length < k <;>
  simp [h, bind, StateT.bind, get, getThe, MonadStateOf.get, StateT.get, pure, Except.pure, StateT.run, set,
    StateT.set, StateT.pure, throw, throwThe, MonadExceptOf.throw, StateT.lift, Except.bind, liftM, monadLift, MonadLift.monadLift]

theorem readN_run (k : Nat) (s : St) :
    (readN (k : Int)).run s = .ok (s.inp.take k, { s with inp := s.inp.drop k }) := by
  unfold readN
  have : ¬ ((k : Int) < 0) := by omega
  simp [this, bind, StateT.bind, get, getThe, MonadStateOf.get, StateT.get, pure, Except.pure, StateT.run, set,
    StateT.set, StateT.pure, Except.bind]

/-- Spec `rd k` against Model `fp.read(k)` -/
theorem lock_rd (k : Nat) : Lock e (fun a b => b = a ∧ a.length = k) (rd k) (readN (k : Int)) := by
  intro ss sm a ss' hI hrun
  rw [rd_run] at hrun
  by_cases h : ss.inp.length < k
  · simp [h] at hrun
  · simp only [h, if_false] at hrun
    cases hrun
    obtain ⟨h1, h2, h3⟩ := hI
    refine ⟨_, _, readN_run k sm, ⟨by rw [h1], by simp; omega⟩, ?_, h2, h3.1, allBytes_drop k h3.2⟩
    simp [h1]

theorem readExact_run (k : Nat) (s : St) :
    (readExact k).run s = if (s.inp.take k).length = k then .ok (s.inp.take k, { s with inp := s.inp.drop k })
      else .error .structError := by
  unfold readExact
  rw [M_run_bind, readN_run]
  by_cases h : (s.inp.take k).length = k
  · simp only [h, if_true]; rfl
  · simp only [h, if_false]; rfl

/-- Spec `rd k` against Model `unpack(fmt, fp.read(k))` -/
theorem lock_rdExact (k : Nat) : Lock e (fun a b => b = a) (rd k) (readExact k) := by
  intro ss sm a ss' hI hrun
  rw [rd_run] at hrun
  by_cases h : ss.inp.length < k
  · simp [h] at hrun
  · simp only [h, if_false] at hrun
    cases hrun
    obtain ⟨h1, h2, h3⟩ := hI
    refine ⟨sm.inp.take k, { sm with inp := sm.inp.drop k }, ?_, by rw [h1], by simp [h1], h2, h3.1, allBytes_drop k h3.2⟩
    rw [readExact_run]
    have : (sm.inp.take k).length = k := by simp; rw [← h1]; omega
    simp [this]

theorem lock_map {R : α → β → Prop} {p : P α} {m : M β} (f : α → γ) (g : β → δ) (Q : γ → δ → Prop)
    (h : Lock e R p m) (hq : ∀ a b, R a b → Q (f a) (g b)) :
    Lock e Q (do let x ← p; pure (f x)) (do let y ← m; pure (g y)) :=
  Lock.seq h (fun a b hab => Lock.ret (hq a b hab))

theorem lock_i32 : Lock e (fun a b => b = a) i32 rI32 :=
  lock_map _ _ _ (lock_rdExact 4) (fun a b h => by rw [h])
theorem lock_i16 : Lock e (fun a b => b = a) i16 rI16 :=
  lock_map _ _ _ (lock_rdExact 2) (fun a b h => by rw [h])
theorem lock_u8 : Lock e (fun a b => b = a) u8 rU8 :=
  lock_map _ _ _ (lock_rdExact 1) (fun a b h => by rw [h])

/-- a size field: marshal.c rejects negative sizes; xdis reads the same 32-bit value -/
theorem lock_size32 : Lock e (fun (a : Nat) (b : Int) => b = (a : Int)) size32 rI32 := by
  unfold size32
  have := Lock.seq (e := e) (R := fun (a b : Int) => b = a) (Q := fun (a : Nat) (b : Int) => b = (a : Int))
    (f := fun n => if n < 0 then (throw PErr.badData : P Nat) else pure n.toNat) (g := fun n => (pure n : M Int)) lock_i32
    (fun a b hab => by
      subst hab
      exact Lock.guard (fun hn => Lock.ret (by show _ = ((Int.toNat _ : Nat) : Int); omega)))
  simpa using this


/-! ### reference-table primitives -/

theorem RefRel.append_some {rs : List (Option V)} {rm : List V} (h : RefRel rs rm) (v : V) :
    RefRel (rs ++ [some v]) (rm ++ [v]) := by
  obtain ⟨hl, hv⟩ := h
  refine ⟨by simp [hl], fun i w hi => ?_⟩
  rcases Nat.lt_trichotomy i rs.length with hlt | heq | hgt
  · rw [List.getElem?_append_left hlt] at hi
    rw [List.getElem?_append_left (by omega)]
    exact hv i w hi
  · subst heq
    simp at hi
    subst hi
    rw [hl]; simp
  · rw [List.getElem?_eq_none (by simp; omega)] at hi
    cases hi

theorem RefRel.append_none {rs : List (Option V)} {rm : List V} (h : RefRel rs rm) (w : V) :
    RefRel (rs ++ [none]) (rm ++ [w]) := by
  obtain ⟨hl, hv⟩ := h
  refine ⟨by simp [hl], fun i u hi => ?_⟩
  rcases Nat.lt_trichotomy i rs.length with hlt | heq | hgt
  · rw [List.getElem?_append_left hlt] at hi
    rw [List.getElem?_append_left (by omega)]
    exact hv i u hi
  · subst heq
    simp at hi
  · rw [List.getElem?_eq_none (by simp; omega)] at hi
    cases hi

theorem RefRel.set {rs : List (Option V)} {rm : List V} (h : RefRel rs rm) (k : Nat) (v : V) :
    RefRel (rs.set k (some v)) (rm.set k v) := by
  obtain ⟨hl, hv⟩ := h
  refine ⟨by simp [hl], fun i u hi => ?_⟩
  by_cases hik : k = i
  · subst hik
    by_cases hlt : k < rs.length
    · rw [List.getElem?_set_self hlt] at hi
      cases hi
      rw [List.getElem?_set_self (by omega)]
    · rw [List.getElem?_eq_none (by simp; omega)] at hi; cases hi
  · rw [List.getElem?_set_ne hik] at hi
    rw [List.getElem?_set_ne hik]
    exact hv i u hi


theorem lock_ref (v w : V) (flag : Bool) (hw : flag = true → w = v) :
    Lock e (fun a b => a = v ∧ b = w) (ref v flag) (rRef w flag) := by
  intro ss sm a ss' hI hrun
  obtain ⟨h1, h2, h3⟩ := hI
  cases flag <;>
  simp [ref, rRef, bind, StateT.bind, pure, Except.pure, StateT.run, StateT.pure, modify, modifyGet,
    MonadStateOf.modifyGet, StateT.modifyGet, Except.bind] at hrun ⊢
  · obtain ⟨rfl, rfl⟩ := hrun
    exact ⟨_, _, ⟨rfl, rfl⟩, ⟨rfl, rfl⟩, h1, h2, h3⟩
  · obtain ⟨rfl, rfl⟩ := hrun
    have := hw rfl; subst this
    exact ⟨_, _, ⟨rfl, rfl⟩, ⟨rfl, rfl⟩, h1, h2.append_some _, h3⟩

theorem lock_reserve (w : V) (flag : Bool) :
    Lock e (fun a b => b = a ∧ (a.isSome = true → flag = true)) (reserve flag) (rRefReserve w flag) := by
  intro ss sm a ss' hI hrun
  obtain ⟨h1, h2, h3⟩ := hI
  cases flag <;>
  simp [reserve, rRefReserve, bind, StateT.bind, pure, Except.pure, StateT.run, StateT.pure, get, getThe,
    MonadStateOf.get, StateT.get, set, StateT.set, Except.bind] at hrun ⊢
  · obtain ⟨rfl, rfl⟩ := hrun
    exact ⟨_, _, ⟨rfl, rfl⟩, by simp, h1, h2, h3⟩
  · obtain ⟨rfl, rfl⟩ := hrun
    exact ⟨_, _, ⟨rfl, rfl⟩, by simp [h2.1], h1, h2.append_none w, h3⟩

theorem lock_insert (v w : V) (i : Option Nat) (hw : i.isSome = true → w = v) :
    Lock e (fun a b => a = v ∧ b = w) (Spec.Marshal.insert v i) (rRefInsert w i) := by
  intro ss sm a ss' hI hrun
  obtain ⟨h1, h2, h3⟩ := hI
  cases i <;>
  simp [Spec.Marshal.insert, rRefInsert, bind, StateT.bind, pure, Except.pure, StateT.run, StateT.pure, modify, modifyGet,
    MonadStateOf.modifyGet, StateT.modifyGet, Except.bind] at hrun ⊢
  · obtain ⟨rfl, rfl⟩ := hrun
    exact ⟨_, _, ⟨rfl, rfl⟩, ⟨rfl, rfl⟩, h1, h2, h3⟩
  · obtain ⟨rfl, rfl⟩ := hrun
    have := hw rfl; subst this
    exact ⟨_, _, ⟨rfl, rfl⟩, ⟨rfl, rfl⟩, h1, h2.set _ _, h3⟩

/-! ### the statement -/

/-- configuration under which the simulation is stated -/
structure CfgOK (c : Cfg) (sc : SCfg) : Prop where
  graal : c.isGraal = false
  depth : sc.maxDepth ≤ c.depthLimit
  m1 : c.magic ≠ 3400
  m2 : c.magic ≠ 3401
  m3 : c.magic ≠ 3410
  m4 : c.magic ≠ 3411
  strict : sc.strict = true

/-- what xdis should hold for the value marshal.c built: the value itself for Python 3
    bytecode, its `portB` reading for Python 2 bytecode -/
def portV (c : Cfg) (bfs : Bool) (v : V) : V := if verGeL c.version 3 0 then v else portB bfs v

/-- how the Spec's ghost flag follows xdis's `bytes_for_s`: in Python 3 bytecode it marks the
    places (the name fields: co_names, co_varnames, co_freevars, co_cellvars, co_filename, co_name) read with bytes_for_s = False; in Python 2 bytecode it is never set -/
def Ctx (c : Cfg) (bfs txt : Bool) : Prop := if verGeL c.version 3 0 then txt = !bfs else txt = false

def RO (c : Cfg) (bfs : Bool) : Option V → V → Prop
  | none, w => w = .none
  | some v, w => w = portV c bfs v

/-- `some <$> x` on the Spec side against the bare Model computation -/
theorem Lock.wrap {c : Cfg} {bfs : Bool} {x : P V} {m : M V} (h : Lock e (fun a b => b = portV c bfs a) x m) :
    Lock e (RO c bfs) (do let v ← x; pure (Option.some v)) m := by
  have h2 := Lock.seq (g := fun w => (pure w : M V)) h
    (fun a b hab => Lock.ret (R := RO c bfs) (a := Option.some a) (b := b) hab)
  intro ss sm a ss' hI hrun
  obtain ⟨b, sm', h3, h4, h5⟩ := h2 ss sm a ss' hI hrun
  refine ⟨b, sm', ?_, h4, h5⟩
  rw [M_run_bind] at h3
  cases hm : m.run sm with
  | error er => rw [hm] at h3; cases h3
  | ok r =>
    rw [hm] at h3
    obtain ⟨r1, r2⟩ := r
    simp [StateT.run, pure, StateT.pure, Except.pure] at h3
    obtain ⟨rfl, rfl⟩ := h3
    rfl

theorem Lock.seqEq {Q : γ → δ → Prop} {p : P α} {m : M α} {f : α → P γ} {g : α → M δ}
    (h1 : Lock e (fun a b => b = a) p m) (h2 : ∀ a, Lock e Q (f a) (g a)) : Lock e Q (p >>= f) (m >>= g) :=
  Lock.seq h1 (fun a b hab => by cases hab; exact h2 _)

theorem lock_u8_read1 : Lock e (fun (a : Nat) (bl : Bytes) => bl = [a]) u8 (readN 1) := by
  intro ss sm a ss' hI hrun
  unfold u8 at hrun
  rw [P_run_bind, rd_run] at hrun
  by_cases h : ss.inp.length < 1
  · simp [h] at hrun
  · simp only [h, if_false] at hrun
    simp [StateT.run, pure, StateT.pure, Except.pure] at hrun
    obtain ⟨rfl, rfl⟩ := hrun
    obtain ⟨h1, h2, h3⟩ := hI
    have hr := readN_run 1 sm
    refine ⟨_, _, hr, ?_, by simp [h1], h2, h3.1, by simpa using allBytes_drop 1 h3.2⟩
    rw [← h1]
    match hh : ss.inp with
    | [] => simp [hh] at h
    | x :: rest => simp [leNat]

theorem lit_bits : ∀ lit, lit < 128 → lit &&& 127 = lit ∧ lit &&& 128 = 0 := by decide

/-- the type byte: marshal.c masks FLAG_REF only in era 4; a byte it accepts in an earlier era
    has the flag bit clear, so xdis's unconditional masking sees the same code and the same flag -/
theorem ty_lit (e b lit : Nat) (hl : lit < 128) (h : (if e = 4 then b &&& 127 else b) = lit) :
    b &&& 127 = lit ∧ (decide (b &&& 128 ≠ 0) = (decide (e = 4) && decide (b &&& 128 ≠ 0))) := by
  by_cases he : e = 4
  · simp [he] at h ⊢; exact h
  · simp only [he, if_false] at h
    subst h
    have := lit_bits b hl
    simp [he, this.1, this.2]


theorem lock_post {R : α → β → Prop} {p : P α} {m : M β} (h : Lock e R p m) (g : β → δ) :
    Lock e (fun a d => ∃ b, R a b ∧ d = g b) p (do let y ← m; pure (g y)) := by
  intro ss sm a ss' hI hrun
  obtain ⟨b, sm', h1, h2, h3⟩ := h ss sm a ss' hI hrun
  refine ⟨g b, sm', ?_, ⟨b, h2, rfl⟩, h3⟩
  rw [M_run_bind, h1]; rfl

theorem lock_rd8_i64 : Lock e (fun a b => b = signedOf 8 (leNat a)) (rd 8) rI64 :=
  (lock_post (lock_rdExact 8) _).mono (fun a d ⟨b, h1, h2⟩ => by rw [h2, h1])
theorem lock_rd8_u64 : Lock e (fun a b => b = leNat a) (rd 8) rU64 :=
  (lock_post (lock_rdExact 8) _).mono (fun a d ⟨b, h1, h2⟩ => by rw [h2, h1])

/-- values without a Python 2 `str` or a container inside: read the same in every context -/
def Leaf : V → Bool
  | .none | .tru | .fls | .ellipsis | .stopIter | .int _ | .long _ | .float _ | .floatText _
  | .complex _ _ | .complexText _ _ | .str _ | .u2 _ => true
  | _ => false

theorem portB_leaf (b : Bool) (v : V) (h : Leaf v = true) : portB b v = v := by
  cases v <;> simp only [portB] <;> simp [Leaf] at h

theorem portV_leaf (c : Cfg) (b : Bool) (v : V) (h : Leaf v = true) : portV c b v = v := by
  unfold portV; split
  · rfl
  · exact portB_leaf b v h


/-! ### version gates -/

theorem verGeL_mono (v : List Nat) (a b a' b' : Nat) (hle : a' < a ∨ (a' = a ∧ b' ≤ b))
    (h : verGeL v a b = true) : verGeL v a' b' = true := by
  match v with
  | [] => simp [verGeL] at h
  | [x] =>
    simp only [verGeL, Bool.or_eq_true, Bool.and_eq_true, decide_eq_true_eq, beq_iff_eq] at h ⊢
    omega
  | x :: y :: _ =>
    simp only [verGeL, Bool.or_eq_true, Bool.and_eq_true, decide_eq_true_eq, beq_iff_eq] at h ⊢
    omega

theorem era_eq4 (v : List Nat) : (era v = 4) ↔ verGeL v 3 4 = true := by
  unfold era; split <;> simp_all <;> (repeat' split) <;> simp

theorem era_ge3 (v : List Nat) : (era v ≥ 3) ↔ verGeL v 3 0 = true := by
  unfold era
  by_cases h34 : verGeL v 3 4 = true
  · simp [h34, verGeL_mono v 3 4 3 0 (by omega) h34]
  · by_cases h30 : verGeL v 3 0 = true
    · simp [h34, h30]
    · simp only [h34, h30]; (repeat' split) <;> simp_all

theorem era_lt4_of_py2 (v : List Nat) (h : verGeL v 3 0 = false) : era v ≤ 2 := by
  have := era_ge3 v
  simp [h] at this
  omega

theorem lock_digits : ∀ (k j : Nat) (acc : Int), Lock e (fun a b => b = a.1) (digits k j acc) (rDigits k j acc) := by
  intro k
  induction k with
  | zero => intro j acc; rw [digits, rDigits]; exact Lock.ret rfl
  | succ k ih =>
    intro j acc
    rw [digits, rDigits]
    refine Lock.seqEq lock_i16 (fun d => ?_)
    refine Lock.guard (fun _ => ?_)
    by_cases hk : k = 0
    · subst hk
      simp only [if_true]
      rw [rDigits]
      exact Lock.ret rfl
    · simp only [hk, if_false]
      exact ih _ _

theorem utf8_ascii (fuel : Nat) (b : Bytes) (sp : Bool) (h : b.all (· < 0x80) = true) (hf : b.length < fuel) :
    Utf8.decode sp fuel b = some b := by
  induction b generalizing fuel with
  | nil => cases fuel <;> simp [Utf8.decode]
  | cons x xs ih =>
    cases fuel with
    | zero => simp at hf
    | succ f =>
      simp only [List.all_cons, Bool.and_eq_true, decide_eq_true_eq] at h
      simp only [Utf8.decode, h.1, if_true]
      rw [ih f h.2 (by simp at hf; omega)]
      rfl

theorem compatStr_ascii (b : Bytes) (h : b.all (· < 0x80) = true) : compatStr b = .str b := by
  unfold compatStr Utf8.decodeStrict
  rw [utf8_ascii _ b false h (by omega)]

/-- the strict guard on the ASCII type codes, a Spec-only step -/
theorem lock_asciiStr {Q : γ → δ → Prop} (sc : SCfg) (hs : sc.strict = true) (s : Bytes) (f : V → P γ) (m : M δ)
    (h : compatStr s = .str s → Lock e Q (f (.str s)) m) : Lock e Q (asciiStr sc s >>= f) m := by
  unfold asciiStr
  by_cases ha : s.all (· < 0x80) = true
  · simp only [hs, ha, Bool.not_true, Bool.and_false]
    simp only [Bool.false_eq_true, if_false, pure_bind]
    exact h (compatStr_ascii s ha)
  · simp only [hs, ha, Bool.true_and]
    simp only [Bool.not_false, if_true]
    intro ss sm a ss' _ hrun
    rw [P_run_bind] at hrun
    simp [StateT.run, throw, throwThe, MonadExceptOf.throw, StateT.lift, Except.bind, bind, liftM, monadLift,
      MonadLift.monadLift] at hrun

theorem M_run_modify (f : St → St) (m : M β) (s : St) :
    (do modify f; m).run s = m.run (f s) := by
  simp [bind, StateT.bind, StateT.run, modify, modifyGet, MonadStateOf.modifyGet, StateT.modifyGet, pure, Except.pure, Except.bind]

theorem P_run_modify (f : PSt → PSt) (m : P β) (s : PSt) :
    (do modify f; m).run s = m.run (f s) := by
  simp [bind, StateT.bind, StateT.run, modify, modifyGet, MonadStateOf.modifyGet, StateT.modifyGet, pure, Except.pure, Except.bind]

/-- xdis also records 3.4+ interned strings in `internStrings`; nothing reads that list in era 4 -/
theorem lock_modStrs_model {Q : γ → δ → Prop} {p : P γ} {m : M δ} (v : V) (hne : ¬(e = 1 ∨ e = 2))
    (h : Lock e Q p m) :
    Lock e Q p (do modify (fun st => { st with strs := st.strs ++ [v] }); m) := by
  intro ss sm a ss' hI hrun
  rw [M_run_modify]
  exact h ss _ a ss' ⟨hI.1, hI.2.1, fun h => absurd h hne, hI.2.2.2⟩ hrun

theorem lock_modStrs_both {Q : γ → δ → Prop} {p : P γ} {m : M δ} (s : Bytes) (h : Lock e Q p m) :
    Lock e Q (do modify (fun st => { st with strs := st.strs ++ [V.bytes s] }); p)
             (do modify (fun st => { st with strs := st.strs ++ [V.bytes s] }); m) := by
  intro ss sm a ss' hI hrun
  rw [M_run_modify]
  rw [P_run_modify] at hrun
  refine h { ss with strs := ss.strs ++ [V.bytes s] } { sm with strs := sm.strs ++ [V.bytes s] } a ss'
    ⟨hI.1, hI.2.1, fun he => ?_, hI.2.2.2⟩ hrun
  obtain ⟨h1, h2⟩ := hI.2.2.1 he
  refine ⟨by simp [h1], fun v hv => ?_⟩
  simp at hv
  rcases hv with hv | rfl
  · exact h2 v hv
  · exact ⟨s, rfl⟩

theorem lock_refLeaf (c : Cfg) (bfs : Bool) (v : V) (flag : Bool) (h : Leaf v = true) :
    Lock e (fun a b => b = portV c bfs a) (ref v flag) (rRef v flag) :=
  (lock_ref v v flag (fun _ => rfl)).mono (by rintro a b ⟨rfl, rfl⟩; exact (portV_leaf c bfs _ h).symm)

theorem lock_rdN (k : Nat) : Lock e (fun a b => b = a) (rd k) (readN (k : Int)) :=
  (lock_rd k).mono (fun a b h => h.1)

theorem py3_of_flag (c : Cfg) (e b : Nat) (he : e = era c.version)
    (h : (decide (e = 4) && decide (b &&& 128 ≠ 0)) = true) : verGeL c.version 3 0 = true := by
  simp only [Bool.and_eq_true, decide_eq_true_eq] at h
  have := (era_eq4 c.version).1 (he ▸ h.1)
  exact verGeL_mono _ 3 4 3 0 (by omega) this

theorem era_le4 (v : List Nat) : era v ≤ 4 := by
  unfold era; (repeat' split) <;> omega

theorem portB_bytes (bfs : Bool) (b : Bytes) : portB bfs (.bytes b) = if bfs then .bytes b else compatStr b := by
  simp only [portB]

/-- 'R': a Python 2 string reference -/
theorem lock_strRef (c : Cfg) (bfs : Bool) (n : Int) (he12 : e = 1 ∨ e = 2) (hpy2 : verGeL c.version 3 0 = false) :
    Lock e (fun a b => b = portV c bfs a)
      (do let st ← get
          if n < 0 then throw PErr.badData else
          match st.strs[n.toNat]? with
          | some v => pure v
          | none => throw PErr.badData : P V)
      (do let s ← get
          match pyIndex s.strs n with
          | some v => pure (if bfs then v else compatV v)
          | Option.none => throw Err.indexError : M V) := by
  intro ss sm a ss' hI hrun
  obtain ⟨h1, h2, h3⟩ := hI
  obtain ⟨h4, h5⟩ := h3.1 he12
  by_cases hn : n < 0
  · simp [hn, bind, StateT.bind, StateT.run, get, getThe, MonadStateOf.get, StateT.get, pure, Except.pure, Except.bind,
      throw, throwThe, MonadExceptOf.throw, StateT.lift, liftM, monadLift, MonadLift.monadLift] at hrun
  · cases hv : ss.strs[n.toNat]? with
    | none =>
      simp [hn, hv, bind, StateT.bind, StateT.run, get, getThe, MonadStateOf.get, StateT.get, pure, Except.pure, Except.bind,
        throw, throwThe, MonadExceptOf.throw, StateT.lift, liftM, monadLift, MonadLift.monadLift] at hrun
    | some v =>
      simp [hn, hv, bind, StateT.bind, StateT.run, get, getThe, MonadStateOf.get, StateT.get, pure, Except.pure, Except.bind,
        StateT.pure] at hrun
      obtain ⟨rfl, rfl⟩ := hrun
      obtain ⟨bb, rfl⟩ := h5 v (List.mem_of_getElem? hv)
      have hp : pyIndex sm.strs n = some (V.bytes bb) := by
        unfold pyIndex; rw [h4]; simp [show n ≥ 0 by omega, hv]
      refine ⟨(if bfs then V.bytes bb else compatV (V.bytes bb)), sm, ?_, ?_, h1, h2, fun _ => ⟨h4, h5⟩, h3.2⟩
      · simp [hp, bind, StateT.bind, StateT.run, get, getThe, MonadStateOf.get, StateT.get, pure, Except.pure, Except.bind,
          StateT.pure]
      · unfold portV; simp only [hpy2, portB_bytes]
        cases bfs <;> simp [compatV]

/-- 'r': an object reference -/
theorem lock_objRef (c : Cfg) (bfs : Bool) (n : Int) (hpy3 : verGeL c.version 3 0 = true) :
    Lock e (fun a b => b = portV c bfs a)
      (do let st ← get
          if n < 0 then throw PErr.badData else
          match st.refs[n.toNat]? with
          | some (some v) => pure v
          | _ => throw PErr.badData : P V)
      (do let s ← get
          match pyIndex s.refs n with
          | some v => pure v
          | Option.none => throw Err.indexError : M V) := by
  intro ss sm a ss' hI hrun
  obtain ⟨h1, h2, h3⟩ := hI
  by_cases hn : n < 0
  · simp [hn, bind, StateT.bind, StateT.run, get, getThe, MonadStateOf.get, StateT.get, pure, Except.pure, Except.bind,
      throw, throwThe, MonadExceptOf.throw, StateT.lift, liftM, monadLift, MonadLift.monadLift] at hrun
  · cases hv : ss.refs[n.toNat]? with
    | none =>
      simp [hn, hv, bind, StateT.bind, StateT.run, get, getThe, MonadStateOf.get, StateT.get, pure, Except.pure, Except.bind,
        throw, throwThe, MonadExceptOf.throw, StateT.lift, liftM, monadLift, MonadLift.monadLift] at hrun
    | some ov =>
      cases ov with
      | none =>
        simp [hn, hv, bind, StateT.bind, StateT.run, get, getThe, MonadStateOf.get, StateT.get, pure, Except.pure, Except.bind,
          throw, throwThe, MonadExceptOf.throw, StateT.lift, liftM, monadLift, MonadLift.monadLift] at hrun
      | some v =>
        simp [hn, hv, bind, StateT.bind, StateT.run, get, getThe, MonadStateOf.get, StateT.get, pure, Except.pure, Except.bind,
          StateT.pure] at hrun
        obtain ⟨rfl, rfl⟩ := hrun
        have hp : pyIndex sm.refs n = some v := by
          unfold pyIndex; simp [show n ≥ 0 by omega, h2.2 _ _ hv]
        refine ⟨v, sm, ?_, ?_, h1, h2, h3⟩
        · simp [hp, bind, StateT.bind, StateT.run, get, getThe, MonadStateOf.get, StateT.get, pure, Except.pure, Except.bind,
            StateT.pure]
        · unfold portV; simp only [hpy3, if_true]


/-- Spec bind against a Model computation with nothing left to do afterwards -/
theorem Lock.seqPure {R : α → β → Prop} {Q : γ → δ → Prop} {p : P α} {m : M β} {f : α → P γ} {g : β → δ}
    (h1 : Lock e R p m) (h2 : ∀ a b, R a b → Lock e Q (f a) (pure (g b))) :
    Lock e Q (p >>= f) (do let y ← m; pure (g y)) :=
  Lock.seq h1 h2

def portVList (c : Cfg) (bfs : Bool) (xs : List V) : List V :=
  if verGeL c.version 3 0 then xs else portBList bfs xs
def portVKVs (c : Cfg) (bfs : Bool) (xs : List (V × V)) : List (V × V) :=
  if verGeL c.version 3 0 then xs else portBKVs bfs xs

theorem portV_tuple (c : Cfg) (bfs : Bool) (xs : List V) : portV c bfs (.tuple xs) = .tuple (portVList c bfs xs) := by
  unfold portV portVList; split <;> simp only [portB]
theorem portV_list (c : Cfg) (bfs : Bool) (xs : List V) : portV c bfs (.list xs) = .list (portVList c bfs xs) := by
  unfold portV portVList; split <;> simp only [portB]
theorem portV_set (c : Cfg) (bfs : Bool) (xs : List V) : portV c bfs (.set xs) = .set (portVList c bfs xs) := by
  unfold portV portVList; split <;> simp only [portB]
theorem portV_fset (c : Cfg) (bfs : Bool) (xs : List V) : portV c bfs (.fset xs) = .fset (portVList c bfs xs) := by
  unfold portV portVList; split <;> simp only [portB]
theorem portV_dict (c : Cfg) (bfs : Bool) (xs : List (V × V)) : portV c bfs (.dict xs) = .dict (portVKVs c bfs xs) := by
  unfold portV portVKVs; split <;> simp only [portB]
theorem portVList_nil (c : Cfg) (bfs : Bool) : portVList c bfs [] = [] := by
  unfold portVList; split <;> simp only [portBList]
theorem portVList_cons (c : Cfg) (bfs : Bool) (x : V) (xs : List V) :
    portVList c bfs (x :: xs) = portV c bfs x :: portVList c bfs xs := by
  unfold portVList portV; split <;> simp only [portBList]
theorem portVKVs_nil (c : Cfg) (bfs : Bool) : portVKVs c bfs [] = [] := by
  unfold portVKVs; split <;> simp only [portBKVs]
theorem portVKVs_cons (c : Cfg) (bfs : Bool) (k v : V) (xs : List (V × V)) :
    portVKVs c bfs ((k, v) :: xs) = (portV c bfs k, portV c bfs v) :: portVKVs c bfs xs := by
  unfold portVKVs portV; split <;> simp only [portBKVs]

/-! ### one object -/

set_option maxHeartbeats 1000000 in
theorem rObj_case (c : Cfg) (sc : SCfg) (hc : CfgOK c sc) (e : Nat) (he : e = era c.version)
   (fs fm ds dm : Nat) (bfs txt : Bool) (hf : fs ≤ fm) (hd : dm ≤ ds) (hx : Ctx c bfs txt)
   (hItems : ∀ n, Lock e (fun a b => b = portVList c bfs a) (items sc e c.version fs ds txt n) (rItems c fm dm bfs n))
   (hDict : Lock e (fun a b => b = portVKVs c bfs a) (dictItems sc e c.version fs ds txt) (rDict c fm dm bfs))
   (hCode : ∀ flag, (flag = true → verGeL c.version 3 0 = true) →
      Lock e (fun a b => b = portV c bfs a) (code sc e c.version fs ds flag) (rCode c fm dm flag)) :
   Lock e (RO c bfs) (rObj sc e c.version (fs+1) ds txt) (rObject c (fm+1) dm bfs) := by
  rw [rObj, rObject]
  by_cases hdep : ds > sc.maxDepth
  · simp only [hdep, if_true]; exact Lock.fail
  · have hdm : ¬ dm > c.depthLimit := by have := hc.depth; omega
    simp only [hdep, hdm, if_false]
    refine Lock.seq lock_u8_read1 ?_
    intro b bl hbl
    subst hbl
    simp only []
    by_cases h48 : (if e = 4 then b &&& 127 else b) = 48
    · obtain ⟨hb, hs⟩ := ty_lit _ _ 48 (by decide) h48
      rw [if_pos h48, hb]
      split
      · exact Lock.fail
      · exact Lock.ret rfl
    rw [if_neg h48]
    refine Lock.wrap ?_
    split
    · rename_i heq; obtain ⟨hb, hs⟩ := ty_lit _ _ 78 (by decide) heq; rw [hb]
      exact Lock.ret (portV_leaf c bfs _ rfl).symm
    · rename_i heq; obtain ⟨hb, hs⟩ := ty_lit _ _ 70 (by decide) heq; rw [hb]
      exact Lock.ret (portV_leaf c bfs _ rfl).symm
    · rename_i heq; obtain ⟨hb, hs⟩ := ty_lit _ _ 84 (by decide) heq; rw [hb]
      exact Lock.ret (portV_leaf c bfs _ rfl).symm
    · rename_i heq; obtain ⟨hb, hs⟩ := ty_lit _ _ 83 (by decide) heq; rw [hb]
      exact Lock.ret (portV_leaf c bfs _ rfl).symm
    · rename_i heq; obtain ⟨hb, hs⟩ := ty_lit _ _ 46 (by decide) heq; rw [hb]
      exact Lock.ret (portV_leaf c bfs _ rfl).symm
    · -- 'i'
      rename_i heq; obtain ⟨hb, hs⟩ := ty_lit _ _ 105 (by decide) heq; rw [hb]
      generalize hflag : (decide (e = 4) && decide (b &&& 128 ≠ 0)) = flag at hs ⊢; rw [hs]
      exact Lock.seqEq lock_i32 (fun i => lock_refLeaf c bfs _ _ rfl)
    · -- 'I'
      rename_i heq; obtain ⟨hb, hs⟩ := ty_lit _ _ 73 (by decide) heq; rw [hb]
      generalize hflag : (decide (e = 4) && decide (b &&& 128 ≠ 0)) = flag at hs ⊢; rw [hs]
      refine Lock.guard (fun _ => Lock.seq lock_rd8_i64 ?_)
      rintro a b rfl
      exact lock_refLeaf c bfs _ _ rfl
    · -- 'l'
      rename_i heq; obtain ⟨hb, hs⟩ := ty_lit _ _ 108 (by decide) heq; rw [hb]
      generalize hflag : (decide (e = 4) && decide (b &&& 128 ≠ 0)) = flag at hs ⊢; rw [hs]
      refine Lock.seqEq lock_i32 (fun n => Lock.seq (lock_digits _ _ _) ?_)
      rintro ds d rfl
      refine Lock.guard (fun _ => ?_)
      have hv : (e ≥ 3) ↔ verGeL c.version 3 0 = true := he ▸ era_ge3 c.version
      by_cases h3 : verGeL c.version 3 0 = true
      · simp only [h3, hv.2 h3, if_true]
        exact lock_refLeaf c bfs _ _ rfl
      · have : ¬ e ≥ 3 := fun h => h3 (hv.1 h)
        simp only [h3, this, if_false]
        exact lock_refLeaf c bfs _ _ rfl
    · -- 'f'
      rename_i heq; obtain ⟨hb, hs⟩ := ty_lit _ _ 102 (by decide) heq; rw [hb]
      generalize hflag : (decide (e = 4) && decide (b &&& 128 ≠ 0)) = flag at hs ⊢; rw [hs]
      exact Lock.seqEq lock_u8 (fun k => Lock.seqEq (lock_rdN k) (fun s => lock_refLeaf c bfs _ _ rfl))
    · -- 'g'
      rename_i heq; obtain ⟨hb, hs⟩ := ty_lit _ _ 103 (by decide) heq; rw [hb]
      generalize hflag : (decide (e = 4) && decide (b &&& 128 ≠ 0)) = flag at hs ⊢; rw [hs]
      refine Lock.guard (fun _ => Lock.seq lock_rd8_u64 ?_)
      rintro a b rfl
      exact lock_refLeaf c bfs _ _ rfl
    · -- 'x'
      rename_i heq; obtain ⟨hb, hs⟩ := ty_lit _ _ 120 (by decide) heq; rw [hb]
      generalize hflag : (decide (e = 4) && decide (b &&& 128 ≠ 0)) = flag at hs ⊢; rw [hs]
      exact Lock.seqEq lock_u8 (fun k => Lock.seqEq (lock_rdN k) (fun s =>
        Lock.seqEq lock_u8 (fun k2 => Lock.seqEq (lock_rdN k2) (fun s2 => lock_refLeaf c bfs _ _ rfl))))
    · -- 'y'
      rename_i heq; obtain ⟨hb, hs⟩ := ty_lit _ _ 121 (by decide) heq; rw [hb]
      generalize hflag : (decide (e = 4) && decide (b &&& 128 ≠ 0)) = flag at hs ⊢; rw [hs]
      refine Lock.guard (fun _ => Lock.seq lock_rd8_u64 ?_)
      rintro a b rfl
      refine Lock.seq lock_rd8_u64 ?_
      rintro a2 b2 rfl
      exact lock_refLeaf c bfs _ _ rfl
    · -- 's'
      rename_i heq; obtain ⟨hb, hs⟩ := ty_lit _ _ 115 (by decide) heq; rw [hb]
      generalize hflag : (decide (e = 4) && decide (b &&& 128 ≠ 0)) = flag at hs ⊢; rw [hs]
      refine Lock.guard (fun htx => Lock.seq lock_size32 ?_)
      rintro n ni rfl
      refine Lock.seqEq (lock_rdN n) (fun s => ?_)
      have htxt : txt = false := by simpa [hc.strict] using htx
      have key : verGeL c.version 3 0 = true → bfs = true := by
        intro h3; unfold Ctx at hx; simp only [h3, if_true, htxt] at hx; cases bfs
        · simp at hx
        · rfl
      refine (lock_ref (.bytes s) (if bfs = true then V.bytes s else compatStr s) _ ?_).mono ?_
      · intro hfl; rw [key (py3_of_flag c e b he (hflag ▸ hfl))]; rfl
      · rintro a w ⟨rfl, rfl⟩
        unfold portV
        by_cases h3 : verGeL c.version 3 0 = true
        · simp only [h3, if_true, key h3]
        · simp only [h3]; simp only [portB]; rfl
    · -- 't'
      rename_i heq; obtain ⟨hb, hs⟩ := ty_lit _ _ 116 (by decide) heq; rw [hb]
      generalize hflag : (decide (e = 4) && decide (b &&& 128 ≠ 0)) = flag at hs ⊢; rw [hs]
      refine Lock.guard (fun h03 => Lock.seq lock_size32 ?_)
      rintro n ni rfl
      refine Lock.seqEq (lock_rdN n) (fun s => ?_)
      have hv : (e ≥ 3) ↔ verGeL c.version 3 0 = true := he ▸ era_ge3 c.version
      by_cases h4 : e = 4
      · have h3 : verGeL c.version 3 0 = true := hv.1 (by omega)
        simp only [h4, h3, if_true]
        cases hdec : Utf8.decodeSurrogatePass s with
        | none => exact Lock.fail
        | some cps =>
          simp only []
          exact lock_modStrs_model _ (by omega) (lock_refLeaf c bfs _ _ rfl)
      · have hle := he ▸ era_le4 c.version
        have h3 : ¬ verGeL c.version 3 0 = true := fun h => by have := hv.2 h; omega
        have hfl : flag = false := by rw [← hflag]; simp [h4]
        simp only [h4, h3, if_false, hfl]
        refine lock_modStrs_both s ?_
        simp only [rRef, Bool.false_eq_true, if_false, pure_bind]
        exact Lock.ret (by unfold portV; simp only [h3, portB_bytes]; simp)
    · -- 'R'
      rename_i heq; obtain ⟨hb, hs⟩ := ty_lit _ _ 82 (by decide) heq; rw [hb]
      refine Lock.guard (fun h12 => Lock.seqEq lock_i32 (fun n => ?_))
      have h12' : e = 1 ∨ e = 2 := by
        by_cases h1 : e = 1
        · exact Or.inl h1
        · by_cases h2 : e = 2
          · exact Or.inr h2
          · simp [h1, h2] at h12
      have hv : (e ≥ 3) ↔ verGeL c.version 3 0 = true := he ▸ era_ge3 c.version
      have h3 : verGeL c.version 3 0 = false := by
        cases hh : verGeL c.version 3 0 with
        | false => rfl
        | true => have := hv.2 hh; omega
      exact lock_strRef c bfs n h12' h3
    · -- 'u'
      rename_i heq; obtain ⟨hb, hs⟩ := ty_lit _ _ 117 (by decide) heq; rw [hb]
      generalize hflag : (decide (e = 4) && decide (b &&& 128 ≠ 0)) = flag at hs ⊢; rw [hs]
      refine Lock.seq lock_size32 ?_
      rintro n ni rfl
      refine Lock.seqEq (lock_rdN n) (fun s => ?_)
      have hv : (e ≥ 3) ↔ verGeL c.version 3 0 = true := he ▸ era_ge3 c.version
      by_cases h3 : verGeL c.version 3 0 = true
      · simp only [h3, hv.2 h3, if_true, Bool.not_true, Bool.false_eq_true, if_false]
        cases hdec : Utf8.decodeSurrogatePass s with
        | none => exact Lock.fail
        | some cps => exact lock_refLeaf c bfs _ _ rfl
      · have h3' : ¬ e ≥ 3 := fun h => h3 (hv.1 h)
        have hfl : flag = false := by rw [← hflag]; simp [show ¬ e = 4 by omega]
        simp only [h3, h3', if_false, Bool.not_false, if_true, hfl]
        cases hdec : Utf8.decodeSurrogatePass s with
        | none => exact Lock.fail
        | some cps =>
          simp only [rRef, Bool.false_eq_true, if_false, pure_bind]
          exact Lock.ret (portV_leaf c bfs _ rfl).symm
    · -- 'a'
      rename_i heq; obtain ⟨hb, hs⟩ := ty_lit _ _ 97 (by decide) heq; rw [hb]
      generalize hflag : (decide (e = 4) && decide (b &&& 128 ≠ 0)) = flag at hs ⊢; rw [hs]
      refine Lock.guard (fun h4 => Lock.seq lock_size32 ?_)
      rintro n ni rfl
      refine Lock.seqEq (lock_rdN n) (fun s => ?_)
      refine lock_asciiStr sc hc.strict s _ _ (fun hcs => ?_)
      rw [hcs]; exact lock_refLeaf c bfs _ _ rfl
    · -- 'A'
      rename_i heq; obtain ⟨hb, hs⟩ := ty_lit _ _ 65 (by decide) heq; rw [hb]
      generalize hflag : (decide (e = 4) && decide (b &&& 128 ≠ 0)) = flag at hs ⊢; rw [hs]
      refine Lock.guard (fun h4 => Lock.seq lock_size32 ?_)
      rintro n ni rfl
      refine Lock.seqEq (lock_rdN n) (fun s => ?_)
      refine lock_asciiStr sc hc.strict s _ _ (fun hcs => ?_)
      have hle := he ▸ era_le4 c.version
      refine lock_modStrs_model _ (by omega) ?_
      rw [hcs]; exact lock_refLeaf c bfs _ _ rfl
    · -- 'z'
      rename_i heq; obtain ⟨hb, hs⟩ := ty_lit _ _ 122 (by decide) heq; rw [hb]
      generalize hflag : (decide (e = 4) && decide (b &&& 128 ≠ 0)) = flag at hs ⊢; rw [hs]
      refine Lock.guard (fun h4 => Lock.seqEq lock_u8 (fun n => ?_))
      refine Lock.seqEq (lock_rdN n) (fun s => ?_)
      refine lock_asciiStr sc hc.strict s _ _ (fun hcs => ?_)
      rw [hcs]; exact lock_refLeaf c bfs _ _ rfl
    · -- 'Z'
      rename_i heq; obtain ⟨hb, hs⟩ := ty_lit _ _ 90 (by decide) heq; rw [hb]
      generalize hflag : (decide (e = 4) && decide (b &&& 128 ≠ 0)) = flag at hs ⊢; rw [hs]
      refine Lock.guard (fun h4 => Lock.seqEq lock_u8 (fun n => ?_))
      refine Lock.seqEq (lock_rdN n) (fun s => ?_)
      refine lock_asciiStr sc hc.strict s _ _ (fun hcs => ?_)
      have hle := he ▸ era_le4 c.version
      refine lock_modStrs_model _ (by omega) ?_
      rw [hcs]; exact lock_refLeaf c bfs _ _ rfl
    · -- ')'
      rename_i heq; obtain ⟨hb, hs⟩ := ty_lit _ _ 41 (by decide) heq; rw [hb]
      generalize hflag : (decide (e = 4) && decide (b &&& 128 ≠ 0)) = flag at hs ⊢; rw [hs]
      refine Lock.guard (fun h4 => Lock.seqEq lock_u8 (fun n => ?_))
      refine Lock.seq (lock_reserve _ flag) ?_
      rintro i i' ⟨hii, hi⟩; rw [hii]
      refine Lock.seq (hItems n) ?_
      rintro xs xs' rfl
      refine (lock_insert (.tuple xs) _ i ?_).mono ?_
      · intro his
        have h3 := py3_of_flag c e b he (hflag ▸ hi his)
        simp only [portVList, h3, if_true]
      · rintro a w ⟨rfl, rfl⟩; rw [portV_tuple]
    · -- 40
      rename_i heq; obtain ⟨hb, hs⟩ := ty_lit _ _ 40 (by decide) heq; rw [hb]
      generalize hflag : (decide (e = 4) && decide (b &&& 128 ≠ 0)) = flag at hs ⊢; rw [hs]
      refine Lock.seq lock_size32 ?_
      rintro n ni rfl
      simp only [Int.toNat_natCast]
      refine Lock.seq (lock_reserve _ flag) ?_
      rintro i i' ⟨hii, hi⟩; rw [hii]
      refine Lock.seq (hItems n) ?_
      rintro xs xs' rfl
      refine (lock_insert (.tuple xs) _ i ?_).mono ?_
      · intro his
        have h3 := py3_of_flag c e b he (hflag ▸ hi his)
        simp only [portVList, h3, if_true]
      · rintro a w ⟨rfl, rfl⟩; rw [portV_tuple]
    · -- 91
      rename_i heq; obtain ⟨hb, hs⟩ := ty_lit _ _ 91 (by decide) heq; rw [hb]
      generalize hflag : (decide (e = 4) && decide (b &&& 128 ≠ 0)) = flag at hs ⊢; rw [hs]
      refine Lock.seq lock_size32 ?_
      rintro n ni rfl
      simp only [Int.toNat_natCast]
      refine Lock.seq (lock_reserve _ flag) ?_
      rintro i i' ⟨hii, hi⟩; rw [hii]
      refine Lock.seq (hItems n) ?_
      rintro xs xs' rfl
      refine (lock_insert (.list xs) _ i ?_).mono ?_
      · intro his
        have h3 := py3_of_flag c e b he (hflag ▸ hi his)
        simp only [portVList, h3, if_true]
      · rintro a w ⟨rfl, rfl⟩; rw [portV_list]
    · -- 60
      rename_i heq; obtain ⟨hb, hs⟩ := ty_lit _ _ 60 (by decide) heq; rw [hb]
      generalize hflag : (decide (e = 4) && decide (b &&& 128 ≠ 0)) = flag at hs ⊢; rw [hs]
      refine Lock.guard (fun hg => Lock.seq lock_size32 ?_)
      rintro n ni rfl
      simp only [Int.toNat_natCast]
      refine Lock.seq (lock_reserve _ flag) ?_
      rintro i i' ⟨hii, hi⟩; rw [hii]
      refine Lock.seq (hItems n) ?_
      rintro xs xs' rfl
      refine (lock_insert (.set xs) _ i ?_).mono ?_
      · intro his
        have h3 := py3_of_flag c e b he (hflag ▸ hi his)
        simp only [portVList, h3, if_true]
      · rintro a w ⟨rfl, rfl⟩; rw [portV_set]
    · -- 62
      rename_i heq; obtain ⟨hb, hs⟩ := ty_lit _ _ 62 (by decide) heq; rw [hb]
      generalize hflag : (decide (e = 4) && decide (b &&& 128 ≠ 0)) = flag at hs ⊢; rw [hs]
      refine Lock.guard (fun hg => Lock.seq lock_size32 ?_)
      rintro n ni rfl
      simp only [Int.toNat_natCast]
      refine Lock.seq (lock_reserve _ flag) ?_
      rintro i i' ⟨hii, hi⟩; rw [hii]
      refine Lock.seq (hItems n) ?_
      rintro xs xs' rfl
      refine (lock_insert (.fset xs) _ i ?_).mono ?_
      · intro his
        have h3 := py3_of_flag c e b he (hflag ▸ hi his)
        simp only [portVList, h3, if_true]
      · rintro a w ⟨rfl, rfl⟩; rw [portV_fset]
    · -- '{'
      rename_i heq; obtain ⟨hb, hs⟩ := ty_lit _ _ 123 (by decide) heq; rw [hb]
      generalize hflag : (decide (e = 4) && decide (b &&& 128 ≠ 0)) = flag at hs ⊢; rw [hs]
      refine Lock.seq (lock_reserve _ flag) ?_
      rintro i i' ⟨hii, hi⟩; rw [hii]
      refine Lock.seq hDict ?_
      rintro xs xs' rfl
      refine (lock_insert (.dict xs) _ i ?_).mono ?_
      · intro his
        have h3 := py3_of_flag c e b he (hflag ▸ hi his)
        simp only [portVKVs, h3, if_true]
      · rintro a w ⟨rfl, rfl⟩; rw [portV_dict]
    · -- 'r'
      rename_i heq; obtain ⟨hb, hs⟩ := ty_lit _ _ 114 (by decide) heq; rw [hb]
      refine Lock.guard (fun h4 => Lock.seqEq lock_i32 (fun n => ?_))
      have hle := he ▸ era_le4 c.version
      have h3 : verGeL c.version 3 0 = true := (he ▸ era_ge3 c.version).1 (by omega)
      exact lock_objRef c bfs n h3
    · -- 'c'
      rename_i heq; obtain ⟨hb, hs⟩ := ty_lit _ _ 99 (by decide) heq; rw [hb]
      generalize hflag : (decide (e = 4) && decide (b &&& 128 ≠ 0)) = flag at hs ⊢; rw [hs]
      exact hCode flag (fun hfl => py3_of_flag c e b he (hflag ▸ hfl))
    · exact Lock.fail

/-! ### item loops -/

theorem items_case (c : Cfg) (sc : SCfg) (e : Nat)
   (fs fm ds dm : Nat) (bfs txt : Bool)
   (hObj : Lock e (RO c bfs) (rObj sc e c.version fs (ds+1) txt) (rObject c fm (dm+1) bfs))
   (hItems : ∀ n, Lock e (fun a b => b = portVList c bfs a) (items sc e c.version fs ds txt n) (rItems c fm dm bfs n)) :
   ∀ n, Lock e (fun a b => b = portVList c bfs a) (items sc e c.version (fs+1) ds txt n) (rItems c (fm+1) dm bfs n) := by
  intro n
  cases n with
  | zero =>
    rw [items, rItems]
    · exact Lock.ret (portVList_nil c bfs).symm
    all_goals omega
  | succ n =>
    rw [items, rItems]
    refine Lock.seq hObj ?_
    intro a b hab
    cases a with
    | none => exact Lock.fail
    | some v =>
      simp only [RO] at hab
      subst hab
      refine Lock.seq (hItems n) ?_
      rintro xs xs' rfl
      exact Lock.ret (portVList_cons c bfs v xs).symm

theorem u8_run (s : PSt) : u8.run s = match s.inp with
    | [] => .error .eof
    | x :: rest => .ok (x, { s with inp := rest }) := by
  unfold u8
  rw [P_run_bind, rd_run]
  cases h : s.inp with
  | nil => simp
  | cons x rest => simp [StateT.run, pure, StateT.pure, Except.pure, leNat]

theorem byte48 : ∀ x, x < 256 → x &&& 127 = 48 → x &&& 128 = 0 → x = 48 := by decide +kernel

theorem wrap_not_none (m : P V) (s s' : PSt) : (do let v ← m; pure (some v) : P (Option V)).run s ≠ .ok (none, s') := by
  rw [P_run_bind]
  cases m.run s with
  | error er => simp
  | ok r => simp [StateT.run, pure, StateT.pure, Except.pure]

/-- marshal.c's reader returns NULL exactly when the next byte is TYPE_NULL ('0') -/
theorem rObj_head (sc : SCfg) (hs : sc.strict = true) (e : Nat) (ver : List Nat) (fuel d : Nat) (txt : Bool)
    (ss ss' : PSt) (r : Option V) (hab : AllBytes ss.inp)
    (hrun : (rObj sc e ver fuel d txt).run ss = .ok (r, ss')) :
    ∃ x rest, ss.inp = x :: rest ∧ (r = none ↔ x = 48) ∧ (r = none → ss' = { ss with inp := rest }) := by
  cases fuel with
  | zero =>
    rw [rObj] at hrun
    simp [StateT.run, throw, throwThe, MonadExceptOf.throw, StateT.lift, Except.bind, bind, liftM, monadLift,
      MonadLift.monadLift] at hrun
  | succ fuel =>
    rw [rObj] at hrun
    by_cases hdep : d > sc.maxDepth
    · simp only [hdep, if_true] at hrun
      simp [StateT.run, throw, throwThe, MonadExceptOf.throw, StateT.lift, Except.bind, bind, liftM, monadLift,
        MonadLift.monadLift] at hrun
    · simp only [hdep, if_false] at hrun
      rw [P_run_bind, u8_run] at hrun
      cases hinp : ss.inp with
      | nil => simp [hinp] at hrun
      | cons x rest =>
        simp only [hinp] at hrun
        refine ⟨x, rest, rfl, ?_⟩
        have hx : x < 256 := hab x (by simp [hinp])
        by_cases h48 : (if e = 4 then x &&& 127 else x) = 48
        · rw [if_pos h48] at hrun
          by_cases hg : (sc.strict && (decide (e = 4) && decide (x &&& 128 ≠ 0))) = true
          · simp only [hg, if_true] at hrun
            simp [StateT.run, throw, throwThe, MonadExceptOf.throw, StateT.lift, Except.bind, bind, liftM, monadLift,
              MonadLift.monadLift] at hrun
          · simp only [hg, if_false] at hrun
            simp [StateT.run, pure, StateT.pure, Except.pure] at hrun
            obtain ⟨rfl, rfl⟩ := hrun
            have hx48 : x = 48 := by
              by_cases he : e = 4
              · simp [he] at h48
                simp [hs, he] at hg
                exact byte48 x hx h48 hg
              · simpa [he] using h48
            exact ⟨by simp [hx48], fun _ => rfl⟩
        · rw [if_neg h48] at hrun
          have hne : r ≠ none := by
            intro hr; subst hr
            exact wrap_not_none _ _ _ hrun
          have hx48 : x ≠ 48 := by
            intro hx; subst hx
            by_cases he : e = 4 <;> simp [he] at h48
          exact ⟨by simp [hne, hx48], fun h => absurd h hne⟩

theorem dict_case (c : Cfg) (sc : SCfg) (hc : CfgOK c sc) (e : Nat)
   (fs fm ds dm : Nat) (bfs txt : Bool)
   (hObj : Lock e (RO c bfs) (rObj sc e c.version fs (ds+1) txt) (rObject c fm (dm+1) bfs))
   (hDict : Lock e (fun a b => b = portVKVs c bfs a) (dictItems sc e c.version fs ds txt) (rDict c fm dm bfs)) :
   Lock e (fun a b => b = portVKVs c bfs a) (dictItems sc e c.version (fs+1) ds txt) (rDict c (fm+1) dm bfs) := by
  -- what follows the key on both sides
  have hrest : ∀ kv, Lock e (fun a b => b = portVKVs c bfs a)
      (do let v ← rObj sc e c.version fs (ds + 1) txt
          match v with
          | none => if sc.strict = true then throw PErr.badData else pure []
          | some vv => do
            let rest ← dictItems sc e c.version fs ds txt
            pure ((kv, vv) :: rest))
      (do let v ← rObject c fm (dm + 1) bfs
          let rest ← rDict c fm dm bfs
          pure ((portV c bfs kv, v) :: rest)) := by
    intro kv
    refine Lock.seq hObj ?_
    intro v w hvw
    cases v with
    | none => simp only [hc.strict, if_true]; exact Lock.fail
    | some vv =>
      simp only [RO] at hvw; subst hvw
      refine Lock.seq hDict ?_
      rintro xs xs' rfl
      exact Lock.ret (portVKVs_cons c bfs kv vv xs).symm
  intro ss sm a ss' hI hrun
  rw [dictItems, P_run_bind] at hrun
  cases hk : (rObj sc e c.version fs (ds + 1) txt).run ss with
  | error er => rw [hk] at hrun; cases hrun
  | ok r =>
    obtain ⟨k, s1⟩ := r
    rw [hk] at hrun
    simp only [] at hrun
    obtain ⟨x, rest, hinp, hnone, hst⟩ := rObj_head sc hc.strict e c.version fs (ds+1) txt ss s1 k hI.2.2.2 hk
    have hinpm : sm.inp = x :: rest := by rw [← hI.1]; exact hinp
    rw [rDict, M_run_bind]
    have hr1 : (readN 1).run sm = .ok ([x], { sm with inp := rest }) := by
      have := readN_run 1 sm
      simp [hinpm] at this
      exact this
    rw [hr1]
    simp only []
    by_cases hx : x = 48
    · subst hx
      have hkn : k = none := hnone.2 rfl
      subst hkn
      have hs1 := hst rfl
      subst hs1
      simp [StateT.run, pure, StateT.pure, Except.pure] at hrun
      obtain ⟨rfl, rfl⟩ := hrun
      refine ⟨[], { sm with inp := rest }, rfl, (portVKVs_nil c bfs).symm, rfl, hI.2.1, hI.2.2.1, ?_⟩
      have := allBytes_drop 1 hI.2.2.2
      simpa [hinp] using this
    · have hks : k ≠ none := fun h => hx (hnone.1 h)
      cases k with
      | none => exact absurd rfl hks
      | some kv =>
        simp only [] at hrun
        -- the Model: not the terminator, seek back, read the key
        obtain ⟨kw, sm1, hm1, hR1, hI1⟩ := hObj ss sm (some kv) s1 hI hk
        simp only [RO] at hR1
        subst hR1
        obtain ⟨kvs, sm2, hm2, hR2, hI2⟩ := hrest kv s1 sm1 a ss' hI1 hrun
        refine ⟨kvs, sm2, ?_, hR2, hI2⟩
        have hback : ({ sm with inp := rest } : St) = { inp := rest, refs := sm.refs, strs := sm.strs } := rfl
        have hsm : ({ inp := x :: rest, refs := sm.refs, strs := sm.strs } : St) = sm := by
          cases sm; simp at hinpm; simp [hinpm]
        split
        · rename_i heq; cases heq
        · rename_i heq; simp at heq; exact absurd heq hx
        · rename_i y tl heq
          simp at heq
          obtain ⟨rfl, _⟩ := heq
          rw [M_run_modify]
          simp only [hsm]
          rw [M_run_bind, hm1]
          exact hm2

/-- `obj` (an object that must not be NULL) against xdis's r_object -/
theorem lock_obj (c : Cfg) (sc : SCfg) (e : Nat) (f fm ds dm : Nat) (bfs txt : Bool)
    (hObj : ∀ f', f' < f → Lock e (RO c bfs) (rObj sc e c.version f' (ds+1) txt) (rObject c fm (dm+1) bfs)) :
    Lock e (fun a b => b = portV c bfs a) (obj sc e c.version f ds txt) (rObject c fm (dm+1) bfs) := by
  unfold obj
  cases f with
  | zero => exact Lock.fail
  | succ f' =>
    simp only []
    have h := hObj f' (by omega)
    intro ss sm a ss' hI hrun
    rw [P_run_bind] at hrun
    cases hk : (rObj sc e c.version f' (ds + 1) txt).run ss with
    | error er => rw [hk] at hrun; cases hrun
    | ok r =>
      obtain ⟨k, s1⟩ := r
      rw [hk] at hrun
      obtain ⟨w, sm1, hm, hR, hI1⟩ := h ss sm k s1 hI hk
      cases k with
      | none =>
        simp [StateT.run, throw, throwThe, MonadExceptOf.throw, StateT.lift, Except.bind, bind, liftM, monadLift,
          MonadLift.monadLift] at hrun
      | some v =>
        simp [StateT.run, pure, StateT.pure, Except.pure] at hrun
        obtain ⟨rfl, rfl⟩ := hrun
        exact ⟨w, sm1, hm, hR, hI1⟩


/-! ### code objects -/

theorem verGeL_anti (v : List Nat) (a b a' b' : Nat) (hle : a' < a ∨ (a' = a ∧ b' ≤ b))
    (h : verGeL v a' b' = false) : verGeL v a b = false := by
  cases hh : verGeL v a b with
  | false => rfl
  | true => rw [verGeL_mono v a b a' b' hle hh] at h; cases h

theorem lock_argcount (c : Cfg) : Lock e (fun a b => b = a) (argcountF c.version) (argcountM c) := by
  unfold argcountF argcountM intF
  by_cases g23 : verGeL c.version 2 3 = true
  · have g13 := verGeL_mono _ 2 3 1 3 (by omega) g23
    simp only [g23, g13, if_true]; exact lock_i32
  · by_cases g13 : verGeL c.version 1 3 = true
    · simp only [g23, g13, if_true, if_false]; exact lock_i16
    · simp only [g23, g13, if_false]; exact Lock.ret rfl

theorem lock_posonly (c : Cfg) (sc : SCfg) (hc : CfgOK c sc) : Lock e (fun a b => b = a) (posonlyF c.version) (posonlyM c) := by
  unfold posonlyF posonlyM
  by_cases g38 : verGeL c.version 3 8 = true
  · simp only [g38, if_true, hc.m1, hc.m2, hc.m3, hc.m4, or_self, if_false]
    exact Lock.seqEq lock_i32 (fun x => Lock.ret rfl)
  · simp only [g38, if_false]; exact Lock.ret rfl

theorem lock_kwonly (c : Cfg) : Lock e (fun a b => b = a) (kwonlyF c.version) (kwonlyM c) := by
  unfold kwonlyF kwonlyM
  by_cases g : verGeL c.version 3 0 = true
  · simp only [g, if_true]; exact lock_i32
  · simp only [g, if_false]; exact Lock.ret rfl

theorem lock_nlocals (c : Cfg) : Lock e (fun a b => b = a) (nlocalsF c.version) (nlocalsM c) := by
  unfold nlocalsF nlocalsM intF
  by_cases g311 : verGeL c.version 3 11 = true
  · simp only [g311, if_true, Bool.not_true, Bool.false_eq_true, if_false]; exact Lock.ret rfl
  · simp only [g311, if_false, Bool.not_false, if_true]
    by_cases g23 : verGeL c.version 2 3 = true
    · have g13 := verGeL_mono _ 2 3 1 3 (by omega) g23
      simp only [g23, g13, if_true]; exact lock_i32
    · by_cases g13 : verGeL c.version 1 3 = true
      · simp only [g23, g13, if_true, if_false]; exact lock_i16
      · simp only [g23, g13, if_false]; exact Lock.ret rfl

theorem lock_stacksize (c : Cfg) : Lock e (fun a b => b = a) (stacksizeF c.version) (stacksizeM c) := by
  unfold stacksizeF stacksizeM intF
  by_cases g23 : verGeL c.version 2 3 = true
  · have g15 := verGeL_mono _ 2 3 1 5 (by omega) g23
    simp only [g23, g15, if_true]; exact lock_i32
  · by_cases g15 : verGeL c.version 1 5 = true
    · simp only [g23, g15, if_true, if_false]; exact lock_i16
    · simp only [g23, g15, if_false]; exact Lock.ret rfl

theorem lock_flags (c : Cfg) : Lock e (fun a b => b = a) (flagsF c.version) (flagsM c) := by
  unfold flagsF flagsM intF
  by_cases g23 : verGeL c.version 2 3 = true
  · have g13 := verGeL_mono _ 2 3 1 3 (by omega) g23
    simp only [g23, g13, if_true]; exact lock_i32
  · by_cases g13 : verGeL c.version 1 3 = true
    · simp only [g23, g13, if_true, if_false]; exact lock_i16
    · simp only [g23, g13, if_false]; exact Lock.ret rfl

theorem lock_first (c : Cfg) : Lock e (fun a b => b = a) (firstF c.version) (firstM c) := by
  unfold firstF firstM intF
  by_cases g15 : verGeL c.version 1 5 = true
  · simp only [g15, if_true]
    by_cases g23 : verGeL c.version 2 3 = true
    · simp only [g23, if_true]; exact lock_i32
    · simp only [g23, if_false]; exact lock_i16
  · simp only [g15, if_false]; exact Lock.ret rfl

theorem lock_posonly' (c : Cfg) (sc : SCfg) (hc : CfgOK c sc) :
    Lock e (fun a b => b = a ∧ Leaf a = true) (posonlyF c.version) (posonlyM c) := by
  unfold posonlyF posonlyM
  by_cases g38 : verGeL c.version 3 8 = true
  · simp only [g38, if_true, hc.m1, hc.m2, hc.m3, hc.m4, or_self, if_false]
    exact Lock.seqEq lock_i32 (fun x => Lock.ret ⟨rfl, rfl⟩)
  · simp only [g38, if_false]; exact Lock.ret ⟨rfl, rfl⟩

theorem ctx_code (c : Cfg) : Ctx c true false := by unfold Ctx; split <;> rfl
theorem ctx_consts (c : Cfg) : Ctx c (verGeL c.version 3 0) false := by
  unfold Ctx; cases h : verGeL c.version 3 0 <;> simp
theorem ctx_varnames (c : Cfg) : Ctx c false (verGeL c.version 3 0) := by
  unfold Ctx; cases h : verGeL c.version 3 0 <;> simp


/-- a field that exists only from some version on -/
theorem lock_optObj (c : Cfg) (sc : SCfg) (e : Nat) (fs fm ds dm : Nat) (g bfs txt : Bool) (d : V)
    (hO : Lock e (fun a b => b = portV c bfs a) (obj sc e c.version fs ds txt) (rObject c fm (dm+1) bfs))
    (hd : portV c bfs d = d) :
    Lock e (fun a b => b = portV c bfs a)
      (if g = true then obj sc e c.version fs ds txt else pure d)
      (if g = true then rObject c fm (dm+1) bfs else pure d) := by
  cases g
  · simp only [Bool.false_eq_true, if_false]; exact Lock.ret hd.symm
  · simp only [if_true]; exact hO

theorem portV_empty_tuple (c : Cfg) (b : Bool) : portV c b (.tuple []) = .tuple [] := by
  rw [portV_tuple, portVList_nil]
theorem portV_empty_bytes (c : Cfg) : portV c true (.bytes []) = .bytes [] := by
  unfold portV; split <;> simp [portB]

theorem portV_py3 (c : Cfg) (h : verGeL c.version 3 0 = true) (b : Bool) (v : V) : portV c b v = v := by
  unfold portV; simp [h]

theorem filterMap_congr_mem {α β : Type} (f g : α → Option β) (l : List α) (h : ∀ x ∈ l, f x = g x) :
    l.filterMap f = l.filterMap g := by
  induction l with
  | nil => rfl
  | cons x xs ih =>
    simp only [List.filterMap_cons, h x (by simp)]
    rw [ih (fun y hy => h y (by simp [hy]))]

theorem code_case (c : Cfg) (sc : SCfg) (hc : CfgOK c sc) (e : Nat) (he : e = era c.version)
   (fs fm ds dm : Nat)
   (hO : ∀ bfs txt, Ctx c bfs txt →
      Lock e (fun a b => b = portV c bfs a) (obj sc e c.version fs ds txt) (rObject c fm (dm+1) bfs))
   (flag bfs0 : Bool) (hflag : flag = true → verGeL c.version 3 0 = true) :
   Lock e (fun a b => b = portV c bfs0 a) (code sc e c.version (fs+1) ds flag) (rCode c (fm+1) dm flag) := by
  rw [code, rCode]
  simp only []
  refine Lock.seq (lock_reserve _ flag) ?_
  rintro i i' ⟨hii, hi⟩; rw [hii]
  refine Lock.seqEq (lock_argcount c) (fun argcount => ?_)
  refine Lock.seq (lock_posonly' c sc hc) ?_
  rintro posonly posonly' ⟨hpp, hpos⟩; rw [hpp]
  refine Lock.seqEq (lock_kwonly c) (fun kwonly => ?_)
  refine Lock.seqEq (lock_nlocals c) (fun nlocals => ?_)
  refine Lock.seqEq (lock_stacksize c) (fun stacksize => ?_)
  refine Lock.seqEq (lock_flags c) (fun flags => ?_)
  refine Lock.seq (hO true false (ctx_code c)) ?_
  rintro co co' rfl
  simp only [hc.graal, Bool.false_eq_true, if_false]
  refine Lock.seq (hO _ false (ctx_consts c)) ?_
  rintro consts consts' rfl
  refine Lock.seq (hO false _ (ctx_varnames c)) ?_
  rintro names names' rfl
  -- a filled reference slot means FLAG_REF, hence a 3.4+ stream, where nothing is re-read
  have hflag3 : i.isSome = true → verGeL c.version 3 0 = true := by
    intro his
    exact hflag (hi his)
  by_cases g311 : verGeL c.version 3 11 = true
  · have h3 : verGeL c.version 3 0 = true := verGeL_mono _ 3 11 3 0 (by omega) g311
    simp only [g311, if_true, h3]
    refine Lock.seq (hO true false (ctx_code c)) ?_
    rintro lpn lpn' rfl
    refine Lock.seq (hO true false (ctx_code c)) ?_
    rintro lpk lpk' rfl
    refine Lock.seq (hO true false (ctx_code c)) ?_
    rintro filename filename' rfl
    refine Lock.seq (hO true false (ctx_code c)) ?_
    rintro name name' rfl
    refine Lock.seq (hO true false (ctx_code c)) ?_
    rintro qualname qualname' rfl
    refine Lock.seqEq lock_i32 (fun first => ?_)
    refine Lock.seq (hO true false (ctx_code c)) ?_
    rintro lt lt' rfl
    refine Lock.seq (hO true false (ctx_code c)) ?_
    rintro et et' rfl
    refine Lock.guard (fun hg => ?_)
    simp only [portV_py3 c h3]
    simp only [hc.strict, Bool.true_and, Bool.not_eq_true', Bool.not_eq_false', Bool.and_eq_true] at hg
    obtain ⟨xs, rfl⟩ : ∃ xs, lpn = .tuple xs := by
      cases lpn <;> simp at hg
      exact ⟨_, rfl⟩
    obtain ⟨ks, rfl⟩ : ∃ ks, lpk = .bytes ks := by
      cases lpk <;> simp at hg
      exact ⟨_, rfl⟩
    simp only [] at hg ⊢
    have hk : ∀ p ∈ xs.zip ks, kindOK p.2 = true := by
      intro p hp
      have hall : ks.all kindOK = true := by
        cases h : List.all ks kindOK
        · exact (hg (by simp [h])).elim
        · rfl
      rw [List.all_eq_true] at hall
      exact hall p.2 (List.of_mem_zip hp).2
    have hcs : (xs.zip ks).filterMap (fun (x : V × Nat) =>
          if x.snd &&& 32 ≠ 0 then (if x.snd &&& 64 ≠ 0 then some x.fst else Option.none)
          else if x.snd &&& 64 ≠ 0 then some x.fst else Option.none) =
        (xs.zip ks).filterMap (fun (x : V × Nat) => if x.snd &&& 64 ≠ 0 then some x.fst else none) := by
      apply filterMap_congr_mem
      intro p _
      by_cases h1 : p.2 &&& 32 ≠ 0 <;> simp [h1]
    have hfs : (xs.zip ks).filterMap (fun (x : V × Nat) =>
          if x.snd &&& 32 ≠ 0 then Option.none else if x.snd &&& 64 ≠ 0 then Option.none
          else if x.snd &&& 128 ≠ 0 then some x.fst else Option.none) =
        (xs.zip ks).filterMap (fun (x : V × Nat) => if x.snd &&& 128 ≠ 0 then some x.fst else none) := by
      apply filterMap_congr_mem
      intro p hp
      have hkp := hk p hp
      simp only [kindOK, Bool.or_eq_true, Bool.and_eq_true, decide_eq_true_eq] at hkp
      by_cases h1 : p.2 &&& 128 ≠ 0
      · have : p.2 &&& 32 = 0 ∧ p.2 &&& 64 = 0 := by
          rcases hkp with h | h
          · exact absurd h h1
          · exact h
        simp [h1, this.1, this.2]
      · simp [h1]
    rw [hcs, hfs]
    refine (lock_insert _ _ i (fun _ => rfl)).mono ?_
    rintro a w ⟨rfl, rfl⟩
    rfl
  · simp only [g311, if_false]
    refine Lock.seq (lock_optObj c sc e fs fm ds dm _ false _ _ (hO false _ (ctx_varnames c)) (portV_empty_tuple c _)) ?_
    rintro varnames varnames' rfl
    refine Lock.seq (lock_optObj c sc e fs fm ds dm _ false _ _ (hO false _ (ctx_varnames c)) (portV_empty_tuple c _)) ?_
    rintro freevars freevars' rfl
    refine Lock.seq (lock_optObj c sc e fs fm ds dm _ false _ _ (hO false _ (ctx_varnames c)) (portV_empty_tuple c _)) ?_
    rintro cellvars cellvars' rfl
    refine Lock.seq (hO false _ (ctx_varnames c)) ?_
    rintro filename filename' rfl
    refine Lock.seq (hO false _ (ctx_varnames c)) ?_
    rintro name name' rfl
    refine Lock.seqEq (lock_first c) (fun first => ?_)
    refine Lock.seq (lock_optObj c sc e fs fm ds dm _ true false _ (hO true false (ctx_code c)) (portV_empty_bytes c)) ?_
    rintro lt lt' rfl
    refine (lock_insert _ _ i ?_).mono ?_
    · intro his
      have h3 := hflag3 his
      simp only [portV_py3 c h3]
    · rintro a w ⟨rfl, rfl⟩
      by_cases h3 : verGeL c.version 3 0 = true
      · simp only [portV_py3 c h3]
      · simp only [portV, h3]
        simp [portB, portBFields, portB_leaf _ posonly hpos]

/-! ### the induction -/

/-- the four mutually recursive readers, at Spec fuel `fs` -/
def Stmt (c : Cfg) (sc : SCfg) (e : Nat) (fs : Nat) : Prop :=
  (∀ fm ds dm bfs txt, fs ≤ fm → dm ≤ ds → Ctx c bfs txt →
      Lock e (RO c bfs) (rObj sc e c.version fs ds txt) (rObject c fm dm bfs)) ∧
  (∀ fm ds dm bfs txt n, fs ≤ fm → dm ≤ ds → Ctx c bfs txt →
      Lock e (fun a b => b = portVList c bfs a) (items sc e c.version fs ds txt n) (rItems c fm dm bfs n)) ∧
  (∀ fm ds dm bfs txt, fs ≤ fm → dm ≤ ds → Ctx c bfs txt →
      Lock e (fun a b => b = portVKVs c bfs a) (dictItems sc e c.version fs ds txt) (rDict c fm dm bfs)) ∧
  (∀ fm ds dm flag bfs0, fs ≤ fm → dm ≤ ds → (flag = true → verGeL c.version 3 0 = true) →
      Lock e (fun a b => b = portV c bfs0 a) (code sc e c.version fs ds flag) (rCode c fm dm flag))

theorem sim_all (c : Cfg) (sc : SCfg) (hc : CfgOK c sc) (e : Nat) (he : e = era c.version) :
    ∀ fs, Stmt c sc e fs := by
  intro fs
  induction fs using Nat.strongRecOn with
  | ind fs ih =>
    cases fs with
    | zero =>
      refine ⟨?_, ?_, ?_, ?_⟩
      · intro fm ds dm bfs txt _ _ _; rw [rObj]; exact Lock.fail
      · intro fm ds dm bfs txt n _ _ _; rw [items]; exact Lock.fail
      · intro fm ds dm bfs txt _ _ _; rw [dictItems]; exact Lock.fail
      · intro fm ds dm flag bfs0 _ _ _; rw [code]; exact Lock.fail
    | succ f =>
      obtain ⟨iO, iI, iD, iC⟩ := ih f (by omega)
      refine ⟨?_, ?_, ?_, ?_⟩
      · intro fm ds dm bfs txt hf hd hx
        obtain ⟨fm', rfl⟩ : ∃ fm', fm = fm' + 1 := ⟨fm - 1, by omega⟩
        exact rObj_case c sc hc e he f fm' ds dm bfs txt (by omega) hd hx
          (fun n => iI fm' ds dm bfs txt n (by omega) hd hx)
          (iD fm' ds dm bfs txt (by omega) hd hx)
          (fun flag hfl => iC fm' ds dm flag bfs (by omega) hd hfl)
      · intro fm ds dm bfs txt n hf hd hx
        obtain ⟨fm', rfl⟩ : ∃ fm', fm = fm' + 1 := ⟨fm - 1, by omega⟩
        exact items_case c sc e f fm' ds dm bfs txt
          (iO fm' (ds+1) (dm+1) bfs txt (by omega) (by omega) hx)
          (fun n => iI fm' ds dm bfs txt n (by omega) hd hx) n
      · intro fm ds dm bfs txt hf hd hx
        obtain ⟨fm', rfl⟩ : ∃ fm', fm = fm' + 1 := ⟨fm - 1, by omega⟩
        exact dict_case c sc hc e f fm' ds dm bfs txt
          (iO fm' (ds+1) (dm+1) bfs txt (by omega) (by omega) hx)
          (iD fm' ds dm bfs txt (by omega) hd hx)
      · intro fm ds dm flag bfs0 hf hd hfl
        obtain ⟨fm', rfl⟩ : ∃ fm', fm = fm' + 1 := ⟨fm - 1, by omega⟩
        exact code_case c sc hc e he f fm' ds dm
          (fun bfs txt hx => lock_obj c sc e f fm' ds dm bfs txt
            (fun f' hf' => (ih f' (by omega)).1 fm' (ds+1) (dm+1) bfs txt (by omega) (by omega) hx))
          flag bfs0 hfl

/-! ### the property theorems -/

/-- C10_sim — one object: from related reader states, whenever marshal.c's reader returns a value
    (or NULL) xdis's `r_object` returns the same value read as xdis reads it (`portV`), having
    consumed the same bytes, and the reference tables stay related — so every later
    back-reference yields the same object on both sides.  Any stream, any depth, any era. -/
theorem C10_sim (c : Cfg) (sc : SCfg) (hc : CfgOK c sc) (fs fm ds dm : Nat) (bfs txt : Bool)
    (hf : fs ≤ fm) (hd : dm ≤ ds) (hx : Ctx c bfs txt) (ss ss' : PSt) (sm : St) (r : Option V)
    (hI : Inv (era c.version) ss sm)
    (hrun : (rObj sc (era c.version) c.version fs ds txt).run ss = .ok (r, ss')) :
    ∃ w sm', (rObject c fm dm bfs).run sm = .ok (w, sm') ∧ RO c bfs r w ∧ Inv (era c.version) ss' sm' :=
  (sim_all c sc hc _ rfl fs).1 fm ds dm bfs txt hf hd hx ss sm r ss' hI hrun

/-- a code object is read the same way whatever `bytes_for_s` the caller passed -/
theorem rObject_code_any (c : Cfg) (f d : Nat) (bfs : Bool) (sm : St) (b : Nat) (rest : Bytes)
    (hinp : sm.inp = b :: rest) (hb : b &&& 127 = 99) :
    (rObject c (f+1) d bfs).run sm = (rObject c (f+1) d true).run sm := by
  rw [rObject, rObject]
  by_cases hd : d > c.depthLimit
  · simp only [hd, if_true]
  · simp only [hd, if_false]
    rw [M_run_bind, M_run_bind]
    have hr1 : (readN 1).run sm = .ok ([b], { sm with inp := rest }) := by
      have := readN_run 1 sm
      simp [hinp] at this
      exact this
    rw [hr1]
    simp only [hb]


end XV.Props.C10.Sim

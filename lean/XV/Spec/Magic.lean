/-
Spec side of C08: what CPython's registry says (generated `Gen.registry`,
`Gen.installed`) and the row predicates the property demands of xdis's tables.
Computable and Mathlib-free: the same predicates are used by the theorems
(`Props/C08.lean`) and by the driver's failure report.
-/
import XV.Model.Magic
import XV.Gen.Magics
import XV.Gen.Registry
namespace XV.Spec.Magic
open XV XV.Model

def known : List Str := Gen.magicsTbl.map (·.1)

/-- `magic_int2tuple` over the generated tables -/
def magicTuple (m : Nat) : Option (List Nat) :=
  match Gen.magicint2version.lookup m with
  | some v => pyStr2Tuple known v
  | none => none

/-- `magic_int2tuple` as OBSERVED on the implementation for every accepted magic
    (T2 probe table, regenerated every run); `none` = unknown magic or it raised -/
def implTuple (m : Nat) : Option (List Nat) := (Gen.implTuple.lookup m).join

/-- registry row ⇒ xdis maps the magic to that release's major.minor -/
def registryRowOk (r : Str × Nat × Nat × Nat) : Bool :=
  (implTuple r.2.1).map (·.take 2) == some [r.2.2.1, r.2.2.2]

/-- every accepted magic resolves to a tuple and to an opcode table (observed for
    both outcomes of the file-name test in `is_pypy`) -/
def pypyStr : Str := [112, 121, 112, 121]
example : pypyStr = str "pypy" := by decide

/-- "pypy" occurs in the name -/
def namesPypy : Str → Bool
  | [] => false
  | c :: cs => pypyStr.isPrefixOf (c :: cs) || namesPypy cs

/-- when `is_pypy(magic, filename)` says PyPy, the table `get_opcode` hands out is a PyPy table -/
def pypyTableOk (flag : Option Bool) (tbl : Option (Option Str)) : Bool :=
  match flag, tbl with
  | some true, some (some n) => namesPypy n
  | _, _ => true

def acceptedRowOk (p : Nat × Str) : Bool :=
  (implTuple p.1).isSome && ((Gen.implOpc.lookup p.1).join).isSome &&
  ((Gen.implOpcPypy38.lookup p.1).join).isSome &&
  pypyTableOk (Gen.implIsPypyPlain.lookup p.1) (Gen.implOpc.lookup p.1) &&
  pypyTableOk (Gen.implIsPypy38.lookup p.1) (Gen.implOpcPypy38.lookup p.1)

/-- label micro number: "3.5.2" ↦ some 2; "3.5b1" ↦ none -/
def labelMicro (l : Str) : Option Nat :=
  match parseVersion l with
  | some [_, _, c] => some c
  | _ => none

/-- the magic release X.Y.Z really writes, per CPython's registry: the last row for
    X.Y that is not labelled with a later micro release -/
def finalMagic (x y z : Nat) : Option Nat :=
  ((Gen.registry.filter (fun r => r.2.2.1 == x && r.2.2.2 == y &&
      (match labelMicro r.1 with | some k => k ≤ z | none => true))).getLast?).map (·.2.1)

/-- a table key that names a CPython final release ("X.Y" or "X.Y.Z", digits only) -/
def isFinalName (s : Str) : Option (Nat × Nat × Nat) :=
  match parseVersion s with
  | some [a, b, c] => if joinDots [a, b, c] == s then some (a, b, c) else none
  | some [a, b] => if joinDots [a, b] == s then some (a, b, 0) else none
  | _ => none

/-- release-name row ⇒ its magic is what that release writes (rows CPython's
    registry does not cover — 1.0–1.4 — are outside the Spec) -/
def releaseRowOk (p : Str × List Nat) : Bool :=
  match isFinalName p.1 with
  | none => true
  | some (a, b, c) =>
    match finalMagic a b c with
    | none => true
    | some m => p.2 == int2magic m

/-- installed interpreter (a,b,c) writing magic m ⇒ `magics["a.b.c"]` is that magic -/
def installedRowOk (r : Nat × Nat × Nat × Nat) : Bool :=
  Gen.magicsTbl.lookup (joinDots [r.1, r.2.1, r.2.2.1]) == some (int2magic r.2.2.2)

/-- T2 ties: the Model reproduces what the implementation computed, row by row -/
def tieStrRowOk (p : Str × Option (List Nat)) : Bool := pyStr2Tuple known p.1 == p.2
def tieTupleRowOk (p : Nat × Option (List Nat)) : Bool := magicTuple p.1 == p.2
/-- the Model of `is_pypy` + `get_opcode`'s key reproduces the observed table choice:
    the key is in `op_imports` exactly when a table was found -/
def tieOpcRowOk (p : Nat × Str) : Bool :=
  match magicTuple p.1 with
  | none => true
  | some t =>
    (Gen.opImportsKeys.contains (opcLookupKey t (isPypyMagic Gen.pypy3Magics p.1 false))
      == ((Gen.implOpc.lookup p.1).join).isSome) &&
    (Gen.opImportsKeys.contains (opcLookupKey t (isPypyMagic Gen.pypy3Magics p.1 true))
      == ((Gen.implOpcPypy38.lookup p.1).join).isSome)
/-- `versions` and `magicint2version` are two views of one table (add_magic_from_int) -/
def versionsRowOk (p : Nat × Str) : Bool := Gen.versionsTbl.lookup (int2magic p.1) == some p.2

/-- ties checked by running the compiled driver (not by the kernel: they are
    correspondence checks, quadratic in the table size) -/
def tieFailures : List (String × String) :=
  (Gen.implStr2Tuple.filter (!tieStrRowOk ·)).map (fun p => ("tie-str2tuple", p.1.toString)) ++
  (Gen.implTuple.filter (!tieTupleRowOk ·)).map (fun p => ("tie-tuple", s!"{p.1}")) ++
  (Gen.magicint2version.filter (fun p => !(tieOpcRowOk p))).map (fun p => ("tie-opc", s!"{p.1}"))

def failures : List (String × String) :=
  (Gen.registry.filter (!registryRowOk ·)).map (fun r => ("registry", s!"{r.2.1} {r.1.toString} {r.2.2.1}.{r.2.2.2}")) ++
  (Gen.magicint2version.filter (!acceptedRowOk ·)).map (fun p => ("accepted", s!"{p.1} {p.2.toString}")) ++
  (Gen.magicsTbl.filter (!releaseRowOk ·)).map (fun p => ("release", s!"{p.1.toString} {p.2}")) ++
  (Gen.installed.filter (!installedRowOk ·)).map (fun r => ("installed", s!"{r.1}.{r.2.1}.{r.2.2.1} {r.2.2.2}")) ++
  (Gen.magicint2version.filter (!versionsRowOk ·)).map (fun p => ("versions", s!"{p.1} {p.2.toString}"))

end XV.Spec.Magic

/-
Model of xdis/magics.py (int2magic, magic2int, py_str2tuple, magic_int2tuple),
load.py::is_pypy and disasm.py::get_opcode's table lookup.  One Lean function per
Python function, same branches.
-/
import XV.Base.Bytes
import XV.Base.Str
namespace XV.Model
open XV

/-- `int2magic(magic_int)`: struct.pack("<Hcc", n, "\r", "\n"), except the two
    Python 1.x values that carry `\x99\x00`.  Domain: n < 65536 (struct raises otherwise). -/
def int2magic (n : Nat) : Bytes :=
  if n = 39170 ∨ n = 39171 then toLE 2 n ++ [0x99, 0x00]
  else toLE 2 n ++ [13, 10]

/-- `magic2int(magic)`: struct.unpack("<Hcc", magic)[0]; raises struct.error unless
    exactly four bytes are given. -/
def magic2int (b : Bytes) : Option Nat :=
  if b.length = 4 then some (leNat (b.take 2)) else none

/-! ### py_str2tuple -/

/-- `re.sub(r"(pypy|dropbox)$", "", s)` -/
def stripVariant (s : Str) : Str :=
  if S.pypy.isSuffixOf s then s.take (s.length - 4)
  else if S.dropbox.isSuffixOf s then s.take (s.length - 7)
  else s

/-- the two `re.match` calls of `py_str2tuple`, after the table-membership test:
    `^(\d)\.(\d+)\.(\d+)` then `^(\d)\.(\d(\d+)?)[abr]?` -/
def parseVersion (v : Str) : Option (List Nat) :=
  match v with
  | d1 :: 46 :: rest =>
    if isDigit d1 then
      let (d2, r2) := takeDigits rest
      if d2.isEmpty then none else
      match r2 with
      | 46 :: r3 =>
        let (d3, _) := takeDigits r3
        if d3.isEmpty then some [decVal [d1], decVal d2]
        else some [decVal [d1], decVal d2, decVal d3]
      | _ => some [decVal [d1], decVal d2]
    else none
  | _ => none

def pyStr2Tuple (knownVersions : List Str) (orig : Str) : Option (List Nat) :=
  let v := stripVariant orig
  if knownVersions.contains v then parseVersion v else none

/-! ### is_pypy / get_opcode lookup -/

def isPypyMagic (pypy3 : List Nat) (magic : Nat) (pypy38name : Bool) : Bool :=
  ((magic = 3413 ∨ magic = 3414) ∧ pypy38name) || ([62218, 3187] ++ pypy3).contains magic

/-- the key `get_opcode` looks up in `op_imports` -/
def opcLookupKey (t : List Nat) (pypy : Bool) : Str :=
  joinDots t ++ (if pypy then S.pypy else [])

end XV.Model

/-
Model of load.py::load_module as an outcome classifier: what can leave the function for an
arbitrary byte string as the file's content.
-/
import XV.Model.Header
import XV.Model.Unmarshal
namespace XV.Model.LoadOutcome
open XV XV.Model

inductive Outcome where
  | returned                      -- the 7-tuple
  | importError
  | escaped (cls : String)        -- any other exception class leaving load_module
  deriving DecidableEq, Repr

/-- every exception class the unmarshaller Model can raise is a subclass of `Exception`
    (struct.error, TypeError, IndexError, KeyError, ValueError, UnicodeDecodeError,
    RecursionError, AttributeError, AssertionError), so `except Exception` turns it into
    ImportError; `outOfFuel` is not a Python outcome: it would mean the Model's fuel bound is
    wrong, and is kept visible -/
def ofUnmarshal : Except Unmarshal.Err (Unmarshal.V × Bytes) → Outcome
  | .ok _ => .returned
  | .error .outOfFuel => .escaped "MODEL-OUT-OF-FUEL"
  | .error _ => .importError

/-- `load_module(filename)` where the file holds `data`; `hostMagic` selects the built-in
    marshal fast path, whose outcome is a parameter (`native`) of the Model -/
def loadModule (tb : Header.Tables) (graal : List Nat) (limit : Nat) (hostMagic : Nat)
    (native : Bytes → Outcome) (data : Bytes) : Outcome :=
  if data.length < 50 then .importError            -- "too short to be a valid pyc file"
  else
    match Header.load tb data false with
    | .importError => .importError
    | .dropbox => .importError                      -- or returned: both are clean; see `clean`
    | .escaped c => .escaped c
    | .ok _ _ magic _ _ _ pos =>
      if magic = hostMagic then native (data.drop pos)
      else
        match Header.tupleOf tb magic with
        | none => .importError
        | some v => ofUnmarshal (Unmarshal.loadCode magic v (graal.contains magic) limit (data.drop pos))

def clean : Outcome → Bool
  | .returned => true
  | .importError => true
  | .escaped _ => false

end XV.Model.LoadOutcome

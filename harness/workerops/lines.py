"""implementation-side ops for the line-table family (C05, C17, C19)"""
import sys


def _opc(version, pypy=False):
    from xdis.op_imports import get_opcode_module
    return get_opcode_module(tuple(version), "pypy" if pypy else None)


def _nop_code(opc, n):
    """n bytes of valid, jump-free code for this table"""
    nop = opc.opmap.get("NOP", opc.opmap.get("POP_TOP"))
    if tuple(opc.version_tuple) >= (3, 6):
        return bytes([nop, 0] * (n // 2))
    return bytes([nop] * n)


def _portable(version, first, code, tab, exctab=b""):
    from xdis.codetype import to_portable
    v = tuple(version)
    kw = dict(co_argcount=0, co_posonlyargcount=0, co_kwonlyargcount=0, co_nlocals=0, co_stacksize=1,
              co_flags=64, co_code=code, co_consts=(None,), co_names=(), co_varnames=(),
              co_filename="f.py", co_name="f", co_qualname="f", co_firstlineno=first, co_lnotab=tab,
              co_freevars=(), co_cellvars=(), co_exceptiontable=exctab, version_triple=v)
    return to_portable(**kw)


def _err(e):
    return {"err": type(e).__name__}


def register(op):
    @op
    def linestarts(a):
        """opc.findlinestarts on a portable code object of the given version"""
        opc = _opc(a["version"])
        code = _nop_code(opc, a["code_len"])
        tab = bytes.fromhex(a["tab"])
        try:
            co = _portable(a["version"], a["first"], code, tab)
            return {"cls": type(co).__name__,
                    "starts": [[o, l] for o, l in opc.findlinestarts(co, dup_lines=bool(a.get("dup", False)))]}
        except Exception as e:  # noqa
            return _err(e)

    @op
    def instr_starts(a):
        """(offset, starts_line) of the instruction stream (Bytecode with its default arguments)"""
        from xdis.bytecode import Bytecode
        opc = _opc(a["version"])
        code = _nop_code(opc, a["code_len"])
        try:
            co = _portable(a["version"], a["first"], code, bytes.fromhex(a["tab"]))
            kw = {}
            if "dup" in a:
                kw["dup_lines"] = bool(a["dup"])
            return {"starts": [[i.offset, i.starts_line] for i in Bytecode(co, opc, **kw) if i.starts_line is not None]}
        except Exception as e:  # noqa
            return _err(e)

    @op
    def co_lines(a):
        try:
            co = _portable(a["version"], a["first"], b"", bytes.fromhex(a["tab"]))
            return {"ranges": [list(r) for r in co.co_lines()]}
        except Exception as e:  # noqa
            return _err(e)

    @op
    def co_positions(a):
        try:
            co = _portable(a["version"], a["first"], b"", bytes.fromhex(a["tab"]))
            return {"positions": [list(p) if p is not None else None for p in co.co_positions()]}
        except Exception as e:  # noqa
            return _err(e)

    @op
    def linestarts_relocate(a):
        """findlinestarts of a portable code object, THEN the same object moved to another first line
        (replace(co_firstlineno=...), and attribute assignment), and a fresh object built there"""
        opc = _opc(a["version"])
        code = _nop_code(opc, a["code_len"])
        tab = bytes.fromhex(a["tab"])
        first, delta = a["first"], a["delta"]
        try:
            co = _portable(a["version"], first, code, tab)
            out = {"before": [[o, l] for o, l in opc.findlinestarts(co)]}
            co2 = co.replace(co_firstlineno=first + delta)
            out["replace"] = [[o, l] for o, l in opc.findlinestarts(co2)]
            out["original_after_replace"] = [[o, l] for o, l in opc.findlinestarts(co)]
            co.co_firstlineno = first + delta
            out["assign"] = [[o, l] for o, l in opc.findlinestarts(co)]
            fresh = _portable(a["version"], first + delta, code, tab)
            out["fresh"] = [[o, l] for o, l in opc.findlinestarts(fresh)]
            return out
        except Exception as e:  # noqa
            return _err(e)

    @op
    def relocate311(a):
        """query the tables of a 3.11+ portable code object, THEN move it (replace(co_firstlineno=...) and
        attribute assignment) and query again; also a fresh object built at the new first line"""
        try:
            tab = bytes.fromhex(a["tab"])
            first, delta = a["first"], a["delta"]
            co = _portable(a["version"], first, b"", tab)
            before = [list(r) for r in co.co_lines()], [list(p) if p is not None else None for p in co.co_positions()]
            co2 = co.replace(co_firstlineno=first + delta)
            out = {"replace_lines": [list(r) for r in co2.co_lines()],
                   "replace_positions": [list(p) if p is not None else None for p in co2.co_positions()]}
            co.co_firstlineno = first + delta
            out["assign_lines"] = [list(r) for r in co.co_lines()]
            out["assign_positions"] = [list(p) if p is not None else None for p in co.co_positions()]
            fresh = _portable(a["version"], first + delta, b"", tab)
            out["fresh_lines"] = [list(r) for r in fresh.co_lines()]
            out["fresh_positions"] = [list(p) if p is not None else None for p in fresh.co_positions()]
            return out
        except Exception as e:  # noqa
            return _err(e)

    @op
    def parse_positions(a):
        from xdis.codetype.code311 import parse_positions as pp
        try:
            return {"positions": [list(p) for p in pp(bytes.fromhex(a["tab"]), a["first"])]}
        except Exception as e:  # noqa
            return _err(e)

    @op
    def exc_table(a):
        from xdis.bytecode import parse_exception_table
        try:
            return {"entries": [[e.start, e.end, e.target, e.depth, bool(e.lasti)]
                                for e in parse_exception_table(bytes.fromhex(a["tab"]))]}
        except Exception as e:  # noqa
            return _err(e)

    @op
    def bytecode_exc_entries(a):
        """exception entries as Bytecode exposes them, and the rendered ExceptionTable section"""
        from xdis.bytecode import Bytecode
        from xdis.cross_dis import format_exception_table
        opc = _opc(a["version"])
        code = _nop_code(opc, a["code_len"])
        try:
            co = _portable(a["version"], 1, code, b"", bytes.fromhex(a["tab"]))
            bc = Bytecode(co, opc)
            ents = bc.exception_entries
            return {"entries": None if ents is None else [[e.start, e.end, e.target, e.depth, bool(e.lasti)] for e in ents],
                    "text": format_exception_table(bc, tuple(a["version"]))}
        except Exception as e:  # noqa
            return _err(e)

    @op
    def offset2line(a):
        from xdis.bytecode import offset2line as o2l
        try:
            return o2l(a["offset"], [tuple(p) for p in a["starts"]])
        except Exception as e:  # noqa
            return _err(e)

    @op
    def freeze_lnotab(a):
        """freeze() of a portable code object whose line table is an {offset: line} mapping;
        returns the encoded table and what the code type's own line-start routine decodes"""
        opc = _opc(a["version"])
        m = {int(k): v for k, v in a["mapping"]}
        code = _nop_code(opc, a["code_len"])
        try:
            tabv = m if a.get("as_dict", True) else sorted(m.items())
            mode = a.get("refreeze")
            if mode:
                # the object has been frozen once already with another table; the mapping is supplied afterwards
                co = _portable(a["version"], a["first"], code, {0: a["first"]})
                co.freeze()
                attr = "co_linetable" if hasattr(co, "co_linetable") and not hasattr(co, "co_lnotab") else "co_lnotab"
                if mode == "replace":
                    co = co.replace(**{attr: tabv})
                else:
                    setattr(co, attr, tabv)
            else:
                co = _portable(a["version"], a["first"], code, tabv)
            co.freeze()
            tab = co.co_linetable if hasattr(co, "co_linetable") else co.co_lnotab
            if isinstance(tab, (dict, list)):
                return {"err": "table left as %s after freeze()" % type(tab).__name__, "cls": type(co).__name__}
            if isinstance(tab, str):
                tabb = bytes(ord(c) for c in tab)
            else:
                tabb = bytes(tab)
            dec = [[o, l] for o, l in opc.findlinestarts(co, dup_lines=False)]
            return {"cls": type(co).__name__, "tab": tabb.hex(), "decoded": dec}
        except Exception as e:  # noqa
            return _err(e)

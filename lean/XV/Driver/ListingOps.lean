/- listing-loop operations of the driver (C12) -/
import XV.Driver.Util
import XV.Model.Listing
import XV.Model.HostPath
namespace XV.Driver
open XV XV.Model.Listing

def parseOptNat (s : String) : Option (Option Nat) :=
  if s == "-" then some none else (parseNat s).map some

/-- `off:opcode:arg|-:argval:line|-:jt:flags` (flags: 1 SET_LINENO, 2 EXTENDED_ARG, 4 CACHE, 8 RESERVE_FAST) -/
def parseLI (s : String) : Option LI :=
  match s.splitOn ":" with
  | [o, c, a, v, l, j, f] => do
    let o ← parseNat o; let c ← parseNat c; let a ← parseOptNat a; let v ← parseNat v
    let l ← parseOptNat l; let j ← parseNat j; let f ← parseNat f
    pure { offset := o, opcode := c, arg := a, argval := v, startsLine := l, jt := j != 0,
           isSetLineno := f % 2 == 1, isExtArg := f / 2 % 2 == 1, isCache := f / 4 % 2 == 1, isReserveFast := f / 8 % 2 == 1 }
  | _ => none

def parseFmt : String → Option Fmt
  | "classic" => some .classic
  | "bytes" => some .bytes
  | "extended" => some .extended
  | "extended-bytes" => some .extendedBytes
  | "asm" => some .asm
  | _ => none

def showOut : Out → String
  | .blank => "B"
  | .warn => "W"
  | .row o c a l j => s!"R:{o}:{c}:{showOpt toString a}:{showOpt toString l}:{if j then 1 else 0}"

def listingDispatch (op : String) (args : List String) : Option String :=
  match op, args with
  | "x.listing", fmt :: sl :: recs => some <| (do
      let f ← parseFmt fmt
      let is ← (recs.filter (· ≠ "-")).mapM parseLI
      pure (" ".intercalate ((listing f (sl == "1") is).map showOut))).getD "(err bad-arg)"
  | "x.hostpath", [hm, fm] => some <| (do
      let h ← parseNat hm; let f ← parseNat fm
      let r := Model.HostPath.loadCode (N := Unit) (P := Unit) { magic := h, marshalLoads := fun _ => some () } (fun _ _ => some ()) f []
      pure (match r with
        | some (.native _) => "native"
        | some (.portable _) => "portable"
        | none => "none")).getD "(err bad-arg)"
  | _, _ => none

end XV.Driver
